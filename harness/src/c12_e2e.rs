// C12 end-to-end cases (included by src/bin/c12.rs as `mod e2e`): `variations::instance` on a
// harness-built TrueType variable font (mode `e2e`) and on the fixture variable fonts (mode `fx`).
//
//   e2e|AC|USER|SHARED|GLYPHS|HVAR|MVAR|VALS
//     AC      axis count (every axis is -1 .. 0 .. +1, so the user value k/16384 normalises to raw k)
//     USER    k1,k2,..  user coordinates in 2.14 units (may lie outside +-16384: clamped by fvar)
//     SHARED  gvar shared tuples  t;t;..  or -
//     GLYPHS  glyph/glyph/..  each  KIND~hdr_xmin~aw~lsb~HEX   (HEX = GlyphVariationData or -)
//             KIND = S:x,y x,y ..:e1,e2,.. | C:xy,gid,a1,a2 xy,gid,a1,a2 .. | E
//     HVAR    - or REGIONS#IVDS#ADVMAPHEX#LSBMAPHEX      (formats of mode `iv`; maps - when absent)
//     MVAR    - or REGIONS#IVDS#tag,outer,inner;..#VHEA   (VHEA = 1: the font has vhea/vmtx)
//     VALS    the 28 MVAR-controlled source values in the order of process_mvar's arms
//   result: ok:T=k1,..;TAGS=t1,..;G=glyph/glyph..;H=aw:lsb,..;M=v1,..,v28   (vhea values `x` when
//           the output has no vhea)  | err:E | err:write | err:other | panic
//
//   fx|FONT|GID|USER16.16 raw csv|NORM|AC|SHARED|GLYPH~hdr_xmin~aw~lsb~HEX
//     everything after USER is extracted from the font file by this harness (own slicing of the
//     sfnt directory / loca / gvar offsets) for the model; the run re-reads the font.
//   result: ok:T=..;G=glyph;H=aw:lsb | err:.. | panic
use super::*;
use allsorts::font_data::FontData;
use allsorts::tables::glyf::GlyfTable;
use allsorts::tables::loca::LocaTable;
use allsorts::tables::{Fixed, FontTableProvider, HeadTable, HheaTable, HmtxTable, MaxpTable};
use allsorts::variations::{instance, VariationError};
use std::borrow::Cow;

pub struct Prov(pub Vec<(u32, Vec<u8>)>);

impl FontTableProvider for Prov {
    fn table_data(&self, tag: u32) -> Result<Option<Cow<'_, [u8]>>, ParseError> {
        Ok(self.0.iter().find(|(t, _)| *t == tag).map(|(_, d)| Cow::Borrowed(d.as_slice())))
    }
    fn has_table(&self, tag: u32) -> bool {
        self.0.iter().any(|(t, _)| *t == tag)
    }
    fn table_tags(&self) -> Option<Vec<u32>> {
        Some(self.0.iter().map(|(t, _)| *t).collect())
    }
}

pub fn t(s: &[u8; 4]) -> u32 {
    u32::from_be_bytes(*s)
}

pub fn bei16(v: &mut Vec<u8>, x: i16) {
    v.extend_from_slice(&x.to_be_bytes());
}

// ---------------------------------------------------------------- static tables

/// offsets of the MVAR-controlled fields, in the order of process_mvar's arms:
/// (table, byte offset); table 0 = OS/2, 1 = vhea, 2 = hhea, 3 = post
pub const FIELDS: [(u8, usize); 28] = [
    (0, 68), (0, 70), (0, 72), (0, 74), (0, 76), // hasc hdsc hlgp hcla hcld
    (1, 4), (1, 6), (1, 8),                     // vasc vdsc vlgp
    (2, 18), (2, 20), (2, 22),                  // hcrs hcrn hcof
    (1, 18), (1, 20), (1, 22),                  // vcrs vcrn vcof
    (0, 86), (0, 88),                           // xhgt cpht
    (0, 10), (0, 12), (0, 14), (0, 16),         // sbxs sbys sbxo sbyo
    (0, 18), (0, 20), (0, 22), (0, 24),         // spxs spys spxo spyo
    (0, 26), (0, 28),                           // strs stro
    (3, 10), (3, 8),                            // unds undo
];

pub fn head_bytes() -> Vec<u8> {
    let mut v = vec![];
    be16(&mut v, 1);
    be16(&mut v, 0);
    be32(&mut v, 0x00010000); // fontRevision
    be32(&mut v, 0);
    be32(&mut v, 0x5F0F3CF5);
    be16(&mut v, 3); // flags
    be16(&mut v, 1000);
    v.extend_from_slice(&[0; 16]); // created, modified
    for _ in 0..4 {
        be16(&mut v, 0);
    }
    be16(&mut v, 0); // macStyle
    be16(&mut v, 8);
    be16(&mut v, 2);
    be16(&mut v, 1); // indexToLocFormat long
    be16(&mut v, 0);
    v
}

pub fn hhea_like(num_metrics: u16) -> Vec<u8> {
    let mut v = vec![];
    be16(&mut v, 1);
    be16(&mut v, 0);
    bei16(&mut v, 800);
    bei16(&mut v, -200);
    bei16(&mut v, 90);
    be16(&mut v, 1000);
    for _ in 0..3 {
        bei16(&mut v, 0);
    }
    bei16(&mut v, 1);
    bei16(&mut v, 0);
    bei16(&mut v, 0);
    for _ in 0..4 {
        bei16(&mut v, 0);
    }
    bei16(&mut v, 0);
    be16(&mut v, num_metrics);
    v
}

pub fn maxp_bytes(n: u16) -> Vec<u8> {
    let mut v = vec![];
    be32(&mut v, 0x00010000);
    be16(&mut v, n);
    for _ in 0..13 {
        be16(&mut v, 0);
    }
    v
}

pub fn os2_bytes() -> Vec<u8> {
    // version 4, 96 bytes
    let mut v = vec![0u8; 96];
    v[0..2].copy_from_slice(&4u16.to_be_bytes());
    v[2..4].copy_from_slice(&500i16.to_be_bytes());
    v[4..6].copy_from_slice(&400u16.to_be_bytes());
    v[6..8].copy_from_slice(&5u16.to_be_bytes());
    v[58..62].copy_from_slice(b"TEST");
    v[62..64].copy_from_slice(&0x40u16.to_be_bytes()); // fsSelection REGULAR
    v
}

pub fn post_bytes() -> Vec<u8> {
    let mut v = vec![0u8; 32];
    v[0..4].copy_from_slice(&0x00030000u32.to_be_bytes());
    v
}

pub fn name_bytes() -> Vec<u8> {
    name_bytes_for(0)
}

/// FNV-1a over the fields of a case: a deterministic source of variation that needs no new field
pub fn case_hash(p: &[&str]) -> u64 {
    let mut h: u64 = 0xcbf29ce484222325;
    for f in p {
        for b in f.bytes() {
            h = (h ^ b as u64).wrapping_mul(0x100000001b3);
        }
        h = (h ^ 0x7c).wrapping_mul(0x100000001b3);
    }
    h
}

/// the `name` table of a synthetic font; the family name depends on `seed`: short ASCII (half of the cases),
/// long ASCII, or long with letters of 2, 3 and 4 UTF-8 bytes at varying positions (instancing derives a
/// PostScript name from it and has to shorten long ones)
pub fn name_bytes_for(seed: u64) -> Vec<u8> {
    let mut x = seed;
    let mut next = || {
        x = x.wrapping_mul(6364136223846793005).wrapping_add(1442695040888963407);
        (x >> 33) as usize
    };
    let family: String = match seed % 4 {
        0 | 1 => "Verif".to_string(),
        2 => (0..40 + next() % 50).map(|i| (b'A' + (i % 26) as u8) as char).collect(),
        _ => {
            let alphabet = ['a', 'B', '\u{e9}', '\u{436}', '\u{6f22}', '\u{10437}', 'z', '\u{df}', ' ', '-'];
            (0..30 + next() % 60).map(|_| alphabet[next() % alphabet.len()]).collect()
        }
    };
    let full = format!("{}-Regular", family);
    let strs: [(u16, &str); 4] = [(1, &family), (2, "Regular"), (6, &full), (16, &family)];
    let mut v = vec![];
    be16(&mut v, 0);
    be16(&mut v, strs.len() as u16);
    be16(&mut v, (6 + 12 * strs.len()) as u16);
    let mut data: Vec<u8> = vec![];
    for (id, s) in strs.iter() {
        let enc: Vec<u8> = s.encode_utf16().flat_map(|c| c.to_be_bytes()).collect();
        be16(&mut v, 3);
        be16(&mut v, 1);
        be16(&mut v, 0x409);
        be16(&mut v, *id);
        be16(&mut v, enc.len() as u16);
        be16(&mut v, data.len() as u16);
        data.extend_from_slice(&enc);
    }
    v.extend_from_slice(&data);
    v
}

pub fn cmap_bytes() -> Vec<u8> {
    // version 0, one format-0 subtable mapping everything to glyph 0
    let mut v = vec![];
    be16(&mut v, 0);
    be16(&mut v, 1);
    be16(&mut v, 1);
    be16(&mut v, 0);
    be32(&mut v, 12);
    be16(&mut v, 0);
    be16(&mut v, 262);
    be16(&mut v, 0);
    v.extend_from_slice(&[0u8; 256]);
    v
}

// ---------------------------------------------------------------- glyphs

#[derive(Clone, Debug)]
pub enum GK {
    S(Vec<(i16, i16)>, Vec<u16>),
    C(Vec<(bool, u16, i16, i16)>),
    E,
}

#[derive(Clone, Debug)]
pub struct GSpec {
    pub kind: GK,
    pub hdr_xmin: i16,
    pub aw: u16,
    pub lsb: i16,
    pub var: Vec<u8>,
}

fn kind_str(k: &GK) -> String {
    match k {
        GK::S(p, e) => {
            let ps: Vec<String> = p.iter().map(|(x, y)| format!("{},{}", x, y)).collect();
            format!("S:{}:{}", join(&ps, " "), join(e, ","))
        }
        GK::C(c) => {
            let cs: Vec<String> = c.iter().map(|(xy, g, a, b)| format!("{},{},{},{}", *xy as u8, g, a, b)).collect();
            format!("C:{}", join(&cs, " "))
        }
        GK::E => "E".to_string(),
    }
}

fn parse_kind(s: &str) -> GK {
    let p: Vec<&str> = s.split(':').collect();
    match p[0] {
        "S" => GK::S(parse_points(p[1]), csv_i::<u16>(p[2])),
        "C" => GK::C(if p[1] == "-" || p[1].is_empty() {
            vec![]
        } else {
            p[1].split(' ')
                .map(|c| {
                    let f = csv_i::<i64>(c);
                    (f[0] != 0, f[1] as u16, f[2] as i16, f[3] as i16)
                })
                .collect()
        }),
        _ => GK::E,
    }
}

fn parse_gspec(s: &str) -> GSpec {
    let p: Vec<&str> = s.split('~').collect();
    GSpec {
        kind: parse_kind(p[0]),
        hdr_xmin: p[1].parse().unwrap(),
        aw: p[2].parse().unwrap(),
        lsb: p[3].parse().unwrap(),
        var: unhex(p[4]),
    }
}

fn gspec_str(g: &GSpec) -> String {
    format!("{}~{}~{}~{}~{}", kind_str(&g.kind), g.hdr_xmin, g.aw, g.lsb, hex(&g.var))
}

fn glyph_bytes(g: &GSpec) -> Vec<u8> {
    let mut v = vec![];
    match &g.kind {
        GK::E => {}
        GK::S(pts, ends) => {
            bei16(&mut v, ends.len() as i16);
            let ymin = pts.iter().map(|p| p.1).min().unwrap_or(0);
            let xmax = pts.iter().map(|p| p.0).max().unwrap_or(0);
            let ymax = pts.iter().map(|p| p.1).max().unwrap_or(0);
            bei16(&mut v, g.hdr_xmin);
            bei16(&mut v, ymin);
            bei16(&mut v, xmax);
            bei16(&mut v, ymax);
            for e in ends {
                be16(&mut v, *e);
            }
            be16(&mut v, 0);
            for _ in pts {
                v.push(1);
            }
            let mut prev = 0i16;
            for p in pts {
                bei16(&mut v, p.0.wrapping_sub(prev));
                prev = p.0;
            }
            prev = 0;
            for p in pts {
                bei16(&mut v, p.1.wrapping_sub(prev));
                prev = p.1;
            }
        }
        GK::C(comps) => {
            bei16(&mut v, -1);
            bei16(&mut v, g.hdr_xmin);
            bei16(&mut v, 0);
            bei16(&mut v, 0);
            bei16(&mut v, 0);
            for (i, (xy, gid, a1, a2)) in comps.iter().enumerate() {
                let small = if *xy { (-128..=127).contains(a1) && (-128..=127).contains(a2) } else { *a1 >= 0 && *a1 <= 255 && *a2 >= 0 && *a2 <= 255 };
                let words = !small || (i % 2 == 1);
                let mut flags = 0u16;
                if words {
                    flags |= 1;
                }
                if *xy {
                    flags |= 2;
                }
                if i + 1 < comps.len() {
                    flags |= 0x20;
                }
                be16(&mut v, flags);
                be16(&mut v, *gid);
                if words {
                    bei16(&mut v, *a1);
                    bei16(&mut v, *a2);
                } else {
                    v.push(*a1 as u8);
                    v.push(*a2 as u8);
                }
            }
        }
    }
    while v.len() % 4 != 0 {
        v.push(0);
    }
    v
}

// ---------------------------------------------------------------- HVAR / MVAR bytes

pub fn hvar_bytes(ivs: &[u8], adv: &Option<Vec<u8>>, lsb: &Option<Vec<u8>>) -> Vec<u8> {
    let mut v = vec![];
    be16(&mut v, 1);
    be16(&mut v, 0);
    let mut off = 20u32;
    be32(&mut v, off);
    off += ivs.len() as u32;
    match adv {
        Some(a) => {
            be32(&mut v, off);
            off += a.len() as u32;
        }
        None => be32(&mut v, 0),
    }
    match lsb {
        Some(_) => be32(&mut v, off),
        None => be32(&mut v, 0),
    }
    be32(&mut v, 0);
    v.extend_from_slice(ivs);
    if let Some(a) = adv {
        v.extend_from_slice(a);
    }
    if let Some(a) = lsb {
        v.extend_from_slice(a);
    }
    v
}

pub fn mvar_bytes(ivs: &[u8], recs: &[(u32, u16, u16)]) -> Vec<u8> {
    // valueRecordSize is the pitch of the records and may exceed the 8 bytes a record uses today
    // (8, 10, 12 or 14 here, a function of the records so that no new case field is needed)
    let size = 8 + 2 * ((recs.len() + recs.iter().map(|r| r.2 as usize).sum::<usize>()) % 4);
    let mut v = vec![];
    be16(&mut v, 1);
    be16(&mut v, 0);
    be16(&mut v, 0);
    be16(&mut v, size as u16);
    be16(&mut v, recs.len() as u16);
    be16(&mut v, (12 + size * recs.len()) as u16);
    for (tg, o, i) in recs {
        be32(&mut v, *tg);
        be16(&mut v, *o);
        be16(&mut v, *i);
        for k in 8..size {
            v.push(0xA0 + k as u8);
        }
    }
    v.extend_from_slice(ivs);
    v
}

pub fn opt_hex(s: &str) -> Option<Vec<u8>> {
    if s == "-" {
        None
    } else {
        Some(unhex(s))
    }
}

// ---------------------------------------------------------------- reading the instance back

fn describe_glyph(g: &Glyph<'_>) -> String {
    match g {
        Glyph::Empty(_) => "E".to_string(),
        Glyph::Simple(s) => {
            let ps: Vec<String> = s.coordinates.iter().map(|(_, p)| format!("{},{}", p.0, p.1)).collect();
            format!("S:{}", join(&ps, " "))
        }
        Glyph::Composite(c) => {
            let cs: Vec<String> = c
                .glyphs
                .iter()
                .map(|k| {
                    let a = |x: CompositeGlyphArgument| -> i32 {
                        match x {
                            CompositeGlyphArgument::U8(v) => v as i32,
                            CompositeGlyphArgument::I8(v) => v as i32,
                            CompositeGlyphArgument::U16(v) => v as i32,
                            CompositeGlyphArgument::I16(v) => v as i32,
                        }
                    };
                    format!("{},{}", a(k.argument1), a(k.argument2))
                })
                .collect();
            format!("C:{}", join(&cs, " "))
        }
    }
}

pub fn verr(e: VariationError) -> String {
    match e {
        VariationError::Parse(p) => format!("err:{}", perr(&p)),
        VariationError::Write(_) => "err:write".to_string(),
        _ => "err:other".to_string(),
    }
}

struct Readback {
    tags: Vec<u32>,
    glyphs: Vec<String>,
    metrics: Vec<(u16, i16)>,
    vals: Vec<String>,
}

fn read_back(data: &[u8]) -> Result<Readback, String> {
    let fd = ReadScope::new(data).read::<FontData<'_>>().map_err(|e| format!("out-font-{}", perr(&e)))?;
    let prov = fd.table_provider(0).map_err(|_| "out-provider".to_string())?;
    let tags = prov.table_tags().ok_or("out-tags".to_string())?;
    let rd = |tg: &[u8; 4]| -> Result<Vec<u8>, String> {
        prov.read_table_data(t(tg)).map(|c| c.into_owned()).map_err(|e| format!("out-{}-{}", String::from_utf8_lossy(tg), perr(&e)))
    };
    let head_d = rd(b"head")?;
    let head = ReadScope::new(&head_d).read::<HeadTable>().map_err(|e| format!("out-head-{}", perr(&e)))?;
    let maxp_d = rd(b"maxp")?;
    let maxp = ReadScope::new(&maxp_d).read::<MaxpTable>().map_err(|e| format!("out-maxp-{}", perr(&e)))?;
    let hhea_d = rd(b"hhea")?;
    let hhea = ReadScope::new(&hhea_d).read::<HheaTable>().map_err(|e| format!("out-hhea-{}", perr(&e)))?;
    let hmtx_d = rd(b"hmtx")?;
    let hmtx = ReadScope::new(&hmtx_d)
        .read_dep::<HmtxTable<'_>>((usize::from(maxp.num_glyphs), usize::from(hhea.num_h_metrics)))
        .map_err(|e| format!("out-hmtx-{}", perr(&e)))?;
    let loca_d = rd(b"loca")?;
    let loca = ReadScope::new(&loca_d)
        .read_dep::<LocaTable<'_>>((usize::from(maxp.num_glyphs), head.index_to_loc_format))
        .map_err(|e| format!("out-loca-{}", perr(&e)))?;
    let glyf_d = rd(b"glyf")?;
    let mut glyf = ReadScope::new(&glyf_d).read_dep::<GlyfTable<'_>>(&loca).map_err(|e| format!("out-glyf-{}", perr(&e)))?;
    let mut glyphs = vec![];
    let mut metrics = vec![];
    for gid in 0..maxp.num_glyphs {
        let g = glyf.get_parsed_glyph(gid).map_err(|e| format!("out-glyph{}-{}", gid, perr(&e)))?;
        glyphs.push(describe_glyph(g));
        let m = hmtx.metric(gid).map_err(|e| format!("out-metric{}-{}", gid, perr(&e)))?;
        metrics.push((m.advance_width, m.lsb));
    }
    let os2 = rd(b"OS/2")?;
    let post = rd(b"post")?;
    let vhea = prov.read_table_data(t(b"vhea")).ok().map(|c| c.into_owned());
    let mut vals = vec![];
    for (i, (tb, off)) in FIELDS.iter().enumerate() {
        let src: Option<&Vec<u8>> = match tb {
            0 => Some(&os2),
            1 => vhea.as_ref(),
            2 => Some(&hhea_d),
            _ => Some(&post),
        };
        match src {
            Some(d) if d.len() >= off + 2 => {
                let raw = u16::from_be_bytes([d[*off], d[*off + 1]]);
                if i == 3 || i == 4 {
                    vals.push(raw.to_string());
                } else {
                    vals.push((raw as i16).to_string());
                }
            }
            _ => vals.push("x".to_string()),
        }
    }
    Ok(Readback { tags, glyphs, metrics, vals })
}

// ---------------------------------------------------------------- e2e

/// the font of an `e2e` case (its tables) and the user coordinates
pub fn e2e_font(p: &[&str]) -> (Vec<(u32, Vec<u8>)>, Vec<Fixed>) {
    let ac: usize = p[1].parse().unwrap();
    let user = csv_i::<i64>(p[2]);
    let shared: Vec<Vec<i16>> = if p[3] == "-" { vec![] } else { p[3].split(';').map(|x| csv_i::<i16>(x)).collect() };
    let glyphs: Vec<GSpec> = p[4].split('/').map(parse_gspec).collect();
    let n = glyphs.len();
    let vals = csv_i::<i64>(p[7]);

    let mut glyf = vec![];
    let mut loca = vec![];
    for g in &glyphs {
        be32(&mut loca, glyf.len() as u32);
        glyf.extend_from_slice(&glyph_bytes(g));
    }
    be32(&mut loca, glyf.len() as u32);
    let mut hmtx = vec![];
    for g in &glyphs {
        be16(&mut hmtx, g.aw);
        bei16(&mut hmtx, g.lsb);
    }
    let datas: Vec<&[u8]> = glyphs.iter().map(|g| g.var.as_slice()).collect();
    let gvar = gvar_bytes(ac as u16, &shared, &datas);

    let mut os2 = os2_bytes();
    let mut hhea = hhea_like(n as u16);
    let mut post = post_bytes();
    let mut vhea = hhea_like(n as u16);
    for (i, (tb, off)) in FIELDS.iter().enumerate() {
        let val = vals.get(i).copied().unwrap_or(0);
        let b = (val as u16).to_be_bytes();
        let d = match tb {
            0 => &mut os2,
            1 => &mut vhea,
            2 => &mut hhea,
            _ => &mut post,
        };
        d[*off] = b[0];
        d[*off + 1] = b[1];
    }

    let mut tables: Vec<(u32, Vec<u8>)> = vec![
        (t(b"OS/2"), os2),
        (t(b"cmap"), cmap_bytes()),
        (t(b"fvar"), fvar_bytes(ac)),
        (t(b"glyf"), glyf),
        (t(b"gvar"), gvar),
        (t(b"head"), head_bytes()),
        (t(b"hhea"), hhea),
        (t(b"hmtx"), hmtx),
        (t(b"loca"), loca),
        (t(b"maxp"), maxp_bytes(n as u16)),
        (t(b"name"), name_bytes_for(case_hash(p))),
        (t(b"post"), post),
    ];
    if p[5] != "-" {
        let h: Vec<&str> = p[5].split('#').collect();
        let (hac, regs) = parse_regions(h[0]);
        let ivs = ivs_bytes(hac, &regs, &parse_ivds(h[1]));
        tables.push((t(b"HVAR"), hvar_bytes(&ivs, &opt_hex(h[2]), &opt_hex(h[3]))));
    }
    if p[6] != "-" {
        let m: Vec<&str> = p[6].split('#').collect();
        let (mac, regs) = parse_regions(m[0]);
        let ivs = ivs_bytes(mac, &regs, &parse_ivds(m[1]));
        let recs: Vec<(u32, u16, u16)> = if m[2] == "-" {
            vec![]
        } else {
            m[2].split(';')
                .map(|r| {
                    let f = csv_i::<u32>(r);
                    (f[0], f[1] as u16, f[2] as u16)
                })
                .collect()
        };
        tables.push((t(b"MVAR"), mvar_bytes(&ivs, &recs)));
        if m[3] == "1" {
            tables.push((t(b"vhea"), vhea));
            let mut vmtx = vec![];
            for _ in 0..n {
                be16(&mut vmtx, 1000);
                bei16(&mut vmtx, 0);
            }
            tables.push((t(b"vmtx"), vmtx));
        }
    }
    let user_fixed: Vec<Fixed> = user.iter().map(|k| Fixed::from_raw((*k as i32) * 4)).collect();
    (tables, user_fixed)
}

/// the instance `variations::instance` writes for an `e2e` case, if it succeeds
pub fn e2e_instance_bytes(p: &[&str]) -> Option<Vec<u8>> {
    let (tables, user_fixed) = e2e_font(p);
    instance(&Prov(tables), &user_fixed).ok().map(|(data, _)| data)
}

pub fn e2e_run(p: &[&str]) -> String {
    let (tables, user_fixed) = e2e_font(p);
    let prov = Prov(tables);
    match instance(&prov, &user_fixed) {
        Err(e) => verr(e),
        Ok((data, tuple)) => {
            let tv: Vec<i16> = tuple.iter().map(|v| v.raw_value()).collect();
            match read_back(&data) {
                Err(e) => format!("bad:{}", e),
                Ok(rb) => {
                    let hs: Vec<String> = rb.metrics.iter().map(|(a, l)| format!("{}:{}", a, l)).collect();
                    format!(
                        "ok:T={};TAGS={};G={};H={};M={}",
                        join(&tv, ","),
                        join(&rb.tags, ","),
                        rb.glyphs.join("/"),
                        hs.join(","),
                        rb.vals.join(",")
                    )
                }
            }
        }
    }
}

fn gen_simple_glyph(rng: &mut Rng) -> GK {
    let ncont = match rng.below(8) {
        0 => 0,
        1..=4 => 1,
        5 | 6 => 2,
        _ => 3,
    };
    let mut pts = vec![];
    let mut ends = vec![];
    let grid: i64 = *rng.pick(&[4, 40, 800, 6000, 16000]);
    for _ in 0..ncont {
        let cap = if rng.chance(1, 5) { 10 } else { 5 };
        let k = 1 + rng.below(cap) as usize;
        for _ in 0..k {
            pts.push((rng.range(-grid, grid) as i16, rng.range(-grid, grid) as i16));
        }
        ends.push((pts.len() - 1) as u16);
    }
    GK::S(pts, ends)
}

fn small_delta(rng: &mut Rng) -> i16 {
    match rng.below(8) {
        0 | 1 => 0,
        2..=5 => rng.range(-120, 120) as i16,
        _ => rng.range(-1500, 1500) as i16,
    }
}

/// like gen_glyph_variation of the unit generator but with moderate delta magnitudes, so the
/// instance stays inside the range the glyf writer can represent
fn gen_var(rng: &mut Rng, ac: usize, np: usize, shared: &[Vec<i16>]) -> (Vec<u8>, Vec<Vec<(i16, i16, i16)>>) {
    let nshared = shared.len();
    let ntuples = match rng.below(6) {
        0 => return (vec![], vec![]),
        1 | 2 => 1,
        3 | 4 => 2,
        _ => 3 + rng.below(3) as usize,
    };
    let shared_points: Option<Option<Vec<u16>>> = if rng.chance(1, 2) {
        Some(if rng.chance(1, 3) { None } else { Some(gen_point_list(rng, np)) })
    } else {
        None
    };
    let mut headers = vec![];
    let mut datas = vec![];
    let mut axes_seen = vec![];
    for _ in 0..ntuples {
        let axes: Vec<(i16, i16, i16)> = (0..ac).map(|_| gen_axis(rng)).collect();
        let shared_index = if nshared > 0 && rng.chance(1, 3) { Some(rng.below(nshared as u64) as u16) } else { None };
        let inter = if rng.chance(1, 3) {
            Some((axes.iter().map(|a| a.0).collect(), axes.iter().map(|a| a.2).collect()))
        } else {
            None
        };
        let private = if shared_points.is_none() || rng.chance(1, 2) {
            Some(if rng.chance(1, 3) { None } else { Some(gen_point_list(rng, np)) })
        } else {
            None
        };
        let npts = match (&private, &shared_points) {
            (Some(None), _) => np,
            (Some(Some(p)), _) => p.len(),
            (None, Some(None)) => np,
            (None, Some(Some(p))) => p.len(),
            (None, None) => 0,
        };
        let ts = TupleSpec {
            peak: axes.iter().map(|a| a.1).collect(),
            shared_index,
            inter,
            private_points: private,
            dx: (0..npts).map(|_| small_delta(rng)).collect(),
            dy: (0..npts).map(|_| small_delta(rng)).collect(),
        };
        let (h, d) = tuple_bytes(&ts, rng);
        headers.push(h);
        datas.push(d);
        axes_seen.push(match shared_index {
            Some(i) => (0..ac).map(|k| (0.min(shared[i as usize][k]), shared[i as usize][k], 0.max(shared[i as usize][k]))).collect(),
            None => axes,
        });
    }
    let mut sp = vec![];
    if let Some(pp) = &shared_points {
        match pp {
            None => sp.push(0),
            Some(pl) => sp.extend_from_slice(&enc_points(pl, rng)),
        }
    }
    let hlen: usize = 4 + headers.iter().map(|h| h.len()).sum::<usize>();
    let mut v = vec![];
    be16(&mut v, ntuples as u16 | if shared_points.is_some() { 0x8000 } else { 0 });
    be16(&mut v, hlen as u16);
    for h in &headers {
        v.extend_from_slice(h);
    }
    v.extend_from_slice(&sp);
    for d in &datas {
        v.extend_from_slice(d);
    }
    if rng.chance(1, 60) {
        let i = rng.below(v.len() as u64) as usize;
        v[i] ^= 1 << rng.below(8);
    }
    (v, axes_seen)
}

pub fn gen_map_bytes(rng: &mut Rng, count: usize, max_outer: u16, max_inner: u16) -> Vec<u8> {
    // DeltaSetIndexMap whose entries stay (mostly) inside the store
    let inner_bits = 1 + rng.below(4) as u8; // 1..4 bits -> inner < 16
    let esize = 1 + rng.below(2) as u8; // 1 or 2 bytes
    let fmt = ((esize - 1) << 4) | (inner_bits - 1);
    let mut v = vec![0, fmt];
    be16(&mut v, count as u16);
    for _ in 0..count {
        let outer = rng.below(max_outer as u64 + 1) as u32;
        let inner = (rng.below(max_inner as u64 + 1) as u32).min((1 << inner_bits) - 1);
        let e = (outer << inner_bits) | inner;
        if esize == 1 {
            v.push(e as u8);
        } else {
            be16(&mut v, e as u16);
        }
    }
    v
}

pub const MVAR_TAGS: [&[u8; 4]; 28] = [
    b"hasc", b"hdsc", b"hlgp", b"hcla", b"hcld", b"vasc", b"vdsc", b"vlgp", b"hcrs", b"hcrn", b"hcof", b"vcrs", b"vcrn", b"vcof",
    b"xhgt", b"cpht", b"sbxs", b"sbys", b"sbxo", b"sbyo", b"spxs", b"spys", b"spxo", b"spyo", b"strs", b"stro", b"unds", b"undo",
];

pub fn gen_e2e(rng: &mut Rng) -> String {
    let ac = 1 + rng.below(3) as usize;
    let nshared = rng.below(3) as usize;
    let shared: Vec<Vec<i16>> = (0..nshared).map(|_| (0..ac).map(|_| gen_axis(rng).1).collect()).collect();
    let nsimple = 1 + rng.below(3) as usize;
    let mut glyphs: Vec<GSpec> = vec![];
    let mut all_axes: Vec<Vec<(i16, i16, i16)>> = vec![];
    for _ in 0..nsimple {
        let kind = if rng.chance(1, 8) { GK::E } else { gen_simple_glyph(rng) };
        let (np, xmin) = match &kind {
            GK::S(p, _) => (p.len() + 4, p.iter().map(|q| q.0).min().unwrap_or(0)),
            _ => (4, 0),
        };
        let (var, axes) = gen_var(rng, ac, np, &shared);
        all_axes.extend(axes);
        let hdr_xmin = if rng.chance(1, 10) { xmin.wrapping_add(rng.range(-5, 5) as i16) } else { xmin };
        glyphs.push(GSpec { kind, hdr_xmin, aw: rng.range(0, 3000) as u16, lsb: rng.range(-300, 300) as i16, var });
    }
    if rng.chance(1, 2) {
        let nc = 1 + rng.below(3) as usize;
        let comps: Vec<(bool, u16, i16, i16)> = (0..nc)
            .map(|_| {
                let xy = !rng.chance(1, 6);
                if xy {
                    (true, rng.below(nsimple as u64) as u16, rng.range(-400, 400) as i16, rng.range(-400, 400) as i16)
                } else {
                    (false, rng.below(nsimple as u64) as u16, rng.range(0, 3) as i16, rng.range(0, 3) as i16)
                }
            })
            .collect();
        let (var, axes) = gen_var(rng, ac, nc + 4, &shared);
        all_axes.extend(axes);
        glyphs.push(GSpec { kind: GK::C(comps), hdr_xmin: rng.range(-50, 50) as i16, aw: rng.range(0, 3000) as u16, lsb: rng.range(-300, 300) as i16, var });
    }
    let n = glyphs.len();

    // HVAR
    let hvar = if rng.chance(1, 3) {
        let dirty = rng.chance(1, 12);
        let (rs, ivds, regs, nivd) = gen_ivs(rng, ac, if dirty { 0 } else { n.max(4) }, !dirty);
        for r in regs.chunks(ac) {
            all_axes.push(r.to_vec());
        }
        let adv = if rng.chance(1, 2) {
            let c = 1 + rng_below(rng, n + 1);
            hex(&gen_map_bytes(rng, c, nivd as u16 - 1, 3))
        } else {
            "-".to_string()
        };
        let lsb = if rng.chance(1, 3) {
            let c = 1 + rng_below(rng, n + 1);
            hex(&gen_map_bytes(rng, c, nivd as u16 - 1, 3))
        } else {
            "-".to_string()
        };
        format!("{}#{}#{}#{}", rs, ivds, adv, lsb)
    } else {
        "-".to_string()
    };

    // MVAR
    let mut vals: Vec<i64> = (0..28).map(|_| rng.range(-900, 900)).collect();
    vals[0] = rng.range(500, 1200); // typo ascender
    vals[1] = rng.range(-500, 0); // typo descender
    vals[3] = rng.range(0, 2000);
    vals[4] = rng.range(0, 2000);
    let mvar = if rng.chance(1, 3) {
        let dirty = rng.chance(1, 12);
        let (rs, ivds, regs, nivd) = gen_ivs(rng, ac, if dirty { 0 } else { n.max(4) }, !dirty);
        for r in regs.chunks(ac) {
            all_axes.push(r.to_vec());
        }
        let vhea = rng.chance(1, 8);
        let mut idx: Vec<usize> = (0..28).filter(|i| rng.chance(1, 4) && (vhea || FIELDS[*i].0 != 1)).collect();
        idx.sort_by_key(|i| t(MVAR_TAGS[*i]));
        let mut recs: Vec<String> =
            idx.iter().map(|i| format!("{},{},{}", t(MVAR_TAGS[*i]), rng.below(nivd as u64), rng.below(4))).collect();
        if rng.chance(1, 5) {
            recs.insert(0, format!("{},0,0", t(b"aaaa"))); // an unknown value tag (sorts first)
        }
        format!("{}#{}#{}#{}", rs, ivds, if recs.is_empty() { "-".to_string() } else { recs.join(";") }, vhea as u8)
    } else {
        "-".to_string()
    };

    let user: Vec<i64> = (0..ac)
        .map(|k| {
            if all_axes.is_empty() || rng.chance(1, 8) {
                *rng.pick(&[0i64, 16384, -16384, 16385, -16385, 20000, -30000, 8192])
            } else {
                let i = rng.below(all_axes.len() as u64) as usize;
                gen_coord(rng, all_axes[i][k]) as i64
            }
        })
        .collect();
    let user = if rng.chance(1, 8) { vec![0; ac] } else { user };
    let sh: Vec<String> = shared.iter().map(|x| join(x, ",")).collect();
    let gs: Vec<String> = glyphs.iter().map(gspec_str).collect();
    format!(
        "e2e|{}|{}|{}|{}|{}|{}|{}",
        ac,
        join(&user, ","),
        if sh.is_empty() { "-".to_string() } else { sh.join(";") },
        gs.join("/"),
        hvar,
        mvar,
        join(&vals, ",")
    )
}

pub fn rng_below(rng: &mut Rng, n: usize) -> usize {
    rng.below(n as u64) as usize
}

// ---------------------------------------------------------------- fixture fonts

const FONTS: [&str; 3] = [
    "tests/fonts/opentype/NotoSans-VF.abc.ttf",
    "tests/fonts/variable/Inter[slnt,wght].abc.ttf",
    "tests/fonts/variable/UnderlineTest-VF.ttf",
];

pub fn font_bytes(name: &str) -> Vec<u8> {
    let repo = std::env::var("VERIF_REPO").unwrap_or_else(|_| "/repo".to_string());
    std::fs::read(format!("{}/{}", repo, name)).unwrap_or_default()
}

/// own slicing of an sfnt: tag -> table bytes
pub fn sfnt_tables(d: &[u8]) -> Vec<(u32, Vec<u8>)> {
    let mut out = vec![];
    if d.len() < 12 {
        return out;
    }
    let n = u16::from_be_bytes([d[4], d[5]]) as usize;
    for i in 0..n {
        let r = 12 + 16 * i;
        if r + 16 > d.len() {
            break;
        }
        let tag = u32::from_be_bytes([d[r], d[r + 1], d[r + 2], d[r + 3]]);
        let off = u32::from_be_bytes([d[r + 8], d[r + 9], d[r + 10], d[r + 11]]) as usize;
        let len = u32::from_be_bytes([d[r + 12], d[r + 13], d[r + 14], d[r + 15]]) as usize;
        if off + len <= d.len() {
            out.push((tag, d[off..off + len].to_vec()));
        }
    }
    out
}

pub fn tbl<'a>(ts: &'a [(u32, Vec<u8>)], tag: &[u8; 4]) -> Option<&'a Vec<u8>> {
    ts.iter().find(|(x, _)| *x == t(tag)).map(|(_, d)| d)
}

pub fn u16at(d: &[u8], o: usize) -> u16 {
    u16::from_be_bytes([d[o], d[o + 1]])
}
pub fn u32at(d: &[u8], o: usize) -> u32 {
    u32::from_be_bytes([d[o], d[o + 1], d[o + 2], d[o + 3]])
}

/// the model's inputs for glyph `gid` of a fixture, sliced by hand from the tables:
/// (axis count, shared tuples, glyph spec)
fn extract_glyph(ts: &[(u32, Vec<u8>)], gid: usize) -> Option<(usize, Vec<Vec<i16>>, GSpec)> {
    let head = tbl(ts, b"head")?;
    let loca = tbl(ts, b"loca")?;
    let glyf = tbl(ts, b"glyf")?;
    let gvar = tbl(ts, b"gvar")?;
    let hhea = tbl(ts, b"hhea")?;
    let hmtx = tbl(ts, b"hmtx")?;
    let long = u16at(head, 50) == 1;
    let lo = |i: usize| -> usize {
        if long {
            u32at(loca, 4 * i) as usize
        } else {
            2 * u16at(loca, 2 * i) as usize
        }
    };
    let g = &glyf[lo(gid)..lo(gid + 1)];
    // glyph (own decoding of the simple glyph format)
    let (kind, hdr_xmin) = if g.is_empty() {
        (GK::E, 0i16)
    } else {
        let nc = u16at(g, 0) as i16;
        let xmin = u16at(g, 2) as i16;
        if nc < 0 {
            let mut comps = vec![];
            let mut o = 10;
            loop {
                let flags = u16at(g, o);
                let cg = u16at(g, o + 2);
                o += 4;
                let (a1, a2) = if flags & 1 != 0 {
                    let r = (u16at(g, o) as i16, u16at(g, o + 2) as i16);
                    o += 4;
                    r
                } else {
                    let r = if flags & 2 != 0 { (g[o] as i8 as i16, g[o + 1] as i8 as i16) } else { (g[o] as i16, g[o + 1] as i16) };
                    o += 2;
                    r
                };
                if flags & 0x08 != 0 {
                    o += 2;
                } else if flags & 0x40 != 0 {
                    o += 4;
                } else if flags & 0x80 != 0 {
                    o += 8;
                }
                comps.push((flags & 2 != 0, cg, a1, a2));
                if flags & 0x20 == 0 {
                    break;
                }
            }
            (GK::C(comps), xmin)
        } else {
            let nc = nc as usize;
            let ends: Vec<u16> = (0..nc).map(|i| u16at(g, 10 + 2 * i)).collect();
            let npts = ends.last().map(|e| *e as usize + 1).unwrap_or(0);
            let il = u16at(g, 10 + 2 * nc) as usize;
            let mut o = 12 + 2 * nc + il;
            let mut flags = vec![];
            while flags.len() < npts {
                let f = g[o];
                o += 1;
                flags.push(f);
                if f & 8 != 0 {
                    let r = g[o];
                    o += 1;
                    for _ in 0..r {
                        flags.push(f);
                    }
                }
            }
            flags.truncate(npts);
            let mut xs = vec![];
            let mut x = 0i16;
            for f in &flags {
                if f & 2 != 0 {
                    let v = g[o] as i16;
                    o += 1;
                    x += if f & 0x10 != 0 { v } else { -v };
                } else if f & 0x10 == 0 {
                    x += u16at(g, o) as i16;
                    o += 2;
                }
                xs.push(x);
            }
            let mut ys = vec![];
            let mut y = 0i16;
            for f in &flags {
                if f & 4 != 0 {
                    let v = g[o] as i16;
                    o += 1;
                    y += if f & 0x20 != 0 { v } else { -v };
                } else if f & 0x20 == 0 {
                    y += u16at(g, o) as i16;
                    o += 2;
                }
                ys.push(y);
            }
            (GK::S(xs.into_iter().zip(ys).collect(), ends), xmin)
        }
    };
    // hmtx
    let nhm = u16at(hhea, 34) as usize;
    let (aw, lsb) = if gid < nhm {
        (u16at(hmtx, 4 * gid), u16at(hmtx, 4 * gid + 2) as i16)
    } else {
        (u16at(hmtx, 4 * (nhm - 1)), u16at(hmtx, 4 * nhm + 2 * (gid - nhm)) as i16)
    };
    // gvar
    let ac = u16at(gvar, 4) as usize;
    let nsh = u16at(gvar, 6) as usize;
    let sho = u32at(gvar, 8) as usize;
    let flags = u16at(gvar, 14);
    let dao = u32at(gvar, 16) as usize;
    let go = |i: usize| -> usize {
        if flags & 1 != 0 {
            u32at(gvar, 20 + 4 * i) as usize
        } else {
            2 * u16at(gvar, 20 + 2 * i) as usize
        }
    };
    let var = gvar[dao + go(gid)..dao + go(gid + 1)].to_vec();
    let shared: Vec<Vec<i16>> = (0..nsh).map(|i| (0..ac).map(|k| u16at(gvar, sho + 2 * (i * ac + k)) as i16).collect()).collect();
    Some((ac, shared, GSpec { kind, hdr_xmin, aw, lsb, var }))
}

pub fn fx_run(p: &[&str]) -> String {
    let name = FONTS.iter().find(|f| f.ends_with(p[1])).copied().unwrap_or("");
    let data = font_bytes(name);
    let gid: u16 = p[2].parse().unwrap();
    let user: Vec<Fixed> = csv_i::<i32>(p[3]).iter().map(|v| Fixed::from_raw(*v)).collect();
    let fd = match ReadScope::new(&data).read::<FontData<'_>>() {
        Ok(f) => f,
        Err(e) => return format!("err:font-{}", perr(&e)),
    };
    let prov = match fd.table_provider(0) {
        Ok(x) => x,
        Err(_) => return "err:prov".to_string(),
    };
    match instance(&prov, &user) {
        Err(e) => verr(e),
        Ok((out, tuple)) => {
            let tv: Vec<i16> = tuple.iter().map(|v| v.raw_value()).collect();
            match read_back(&out) {
                Err(e) => format!("bad:{}", e),
                Ok(rb) => {
                    let g = rb.glyphs.get(gid as usize).cloned().unwrap_or_default();
                    let m = rb.metrics.get(gid as usize).copied().unwrap_or((0, 0));
                    format!("ok:T={};TAGS={};G={};H={}:{}", join(&tv, ","), join(&rb.tags, ","), g, m.0, m.1)
                }
            }
        }
    }
}

pub fn gen_fx(rng: &mut Rng) -> String {
    let name = *rng.pick(&FONTS);
    let data = font_bytes(name);
    let ts = sfnt_tables(&data);
    let (fvar, maxp) = match (tbl(&ts, b"fvar"), tbl(&ts, b"maxp")) {
        (Some(f), Some(m)) => (f, m),
        _ => return format!("vt|{}", rng.next() as u32),
    };
    let ng = u16at(maxp, 4) as usize;
    let gid = rng.below(ng.min(40) as u64) as usize;
    let axes_off = u16at(fvar, 4) as usize;
    let nax = u16at(fvar, 8) as usize;
    let asz = u16at(fvar, 10) as usize;
    let mut user = vec![];
    for i in 0..nax {
        let o = axes_off + i * asz;
        let mn = u32at(fvar, o + 4) as i32;
        let df = u32at(fvar, o + 8) as i32;
        let mx = u32at(fvar, o + 12) as i32;
        let v = match rng.below(8) {
            0 => mn,
            1 => df,
            2 => mx,
            3 => mn.saturating_sub(65536),
            4 => mx.saturating_add(65536),
            _ => (mn as i64 + (rng.next() % ((mx as i64 - mn as i64).max(0) as u64 + 1)) as i64) as i32,
        };
        user.push(v);
    }
    if rng.chance(1, 6) {
        for i in 0..nax {
            user[i] = u32at(fvar, axes_off + i * asz + 8) as i32;
        }
    }
    // normalised coordinates through the implementation's own fvar/avar code (property C13)
    let norm: Vec<i16> = {
        use allsorts::tables::variable_fonts::avar::AvarTable;
        let f = match ReadScope::new(fvar).read::<FvarTable<'_>>() {
            Ok(f) => f,
            Err(_) => return format!("vt|{}", rng.next() as u32),
        };
        let avar = tbl(&ts, b"avar").and_then(|a| ReadScope::new(a).read::<AvarTable<'_>>().ok());
        match f.normalize(user.iter().map(|v| Fixed::from_raw(*v)), avar.as_ref()) {
            Ok(tp) => tp.iter().map(|v| v.raw_value()).collect(),
            Err(_) => return format!("vt|{}", rng.next() as u32),
        }
    };
    let short = name.rsplit('/').next().unwrap();
    match extract_glyph(&ts, gid) {
        Some((ac, shared, g)) => {
            let sh: Vec<String> = shared.iter().map(|x| join(x, ",")).collect();
            format!(
                "fx|{}|{}|{}|{}|{}|{}|{}|{}",
                short,
                gid,
                join(&user, ","),
                join(&norm, ","),
                ac,
                if sh.is_empty() { "-".to_string() } else { sh.join(";") },
                gspec_str(&g),
                tbl(&ts, b"HVAR").is_some() as u8
            )
        }
        None => format!("vt|{}", rng.next() as u32),
    }
}
