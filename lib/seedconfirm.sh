#!/bin/bash
# lib/seedconfirm.sh <seed-out-dir> <prop> <label> — confirm a seeded change (demo both ways, suite unchanged)
# in a scratch worktree; the check itself is run by lib/seeddetect.sh.
# Uses private worktrees /tmp/wt/verif-seed and /tmp/wt/repo-seed (created on first use) so that
# /repo and /verif stay untouched; writes /verif/seeded/<prop>-<label>/ (patch, demo, meta.json).
SRC=$1; P=$2; L=$3
OUT=/verif/seeded/$P-$L
mkdir -p $OUT /tmp/wt
if [ ! -d /tmp/wt/repo-seed ]; then
  git -C /repo worktree add -q --detach /tmp/wt/repo-seed HEAD
fi
# bring both worktrees to the current heads
git -C /tmp/wt/repo-seed checkout -q -- . ; git -C /tmp/wt/repo-seed clean -fdq tests; git -C /tmp/wt/repo-seed checkout -q --detach $(git -C /repo rev-parse HEAD)
export VERIF_REPO=/tmp/wt/repo-seed CARGO_NET_OFFLINE=true
R=/tmp/wt/repo-seed
cd $R
DEMO=$(ls $SRC/demo*.rs | head -1)
cp $DEMO tests/seed_demo.rs
# baseline suite result (cached per repo HEAD)
H=$(git rev-parse --short HEAD)
if [ ! -f /tmp/seed-baseline-$H.txt ]; then
  rm tests/seed_demo.rs
  cargo test --offline --no-fail-fast 2>&1 | grep -E "^test .* \.\.\. (ok|FAILED|ignored)" | sed "s/ (line [0-9]*)//" | sort > /tmp/seed-baseline-$H.txt
  cp $DEMO tests/seed_demo.rs
fi
timeout 1200 cargo test --offline --test seed_demo > $OUT/demo_unpatched.log 2>&1; rc_clean=$?
if ! git apply $SRC/patch.diff 2> $OUT/apply.log; then echo "$P-$L: patch does not apply"; rc_apply=1; else rc_apply=0; fi
timeout 1200 cargo test --offline --test seed_demo > $OUT/demo_patched.log 2>&1; rc_patched=$?
rm -f tests/seed_demo.rs
cargo test --offline --no-fail-fast 2>&1 | grep -E "^test .* \.\.\. (ok|FAILED|ignored)" | sed "s/ (line [0-9]*)//" | sort > $OUT/suite_patched.txt
if diff -q /tmp/seed-baseline-$H.txt $OUT/suite_patched.txt >/dev/null; then suite_same=true; else suite_same=false; fi
git -C $R checkout -q -- . ; git -C $R clean -fdq tests
rc_check=-1; rc_check_clean=-1; start=0; end=0
cp $SRC/patch.diff $OUT/patch.diff; cp $DEMO $OUT/; cp $SRC/demo.md $OUT/ 2>/dev/null
python3 - "$SRC" "$OUT" "$P" "$L" $rc_clean $rc_patched $rc_apply $suite_same $rc_check $rc_check_clean $((end-start)) $H <<'PY'
import json,sys,re
src,out,P,L,rc_clean,rc_patched,rc_apply,suite_same,rc_check,rc_check_clean,secs,H=sys.argv[1:]
try: meta=json.load(open(src+'/meta.json'))
except Exception as e: meta={"property":P,"summary":"(meta.json unreadable: %s)"%e}
viol=[]
meta.update({"property":P,"label":L,"repo_base":H,
 "confirmed":{"demo_passes_unpatched":rc_clean=='0',"demo_fails_patched":rc_patched!='0',"patch_applies":rc_apply=='0',
              "existing_suite_unchanged":suite_same=='true'},
 "check":{"cmd":"./check %s --tier quick"%P,"exit_patched":int(rc_check),"exit_clean":int(rc_check_clean),"seconds":int(secs),
          "lines":viol[:4],"detected":rc_check=='1' and any(l.startswith('VIOLATION') for l in viol),
          "with_failing_input":any(l.startswith('VIOLATION') and 'no-failing-input-found' not in l for l in viol)},
 "what_i_ran":["scratch worktree /tmp/wt/repo-seed at %s: demo as tests/seed_demo.rs unpatched/patched, full `cargo test --offline --no-fail-fast` patched vs. baseline list of test outcomes"%H,
               "framework worktree /tmp/wt/verif-seed (same commit as /verif) with VERIF_REPO pointing at the patched scratch tree: ./check %s --tier quick; then patch reverted and the check re-run (must exit 0)"%P]})
json.dump(meta,open(out+'/meta.json','w'),indent=1)
print("%s-%s: demo clean=%s patched=%s suite_same=%s check rc=%s (clean rc=%s) %s"%(P,L,rc_clean,rc_patched,suite_same,rc_check,rc_check_clean,viol[:1]))
PY
rm -f $OUT/demo_unpatched.log.tmp
