#!/usr/bin/env python3
"""Assemble MANIFEST.json from lib/manifest/Cxx.json (one check entry per claimed property);
every property without an entry is listed under not_applicable with the reason in
lib/manifest/not_applicable.json (default: not yet claimed)."""
import json, os, glob
ROOT = os.path.dirname(os.path.dirname(os.path.abspath(__file__)))
checks = []
for f in sorted(glob.glob(os.path.join(ROOT, "lib", "manifest", "C*.json"))):
    checks.append(json.load(open(f)))
claimed = {c["property_id"] for c in checks}
allp = [json.loads(l)["id"] for l in open(os.path.join(ROOT, "properties.jsonl"))]
na_file = os.path.join(ROOT, "lib", "manifest", "not_applicable.json")
reasons = json.load(open(na_file)) if os.path.exists(na_file) else {}
hooks = json.load(open(os.path.join(ROOT, "lib", "manifest", "hooks.json")))
m = {
    "version": 1,
    "setup_cmd": "./setup.sh",
    "hooks": hooks,
    "engines": [
        {"name": "coq", "path": "coq", "serves_properties": sorted(claimed),
         "kind_free_text": "Coq 8.16.1 development: Model/ (executable Gallina models), Proofs/, Props/ (theorem statements), Gen/ (regenerated from /repo by translators/)"},
        {"name": "correspondence", "path": "harness", "serves_properties": sorted(claimed),
         "kind_free_text": "Rust harness on /repo's working tree vs. OCaml-extracted Coq model (ocaml/<prop>/avm), judged per property"},
    ],
    "checks": checks,
    "not_applicable": [{"property_id": p, "reason": reasons.get(p, "not yet claimed in this round: model under construction (DESIGN.md section 7)")}
                       for p in allp if p not in claimed],
    "notes": "See DESIGN.md. Checks rebuild the harness from /repo's working tree (cargo path dependency) and regenerate coq/Gen from /repo's sources on every run.",
}
json.dump(m, open(os.path.join(ROOT, "MANIFEST.json"), "w"), indent=1)
print("MANIFEST.json: %d checks, %d not_applicable" % (len(checks), len(m["not_applicable"])))
