from props import COMMON_TRUSTED

SPEC = {
    "translators": ["tr_glyf.py"],
    "harness": "c16",
    "cases": {"quick": 12000, "thorough": 400000},
    "profiles": {"quick": ["debug", "release"], "thorough": ["debug", "release"]},
    "trusted_base": COMMON_TRUSTED + [
        "translators/tr_glyf.py (regenerates coq/Gen/GlyfConsts.v from src/tables/glyf.rs, src/tables.rs, "
        "src/tables/glyf/outline.rs on every run: flag constants and predicates, argument kinds, scale-test "
        "order, Matrix2x2F::row_major argument order, F2Dot14 divisor, calculate_origin triples, lerp "
        "parameter, recursion limit and depth test)",
        "modelled, not verified: the control flow of SimpleGlyph::read_dep, the Points iterator, "
        "visit_simple_glyph_outline, visit_outline / visit_composite_glyph_outline, the composite parser "
        "(Model/GlyfOutline.v, hand-written after the source; tied by correspondence); the byte reader "
        "(ReadCtxt) is replaced by a list cursor (its exactness is C14's subject)",
        "pathfinder_geometry Transform2F / Matrix2x2F / lerp are modelled as exact rational arithmetic; "
        "the f32 evaluation is compared exactly for unscaled outlines and within 2^-18 of the magnitude "
        "bound for scaled ones",
    ],
    "assumptions": [
        "glyph records are the byte ranges loca describes (the harness writes a consistent long-format loca; "
        "the out-of-range-length workaround of GlyfTable::read_dep is not exercised)",
        "composite theorem: components with x/y offsets that are not to be scaled; point-number arguments and "
        "SCALED_COMPONENT_OFFSET are documented TODOs of the source and form the excluded class "
        "(modelled as the code behaves, witnessed in Props/C16.v)",
        "legal encodings have true coordinate deltas that fit an i16 (sums leaving the i16 range are rejected "
        "with LimitExceeded since the fix)",
    ],
    "rule": "synthesised glyf+loca tables: simple glyphs with 0-6 contours of 1-40 points, every on/off "
            "pattern class (all on, all off, first/last off, random), coordinates from small deltas to the "
            "i16 extremes, every encoding choice (short/same/long, zero-short sign, reserved bits, repeat "
            "records of any split); malformed variants (repeated/decreasing/overlong endPtsOfContours, repeat "
            "overshoot, overflowing deltas, truncation, bit flips, trailing bytes); composite DAGs of 2-8 "
            "glyphs with 1-3 components each, byte/word arguments, no/uniform/xy/2x2 scales, multiple scale "
            "bits, instructions, reserved bits, point-number and scaled-offset components, chains around the "
            "nesting limit, cycles, out-of-range ids. distinct = distinct input lines; class histogram = kind "
            "of the visited glyph (S/C/E/-) and result (ok[.scaled|.unscaled][.multi] / err)",
}
