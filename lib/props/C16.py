from props import COMMON_TRUSTED

SPEC = {
    "translators": ["tr_glyf.py", "tr_loca.py"],
    "harness": "c16",
    "cases": {"quick": 12000, "thorough": 400000},
    # when a proof or a translator breaks the case count is multiplied by this (default 5): the width
    # boundaries are in the corpus and 1-2 % of the generated cases, twice the cases are enough
    "search_factor": 2,
    "profiles": {"quick": ["debug", "release"], "thorough": ["debug", "release"]},
    "trusted_base": COMMON_TRUSTED + [
        "translators/tr_glyf.py (regenerates coq/Gen/GlyfConsts.v from src/tables/glyf.rs, src/tables.rs, "
        "src/tables/glyf/outline.rs on every run: flag constants and predicates, argument kinds, scale-test "
        "order, Matrix2x2F::row_major argument order, F2Dot14 divisor, calculate_origin triples, lerp "
        "parameter, recursion limit and depth test)",
        "translators/tr_loca.py (regenerates coq/Gen/LocaConsts.v from src/tables/loca.rs, GlyfTable::read_dep, "
        "ReadScope::offset/offset_length on every run: short-format multiplier, shape of iter/get/len/read_dep)",
        "modelled, not verified: LocaTable::read_dep, LocaOffsets::iter, the record splitting of "
        "GlyfTable::read_dep (Model/GlyfLoca.v), the control flow of SimpleGlyph::read_dep, the Points iterator, "
        "visit_simple_glyph_outline, visit_outline / visit_composite_glyph_outline, the composite parser "
        "(Model/GlyfOutline.v, hand-written after the source; tied by correspondence); the byte reader "
        "(ReadCtxt) is replaced by a list cursor (its exactness is C14's subject)",
        "pathfinder_geometry Transform2F / Matrix2x2F / lerp are modelled as exact rational arithmetic; "
        "the f32 evaluation is compared exactly for unscaled outlines and within 2^-18 of the magnitude "
        "bound for scaled ones",
    ],
    "assumptions": [
        "table theorems (d): legal layouts (records stored one after the other, every offset expressible in "
        "the loca format: short = even and at most 131070, long below 2^32; a record is empty or at least two "
        "bytes); damaged loca tables and the over-long-record workaround of GlyfTable::read_dep are modelled "
        "as coded and compared by correspondence only",
        "composite theorem: components with x/y offsets that are not to be scaled; point-number arguments and "
        "SCALED_COMPONENT_OFFSET are documented TODOs of the source and form the excluded class "
        "(modelled as the code behaves, witnessed in Props/C16.v)",
        "legal encodings have true coordinate deltas that fit an i16 (sums leaving the i16 range are rejected "
        "with LimitExceeded since the fix)",
    ],
    "rule": "synthesised glyf+loca tables (both tables as bytes, short or long loca): simple glyphs with 0-6 "
            "contours of 1-40 points, every on/off pattern class (all on, all off, first/last off, random), "
            "coordinates from small deltas to the i16 extremes, every encoding choice (short/same/long, "
            "zero-short sign, reserved bits, repeat records of any split); width-boundary glyphs (255-257, "
            "511-513, 1023-4097, 32767-32769, 65534, 65535, 65536 points; runs of points sharing a flag byte "
            "in REPEAT records, contours of up to 200 points) alone, behind another glyph or under a "
            "composite; malformed variants (repeated/decreasing/overlong endPtsOfContours, repeat overshoot, "
            "overflowing deltas, truncation, bit flips, trailing bytes); composite DAGs of 2-8 glyphs with "
            "1-3 components each, byte/word arguments, no/uniform/xy/2x2 scales, multiple scale bits, "
            "instructions, reserved bits, point-number and scaled-offset components, chains around the "
            "nesting limit, cycles, out-of-range ids; table-level cases: 2-9 glyphs in a short or long loca, "
            "padding to 1/2/4, glyph data inflated by (parseable) instruction bytes to 60-131 KiB (short) / "
            "up to 200 KiB (long), records starting exactly at 65534/65536/65538/131068/131070/131072, "
            "empty records, first/last/high glyph visited, up to 65533 empty glyphs in front (glyph ids up "
            "to 65534), explicit loca bytes damaged in six ways or read with a wrong numGlyphs. distinct = "
            "distinct input lines; class histogram = [x = explicit loca][short|long[>64k]:] kind of the "
            "visited glyph (S/C/E/-) and result (ok[.scaled|.unscaled][.multi][.pts>=N] / err)",
}
