from props import COMMON_TRUSTED

SPEC = {
    "translators": ["tr_caches.py"],
    "harness": "c03",
    "cases": {"quick": 20000, "thorough": 600000},
    "profiles": {"quick": ["debug", "release"], "thorough": ["debug", "release"]},
    "gen_timeout": 3000,
    "trusted_base": COMMON_TRUSTED + [
        "translators/tr_caches.py (regenerates coq/Gen/CacheSites.v from src/{gsub,layout,font,tag,lib}.rs and "
        "src/binary/read.rs on every run: the 16 memoisation sites with key / loader / pinned / constant parameters, "
        "the census of RefCell fields, borrow_mut receivers, read_cache call shapes and global state, FEATURE_MASKS, "
        "FeatureMask::from_tag, GlyphTableFlags, the default image filter, the image-table order); its reading of "
        "Rust syntax is by regular expressions over comment-stripped text",
        "the site obligation (C03_sites_ok) is syntactic: that 'every loader parameter is in the key' implies the "
        "semantic key condition of C03_memo_transparent is argued in docs/C03.md, and proved only for the two "
        "modelled layers (C03_lookups_key_captures, C03_layout_history_independent, C03_glyph_history_independent)",
        "modelled, not verified: HashMap::entry / Vec / RefCell semantics (an association list that is only "
        "extended on a miss; a vector that is only appended to), Rc sharing of cached objects (cached Coverage / "
        "ClassDef / lookup objects are immutable), the abstraction of a GSUB table to (features, scripts, "
        "FeatureVariations records) and of a Font to (Unicode cmap, emoji set, table flags, which image tables parse)",
        "Model/GlyfTableMemo.v abstracts a glyf table to a list of raw / parsed records, a glyph to empty / simple "
        "(opaque) / composite (component indices), drawing to the list of simple glyphs reached (transforms left out); "
        "tr_caches.py checks on every run that glyf/outline.rs writes to the table only through get_parsed_glyph and "
        "reads COMPOSITE_GLYPH_RECURSION_LIMIT",
        "for Font-level histories (kind F), GlyfTable histories (kind T) and pure operations (kind P) the judge is model-independent: equality of "
        "digests (FNV-1a 64 of the Debug rendering / output bytes) computed by the harness",
    ],
    "assumptions": [
        "one Font / LayoutCache is used from one thread (the types are !Sync: RefCell, Rc)",
        "the FeatureTableSubstitution passed to get_lookups_cache_index comes from the same layout table "
        "(every caller obtains it from gsub_table.feature_variations(tuple))",
        "scopes given to read_cache are suffix scopes of one table (checked syntactically at all 26 call sites): "
        "the base offset determines the bytes",
        "FontTableProvider::table_data returns the same bytes for the same tag on every call",
        "GlyfTable: records_mut / push / take / replace (explicit writes by the caller, as variations::apply_gvar does) "
        "are not queries; the histories use visit, get_parsed_glyph, subset, write_dep, number_of_points",
    ],
    "rule": "five kinds of generated cases. L (30%): a synthesised GSUB 1.1 table (1-7 features, 0-3 scripts with "
            "default / tagged LangSys records incl. a record tagged DFLT, 0-3 FeatureVariations records with axis-range "
            "conditions and feature-table substitutions; 1 in 8 with out-of-range indices; 1 in 3 shaped like real "
            "variable fonts: rvrn in every LangSys and substitutions for it) and 1-8 get_lookups_cache_index / "
            "features_supported calls drawn from small per-case pools of scripts, languages (None, DFLT, others), "
            "masks and tuples so that keys repeat with one argument changed; each call is run on one LayoutCache and "
            "on a fresh one and both are compared with the extracted model. G (20%): a synthesised font (cmap 12, "
            "optional glyf/CFF, valid or truncated SVG/sbix/CBDT/EBDT tables) and 1-8 lookup_glyph_index / "
            "set_embedded_image_filter / has_embedded_images / shape calls, same comparison. F (35%): one real Font "
            "(22 fixture fonts covering Latin, Arabic, Syriac, Devanagari, Bengali, Tamil, Khmer, Myanmar, Thai, Lao, "
            "CJK with vmtx, symbol cmap, sbix, SVG, 5 variable fonts; or a synthesised variable font with GSUB "
            "FeatureVariations) driven through 0-5 calls of shape (text, script, language, Features::Mask|Custom, "
            "tuple, kerning, presentation), map_glyphs, lookup_glyph_index, horizontal/vertical_advance, glyph_names, "
            "lookup_glyph_image, set_embedded_image_filter, has_embedded_images, table getters, then a probe; the "
            "probe's full result is compared with the probe on a fresh Font in the same configuration and with a "
            "second probe on the same object. T (10%): a synthesised glyf/loca pair (empty / simple glyphs in the writer's own and "
            "a compact encoding / composites with indices in range, out of range, upwards and cyclic / glyphs whose data "
            "is cut off; chains whose nesting straddles COMPOSITE_GLYPH_RECURSION_LIMIT = 6, DAGs with shared components), "
            "read lazily or parsed up front, and 1-5 calls of OutlineBuilder::visit / GlyfTable::subset + write_dep / "
            "write_dep of a copy / get_parsed_glyph / number_of_points on ONE table followed by a probe; every call is "
            "repeated on a freshly read table and the probe twice (written tables are compared glyph by glyph after "
            "re-reading, byte for byte when every glyph is in the writer's encoding); the results of visit / "
            "get_parsed_glyph on the fresh table are compared with the extracted model. F also: synthesised GSUB tables "
            "larger than 64 KiB (Extension lookups whose subtables and Coverage tables lie 65536 / 131072 / 196608 / "
            "65534 / 65538 / 32768 / 4096 / 256 / 12 bytes apart, one feature per lookup; the history shapes with some "
            "features, the probe with another). P (5%): subset / instance / WOFF-WOFF2 decode / table_tags / whole_font run twice "
            "in-process (1 in 12 the second run in a child process), outputs compared byte for byte. distinct = "
            "distinct input lines; histogram keys are kind, number of calls (L/G: and whether an error occurred), "
            "for F the probe type, syn/fixture and history length, for T lazy/parsed, the probe type and history length",
}
