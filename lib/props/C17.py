from props import COMMON_TRUSTED

SPEC = {
    "translators": ["tr_tables.py"],
    "harness": "c17",
    "cases": {"quick": 30000, "thorough": 1000000},
    "profiles": {"quick": ["debug", "release"], "thorough": ["debug", "release"]},
    "trusted_base": COMMON_TRUSTED + [
        "translators/tr_tables.py (regenerates coq/Gen/PreprocessTables.v from src/unicode/mcc.rs, src/tag.rs, "
        "src/scripts/{mod,arabic,thai_lao,indic,khmer}.rs, src/lib.rs on every run: the class remapping table, the "
        "tag -> script type -> action dispatch, the MCM set, SARA AM splits, above-base ranges, vowel constraints, "
        "matra splits, the ya-nukta / ra-halant-ZWJ literals, the Khmer split vowels, DOTTED_CIRCLE)",
        "reference tables typed by hand in coq/Proofs/PreprocessTop.v (Unicode canonical/compat decompositions, "
        "UTR #53 MCM list, Microsoft USE vowel constraints, OpenType script tags)",
        "modelled, not verified: Vec<char> indexing/insert/remove/rotate_right/swap semantics, slice::split_mut, "
        "the stability of slice::sort_by_key (modelled as insertion sort; all stable sorts agree, C17_stable_sort)",
        "the combining class of a character is data of the unicode-canonical-combining-class crate: the theorems "
        "hold for every class function; the harness hands the implementation's modified_combining_class of every "
        "character involved to the model",
    ],
    "assumptions": [
        "the canonical combining class is a u8 (the table lookup of modified_combining_class cannot be out of range)",
        "texts are shorter than isize::MAX characters (index arithmetic i + 1 .. i + 4 cannot overflow)",
    ],
    "rule": "random texts of 0-10 clusters over script-specific alphabets (bases, marks of every combining class, "
            "shadda, modifier combining marks, SARA AM, above-base marks, split matras, nukta, halant, ZWJ/ZWNJ/CGJ, "
            "dotted circle, independent+dependent vowel pairs, ya+nukta, ra+halant+ZWJ, Khmer split vowels, random "
            "code points up to U+10FFFF), 1 in 25 with a mark run of 21-300, for the 20 known script tags, Indic2 "
            "and unknown tags (any u32); 1 in 40 cases checks one entry of the combining-class table against "
            "Unicode data typed in the harness; distinct = distinct input lines; class histogram keys are "
            "action/changed-or-same/longest mark run",
}
