from props import COMMON_TRUSTED

SPEC = {
    "translators": ["tr_woff2.py"],
    "harness": "c11",
    "cases": {"quick": 10000, "thorough": 300000},
    "profiles": {"quick": ["debug", "release"], "thorough": ["debug", "release"]},
    "search_factor": 3,
    "trusted_base": COMMON_TRUSTED + [
        "translators/tr_woff2.py (regenerates coq/Gen/Woff2Lut.v from src/woff2/lut.rs, src/woff2.rs, src/tag.rs on every run: "
        "COORD_LUT, KNOWN_TABLE_TAGS, the bodies of XYTriplet::dx/dy, BITS_0_TO_5, LOWEST_UCODE, magic numbers)",
        "coq/Proofs/Woff2Spec.v: the transcription of the WOFF2 recommendation (255UInt16, UIntBase128, triplet table rule and "
        "reference decoding procedure, transformed glyf/hmtx layout, table directory, known tags) that the theorems are stated against",
        "the reader abstraction of Model/Woff2.v (a cursor = the list of remaining bytes), justified by the C14 theorems",
        "brotli-decompressor (the harness feeds stored meta-blocks; compression is outside the model) and the harness' own "
        "WOFF2 encoder / plain-glyf parser used to produce ground truth",
    ],
    "assumptions": [
        "tables are shorter than 2^32 bytes; coordinates of the original glyphs are int16 (the transformed-glyf round trip "
        "holds for any deltas in debug and release builds; the end-to-end theorem additionally asks for int16 deltas between "
        "consecutive points, which is what a TrueType glyph can store and what SimpleGlyph::write accepts)",
        "control flow of Woff2TableProvider::new, the glyf/loca/head/hmtx writers, GlyfTable::read_dep and the head/maxp/hhea "
        "readers is modelled by hand and tied by correspondence only (the workaround branch of GlyfTable::read_dep for a loca "
        "entry beyond the table is not modelled: such cases are skipped)",
    ],
    "rule": "synthetic fonts: 0-70 glyphs (empty, simple with 1-12 contours and deltas drawn from every triplet class and the "
            "class boundaries, composite with every argument/scale form), every encoder freedom drawn at random (triplet row "
            "among all rows that fit, 255UInt16 form, explicit/omitted bbox, hmtx flag bits, known-tag index or arbitrary tag, "
            "table order, transformed or plain glyf/hmtx, collections with shared tables, member index); about 1 in 6 cases is "
            "then damaged (truncation, byte substitution, bit flip in a header). Kinds: p16, b128, glyf, hmtx, hmtxp, font. "
            "distinct = distinct input lines; histogram keys = kind:model outcome(+dr when debug and release arithmetic "
            "differ)(:damaged when no ground truth is attached). Every case with ground truth is judged against the encoder's "
            "input, every case against the model.",
}
