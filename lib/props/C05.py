from props import COMMON_TRUSTED

SPEC = {
    "translators": ["tr_layout.py", "tr_gpos.py"],
    "harness": "c05",
    "cases": {"quick": 20000, "thorough": 600000},
    "profiles": {"quick": ["debug", "release"], "thorough": ["debug", "release"]},
    "trusted_base": COMMON_TRUSTED + [
        "translators/tr_gpos.py (regenerates coq/Gen/GposConsts.v from src/layout.rs, src/gpos.rs, src/tables/kern.rs, "
        "src/tag.rs on every run: ValueFormat flag bits, admitted mask range, the order / width / signedness in which "
        "ValueRecord::read_dep reads the eight fields, anchor formats, base feature lists of gpos::apply, kern "
        "coverage bits; fails closed when ValueFormat::{read,size,is_zero}, ValueRecord::read_dep, Anchor::read, "
        "Adjust::apply or the PairPos format 2 indexing change shape) and translators/tr_layout.py (C04)",
        "harness/src/layoutser.rs + harness/src/bin/c05.rs: serialiser of the abstract GPOS program, GDEF and kern "
        "table to bytes and the synthetic font (cmap stub, head, maxp, hhea, hmtx) GlyphLayout needs",
        "the hand-written Gallina model coq/Model/Layout.v, Gpos.v, GposBytes.v, Position.v (tied by correspondence)",
    ],
    "assumptions": [
        "tuple = None: variation deltas of value records and anchors are 0; device tables are NULL offsets",
        "horizontal layout (vertical = false); scripts of ScriptType::Default; Features::Custom",
        "Coverage format 1 arrays strictly increasing, kern format 0 pairs sorted by key without duplicates (std "
        "binary search is modelled as 'the entry with that key')",
        "pen convention for right-to-left runs: the pen moves left by the glyph's advance before the glyph is drawn "
        "(equivalently the run is reversed and drawn left to right)",
        "i32 position arithmetic of glyph_positions does not overflow (operands are sums of at most |run| 17-bit "
        "quantities; the accumulations of gpos::apply themselves saturate and need no assumption)",
    ],
    "rule": "random abstract GPOS programs: 1-5 lookups of types 1-8 (SinglePos 1/2, PairPos 1/2 with class matrices, "
            "CursivePos, MarkBasePos, MarkLigPos, MarkMarkPos, Context 1/3, ChainContext 1/3 with nested records), value "
            "formats over all flag combinations incl. masks > 0xFF, anchor formats 1-3, coverage formats 1/2 incl. "
            "malformed, extension wrapping, lookup flags, GDEF classes / mark sets, script/langsys/feature lists, "
            "optional kern table (format 0 and 2 subtables, coverage bits); glyph strings of 0-12 glyphs from instances "
            "of the program's rules; three run kinds: A = gpos::apply + glyph_positions, P = glyph_positions on "
            "hand-made Infos (arbitrary placements incl. out-of-range indices and cyclic cursive links), F = "
            "apply_fallback + glyph_positions; both text directions; advances 0-900 (marks often 0); class histogram "
            "= run kind / (positioned, untouched, err, panic, +poserr)",
}
