from props import COMMON_TRUSTED

SPEC = {
    "translators": ["tr_type2.py"],
    "harness": "c18",
    "cases": {"quick": 12000, "thorough": 300000},
    "profiles": {"quick": ["debug", "release"], "thorough": ["debug", "release"]},
    "trusted_base": COMMON_TRUSTED + [
        "translators/tr_type2.py (regenerates coq/Gen/Type2Consts.v on every run: operator constants, "
        "STACK_LIMIT, MAX_OPERANDS of CFF/CFF2 and of the hv/vh scratch array, reserved bytes and number "
        "ranges of the dispatch, parse_int1/2/3 formulas, calc_subroutine_bias, u8 -> VisitOp -> parse "
        "function dispatch, STANDARD_ENCODING)",
        "coq/Model/Type2.v is a hand-written model of visit_impl / CharStringParser / ArgumentsStack / "
        "blend (control flow tied to the Rust by the correspondence only); f32 arithmetic is modelled by "
        "exact rationals (exact on integer operands below 2^24, compared with tolerance otherwise)",
        "the CFF / CFF2 / fvar table synthesis of harness/src/bin/c18.rs and the DICT/INDEX/FDSelect/"
        "ItemVariationStore readers it goes through are outside the model (env = already-parsed font)",
    ],
    "assumptions": [
        "well-formedness of a program is Model/Type2Spec.v prog_wf: operators with the operand shapes "
        "of TN5177, at most 48 (CFF) / 513 (CFF2) operands per operator, segments only after a moveto, "
        "mask length ceil(stems/8), fewer than 2^32-7 stem hints",
        "INDEXes have at most 65536 entries (u16 count for CFF; the bias theorem is stated up to that)",
        "blend scalars are inputs of the blend theorems (their computation from the variation store is C12); "
        "any number of regions k >= 0",
    ],
    "rule": "structured random glyph programs (0-5 contours, all 23 operators with random operand counts "
            "incl. the 48/513 limits, optional width, stem hints and masks incl. implicit vstem, operands "
            "in random 1/2/3/5-byte encodings, 1/8 with fractional 16.16 values) factored at random token "
            "boundaries into local/global subroutines (pools of 0-6, 1239, 1240, 1241, 33899, 33900 entries; "
            "nesting 0-3 and chains of 9/10/11), wrapped in name-keyed CFF (55%), CID-keyed CFF with 1-3 "
            "Font DICTs and decoy subrs (20%) or CFF2 with 1-3 Font DICTs, optional variation store (1/6 of "
            "the ItemVariationData list no regions: blend with k = 0) and blends (25%); 1/12 seac composites; 1/7 damaged (byte flip, truncation, inserted reserved/"
            "call/number bytes, 49+ operands, missing endchar); distinct = distinct input lines; class "
            "histogram key = font kind : result kind : features (s subrs, c curves, m several contours, z a region-less ItemVariationData in the store) or error name",
}
