from props import COMMON_TRUSTED

SPEC = {
    "translators": ["tr_type2.py"],
    "harness": "c18",
    "cases": {"quick": 12000, "thorough": 300000},
    "profiles": {"quick": ["debug", "release"], "thorough": ["debug", "release"]},
    "trusted_base": COMMON_TRUSTED + [
        "translators/tr_type2.py (regenerates coq/Gen/Type2Consts.v on every run: operator constants, "
        "STACK_LIMIT, MAX_OPERANDS of CFF/CFF2 and of the hv/vh scratch array, reserved bytes and number "
        "ranges of the dispatch, parse_int1/2/3 formulas, calc_subroutine_bias, u8 -> VisitOp -> parse "
        "function dispatch, STANDARD_ENCODING, the ISOAdobe test of seac_code_to_glyph_id, the hit test / index / "
        "glyphs-per-range of CustomCharset::glyph_id_for_sid_in_ranges; Charset::sid_to_gid and CustomCharset::sid_to_gid "
        "are pinned textually)",
        "coq/Model/Type2.v is a hand-written model of visit_impl / CharStringParser / ArgumentsStack / "
        "blend (control flow tied to the Rust by the correspondence only); f32 arithmetic is modelled by "
        "exact rationals (exact on integer operands below 2^24, compared with tolerance otherwise)",
        "the CFF / CFF2 / fvar table synthesis of harness/src/bin/c18.rs and the DICT/INDEX/FDSelect/"
        "ItemVariationStore readers it goes through are outside the model (env = already-parsed font)",
    ],
    "assumptions": [
        "a charset lists at most 65534 glyphs (a CFF font has at most 65535: u16 count of the CharStrings INDEX) and its "
        "fields are unsigned; beyond that the u16 glyph counter of glyph_id_for_sid_in_ranges overflows (modelled: panic in "
        "debug, wrap in release; not generated)",
        "seac theorem: the components are plain well-formed glyphs (no nested seac) and the charset is ISOAdobe or custom; "
        "the Expert / ExpertSubset charsets resolve no seac code (as coded; correspondence only)",
        "well-formedness of a program is Model/Type2Spec.v prog_wf: operators with the operand shapes "
        "of TN5177, at most 48 (CFF) / 513 (CFF2) operands per operator, segments only after a moveto, "
        "mask length ceil(stems/8), fewer than 2^32-7 stem hints",
        "INDEXes have at most 65536 entries (u16 count for CFF; the bias theorem is stated up to that)",
        "blend scalars are inputs of the blend theorems (their computation from the variation store is C12); "
        "any number of regions k >= 0",
    ],
    "rule": "structured random glyph programs (0-5 contours, all 23 operators with random operand counts "
            "incl. the 48/513 limits, optional width, stem hints and masks incl. implicit vstem, operands "
            "in random 1/2/3/5-byte encodings, 1/8 with fractional 16.16 values) factored at random token "
            "boundaries into local/global subroutines (pools of 0-6, 1239, 1240, 1241, 33899, 33900 entries; "
            "nesting 0-3 and chains of 9/10/11), wrapped in name-keyed CFF (55%), CID-keyed CFF with 1-3 "
            "Font DICTs and decoy subrs (20%) or CFF2 with 1-3 Font DICTs, optional variation store (1/6 of "
            "the ItemVariationData list no regions: blend with k = 0) and blends (25%); plain glyphs carry charsets of every form "
            "(ISOAdobe, Expert, ExpertSubset, format 0, 1, 2); 1/8 seac composites over name-keyed fonts whose charset is ISOAdobe "
            "(4-16 glyphs, fonts ending at each gap of StandardEncoding, all 229), Expert/ExpertSubset, or custom in format 0/1/2 "
            "built from 1-5+ unsorted ranges (length 1 in a third of them, ranges adjacent to one another, outside the standard "
            "SIDs, rarely overlapping, one long range, last range covering more glyphs than the font has), components chosen on "
            "purpose at the first/last/only glyph of a range and at the codes on both sides of every gap of StandardEncoding "
            "(126/161, 228/232, 245, 251), 1/7 of the codes random or naming no glyph, every other glyph a different small "
            "outline; 1/24 charset queries (Charset::sid_to_gid for the SIDs 0..255 and id_for_glyph for every glyph of such "
            "charsets); 1/7 damaged (byte flip, truncation, inserted reserved/"
            "call/number bytes, 49+ operands, missing endchar); distinct = distinct input lines; class "
            "histogram key = font kind : result kind : features (s subrs, c curves, m several contours, z a region-less ItemVariationData in the store) or error name; "
            "seac cases: seac<charset form i/e/x/0/1/2><position of base><position of accent> with F/L/O/M = first/last/only/middle glyph "
            "of its range, + found (format 0, ISOAdobe), 0 .notdef, N names no glyph; q:<charset form> = charset query. "
            "JUDGES: (a) model = specification by the theorems, any other outcome on an accepted program is a violation; "
            "(b) seac cases carry the operands (adx ady bchar achar): the expected outline is recomputed WITHOUT the model's charset "
            "lookup and seac step -- StandardEncoding from the specification's table, glyph = first glyph whose charset entry is the "
            "SID, path(base) ++ path(accent) + (adx, ady) -- and compared with the implementation; (c) charset queries are compared "
            "with the inverse of the charset's glyph -> SID list",
}
