from props import COMMON_TRUSTED

SPEC = {
    "translators": ["tr_reader.py", "tr_container.py"],
    "harness": "c10",
    "cases": {"quick": 15000, "thorough": 300000},
    "profiles": {"quick": ["debug", "release"], "thorough": ["debug", "release"]},
    "trusted_base": COMMON_TRUSTED + [
        "translators/tr_container.py (magic numbers, TableRecord / WOFF entry ReadType tuples and field order, "
        "header read sequences, regenerated into coq/Gen/ContainerLayouts.v on every run) and tr_reader.py",
        "zlib (flate2) is a parameter of the model: theorem C10_woff_tables_exact assumes inflate (deflate b) = Some b; "
        "in the correspondence the real decoder's verdict on each compressed entry is handed to the model and the judge "
        "compares the implementation's output with the plaintext the generator compressed",
        "modelled, not verified: Cow/Box plumbing of FontTableProvider, DynamicFontTableProvider",
    ],
    "assumptions": [
        "files are shorter than 2^64 bytes; table offsets/lengths are u32 fields (64-bit usize, so usize::try_from(u32) cannot fail)",
        "WOFF2 (FontData::Woff2) is outside this property (C11)",
    ],
    "rule": "generated bare sfnt / TTC (1-4 members, shared and private tables, directory anywhere) / WOFF (per-table "
            "compression choice, zlib levels 0-9) files with 0-6 tables of 0-27 bytes, random directory order, gaps, "
            "duplicate tags; member index 0..n+1; 25% mutated (truncation, boundary u32 overwrite, bit flip, garbage); "
            "queried: every stored tag plus absent ones. distinct = distinct input lines; histogram = kind x result class",
    "avm_timeout": 3000,
}
