from props import COMMON_TRUSTED

SPEC = {
    "translators": ["tr_layout.py", "tr_tables.py"],
    "harness": "c02",
    "cases": {"quick": 60000, "thorough": 2000000},
    "profiles": {"quick": ["debug", "release"], "thorough": ["debug", "release"]},
    "gen_timeout": 2400,
    "search_factor": 2,
    "trusted_base": COMMON_TRUSTED + [
        "the theorems are those of the GSUB model (C04) and the preprocessing model (C17), each tied to the code by its "
        "own correspondence check; everything else in the shaping pipeline is covered by the run-time judge only",
        "the well-formedness judge is evaluated inside the Rust harness on the Vec<Info> the implementation returns "
        "(attachment indices, attributed characters vs. the characters of the glyphs submitted to shape, glyph ids vs. numGlyphs)",
    ],
    "assumptions": [
        "fonts that fail to load are outside the property; 'well-formed font' (for the glyph-id clause) = an unmodified fixture font",
        "a crash = panic, abort (child process dies) or a call longer than 5 s",
    ],
    "rule": "25 fixture fonts (Latin, Arabic, Syriac, nine Indic scripts, Sinhala, Khmer, Myanmar, Thai, Lao, variable) x 29 script tags (the font's own 3/4 of "
            "the time) x language tag x Features::Mask (empty, default, random bits) / Custom (three tag sets) x kerning x "
            "direction x text of 0-50 code points over script alphabets with lone marks, joiners, variation selectors, dotted "
            "circle, NUL, U+10FFFF and foreign characters; 1 in 3 cases on a font whose GSUB/GPOS/GDEF/kern/morx bytes were "
            "mutated (1-4 edits); 1 case in 4 a synthetic GSUB program (C04 generator, whole-run kinds, incl. nested-lookup cycles and "
            "feature variations) or GPOS/GDEF/kern program (C05 generator, incl. degenerate counts) through gsub::apply / gpos::apply "
            "+ glyph_positions, totality only; every case in a child process. distinct = distinct input lines; histogram = pristine/mutated x script x font",
}
