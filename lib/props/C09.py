from props import COMMON_TRUSTED

SPEC = {
    "translators": ["tr_reader.py", "tr_container.py"],
    "harness": "c09",
    "cases": {"quick": 6000, "thorough": 150000},
    "profiles": {"quick": ["debug", "release"], "thorough": ["debug", "release"]},
    "gen_timeout": 900,
    "trusted_base": COMMON_TRUSTED + [
        "hand-written model coq/Model/Sfnt.v of FontBuilder::{add_table (BTreeMap insert), write_offset_table, "
        "write_table_directory, data}, checksum::table_checksum, long_align, max_power_of_2; tied by byte-exact "
        "correspondence through subset::whole_font",
        "valid_sfnt (coq/Model/Sfnt.v) is the executable structural-validity judge applied to the implementation's "
        "output of whole_font, subset::subset and variations::instance; it is a specification written from the "
        "OpenType text; C09_written_font_is_valid proves it accepts every output of the writer model",
        "translators tr_container.py / tr_reader.py for the read-back theorem (C10's model)",
    ],
    "assumptions": [
        "table payload serialisers (T::write) are abstract: the writer model starts from the serialised buffers",
        "main theorem: the table map has exactly one head whose checkSumAdjustment placeholder is zero (what HeadTable::write produces); "
        "tags are u32; each has a _needed witness in Props/C09.v; no bound on the number of tables (4096 or more are refused with BadValue "
        "since fix c89f93a: C09_too_many_tables_refused)",
        "read-back theorem: fewer than 4096 tables, file shorter than 2^64, payload bytes in [0,256)",
    ],
    "rule": "whole_font on HashMap providers: head (54 bytes, random fields) + maxp (v0.5/v1.0) + 0-8 tables of 0-39 bytes with pool/"
            "random tags, requested tag list shuffled, with duplicates, missing tables, truncated head/maxp (must fail); "
            "3 in 12 cases subset::subset on a fixture font with random glyph ids (half of them ending in a composite glyph whose "
            "components precede it), 1 in 12 variations::instance on a fixture variable font at random coordinates, 1 in 12 "
            "whole_font over the tables a Woff2TableProvider hands out for a synthetic WOFF2 font of the C11 generator (transformed "
            "glyf/hmtx, collections, glyf tables rebuilt around the 131070-byte short-loca limit) -- all judge only: structural "
            "validity + cross-table consistency flags (for the synthetic WOFF2 fonts only the head/loca/glyf clauses, the rest of "
            "those fonts is not consistent to begin with); rarely 4094..4100 tables. distinct = distinct input lines; histogram = kind x result",
}
