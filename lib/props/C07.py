from props import COMMON_TRUSTED

SPEC = {
    "translators": ["tr_subset.py"],
    "harness": "c07",
    "cases": {"quick": 25000, "thorough": 600000},
    "search_factor": 2,
    "profiles": {"quick": ["debug", "release"], "thorough": ["debug", "release"]},
    "trusted_base": COMMON_TRUSTED + [
        "translators/tr_subset.py (regenerates coq/Gen/SubsetConsts.v from src/tables/glyf.rs, src/tables/glyf/"
        "{outline,subset}.rs, src/subset.rs, src/cff/{charstring,subset}.rs, src/cff.rs on every run: the composite "
        "recursion limit and its test, the `as u16` cast of add_glyph, the three index expressions of "
        "create_hmtx_table, calc_subroutine_bias / conv_subroutine_index_impl, the shape of copy_used_subrs and of "
        "the rebuild_*_subr_index functions, ISO_ADOBE_LAST_SID)",
        "modelled, not verified: Vec/slice/HashMap semantics (get, push, position, iteration of FxHashSet/FxHashMap in "
        "an unspecified order - the CFF theorems hold for every order), GlyfRecord::parse and the glyf/CFF readers and "
        "writers (properties C09/C10/C16/C18), the CharString interpreter: char_string_used_subrs' answer is an input "
        "of the CFF model",
        "the judge's canonicalisation of outlines: FNV-1a hash of the OutlineSink events of allsorts' own "
        "OutlineBuilder::visit, a `close` without an open contour dropped (the CFF2 visitor emits one per CharString)",
    ],
    "assumptions": [
        "glyph ids and component glyph indices are u16 values, tables have at most 65535 glyphs (GlyfTable::new, maxp)",
        "create_hmtx_table is called with the source table's own numberOfHMetrics (both callers do) - the theorems "
        "about equal metrics are stated for nhm = len h_metrics",
        "CFF: the set of subrs the outline interpreter enters for a glyph is the set char_string_used_subrs reports "
        "(same visitor code; property C18)",
    ],
    "rule": "six case kinds, all randomness from the seed: g (40%) GlyfTable::subset through the verif hook on random "
            "composite graphs of 1-40 glyphs (forward DAGs, arbitrary edges with cycles, rings/chains around the depth "
            "limit, self references, out-of-range and unparsable components, all sharing one component), records built "
            "as Parsed values or read from glyf+loca bytes, compared record by record with the model plus outline "
            "equality old/new; h (20%) create_hmtx_table on random hmtx tables (numberOfHMetrics 0..n+2, truncated lsb "
            "arrays, out-of-range ids); t (21%) subset::subset end to end on a synthetic TrueType font built from a "
            "table + hmtx description; f (5%) subset::subset end to end on 15 fixture fonts (TrueType, name-keyed CFF, "
            "CID-keyed CFF, CFF2; OpenType, WOFF2, WOFF files, and WOFF wrapped by the harness) judged model-independently "
            "(advance/lsb from raw hmtx bytes, outline via allsorts' visitors, old ids of pulled-in components from the "
            "model run on the source's composite graph); c (5%) CFF::subset on the CFF table of 3 fixture fonts against "
            "the abstract CFF model (CharStrings, used global/local subrs, FDSelect, charset; with and without the "
            "Type1->CID conversion above 255 glyphs); s (4%) synthetic name-keyed CFFs with nested global/local subr "
            "calls in all three bias regimes (INDEX sizes 0,1,3,20,1239,1240,1300,33900) and seac glyphs, subset, "
            "written with CFF::write, read back, outlines compared. Id lists: first 0, distinct, in range, except "
            "1 in 25 without leading 0, 1 in 30 duplicates, 1 in 40 out of range (outside the property's domain: only "
            "model agreement is judged). distinct = distinct input lines; class histogram keys are kind-result or "
            "kind-font or kind-bias regimes",
}
