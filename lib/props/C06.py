from props import COMMON_TRUSTED

SPEC = {
    "translators": ["tr_macroman.py", "tr_cmap.py"],
    "harness": "c06",
    "cases": {"quick": 9000, "thorough": 150000},
    "profiles": {"quick": ["debug", "release"], "thorough": ["debug", "release"]},
    "trusted_base": COMMON_TRUSTED + [
        "translators/tr_macroman.py (regenerates coq/Gen/MacRomanTables.v from src/macroman.rs on every run), "
        "translators/tr_cmap.py (regenerates coq/Gen/CmapPrefs.v: the find_good_cmap_subtable cascade of src/font.rs "
        "and the PlatformId/EncodingId constants of src/tables/cmap.rs)",
        "coq/Model/CmapSpec.v: the transcription of the OpenType cmap text (formats 0/4/6/10/12, preference list) "
        "and coq/Model/MacRomanRef.v: Apple's ROMAN.TXT, both kept by hand",
        "modelled by hand after the Rust and tied by correspondence only: CmapSubtable::read, map_glyph, mappings_fn, "
        "owned::CmapSubtable::map_glyph, Format4 trait functions, offset_to_index, Cmap::read, Font::new (cmap part), "
        "Font::lookup_glyph_index -> map_unicode_to_glyph -> legacy_symbol_char_code -> map_glyph",
        "the byte reader used by the cmap model (rd / rd_array of Model/Cmap.v) restates what C14 proves of ReadCtxt",
    ],
    "assumptions": [
        "a format 4 sub-table has fewer than 2^30 segments (parsed ones have fewer than 2^15), so the u32 arithmetic "
        "of offset_to_index cannot overflow",
        "character codes are u32 values (0 <= c), chars are Unicode scalar values; usize is 64 bits",
        "format 2 and the Big5 conversion (encoding_rs data) are covered by correspondence only, not by theorems",
        "Font-level lookups are modelled for MatchingPresentation::NotRequired without variation selector",
    ],
    "rule": "generated inputs of three kinds: S = one cmap sub-table (formats 0/2/4/6/10/12; format 4 with 1-7 "
            "segments, idRangeOffset/idDelta mixes, shared glyphIdArray runs, zero entries, final 0xFFFF segment, "
            "Fontographer 0xFFFF offset; format 12 group lists incl. u16/u32 overflow edges and the 65536-iteration "
            "limit; ~12% with unsorted/overlapping/inverted ranges, wrong length fields, truncation, bit flips) probed "
            "through map_glyph, owned map_glyph and mappings_fn at every segment/group boundary +-1, 0, 0xFFFF, "
            "0x10000, 0x10FFFF, 0xFFFFFFFF and random codes; F = a whole cmap table (1-4 encoding records from the "
            "platform/encoding pairs the selection distinguishes, shared/out-of-range offsets) behind a synthetic "
            "head/hhea/maxp/hmtx(/OS/2) provider, probed through find_good_cmap_subtable, Font::new and "
            "Font::lookup_glyph_index incl. the symbol area and Mac Roman characters; M = Mac Roman conversions both "
            "ways. distinct = distinct input lines; class histogram keys = kind/format/hit-or-not/enumeration status",
    "search_factor": 2,
}
