"""Per-property configuration of the check pipeline: one module lib/props/Cxx.py each, exporting SPEC."""
import importlib, os, glob

COMMON_TRUSTED = [
    "Coq 8.16.1 kernel (coqc, full .vo builds; vm_compute for finite sweeps; no native_compute)",
    "OCaml extraction with ExtrOcamlBasic only (no Extract Constant), ocaml/ driver glue",
    "Rust correspondence harness (/verif/harness) and its canonicalisation",
]

PROPS = {}
for f in sorted(glob.glob(os.path.join(os.path.dirname(__file__), "C*.py"))):
    name = os.path.basename(f)[:-3]
    PROPS[name] = importlib.import_module("props." + name).SPEC
