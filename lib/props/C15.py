from props import COMMON_TRUSTED

SPEC = {
    "translators": ["tr_reader.py", "tr_layouts.py"],
    "harness": "c15",
    "cases": {"quick": 15000, "thorough": 400000},
    "profiles": {"quick": ["debug", "release"], "thorough": ["debug", "release"]},
    "trusted_base": COMMON_TRUSTED + [
        "translators/tr_layouts.py (extracts, independently, the ordered reader items and the ordered writer items of "
        "head, hhea, maxp (+v1 subtable), LongHorMetric, NameRecord, LangTagRecord, TableRecord, BoundingBox, post header, "
        "OS/2 base + four version tails with their conditions and the writer's version choice, the constants of "
        "Operand::write / Op::read / offset_size / U24Be::write / PascalString::write / the short-loca guards, into "
        "coq/Gen/TableLayouts.v on every run; compatibility of the two sides is decided in Coq, not in the translator) "
        "and tr_reader.py",
        "hand-written models (Model/Tables.v, Model/Cff.v) of the variable-size structure around the layouts: "
        "maxp version split, hmtx, loca (owned writer), name (borrowed and owned writers, placeholders resolved), "
        "OS/2 assembly, SimpleGlyph read/write, CFF operands, offset arrays and INDEX; tied to the code only by correspondence",
        "verif-hooks feature of allsorts (src/verif.rs -> cff::verif_hooks): add-only wrappers around the private "
        "Op::read, owned INDEX writers, serialise_offset_array, offset_size",
    ],
    "assumptions": [
        "buffers are shorter than 2^64 bytes; usize is 64 bits",
        "struct fields hold values of their Rust types (u16 in 0..65535 etc.); bitflags fields hold only defined bits "
        "(MacStyle, FsSelection are built with from_bits_truncate)",
        "head: the round trip is stated for magic_number = 0x5F0F3CF5 (the reader rejects anything else)",
        "OS/2: the round trip is stated for well-nested version tails (v5 => v2-4 => v1, v2-4 => v0), read with the "
        "table length that was written; it holds up to the declared version normalisation",
    ],
    "rule": "cases per kind (see harness/src/bin/c15.rs gen): struct values with every field drawn from {min, max, 0, "
            "near-min, near-max, small, uniform} of its type -> write -> read (9 straight-line layouts, maxp, OS/2 incl. "
            "ill-nested tails, hmtx, loca owned writer incl. odd / > 131070 offsets, owned name tables incl. strings "
            "straddling 64K, CFF integers around every range edge, offset arrays around 2^8/2^16/2^24/2^32, owned INDEX "
            "incl. off_size boundaries, simple glyphs incl. deltas beyond i16, U24, Pascal strings, CFF2 INDEX counts around "
            "65536); bytes (valid, then 40% truncated / bit-flipped / boundary-overwritten / extended) -> parse -> write -> "
            "parse for head, hhea, maxp, OS/2, hmtx, name, post header, records, INDEX, glyphs; the corpus adds every "
            "head/hhea/maxp/name/post/OS/2/hmtx/loca/glyf/CFF table of every fixture font (parse-write-parse). "
            "distinct = distinct input lines; histogram = kind x result class",
    "gen_timeout": 1200,
    "avm_timeout": 1200,
}
