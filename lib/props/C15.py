from props import COMMON_TRUSTED

SPEC = {
    "translators": ["tr_reader.py", "tr_layouts.py", "tr_cffdict.py", "tr_glyf.py", "tr_glyfcmap.py"],
    "harness": "c15",
    "cases": {"quick": 15000, "thorough": 400000},
    "profiles": {"quick": ["debug", "release"], "thorough": ["debug", "release"]},
    "trusted_base": COMMON_TRUSTED + [
        "translators/tr_layouts.py (extracts, independently, the ordered reader items and the ordered writer items of "
        "head, hhea, maxp (+v1 subtable), LongHorMetric, NameRecord, LangTagRecord, TableRecord, BoundingBox, post header, "
        "OS/2 base + four version tails with their conditions and the writer's version choice, the constants of "
        "Operand::write / Op::read / offset_size / U24Be::write / PascalString::write / the short-loca guards, into "
        "coq/Gen/TableLayouts.v on every run; compatibility of the two sides is decided in Coq, not in the translator) "
        "and tr_reader.py",
        "translators/tr_cffdict.py (regenerates coq/Gen/CffDictTables.v on every run from src/cff.rs and src/cff/cff2.rs: the "
        "discriminants of enum Operator, the value -> variant table of Operator::try_from, the operand constants and the six "
        "DictDefault tables (cff and cff2 Top/Font/Private), the operator sets and the Encoding bound of integer_to_offset, "
        "MAX_OPERANDS of both modules, END_OF_FLOAT_FLAG, the width test of Operator::write, the Real prefix byte; compares the "
        "text of Dict::read_dep, Dict::write_dep, Operator::write, DictDelta::get, Dict::iter, op2, ok_real, the Operand / Real type "
        "definitions with their derived PartialEq, ReadCtxt::read_until_nibble and bytes_available against the text the hand "
        "model Model/CffDict.v was written after and reports BROKEN when one of them changed)",
        "hand-written models (Model/Tables.v, Model/Cff.v) of the variable-size structure around the layouts: "
        "maxp version split, hmtx, loca (owned writer), name (borrowed and owned writers, placeholders resolved), "
        "OS/2 assembly, SimpleGlyph read/write, CFF operands, offset arrays and INDEX; Model/CffDict.v: Op::read with operator "
        "validation, integer_to_offset, Dict::read_dep, Dict::write_dep with DictDelta, Operator::write, Operand::write "
        "(tables generated, control flow hand-written and shape-checked by tr_cffdict.py); tied to the code only by correspondence",
        "ocaml/c15/drv.ml: the DICT judge's reference encoder/decoder, default tables, offset operators and operator list, "
        "written by hand after Adobe Technical Note #5176 and the OpenType CFF2 chapter (independent of the extracted model)",
        "verif-hooks feature of allsorts (src/verif.rs -> cff::verif_hooks): add-only wrappers around the private "
        "Op::read, owned INDEX writers, serialise_offset_array, offset_size, Real bytes accessor/constructor, Dict from entries",
        "translators/tr_glyfcmap.py (on every run: compares the text of Glyph::{read, write}, CompositeGlyphs::read, "
        "CompositeGlyph::{read, write}, CompositeGlyphComponent::{read_dep, write}, CompositeGlyphArgument::{read_dep, write}, "
        "CompositeGlyphScale::write, CompositeGlyphFlag::read_from, Cmap::read, CmapSubtable::{read, write, to_owned}, "
        "Format4Calculator, SequentialMapGroup::write, owned::Cmap::write, owned::CmapSubtable::write with the text "
        "Model/Composite.v and Model/CmapWrite.v were written after; checks independently that the composite writer ORs "
        "WE_HAVE_INSTRUCTIONS over all components, that every cmap length field is a placeholder back-patched with a checked "
        "conversion of its own width (format 0: a checked conversion), that no sub-table writer contains a truncating cast and "
        "that the owned sub-table writer is the borrowed one up to array writes; regenerates coq/Gen/GlyfCmapShapes.v: flag bits, "
        "mask, accessor bits, per format number / length width / count width, the segment limit, the reader's format 0 / 4 "
        "constants) and translators/tr_glyf.py (C16's, regenerates coq/Gen/GlyfConsts.v used by Model/Composite.v)",
        "hand-written models Model/Composite.v (composite glyph reader and writer on the C14 reader model) and "
        "Model/CmapWrite.v (borrowed = owned sub-table writer for formats 0, 4, 6, 10, 12, to_owned, Format4Calculator, "
        "owned::Cmap::write, whole-table read) over the C06 reader model Model/Cmap.v and the C08 byte encoders of "
        "Model/CmapSubset.v; tied to the code by tr_glyfcmap.py's shape pins and by correspondence",
        "ocaml/c15/drv.ml: the composite glyph and cmap judges' reference decoders / encoders over raw byte strings, written "
        "by hand after the OpenType glyf (composite glyph description) and cmap chapters (independent of the extracted model)",
        "ocaml/c15/drv.ml: the item variation store judge's reference decoders (ItemVariationData row length with LONG_WORDS, "
        "VariationRegionList, ItemVariationStore with Offset32 fields, CFF2 VariationStore data = uint16 length + store), written by hand "
        "after the OpenType 'Font Variations Common Table Formats' and CFF2 chapters; these structures have no Coq model - the judge alone decides",
        "hand-written model Model/CffSets.v (cvt, CustomCharset with read_range_array, FDSelect, CustomEncoding, function by function "
        "after src/tables.rs and src/cff.rs) tied to the code by correspondence only (kinds set / setw of harness/src/c15_sets.rs); the "
        "judge of these kinds in ocaml/c15/drv.ml (covering test, count limits) is written independently of the model",
    ],
    "assumptions": [
        "charsets: the range formats round-trip for range lists whose last range, and no earlier one, completes n_glyphs - 1 glyphs "
        "(`covers`; proved to be exactly where read_range_array's loop stops); ranges after that point are written but not read back "
        "(C15_charset_ranges_excess_dropped), the writer does not check it",
        "buffers are shorter than 2^64 bytes; usize is 64 bits",
        "struct fields hold values of their Rust types (u16 in 0..65535 etc.); bitflags fields hold only defined bits "
        "(MacStyle, FsSelection are built with from_bits_truncate)",
        "head: the round trip is stated for magic_number = 0x5F0F3CF5 (the reader rejects anything else)",
        "OS/2: the round trip is stated for well-nested version tails (v5 => v2-4 => v1, v2-4 => v0), read with the "
        "table length that was written; it holds up to the declared version normalisation",
        "CFF DICTs: the round trip is stated for readable-normal dicts (operators TryFrom knows, i32 operands, reals whose first "
        "0xF nibble is in their last byte, at most max_operands operands, Offset exactly where integer_to_offset puts it) and is "
        "proved to cover everything Dict::read_dep can return; written DICTs are shorter than 2^64 bytes; DictDelta holds only "
        "Offset operands (DictDelta::push asserts it)",
        "composite glyphs: the round trip is stated for the domain cg_ok (defined flag bits, argument variant and scale form as "
        "the flags select, values of their types, MORE_COMPONENTS exactly on the non-last components, at least one component), "
        "which is proved to contain everything Glyph::read can return; the writer does not normalise or check these",
        "cmap: the round trip is stated for well-formed sub-table values (fields within their widths, the four segment arrays "
        "of format 4 equally long, 256 entries in format 0), proved to contain everything CmapSubtable::read can return except "
        "format 2; exactness and refusal of the length / count fields are stated for ALL values; sub-tables are written into a "
        "fresh buffer (start = 0); Format4Calculator's f64 log2 is Z.log2 on 1..32767",
    ],
    "rule": "cvt / CFF charsets / FDSelect / custom encodings, 8% of the cases (harness/src/c15_sets.rs): half as bytes -> read -> write -> read (well-formed tables with trailing bytes, wrong format bytes, declared glyph counts off by a few, odd cvt lengths, 1 in 5 mutated), half as values -> write -> read (i16 edges; SIDs at u16 edges; range lists covering n_glyphs - 1 exactly, with an overshooting last range, with nLeft at 255 / 65535; FDSelect format 3 with 65534..70000 ranges written as a run). item variation stores, 8% of the cases (harness/src/c15_ivs.rs; judged, no Coq model): ItemVariationData bytes (LONG_WORDS set in half of them, wordDeltaCount 0 / = / > regionIndexCount, itemCount 0 / 1 / 256.., no regions, region indexes at u16 edges, the packed wordDeltaCount overwritten with 0x8000 / 0x8001 / 0x7fff / 0xffff), VariationRegionList bytes (0 axes, 0 regions, reserved bit), ItemVariationStore bytes in the writer's layout and with gaps / sub-tables first / shared sub-tables, 1 in 4 mutated or with trailing bytes -> read -> write (fresh buffer and behind 3 other bytes) -> read -> write; the CFF2 table of the fixture fonts -> read -> write -> the VariationStore data located through the written header and Top DICT. Other kinds: "
            "cases per kind (see harness/src/bin/c15.rs gen): struct values with every field drawn from {min, max, 0, "
            "near-min, near-max, small, uniform} of its type -> write -> read (9 straight-line layouts, maxp, OS/2 incl. "
            "ill-nested tails, hmtx, loca owned writer incl. odd / > 131070 offsets, owned name tables incl. strings "
            "straddling 64K, CFF integers around every range edge, offset arrays around 2^8/2^16/2^24/2^32, owned INDEX "
            "incl. off_size boundaries, simple glyphs incl. deltas beyond i16, U24, Pascal strings, CFF2 INDEX counts around "
            "65536; CFF DICTs of the six kinds (cff/cff2 Top, Font, Private), 30% of the cases: dicts built from operator/operand "
            "structure — every operator TryFrom accepts, operand counts 0..=max+1 with empty lists, proper prefixes and extensions of "
            "the defaults frequent, default and default+-1 values, integers at every encoding edge (+-107/108, +-1131/1132, +-32768, "
            "i32 extremes) in shortest and longer forms, well-formed and odd reals, offset operators with 0/1/2 (predefined "
            "encodings), blend-style sequences followed by an operator without operands — as bytes -> read -> write -> read -> write "
            "(25% malformed: reserved bytes, truncated operands, undefined operators, too many operands, random bytes) and as "
            "entries (+ delta) -> write -> read, incl. non-normal operand kinds and ill-formed reals); bytes (valid, then 40% truncated / bit-flipped / boundary-overwritten / extended) -> parse -> write -> "
            "parse for head, hhea, maxp, OS/2, hmtx, name, post header, records, INDEX, glyphs; the corpus adds every "
            "head/hhea/maxp/name/post/OS/2/hmtx/loca/glyf/CFF table of every fixture font (parse-write-parse) and every Top, Font "
            "and Private DICT of the 11 CFF/CFF2 fixture fonts (live from the fixture and as bytes through the model). "
            "COMPOSITE GLYPHS AND CMAP, 24% of the cases: cg (composite value -> Glyph::write -> Glyph::read with 3 trailing bytes): "
            "0..9 components (mostly 1-3), WE_HAVE_INSTRUCTIONS on no / the first / a middle / the last / random / all-but-last / all "
            "components, every argument form (u8, i8, u16, i16) at its edges, the three scale forms and several scale flags at once, "
            "random optional flags, instructions empty / 1-5 bytes / 65535 / 65536 / around 65535 (rare), 1 in 8 values outside the "
            "round-trip domain (variant against flags, wrong scale form, random MORE_COMPONENTS); glyphrd composite branch: hand-assembled "
            "bytes with reserved flag bits and any negative contour count, trailing bytes, 1/3 mutated; cms (sub-table value -> borrowed "
            "or owned write -> read): format 0 (256 entries, sometimes 0/1/255/257/300), format 4 (0..1200 segments incl. none and the "
            "powers of two +-1, segments ending at 0xFFFF, idRangeOffset 0 / into the array / odd / beyond, 1 in 15 with unequal arrays; "
            "1 in 40 straddling the 65535/65536-byte limit: 2 segments + 32751 / 32752 / 32818 ids, 8189 / 8190 segments), format 6 "
            "(0..12 entries; 32762 / 32763 / 65535 / 65536), format 10, format 12 (0..6 groups; 5461 / 5462 / 65535-70000 rare); cmsrd "
            "(bytes of such values with free search fields, reservedPad, altered length fields, format 2, 1/3 mutated -> read -> write -> "
            "read -> write, borrowed and owned path); cmapv (owned table: 0..3 records, 1..300 equal records, 65536 records); cmaprd "
            "(written tables with shared / reordered / out-of-range offsets, version and numTables altered, 1/4 mutated); the corpus "
            "adds the boundary shapes, a 65536-group format 12 table, the repaired defect, and every composite glyph (14872), cmap "
            "sub-table (132, both writers) and cmap table of the 76 fixture fonts. "
            "distinct = distinct input lines; histogram = kind x result class",
    "gen_timeout": 1200,
    "avm_timeout": 1200,
}
