from props import COMMON_TRUSTED

SPEC = {
    "translators": ["tr_reader.py", "tr_layouts.py", "tr_cffdict.py", "tr_glyf.py", "tr_glyfcmap.py"],
    "harness": "c15",
    "cases": {"quick": 15000, "thorough": 400000},
    "profiles": {"quick": ["debug", "release"], "thorough": ["debug", "release"]},
    "trusted_base": COMMON_TRUSTED + [
        "translators/tr_layouts.py (extracts, independently, the ordered reader items and the ordered writer items of "
        "head, hhea, maxp (+v1 subtable), LongHorMetric, NameRecord, LangTagRecord, TableRecord, BoundingBox, post header, "
        "OS/2 base + four version tails with their conditions and the writer's version choice, the constants of "
        "Operand::write / Op::read / offset_size / U24Be::write / PascalString::write / the short-loca guards, into "
        "coq/Gen/TableLayouts.v on every run; compatibility of the two sides is decided in Coq, not in the translator) "
        "and tr_reader.py",
        "translators/tr_cffdict.py (regenerates coq/Gen/CffDictTables.v on every run from src/cff.rs and src/cff/cff2.rs: the "
        "discriminants of enum Operator, the value -> variant table of Operator::try_from, the operand constants and the six "
        "DictDefault tables (cff and cff2 Top/Font/Private), the operator sets and the Encoding bound of integer_to_offset, "
        "MAX_OPERANDS of both modules, END_OF_FLOAT_FLAG, the width test of Operator::write, the Real prefix byte; compares the "
        "text of Dict::read_dep, Dict::write_dep, Operator::write, DictDelta::get, Dict::iter, op2, ok_real, the Operand / Real type "
        "definitions with their derived PartialEq, ReadCtxt::read_until_nibble and bytes_available against the text the hand "
        "model Model/CffDict.v was written after and reports BROKEN when one of them changed)",
        "hand-written models (Model/Tables.v, Model/Cff.v) of the variable-size structure around the layouts: "
        "maxp version split, hmtx, loca (owned writer), name (borrowed and owned writers, placeholders resolved), "
        "OS/2 assembly, SimpleGlyph read/write, CFF operands, offset arrays and INDEX; Model/CffDict.v: Op::read with operator "
        "validation, integer_to_offset, Dict::read_dep, Dict::write_dep with DictDelta, Operator::write, Operand::write "
        "(tables generated, control flow hand-written and shape-checked by tr_cffdict.py); tied to the code only by correspondence",
        "ocaml/c15/drv.ml: the DICT judge's reference encoder/decoder, default tables, offset operators and operator list, "
        "written by hand after Adobe Technical Note #5176 and the OpenType CFF2 chapter (independent of the extracted model)",
        "verif-hooks feature of allsorts (src/verif.rs -> cff::verif_hooks): add-only wrappers around the private "
        "Op::read, owned INDEX writers, serialise_offset_array, offset_size, Real bytes accessor/constructor, Dict from entries",
    ],
    "assumptions": [
        "buffers are shorter than 2^64 bytes; usize is 64 bits",
        "struct fields hold values of their Rust types (u16 in 0..65535 etc.); bitflags fields hold only defined bits "
        "(MacStyle, FsSelection are built with from_bits_truncate)",
        "head: the round trip is stated for magic_number = 0x5F0F3CF5 (the reader rejects anything else)",
        "OS/2: the round trip is stated for well-nested version tails (v5 => v2-4 => v1, v2-4 => v0), read with the "
        "table length that was written; it holds up to the declared version normalisation",
        "CFF DICTs: the round trip is stated for readable-normal dicts (operators TryFrom knows, i32 operands, reals whose first "
        "0xF nibble is in their last byte, at most max_operands operands, Offset exactly where integer_to_offset puts it) and is "
        "proved to cover everything Dict::read_dep can return; written DICTs are shorter than 2^64 bytes; DictDelta holds only "
        "Offset operands (DictDelta::push asserts it)",
    ],
    "rule": "cases per kind (see harness/src/bin/c15.rs gen): struct values with every field drawn from {min, max, 0, "
            "near-min, near-max, small, uniform} of its type -> write -> read (9 straight-line layouts, maxp, OS/2 incl. "
            "ill-nested tails, hmtx, loca owned writer incl. odd / > 131070 offsets, owned name tables incl. strings "
            "straddling 64K, CFF integers around every range edge, offset arrays around 2^8/2^16/2^24/2^32, owned INDEX "
            "incl. off_size boundaries, simple glyphs incl. deltas beyond i16, U24, Pascal strings, CFF2 INDEX counts around "
            "65536; CFF DICTs of the six kinds (cff/cff2 Top, Font, Private), 30% of the cases: dicts built from operator/operand "
            "structure — every operator TryFrom accepts, operand counts 0..=max+1 with empty lists, proper prefixes and extensions of "
            "the defaults frequent, default and default+-1 values, integers at every encoding edge (+-107/108, +-1131/1132, +-32768, "
            "i32 extremes) in shortest and longer forms, well-formed and odd reals, offset operators with 0/1/2 (predefined "
            "encodings), blend-style sequences followed by an operator without operands — as bytes -> read -> write -> read -> write "
            "(25% malformed: reserved bytes, truncated operands, undefined operators, too many operands, random bytes) and as "
            "entries (+ delta) -> write -> read, incl. non-normal operand kinds and ill-formed reals); bytes (valid, then 40% truncated / bit-flipped / boundary-overwritten / extended) -> parse -> write -> "
            "parse for head, hhea, maxp, OS/2, hmtx, name, post header, records, INDEX, glyphs; the corpus adds every "
            "head/hhea/maxp/name/post/OS/2/hmtx/loca/glyf/CFF table of every fixture font (parse-write-parse) and every Top, Font "
            "and Private DICT of the 11 CFF/CFF2 fixture fonts (live from the fixture and as bytes through the model). "
            "distinct = distinct input lines; histogram = kind x result class",
    "gen_timeout": 1200,
    "avm_timeout": 1200,
}
