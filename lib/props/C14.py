from props import COMMON_TRUSTED

SPEC = {
    "translators": ["tr_reader.py"],
    "harness": "c14",
    "cases": {"quick": 30000, "thorough": 600000},
    "profiles": {"quick": ["debug", "release"], "thorough": ["debug", "release"]},
    "trusted_base": COMMON_TRUSTED + [
        "translators/tr_reader.py (regenerates coq/Gen/ReaderPrims.v from src/binary/read.rs, src/size.rs on every run)",
        "modelled, not verified: Rust slice semantics (get_unchecked on an in-range index reads that byte), "
        "the trait plumbing that routes ctxt.read::<T>() to check_avail(T::SIZE)+read_unchecked (shape-checked by the translator)",
    ],
    "assumptions": [
        "buffers are shorter than 2^64 bytes (Rust slices are at most isize::MAX long)",
        "operation arguments are usize values; element types are non-empty tuples of the nine primitives",
    ],
    "rule": "random programs of 1-24 reader operations (21 kinds, 13 element types) over random/sorted/"
            "constant buffers of 0-300 bytes, arguments drawn from in-range, boundary (len+-2) and "
            "usize-extreme classes; distinct = distinct (buffer, program) inputs; a case is counted "
            "non-trivial when distinct (identical inputs are counted once); class histogram keys are the "
            "set of result kinds (ok/er/pa/oo) the program produced",
}
