from props import COMMON_TRUSTED

SPEC = {
    "translators": ["tr_reader.py", "tr_depsize.py"],
    "harness": "c14",
    "cases": {"quick": 30000, "thorough": 600000},
    "profiles": {"quick": ["debug", "release"], "thorough": ["debug", "release"]},
    "trusted_base": COMMON_TRUSTED + [
        "translators/tr_reader.py (regenerates coq/Gen/ReaderPrims.v from src/binary/read.rs, src/size.rs on every run)",
        "translators/tr_depsize.py (regenerates coq/Gen/DepSizes.v: the size(args) body of every impl ReadFixedSizeDep "
        "of the crate as a typed expression; fails closed on a body that is not a plain expression)",
        "coq/Model/DepSize.v lib_spec_size: the encoded size of the 17 record types, written from the table layouts "
        "(tied to the records' read_dep by correspondence)",
        "modelled, not verified: Rust slice semantics (get_unchecked on an in-range index reads that byte), "
        "the trait plumbing that routes ctxt.read::<T>() to check_avail(T::SIZE)+read_unchecked (shape-checked by the translator)",
    ],
    "assumptions": [
        "buffers are shorter than 2^64 bytes (Rust slices are at most isize::MAX long)",
        "usize-typed count arguments of dependent records (class2Count, markClassCount) are driven up to 65535 and the "
        "theorem is stated for counts whose record size is a usize (every caller widens a uint16); value formats are "
        "<= 0xFF (ValueFormat::read rejects the rest, the field is private)",
        "operation arguments are usize values; element types are non-empty tuples of the nine primitives; "
        "dependent records are sequences of 0-8 primitives read field by field",
        "read_to_vec is driven on arrays of at most 4096 declared items and Debug on at most 1000 (both walk / "
        "preallocate the declared length, which for records of size 0 is not bounded by the data)",
    ],
    "rule": "random programs of reader operations (43 kinds: the 21 core ones + scope data/read/read_dep, cached "
            "reads, ReadScopeOwned, dependent arrays with records of 0-8 fields, ReadArrayCow borrowed/owned, "
            "Debug, CheckIndex, size_hint of iter_res; 15 element types) over random/sorted/constant buffers of "
            "0-300 bytes obtained from ReadScope::new or ReadBuf; half of the programs start with a structured "
            "part (scope moves in range / to the end / past the end / usize-extreme with cached, direct and "
            "cursor reads after every move; a dependent array of declared length 0, 1, few, what fits, one more, "
            "huge, looked at through every public view; cow views of a plain or strided array), arguments drawn "
            "from in-range, boundary (len+-2) and usize-extreme classes; after every operation the positions "
            "(cursor remaining/base, scope base/length) are compared; iterators are pulled at most 1000 times so "
            "that an endless one is a wrong count, not a hang; distinct = distinct (buffer, program) inputs; a "
            "one case in eight is of kind `lib` (M|lib|Type|args|n|buflen): one of the crate's 17 ReadFixedSizeDep record "
            "types, arguments swept over the extremes of their type (u16 counts 0, 1, the halves / thirds / quarters / "
            "fifths / sixths of 65536 +-1, 65535; all 256 value formats), n in 0, 1, 2, few, many, buffer exactly / one "
            "byte short / one record short / longer: size(args), the bytes one read_dep consumes, k read_dep in a row, "
            "the cursor advance and len() of read_array_dep, read_item(0 / n-1), iter_res are reported and judged "
            "against each other (model-independent) and against the model; "
            "case is counted non-trivial when distinct; class histogram keys are the set of result kinds "
            "(ok/er/pa/oo) + the operation groups exercised (C cache, S scope reads, D dependent arrays, W cow)",
}
