from props import COMMON_TRUSTED

SPEC = {
    "translators": ["tr_macroman.py", "tr_cmap.py"],
    "harness": "c08",
    "cases": {"quick": 9000, "thorough": 120000},
    "profiles": {"quick": ["debug", "release"], "thorough": ["debug", "release"]},
    "gen_timeout": 900,
    "trusted_base": COMMON_TRUSTED + [
        "coq/Model/Cmap.v (C06): the reader the statements are phrased with; its conformance to OpenType is C06",
        "translators/tr_macroman.py, tr_cmap.py (regenerate the Mac Roman tables and the sub-table preference "
        "cascade used by the selection and Mac Roman steps of the model)",
        "modelled by hand after the Rust and tied by correspondence only: MappingsToKeep::{new, update_to_new_ids}, "
        "Character::{new, existence}, legacy_symbol_char_code_to_unicode, CmapSubtableFormat4Segment::{new, add}, "
        "owned::CmapSubtableFormat4::{from_mappings, add_segment}, owned::CmapSubtableFormat12::from_mappings, "
        "owned::EncodingRecord::from_mappings, owned::Cmap::write, owned::CmapSubtable::write (formats 0/4/12), "
        "Format4Calculator, SubsetGlyf::new_id, create_cmap_table",
        "the verif-hooks module of src/tables/cmap/subset.rs (cmap_from_pairs, mappings_to_keep) used by the unit "
        "level cases; the end-to-end cases use only the public API (subset::subset, subset::prince::subset)",
    ],
    "assumptions": [
        "glyph id lists contain no duplicates (documented requirement of subset()); new glyph id = position in the list",
        "new glyph ids are at most 65534 in the format 12 theorem (a font has at most 65535 glyphs); the format 4 and "
        "format 0 theorems need no such bound",
        "Big5 source sub-tables (encoding_rs data) are not modelled in Coq: the end-to-end cases judge them at the Font level "
        "(Font::lookup_glyph_index of the source font vs. of the subset font; the Big5 conversions are allsorts::big5 / encoding_rs, trusted)",
        "format 2 sources: a two byte code whose first byte is not a lead byte (subHeaderKey 0) and a lead byte used as a one byte "
        "code are not codes of the table (mappings_fn does not enumerate them, map_glyph answers with the sub-header 0 entry of the "
        "low byte): they count as unmapped",
        "search_range/entry_selector of Format4Calculator are computed with f64 log2 in the Rust and with Z.log2 in the "
        "model (agreement for 1..8191 segments is covered by the correspondence; the reader ignores both fields)",
        "usize is 64 bits",
    ],
    "rule": "generated inputs of three kinds: B = kept mappings (plane, (kind, code, new glyph id) list: Mac Roman / BMP / "
            "astral / symbol code sets with runs of 1/3/4/5.. consecutive codes, gaps of exactly 1..6, codes at "
            "0xFFFD..0xFFFF, consecutive and non-consecutive glyph id runs, ids up to 65535, 0..600 pairs, rarely "
            "thousands of segments or a 32000 entry glyphIdArray to reach the length limits) through the verif hook to "
            "EncodingRecord::from_mappings + owned::Cmap::write, judged by reading the written table back with the C06 "
            "model: every kept code maps to its glyph and the table enumerates nothing else; K = a synthesised source cmap "
            "table (formats 0/4/6/12 rendered from a mapping, and format 2 - one byte codes in sub-header 0, two byte codes under lead byte "
            "sub-headers with ranges wider than their codes (holes = glyphIndexArray 0 before/between/after), idDelta 0 / 0xFFFF / random / ON "
            "PURPOSE the id of a glyph of the font, shared sub-headers - under the Unicode, Symbol, Mac Roman and Big5 (3,4) encodings; Big5 "
            "code sets (ASCII + clusters under 1..4 lead bytes, only codes that round-trip through allsorts::big5) also as format 4; optional "
            "second record, 10% damaged), OS/2, target, glyph id "
            "list through MappingsToKeep::new; E = a synthetic TrueType font (n empty glyphs) around such a cmap, "
            "subset::subset or subset::prince::subset(.., MacRoman, ..) with random glyph id lists (sometimes > 256 ids), "
            "the output cmap read back by allsorts' reader and by the C06 model and judged model-independently "
            "(cmap_agrees: every character the source font maps to a retained glyph maps to its new id, everything else, "
            "every enumerated pair of the output and for a Mac Roman target all 241 Mac Roman characters included, to 0; the probes "
            "contain the holes of the source ranges; for Unicode and Big5 sources additionally at the Font level: Font::lookup_glyph_index "
            "of the source font against that of the subset font for every probe and, Big5, for every character a map_glyph sweep of the "
            "source (all 16 bit codes) or of the output sub-table finds mapped). "
            "distinct = distinct input lines; histogram keys = kind/plane or target/size class/output format",
    "search_factor": 2,
}
