from props import COMMON_TRUSTED

SPEC = {
    "translators": ["tr_layout.py", "tr_reader.py"],
    "harness": "c04",
    "cases": {"quick": 20000, "thorough": 600000},
    "profiles": {"quick": ["debug", "release"], "thorough": ["debug", "release"]},
    "trusted_base": COMMON_TRUSTED + [
        "translators/tr_layout.py (regenerates coq/Gen/LayoutConsts.v from src/context.rs, src/gdef.rs, src/gsub.rs, "
        "src/layout.rs, src/tag.rs on every run: lookup-flag masks, GDEF class literals, recursion limit, "
        "special-cased tags, FEATURE_MASKS, GSUB lookup-type table; fails closed when LookupFlag getters, "
        "get_ignore_marks, from_lookup_flag, match_glyph or glyph_is_mark_in_set change shape; feature variations: "
        "version / format numbers of LayoutTable::read, FeatureVariations::read, FeatureTableSubstitutionTable::read, "
        "ConditionTable::read, and the shape of FeatureVariationsOwned::matches (its three match arms), "
        "FeatureVariationRecord::{matches, condition_set, feature_table_substitution} (NULL-offset cases), "
        "ConditionSet / ConditionSetTable / ConditionTable::matches (conjunction, inclusive range), "
        "FeatureTableSubstitution::substitute (early break), find_langsys_feature, feature_variations, apply_rvrn, "
        "build_lookups_custom, get_lookups_cache_index and the prologues of gsub_apply_custom / gsub_apply_default)",
        "translators/tr_reader.py (C01's: regenerates coq/Gen/ReaderPrims.v, the unchecked read primitives the byte-level "
        "feature-variations model reads through)",
        "harness/src/layoutser.rs + harness/src/bin/c04.rs: serialiser of the abstract lookup program to GSUB/GDEF bytes "
        "(the byte parser of layout.rs is exercised through it, not modelled)",
        "the hand-written Gallina model coq/Model/Layout.v, coq/Model/Gsub.v, coq/Model/FeatureVariations.v (tied to the "
        "Rust by the correspondence runs); for feature variations additionally the reader model coq/Model/Reader.v (C01)",
        "ocaml/c04/drv.ml: split_font / plain_of_shape, the OCaml image of coq/Model/FontShape.v (a Font::shape case is rewritten into "
        "the gsub::apply case with the tables the font carries); harness/src/bin/c04.rs: synthetic font (cmap, head, maxp, hhea, hmtx stubs)",
        "ocaml/c04/drv.ml: the feature-variations oracle (decodes the FeatureVariations bytes with OCaml integers, "
        "recomputes the first matching record and substitutes the abstract feature list before asking the model for glyphs)",
    ],
    "assumptions": [
        "Coverage format 1 glyph arrays are strictly increasing (std binary_search is modelled as 'position of the glyph')",
        "glyph vectors hold fewer than 2^62 elements (Rust Vec capacity); sequence tables hold fewer than 65536 glyphs",
        "Features::Custom, and Features::Mask for scripts of ScriptType::Default without the frac bit (the FRAC split "
        "and the script-specific shapers are not modelled); with a variation tuple: GSUB 1.1 FeatureVariations on bytes",
        "feature variations: a table is a byte string shorter than 2^32 (table_ok; only C04_fv_substituted_list_exists "
        "uses it); the lookup-cache key FeatureTableSubstitution::cache_key only memoises (one gsub::apply per cache)",
        "GDEF tables are readable (a mark glyph set coverage with start > end makes GDEFTable::read fail)",
    ],
    "rule": "random abstract GSUB programs: 1-5 lookups of types 1,2,3,4,5,6,8 (every subtable format, coverage "
            "formats 1/2 incl. malformed ranges and out-of-step indices, classdef formats 1/2, 0-3 subtables, "
            "extension wrapping, lookup flags over all low-bit combinations x mark attachment types x mark "
            "filtering sets, nested lookup records incl. out-of-range and contextual-in-contextual), GDEF with "
            "glyph classes / mark attachment classes / 0-3 mark sets (or none), script/langsys/feature lists; glyph "
            "strings of 0-12 glyphs assembled from instances of the program's own rules interleaved with random "
            "glyphs; contextual lookups get overlapping subtables whose rule instances carry glyphs the lookup skips between input glyphs; feature tables share (non-idempotent) lookups; run gsub::apply(Features::Custom), gsub::apply(Features::Mask) or gsub_apply_lookup with whole-run / sub-window / "
            "out-of-range windows; half of the gsub::apply runs carry a version 1.1 header, a FeatureVariations table "
            "(0-4 records; condition sets universal / empty / 1-3 conditions over a grid of F2Dot14 values with the "
            "tuple's value exactly on the lower / upper boundary, one off, nested and overlapping regions, min > max, "
            "axis beyond the tuple, unknown formats, dangling offsets, shared tables; substitutions NULL / version "
            "1 / unsupported versions / dangling, records sorted, reversed, unsorted, duplicated, naming unused and "
            "out-of-range feature indices, dangling alternate tables; bad major version, record count off by one, "
            "truncation; header minor 0/1/2, NULL and out-of-table featureVariationsOffset) and a tuple of 0-3 grid "
            "values (or None); half of the gsub::apply cases (Custom and Mask, with and without feature variations) additionally go through Font::shape on a synthetic font built from the case: GPOS absent / 1.0 with NULL lists / 1.0 with empty lists / unreadable, the case's GDEF in the font / absent / unreadable, kern absent / empty / unreadable, kerning flag, stray morx; the harness also calls gsub::apply directly on the same bytes; distinct = distinct input lines; class histogram = run kind (A, M or L<lookup "
            "type>) [+fv:<oracle decision: none, null, subst0, substN, error, unreadable>] / result (changed, same, err, panic); Font::shape cases S:gpos<-+?>:gdef<-+?>/result[! = an error was returned]",
}
