from props import COMMON_TRUSTED

SPEC = {
    "translators": ["tr_layout.py"],
    "harness": "c04",
    "cases": {"quick": 20000, "thorough": 600000},
    "profiles": {"quick": ["debug", "release"], "thorough": ["debug", "release"]},
    "trusted_base": COMMON_TRUSTED + [
        "translators/tr_layout.py (regenerates coq/Gen/LayoutConsts.v from src/context.rs, src/gdef.rs, src/gsub.rs, "
        "src/layout.rs, src/tag.rs on every run: lookup-flag masks, GDEF class literals, recursion limit, "
        "special-cased tags, FEATURE_MASKS, GSUB lookup-type table; fails closed when LookupFlag getters, "
        "get_ignore_marks, from_lookup_flag, match_glyph or glyph_is_mark_in_set change shape)",
        "harness/src/layoutser.rs + harness/src/bin/c04.rs: serialiser of the abstract lookup program to GSUB/GDEF bytes "
        "(the byte parser of layout.rs is exercised through it, not modelled)",
        "the hand-written Gallina model coq/Model/Layout.v, coq/Model/Gsub.v (tied to the Rust by the correspondence runs)",
    ],
    "assumptions": [
        "Coverage format 1 glyph arrays are strictly increasing (std binary_search is modelled as 'position of the glyph')",
        "glyph vectors hold fewer than 2^62 elements (Rust Vec capacity); sequence tables hold fewer than 65536 glyphs",
        "tuple = None (no feature variations); Features::Custom, and Features::Mask for scripts of ScriptType::Default "
        "without the frac bit (the FRAC split and the script-specific shapers are not modelled)",
        "GDEF tables are readable (a mark glyph set coverage with start > end makes GDEFTable::read fail)",
    ],
    "rule": "random abstract GSUB programs: 1-5 lookups of types 1,2,3,4,5,6,8 (every subtable format, coverage "
            "formats 1/2 incl. malformed ranges and out-of-step indices, classdef formats 1/2, 0-3 subtables, "
            "extension wrapping, lookup flags over all low-bit combinations x mark attachment types x mark "
            "filtering sets, nested lookup records incl. out-of-range and contextual-in-contextual), GDEF with "
            "glyph classes / mark attachment classes / 0-3 mark sets (or none), script/langsys/feature lists; glyph "
            "strings of 0-12 glyphs assembled from instances of the program's own rules interleaved with random "
            "glyphs; contextual lookups get overlapping subtables whose rule instances carry glyphs the lookup skips between input glyphs; feature tables share (non-idempotent) lookups; run gsub::apply(Features::Custom), gsub::apply(Features::Mask) or gsub_apply_lookup with whole-run / sub-window / "
            "out-of-range windows; distinct = distinct input lines; class histogram = run kind (A or L<lookup "
            "type>) / result (changed, same, err, panic)",
}
