from props import COMMON_TRUSTED

SPEC = {
    "translators": ["tr_reader.py", "tr_container.py"],
    "harness": "c01",
    "cases": {"quick": 100000, "thorough": 1500000},
    "profiles": {"quick": ["debug", "release"], "thorough": ["debug", "release"]},
    "gen_timeout": 2400,
    "search_factor": 2,
    "trusted_base": COMMON_TRUSTED + [
        "the totality theorems are about the models of the reader (C14), containers (C10), fvar/avar normalisation "
        "(C13), text preprocessing (C17) ... each tied to the code by its own property's correspondence check",
        "for code without a model the check is a crash search only: structured mutation of 22 fixture fonts x all "
        "public entry points, child processes with an 8 GiB address-space limit and a 120 s per-case watchdog, per-entry CPU-time budget, allocator-level "
        "tracking of the largest single request; plus the synthetic inputs of eleven other harnesses (see rule)",
    ],
    "assumptions": [
        "a crash = panic (any thread-unwinding panic inside a public entry point), abort (allocation failure under the "
        "address-space limit, stack overflow, any signal) or an entry running longer than 4 s + size/100 ms of CPU time (1.5 s + size/50 ms for a synthetic component input)",
        "known findings are identified by (source file, enclosing function, panic kind), robust to line shifts",
    ],
    "rule": "each case = fixture font + seeded structured mutation (1-12 edits: u16/u32 field overwrite with boundary "
            "values biased to table headers, bit flip, byte set, truncation at table boundaries +-k, directory entry "
            "swap, table removal), then every public entry point: FontData::read, table_provider(0,1,7), table access, "
            "cmap map_glyph/mappings_fn, glyf/CFF/CFF2 outlines, subset, prince::subset, whole_font, instance, Font::new, "
            "lookup_glyph_index, glyph_names, advances, lookup_glyph_image, axis_names, shape (Latin, Devanagari, Arabic). "
            "1 case in 4 instead takes a structured synthetic input from the generator of another property's harness "
            "(C04 whole-run GSUB programs incl. nested-lookup cycles, C05 GPOS/kern programs, C06 cmap sub-tables of every format, "
            "C07 subset graphs, C09 whole_font table sets, C10 containers, C11 WOFF2 transformed glyf/hmtx, C12 gvar/HVAR/MVAR data, "
            "C13 fvar/avar, C16 glyf outlines, C18 Type 2 charstrings) and runs that harness' driver of the crate on it, observing "
            "only totality: any panic raised inside the crate, CPU time, largest allocation request. "
            "distinct = distinct input lines; histogram = pristine/mutated x fixture, or component",
}
