from props import COMMON_TRUSTED

SPEC = {
    "translators": ["tr_reader.py", "tr_container.py"],
    "harness": "c01",
    "cases": {"quick": 40000, "thorough": 1500000},
    "profiles": {"quick": ["debug", "release"], "thorough": ["debug", "release"]},
    "gen_timeout": 2400,
    "search_factor": 2,
    "trusted_base": COMMON_TRUSTED + [
        "the totality theorems are about the models of the reader (C14), containers (C10), fvar/avar normalisation "
        "(C13), text preprocessing (C17) ... each tied to the code by its own property's correspondence check",
        "for code without a model the check is a crash search only: structured mutation of 22 fixture fonts x all "
        "public entry points, child processes with a 6 GiB address-space limit, per-entry wall-clock budget",
    ],
    "assumptions": [
        "a crash = panic (any thread-unwinding panic inside a public entry point), abort (allocation failure under the "
        "address-space limit, stack overflow, any signal) or an entry running longer than 4 s + size/100 ms",
        "known findings are identified by (source file, enclosing function, panic kind), robust to line shifts",
    ],
    "rule": "each case = fixture font + seeded structured mutation (1-12 edits: u16/u32 field overwrite with boundary "
            "values biased to table headers, bit flip, byte set, truncation at table boundaries +-k, directory entry "
            "swap, table removal), then every public entry point: FontData::read, table_provider(0,1,7), table access, "
            "cmap map_glyph/mappings_fn, glyf/CFF/CFF2 outlines, subset, prince::subset, whole_font, instance, Font::new, "
            "lookup_glyph_index, glyph_names, advances, lookup_glyph_image, axis_names, shape (Latin, Devanagari, Arabic). "
            "distinct = distinct (fixture, mutation seed); histogram = pristine/mutated x fixture",
}
