from props import COMMON_TRUSTED

SPEC = {
    "translators": ["tr_reader.py"],
    "harness": "c13",
    "cases": {"quick": 40000, "thorough": 1000000},
    "profiles": {"quick": ["debug", "release"], "thorough": ["debug", "release"]},
    "trusted_base": COMMON_TRUSTED + [
        "hand-written model coq/Model/Normalize.v of Fixed/F2Dot14 arithmetic, default_normalize, "
        "SegmentMap::normalize and FvarTable::normalize, tied to the code by correspondence only "
        "(no translator: the code is control flow, not tables)",
        "translators/tr_reader.py (regenerates coq/Gen/ReaderPrims.v, the unchecked reader primitives under Model/Reader.v on which "
        "the fvar byte-level model Model/FvarTable.v is built, from src/binary/read.rs on every run)",
        "hand-written model coq/Model/FvarTable.v of FvarTable::read / axes / axis_count / normalize / owned_tuple and of the tuple "
        "variations::instance returns, tied to the code by correspondence only",
        "modelled, not verified: avar byte parsing (the harness synthesises well-formed avar tables); the other tables "
        "variations::instance reads (the harness supplies a complete small TrueType variable font around the fvar under test)",
    ],
    "assumptions": [
        "axis fields and user coordinates are i32 raw 16.16 values; avar pairs are i16 raw 2.14 values",
        "theorems about the linear map assume min <= default <= max (the property's quantifier); range and totality hold for any axis record",
    ],
    "rule": "random fvar tables with 0-9 axes (sorted triples; degenerate min=default / default=max / all equal; "
            "unsorted malformed; extreme i32 spans), optional avar (valid monotone maps with -1/0/+1 knots, empty, "
            "arbitrary invalid, wrong number of maps), coordinates at min/default/max +-2 raw units, at avar knots "
            "+-1, uniformly inside the range, extreme; tuple length wrong on purpose (one short, one long, empty, two long). "
            "Five kinds: N canonical fvar through FvarTable::normalize (40%); F any fvar layout through "
            "FvarTable::normalize (30%): axesArrayOffset 16..63, axisSize 20..79 (mostly > 20), 0-6 instance records of "
            "any size, trailing bytes, and in 1/8 one header field off (version, offset < 16, axisSize < 20, axisCount "
            "+-1/+2) or the table cut short; I the same tables inside a complete TrueType variable font through "
            "variations::instance (15%, registered and private axis tags); S SegmentMap::normalize on raw 16.16 "
            "values at / next to knots and anywhere (10%); O FvarTable::owned_tuple with right / off-by-one lengths (5%). "
            "In 1/6 of the F and I cases the user tuple is named instance k of the table itself (records holding "
            "min / default / max / midpoint of each axis, with or without postScriptNameID, sometimes too small or one "
            "past the last). "
            "distinct = distinct input lines; histogram key = kind-layout class-avar?-#axes-result kind",
}
