from props import COMMON_TRUSTED

SPEC = {
    "translators": [],
    "harness": "c13",
    "cases": {"quick": 40000, "thorough": 1000000},
    "profiles": {"quick": ["debug", "release"], "thorough": ["debug", "release"]},
    "trusted_base": COMMON_TRUSTED + [
        "hand-written model coq/Model/Normalize.v of Fixed/F2Dot14 arithmetic, default_normalize, "
        "SegmentMap::normalize and FvarTable::normalize, tied to the code by correspondence only "
        "(no translator: the code is control flow, not tables)",
        "modelled, not verified: fvar/avar byte parsing (the harness synthesises well-formed tables; parsing is C01/C15 territory)",
    ],
    "assumptions": [
        "axis fields and user coordinates are i32 raw 16.16 values; avar pairs are i16 raw 2.14 values",
        "theorems about the linear map assume min <= default <= max (the property's quantifier); range and totality hold for any axis record",
    ],
    "rule": "random fvar tables with 0-5 axes (sorted triples; degenerate min=default / default=max / all equal; "
            "unsorted malformed; extreme i32 spans), optional avar (valid monotone maps with -1/0/+1 knots, empty, "
            "arbitrary invalid, wrong number of maps), coordinates at min/default/max +-2 raw units, at avar knots "
            "+-1, uniformly inside the range, extreme; tuple length sometimes wrong. distinct = distinct input lines; "
            "histogram key = avar?-#axes-result kind",
}
