from props import COMMON_TRUSTED

SPEC = {
    "translators": ["tr_variation.py", "tr_type2.py", "tr_cff2inst.py"],
    "harness": "c12",
    "cases": {"quick": 30000, "thorough": 600000},
    "profiles": {"quick": ["debug", "release"], "thorough": ["debug", "release"]},
    "trusted_base": COMMON_TRUSTED + [
        "translators/tr_variation.py (regenerates coq/Gen/VariationConsts.v on every run: the flag/mask constants of "
        "src/tables/variable_fonts.rs, VAR_UPPER/VAR_LOWER/VAR_MASK and the body of is_var_table translated as an "
        "expression, the tags instance() builds or postpones, the value-tag -> field table of process_mvar, tag values from src/tag.rs)",
        "hand-written model coq/Model/Variation.v of calculate_scalar, scalar, determine_applicable, read_count, "
        "read_packed_point_numbers, packed_deltas::read, TupleVariationStore/TupleVariationHeader parsing, variation_data, "
        "glyph_deltas, infer_unreferenced_points, infer_contour, infer_delta, do_infer, apply_variations, the horizontal "
        "phantom points, htmx_from_phantom_points, apply_hvar, ItemVariationStore::adjustment, delta_set_impl, "
        "DeltaSetIndexMap::{read,entry}, add_delta_i16/u16, process_mvar - tied to the Rust by correspondence only",
        "exact rationals in the model vs f32 in the implementation: the f32 evaluation is NOT verified; it is compared with "
        "the exact value within a stated tolerance (2^-18 for scalars, 1/2 + 0.02 unit for rounded results, violation beyond 1 unit)",
        "modelled, not verified: parsing of ItemVariationStore / HVAR / MVAR / gvar headers / glyf (the harness builds the "
        "bytes from the structured input and the real parsers read them), composite bounding boxes only for un-scaled "
        "components with simple children, cvar, vertical phantom points, name/OS2/head flag updates, CFF2 Private DICT blends",
        "translators/tr_type2.py (property C18: constants, dispatch and number formulas of the charstring interpreter) and "
        "translators/tr_cff2inst.py (regenerates coq/Gen/Cff2InstConsts.v: `impl From<f32> for StackValue` translated as an "
        "expression, the integer arms of `impl WriteBinary for StackValue`, the joining operator of `impl From<f32> for Fixed`, "
        "the shape of `impl From<StackValue> for f32`)",
        "hand-written models coq/Model/Type2.v (charstring interpreter incl. cff2::blend, property C18) and "
        "coq/Model/Cff2Instance.v (StackValue conversion / encoding, CharStringInstancer::visit per operator): the walk of "
        "the instancer over a whole charstring (subroutine inlining, which operators are visited with which stack) is tied "
        "by correspondence only: every glyph of every instance is re-evaluated by the model and compared with the model's "
        "evaluation of the variable source charstring at the exact scalars (tolerance per coordinate 0.001 + k * (2^-15 + "
        "M * 2^-19) for the k-th coordinate of the glyph, M = largest coordinate (at least 512); violation beyond one unit more)",
    ],
    "assumptions": [
        "CFF2: every blended operand default + sum(scalar * delta) is inside the range of a charstring operand "
        "(|v| <= 32767; outside it the known finding cff2-operand-range applies); flex1 operands are not blended "
        "(its last operand's direction is a discontinuous function of them)",
        "F2Dot14 coordinates, deltas, point coordinates and metrics are in their integer ranges; glyphs have at most 65535 points",
        "the i16 arithmetic on phantom points (x_min - lsb, pp1 + advance) does not overflow (generated metrics are moderate); "
        "the glyf writer can represent the varied coordinates (consecutive points less than 32768 apart)",
        "default-instance theorem: every tuple variation has a peak with a non-zero coordinate on an axis where its region is "
        "well formed (always true without an intermediate region), and the glyph header's xMin is the minimum x of the outline",
    ],
    "rule": "each case is one of: calculate_scalar / region scalar at region edges +-1 F2Dot14 unit, peaks, zero, outside, "
            "malformed regions; read_count; packed point numbers and packed deltas with random run structure (byte/word/zero "
            "runs, run lengths up to 128/64, 1- and 2-byte counts, overflowing sums, truncation, bit flips, trailing bytes, "
            "requested count above/below the runs); do_infer; one region of explicit + inferred deltas on 0-3 contours over small "
            "grids (coincident coordinates), repeated / out-of-range point numbers, malformed contour end points; delta-set index "
            "maps of all 64 entry formats and both header formats; ItemVariationStore::adjustment incl. LONG_WORDS, bad region and "
            "row indices; is_var_table on known, random and bit-superset tags; add_delta_i16/u16; glyph_deltas on harness-built "
            "GlyphVariationData (shared/private/all points, embedded/shared peaks, intermediate regions, mangled bytes); "
            "variations::instance end to end on harness-built fonts (1-3 axes, simple/empty/composite glyphs, gvar, optional HVAR "
            "with/without index maps, optional MVAR, optional vhea) and on three fixture fonts, coordinates at default, axis ends, "
            "region edges +-1, outside the range, random; variations::instance end to end on harness-built variable CFF2 "
            "fonts (mode c2: 1-2 axes, 1-4 regions incl. intermediate masters and malformed ones, 1-3 ItemVariationData with "
            "0-3 regions, 1-2 Font DICTs with their own vsindex, explicit vsindex, global/local subroutines up to 2 levels, "
            "every path operator and hint operator with operands blended with probability 0/25/50/75/100 %, one blend per "
            "run of operands or split, defaults at the boundaries of the number encodings, 16.16 defaults and deltas, glyphs "
            "whose blended operands all have the same deltas, long contours, optional HVAR with/without maps, optional MVAR) "
            "and on the CFF2 fixture (mode c2f: axis minimum / default / maximum, outside, whole and half units, random), "
            "coordinates at default, strictly between masters, region edges +-1, peaks, outside; "
            "distinct = distinct input lines; histogram key = mode-result kind (c2/c2f: where the coordinates lie and which metrics tables exist)",
    "search_factor": 3,
}
