#!/usr/bin/env python3
"""Run /repo's test suite with the hook feature OFF and compare with /root/.vp/BASELINE.json:
every stable_pass test must pass. Names: allsorts::<test path> (integration tests: allsorts::<file>::<name>)."""
import json, re, subprocess, sys
b = json.load(open('/root/.vp/BASELINE.json'))
out = subprocess.run("cd /repo && cargo test --workspace --no-fail-fast --offline 2>&1", shell=True, capture_output=True, text=True).stdout
passed, failed = set(), set()
cur = None
for line in out.split('\n'):
    m = re.match(r"\s+Running (unittests )?(\S+)", line)
    if m:
        f = m.group(2)
        cur = None if m.group(1) else re.sub(r"\.rs$", "", f.split('/')[-1])
        continue
    if line.strip().startswith("Doc-tests"):
        cur = "DOC"
    m = re.match(r"test (\S+)(?: - .*)? \.\.\. (ok|FAILED)", line)
    if m and cur != "DOC":
        name = "allsorts::" + ((cur + "::") if cur else "") + m.group(1)
        (passed if m.group(2) == "ok" else failed).add(name)
missing = [t for t in b['stable_pass'] if t not in passed]
print("stable_pass: %d, passing now: %d of them; not passing: %d" % (len(b['stable_pass']), len(b['stable_pass']) - len(missing), len(missing)))
for t in missing[:20]:
    print("  NOT PASSING:", t, "(FAILED)" if t in failed else "(not run)")
sys.exit(1 if missing else 0)
