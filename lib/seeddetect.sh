#!/bin/bash
# lib/seeddetect.sh [seeded/<dir> ...] — (re)run the property's quick check on each seeded change:
# apply seeded/<id>/patch.diff to /repo, run ./check <prop>, revert; update meta.json's "check" field.
# Default: every directory under /verif/seeded.  /repo must be clean.
cd /verif
dirs="$@"; [ -n "$dirs" ] || dirs=$(ls -d seeded/*/)
for d in $dirs; do
  d=${d%/}; id=$(basename $d); P=${id%%-*}
  [ -f $d/patch.diff ] || continue
  if [ -n "$(git -C /repo status --porcelain --untracked-files=no)" ]; then echo "/repo not clean"; exit 1; fi
  if ! git -C /repo apply /verif/$d/patch.diff 2>/dev/null; then echo "$id: patch no longer applies to /repo HEAD"; continue; fi
  start=$(date +%s); ./check $P --tier quick > $d/check_patched.log 2>&1; rc=$?; end=$(date +%s)
  cp work/replay/$P-*.json $d/ 2>/dev/null
  git -C /repo checkout -- .
  python3 - $d $P $rc $((end-start)) <<'PY'
import json,sys
d,P,rc,secs=sys.argv[1:]
meta=json.load(open(d+'/meta.json'))
log=open(d+'/check_patched.log').read()
viol=[l for l in log.split('\n') if l.startswith('VIOLATION') or l.startswith('BROKEN')]
c=meta.get('check',{})
c.update({"cmd":"git -C /repo apply seeded/%s/patch.diff && ./check %s --tier quick && git -C /repo checkout -- ."%(d.split('/')[-1],P),
  "exit_patched":int(rc),"seconds":int(secs),"lines":viol[:4],
  "detected":rc=='1' and any(l.startswith('VIOLATION') for l in viol),
  "with_failing_input":any(l.startswith('VIOLATION') and 'no-failing-input-found' not in l for l in viol)})
meta['check']=c
json.dump(meta,open(d+'/meta.json','w'),indent=1)
print(d.split('/')[-1],'detected' if c['detected'] else 'MISSED','with failing input' if c['with_failing_input'] else '(no failing input)',viol[:1])
PY
done
