#!/bin/sh
# run every registered check's quick command; print one line per property
cd "$(dirname "$0")/.."
for f in lib/manifest/C*.json; do
  p=$(basename $f .json)
  out=$(./check $p --tier quick 2>&1); rc=$?
  echo "$p rc=$rc $(echo "$out" | grep -c KNOWN-FINDING) known | $(echo "$out" | grep "^$p:" | tail -1)"
  echo "$out" | grep "VIOLATION\|BROKEN" | head -3
done
