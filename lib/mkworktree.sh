#!/bin/sh
# lib/mkworktree.sh Cxx — private worktrees for building one property in isolation:
#   /tmp/wt/verif-Cxx (branch wt-Cxx of /verif) and /tmp/wt/repo-Cxx (branch wt-Cxx of /repo)
set -e
P=$1
mkdir -p /tmp/wt
git -C /verif worktree add -q -b wt-$P /tmp/wt/verif-$P HEAD
git -C /repo worktree add -q -b wt-$P /tmp/wt/repo-$P HEAD
cd /tmp/wt/verif-$P
sed -i "s#path = \"/repo\"#path = \"/tmp/wt/repo-$P\"#" harness/Cargo.toml
git update-index --assume-unchanged harness/Cargo.toml
echo "worktrees ready: /tmp/wt/verif-$P /tmp/wt/repo-$P (export VERIF_REPO=/tmp/wt/repo-$P)"
