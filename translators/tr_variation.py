#!/usr/bin/env python3
"""Translate the constants, the tag predicate and the tag tables of the variable-font instancing
code (property C12) into Gallina.

Read from $VERIF_REPO (default /repo):
  src/tables/variable_fonts.rs   flag / mask constants of the packed point numbers, packed deltas,
                                 tuple variation headers, item variation data, delta-set index maps
  src/variations.rs              VAR_UPPER / VAR_LOWER / VAR_MASK, the body of is_var_table (translated as an
                                 expression), the tags instance() adds itself or postpones, the
                                 value-tag -> field table of process_mvar
  src/tag.rs                     the values of the tags used

Output: coq/Gen/VariationConsts.v (data and one translated expression).  Exit 0 = parsed;
exit 2 = an anchor no longer parses (prints `tr_variation: BROKEN: why`).
The file is rewritten only when its content changes.
"""
import os, re, sys

REPO = os.environ.get("VERIF_REPO", "/repo")
HERE = os.path.dirname(os.path.abspath(__file__))
OUT = sys.argv[1] if len(sys.argv) > 1 else os.path.join(HERE, "..", "coq", "Gen", "VariationConsts.v")


class Broken(Exception):
    pass


def read(rel):
    p = os.path.join(REPO, rel)
    try:
        return open(p, encoding="utf-8").read()
    except OSError as e:
        raise Broken("cannot read %s: %s" % (rel, e))


def strip_comments(src):
    out, i, n = [], 0, len(src)
    while i < n:
        c = src[i]
        if src.startswith("//", i):
            j = src.find("\n", i)
            i = n if j < 0 else j
        elif src.startswith("/*", i):
            j = src.find("*/", i + 2)
            i = n if j < 0 else j + 2
        elif c == '"':
            j = i + 1
            while j < n and src[j] != '"':
                j += 2 if src[j] == "\\" else 1
            out.append(src[i:j + 1])
            i = j + 1
        else:
            out.append(c)
            i += 1
    return "".join(out)


def block_at(src, i, what):
    """text between the braces of the block opening at or after index i"""
    i = src.index("{", i)
    depth, j = 0, i
    while j < len(src):
        if src[j] == "{":
            depth += 1
        elif src[j] == "}":
            depth -= 1
            if depth == 0:
                return src[i + 1:j]
        j += 1
    raise Broken("unbalanced braces in %s" % what)


def int_lit(txt, what):
    t = txt.strip().replace("_", "")
    try:
        return int(t, 0)
    except ValueError:
        raise Broken("expected an integer literal in %s, got %r" % (what, txt.strip()[:40]))


# ---------------------------------------------------------------- constants of variable_fonts.rs

CONSTS = [
    # (Coq name, Rust name, expected type)
    ("SHARED_POINT_NUMBERS", "SHARED_POINT_NUMBERS", "u16"),
    ("COUNT_MASK", "COUNT_MASK", "u16"),
    ("POINTS_ARE_WORDS", "POINTS_ARE_WORDS", "u8"),
    ("POINT_RUN_COUNT_MASK", "POINT_RUN_COUNT_MASK", "u8"),
    ("DELTAS_ARE_ZERO", "DELTAS_ARE_ZERO", "u8"),
    ("DELTAS_ARE_WORDS", "DELTAS_ARE_WORDS", "u8"),
    ("DELTA_RUN_COUNT_MASK", "DELTA_RUN_COUNT_MASK", "u8"),
    ("EMBEDDED_PEAK_TUPLE", "EMBEDDED_PEAK_TUPLE", "u16"),
    ("INTERMEDIATE_REGION", "INTERMEDIATE_REGION", "u16"),
    ("PRIVATE_POINT_NUMBERS", "PRIVATE_POINT_NUMBERS", "u16"),
    ("TUPLE_INDEX_MASK", "TUPLE_INDEX_MASK", "u16"),
    ("LONG_WORDS", "LONG_WORDS", "u16"),
    ("WORD_DELTA_COUNT_MASK", "WORD_DELTA_COUNT_MASK", "u16"),
    ("INNER_INDEX_BIT_COUNT_MASK", "INNER_INDEX_BIT_COUNT_MASK", "u8"),
    ("MAP_ENTRY_SIZE_MASK", "MAP_ENTRY_SIZE_MASK", "u8"),
]


def tr_consts():
    src = strip_comments(read("src/tables/variable_fonts.rs"))
    out = []
    for coq, rust, ty in CONSTS:
        ms = re.findall(r"\bconst\s+%s\s*:\s*(\w+)\s*=\s*([^;]+);" % rust, src)
        if len(ms) != 1:
            raise Broken("expected exactly one `const %s` in variable_fonts.rs, found %d" % (rust, len(ms)))
        if ms[0][0] != ty:
            raise Broken("const %s has type %s, expected %s" % (rust, ms[0][0], ty))
        out.append((coq, int_lit(ms[0][1], "const " + rust)))
    # the run counts are stored minus one: `+ 1` after the mask
    if not re.search(r"control_byte\s*&\s*PointNumbers::POINT_RUN_COUNT_MASK\s*\)\s*\+\s*1", src):
        raise Broken("point run count is no longer `(control_byte & POINT_RUN_COUNT_MASK) + 1`")
    if not re.search(r"control_byte\s*&\s*DELTA_RUN_COUNT_MASK\s*\)\s*\+\s*1", src):
        raise Broken("delta run count is no longer `(control_byte & DELTA_RUN_COUNT_MASK) + 1`")
    return out


# ---------------------------------------------------------------- tags

def tag_values():
    src = strip_comments(read("src/tag.rs"))
    tags = {}
    for m in re.finditer(r'pub const (\w+)\s*:\s*u32\s*=\s*tag!\(b"((?:[^"\\]|\\.)*)"\);', src):
        raw = bytes(m.group(2), "utf-8").decode("unicode_escape").encode("latin-1")
        if len(raw) != 4:
            raise Broken("tag %s is not four bytes" % m.group(1))
        tags[m.group(1)] = int.from_bytes(raw, "big")
    if len(tags) < 50:
        raise Broken("src/tag.rs: too few tag constants parsed")
    return tags


# ---------------------------------------------------------------- is_var_table

class Expr:
    """tiny translator for the boolean/bitwise expression of is_var_table"""
    PREC = [("||",), ("&&",), ("==", "!="), ("|",), ("^",), ("&",)]

    def __init__(self, txt, names):
        self.toks = re.findall(r"\|\||&&|==|!=|[()&|^!]|[A-Za-z_][A-Za-z_0-9]*|0x[0-9A-Fa-f_]+|\d[\d_]*", txt)
        if "".join(self.toks) != re.sub(r"\s+", "", txt):
            raise Broken("is_var_table: unsupported token in %r" % txt.strip()[:80])
        self.i = 0
        self.names = names

    def peek(self):
        return self.toks[self.i] if self.i < len(self.toks) else None

    def parse(self, level=0):
        if level == len(self.PREC):
            return self.atom()
        lhs = self.parse(level + 1)
        while self.peek() in self.PREC[level]:
            op = self.toks[self.i]
            self.i += 1
            rhs = self.parse(level + 1)
            lhs = self.emit(op, lhs, rhs)
        return lhs

    def emit(self, op, a, b):
        (ta, ca), (tb, cb) = a, b
        if op in ("||", "&&"):
            if ta != "bool" or tb != "bool":
                raise Broken("is_var_table: %s on non-boolean operands" % op)
            return ("bool", "(%s %s %s)" % (ca, op, cb))
        if op in ("==", "!="):
            if ta != "int" or tb != "int":
                raise Broken("is_var_table: comparison of non-integers")
            e = "(%s =? %s)" % (ca, cb)
            return ("bool", e if op == "==" else "(negb %s)" % e)
        if ta != "int" or tb != "int":
            raise Broken("is_var_table: bit operator on non-integers")
        fn = {"&": "Z.land", "|": "Z.lor", "^": "Z.lxor"}[op]
        return ("int", "(%s %s %s)" % (fn, ca, cb))

    def atom(self):
        t = self.peek()
        if t is None:
            raise Broken("is_var_table: unexpected end of expression")
        self.i += 1
        if t == "(":
            e = self.parse(0)
            if self.peek() != ")":
                raise Broken("is_var_table: missing `)`")
            self.i += 1
            return e
        if t == "!":
            ty, c = self.atom()
            if ty != "bool":
                raise Broken("is_var_table: `!` on a non-boolean")
            return ("bool", "(negb %s)" % c)
        if re.fullmatch(r"0x[0-9A-Fa-f_]+|\d[\d_]*", t):
            return ("int", str(int_lit(t, "is_var_table")))
        if t in self.names:
            return ("int", t)
        raise Broken("is_var_table: unknown identifier %s" % t)


def tr_is_var(tags):
    src = strip_comments(read("src/variations.rs"))
    consts = []
    for name in ("VAR_UPPER", "VAR_LOWER"):
        m = re.search(r'const %s\s*:\s*u32\s*=\s*tag!\(b"((?:[^"\\]|\\.)*)"\);' % name, src)
        if not m:
            raise Broken("cannot find const %s" % name)
        raw = bytes(m.group(1), "utf-8").decode("unicode_escape").encode("latin-1")
        if len(raw) != 4:
            raise Broken("%s is not four bytes" % name)
        consts.append((name, int.from_bytes(raw, "big")))
    m = re.search(r"const VAR_MASK\s*:\s*u32\s*=\s*([^;]+);", src)
    names = ["tag", "VAR_UPPER", "VAR_LOWER"]
    if m:
        consts.append(("VAR_MASK", int_lit(m.group(1), "VAR_MASK")))
        names.append("VAR_MASK")
    m = re.search(r"fn is_var_table\s*\(\s*tag\s*:\s*u32\s*\)\s*->\s*bool\s*", src)
    if not m:
        raise Broken("cannot find fn is_var_table(tag: u32) -> bool")
    body = block_at(src, m.end() - 1, "is_var_table").strip()
    if ";" in body or "let " in body or "return" in body:
        raise Broken("is_var_table is no longer a single expression")
    e = Expr(body, names)
    ty, coq = e.parse(0)
    if e.peek() is not None or ty != "bool":
        raise Broken("is_var_table: trailing tokens / not boolean")

    # instance(): the filter over the provider's tags
    m = re.search(r"!\[\s*((?:tag::\w+\s*,?\s*)+)\]\s*\.contains\(tag\)\s*&&\s*!is_var_table\(\*tag\)\s*&&\s*!builder_tables\.contains\(tag\)", src)
    if not m:
        raise Broken("instance(): the copy filter `![..].contains(tag) && !is_var_table(*tag) && !builder_tables.contains(tag)` changed")
    postponed = re.findall(r"tag::(\w+)", m.group(1))
    inst = src[src.index("pub fn instance("):]
    inst = inst[:inst.index("fn typographic_subfamily_name")]
    added = re.findall(r"builder\s*\.add_table::<.*?>\(\s*tag::(\w+)", inst, re.S)
    if "add_head_table" not in inst or "add_glyf_table" not in inst:
        raise Broken("instance(): add_head_table / add_glyf_table no longer called")
    if len(added) < 6:
        raise Broken("instance(): fewer builder.add_table calls than expected")
    for t in postponed + added:
        if t not in tags:
            raise Broken("tag::%s not found in src/tag.rs" % t)
    return consts, coq, postponed, added


# ---------------------------------------------------------------- process_mvar

def tr_mvar(tags):
    src = strip_comments(read("src/variations.rs"))
    m = re.search(r"fn process_mvar\s*\(", src)
    if not m:
        raise Broken("cannot find fn process_mvar")
    body = block_at(src, m.end(), "process_mvar")
    m = re.search(r"match value_record\.value_tag\s*", body)
    if not m:
        raise Broken("process_mvar: `match value_record.value_tag` not found")
    arms_txt = block_at(body, m.end() - 1, "process_mvar match")
    rows, ignored = [], []
    i = 0
    pat_re = re.compile(r"\s*((?:tag::\w+\s*\|?\s*)+|_)\s*=>\s*")
    while i < len(arms_txt):
        mm = pat_re.match(arms_txt, i)
        if not mm:
            if arms_txt[i:].strip() == "":
                break
            raise Broken("process_mvar: cannot parse arm at %r" % arms_txt[i:i + 50])
        pats = re.findall(r"tag::(\w+)", mm.group(1))
        j = mm.end()
        if arms_txt[j] == "{":
            arm = block_at(arms_txt, j, "process_mvar arm")
            j = arms_txt.index("{", j) + len(arm) + 2
        else:
            k = arms_txt.index(",", j)
            arm = arms_txt[j:k]
            j = k
        while j < len(arms_txt) and arms_txt[j] in ", \t\r\n":
            j += 1
        i = j
        asg = re.findall(r"([\w.]+)\s*=\s*\n?\s*add_delta_(i16|u16)\(\s*([\w.]+)\s*,\s*delta\s*\)", arm)
        if not asg:
            if arm.strip() not in ("()", ""):
                raise Broken("process_mvar: arm for %s neither assigns via add_delta_* nor is `()`" % pats)
            ignored += pats
            continue
        if len(asg) != 1 or len(pats) != 1:
            raise Broken("process_mvar: arm for %s has an unexpected shape" % pats)
        guard = re.search(r"if let Some\((\w+)\)\s*=\s*(?:&mut\s+)?([\w.]+)", arm)
        prefix = ""
        if guard:
            prefix = guard.group(2).replace(".", "_") + "_"
        tgt, kind, srcf = asg[0]
        if pats[0] not in tags:
            raise Broken("tag::%s not found in src/tag.rs" % pats[0])
        rows.append((pats[0], tags[pats[0]], prefix + tgt.replace(".", "_"), prefix + srcf.replace(".", "_"), kind))
    if len(rows) < 20:
        raise Broken("process_mvar: fewer than 20 value tags parsed")
    return rows, ignored


def main():
    consts = tr_consts()
    tags = tag_values()
    vconsts, isvar, postponed, added = tr_is_var(tags)
    rows, ignored = tr_mvar(tags)
    fields = []
    for r in rows:
        for f in (r[2], r[3]):
            if f not in fields:
                fields.append(f)
    o = []
    o.append("(* GENERATED by translators/tr_variation.py from the allsorts sources - do not edit.\n"
             "   Constants, tag predicate and tag tables of variable-font instancing (property C12). *)")
    o.append("From AV Require Import Base.Prelude Model.VariationFields.\n")
    o.append("(* src/tables/variable_fonts.rs *)")
    for n, v in consts:
        o.append("Definition %s : Z := %d." % (n, v))
    o.append("\n(* src/variations.rs *)")
    for n, v in vconsts:
        o.append("Definition %s : Z := %d." % (n, v))
    o.append("Definition is_var_table (tag : Z) : bool :=\n  %s.\n" % isvar)
    o.append("(* instance(): tags postponed by the copy filter (added by add_head_table / add_glyf_table) *)")
    o.append("Definition POSTPONED_TAGS : list Z := [%s]. (* %s *)" % ("; ".join(str(tags[t]) for t in postponed), " ".join(postponed)))
    o.append("(* instance(): tags of the tables it builds itself with builder.add_table, in source order *)")
    o.append("Definition BUILT_TAGS : list Z := [%s]. (* %s *)" % ("; ".join(str(tags[t]) for t in added), " ".join(added)))
    o.append("Definition TAG_HEAD : Z := %d.\nDefinition TAG_GLYF : Z := %d.\nDefinition TAG_LOCA : Z := %d.\n" % (
        tags["HEAD"], tags["GLYF"], tags["LOCA"]))
    o.append("(* process_mvar: value tag -> (field written, field read, signedness of the helper) *)")
    known = set(re.findall(r"\| F_(\w+)", open(os.path.join(HERE, "..", "coq", "Model", "VariationFields.v")).read()))
    for f in fields:
        if f not in known:
            raise Broken("process_mvar assigns to %s, which is not a field of Model/VariationFields.v" % f)
    o.append("Definition MVAR_TABLE : list (Z * (mvar_field * mvar_field * mvar_kind)) :=\n  [%s].\n" % ";\n   ".join(
        "(%d, (F_%s, F_%s, %s)) (* %s *)" % (v, t, s, "KI16" if k == "i16" else "KU16", n.lower()) for n, v, t, s, k in rows))
    o.append("(* value tags process_mvar names but deliberately ignores *)")
    o.append("Definition MVAR_IGNORED : list Z := [%s]. (* %s *)" % ("; ".join(str(tags[t]) for t in ignored if t in tags), " ".join(ignored)))
    txt = "\n".join(o) + "\n"
    try:
        old = open(OUT).read()
    except OSError:
        old = None
    if old != txt:
        os.makedirs(os.path.dirname(OUT), exist_ok=True)
        with open(OUT, "w") as f:
            f.write(txt)
    print("tr_variation: ok (%d constants, %d value tags)" % (len(consts) + len(vconsts), len(rows)))


if __name__ == "__main__":
    try:
        main()
    except Broken as e:
        print("tr_variation: BROKEN: %s" % e)
        sys.exit(2)
