#!/usr/bin/env python3
"""Translate the memoisation sites of allsorts (property C03) into Gallina.

Read from $VERIF_REPO (default /repo):
  src/gsub.rs          get_supported_features, get_lookups_cache_index (HashMap::entry sites: key tuple, the
                       parameters used in the Vacant arm), bitflags FeatureMask, FEATURE_MASKS, FeatureMask::from_tag
  src/binary/read.rs   ReadScope::read_cache / read_cache_state (key `self.base`, loader `self.read`)
  src/layout.rs        lookup_cache_gsub / lookup_cache_gpos (vector slot per lookup index), every read_cache call
                       (receiver must be `<scope>.offset(..)`: a suffix scope, for which the base determines the
                       data; the element type must match the cache field), LayoutCacheData's RefCell fields
  src/font.rs          every `self.<slot>.get_or_load(|| ..)` site (LazyLoad slots): the self fields the loader
                       depends on (locals resolved through `let`), which of them are assigned after construction,
                       and whether every function that assigns one also resets the slot; lookup_glyph_index
                       (GlyphCache key, loader parameters, parameters pinned by the early-return guard)
  src/tag.rs           the tag constants used by FEATURE_MASKS / from_tag
  src/lib.rs           DOTTED_CIRCLE
  src/**/*.rs          census of interior-mutable / global state outside the known sites

Output: coq/Gen/CacheSites.v (data only).  Exit 0 = parsed; exit 2 = an anchor no longer parses or a cache site
unknown to the model appeared (prints `tr_caches: BROKEN: why`).  The file is rewritten only when it changes.
"""
import glob, os, re, sys

REPO = os.environ.get("VERIF_REPO", "/repo")
HERE = os.path.dirname(os.path.abspath(__file__))
OUT = sys.argv[1] if len(sys.argv) > 1 else os.path.join(HERE, "..", "coq", "Gen", "CacheSites.v")

IDENT = r"[A-Za-z_][A-Za-z0-9_]*"


class Broken(Exception):
    pass


def read(rel):
    try:
        return open(os.path.join(REPO, rel), encoding="utf-8").read()
    except OSError as e:
        raise Broken("cannot read %s: %s" % (rel, e))


def strip_comments(src):
    out, i, n = [], 0, len(src)
    while i < n:
        c = src[i]
        if src.startswith("//", i):
            j = src.find("\n", i)
            i = n if j < 0 else j
        elif src.startswith("/*", i):
            j = src.find("*/", i + 2)
            i = n if j < 0 else j + 2
        elif c == '"':
            j = i + 1
            while j < n and src[j] != '"':
                j += 2 if src[j] == "\\" else 1
            out.append('""')
            i = j + 1
        elif c == "'":
            m = re.match(r"'(\\u\{[0-9A-Fa-f]+\}|\\.|[^'\\])'", src[i:])
            if m:
                out.append(m.group(0))
                i += len(m.group(0))
            else:
                out.append(c)
                i += 1
        else:
            out.append(c)
            i += 1
    return "".join(out)


def strip_tests(src):
    """drop `#[cfg(test)] mod tests { .. }`"""
    m = re.search(r"#\[cfg\(test\)\]\s*mod\s+\w+\s*\{", src)
    return src[:m.start()] if m else src


def balanced(src, i, open_c, close_c, what):
    """src[i] == open_c; returns index of the matching close_c"""
    if i >= len(src) or src[i] != open_c:
        raise Broken("expected %r in %s" % (open_c, what))
    depth, j = 0, i
    while j < len(src):
        c = src[j]
        if c == "'":
            m = re.match(r"'(\\u\{[0-9A-Fa-f]+\}|\\.|[^'\\])'", src[j:])
            if m:
                j += len(m.group(0))
                continue
        if c == open_c:
            depth += 1
        elif c == close_c:
            depth -= 1
            if depth == 0:
                return j
        j += 1
    raise Broken("unbalanced %s%s in %s" % (open_c, close_c, what))


def function(src, name, what=None):
    """(params: list of (name, type)), body) of `fn name`"""
    what = what or ("fn " + name)
    m = re.search(r"\bfn\s+%s\s*(<[^>(]*>)?\s*\(" % re.escape(name), src)
    if not m:
        raise Broken("cannot find %s" % what)
    i = src.index("(", m.end() - 1)
    j = balanced(src, i, "(", ")", what)
    ptxt = src[i + 1:j]
    params, depth, start = [], 0, 0
    parts = []
    for k, c in enumerate(ptxt):
        if c in "(<[":
            depth += 1
        elif c in ")>]":
            depth -= 1
        elif c == "," and depth == 0:
            parts.append(ptxt[start:k])
            start = k + 1
    parts.append(ptxt[start:])
    for p in parts:
        p = p.strip()
        if not p:
            continue
        if re.fullmatch(r"&?\s*(mut\s+)?self", p) or re.fullmatch(r"&'\w+\s+(mut\s+)?self", p):
            params.append(("self", p))
        else:
            mm = re.match(r"(mut\s+)?(%s)\s*:\s*(.*)" % IDENT, p, re.S)
            if not mm:
                raise Broken("cannot parse parameter %r of %s" % (p, what))
            params.append((mm.group(2), " ".join(mm.group(3).split())))
    k = src.index("{", j)
    # skip a where clause / return type: the body is the first `{` after the parameter list at depth 0
    e = balanced(src, k, "{", "}", what)
    return params, src[k + 1:e], m.start()


def idents(txt):
    return set(re.findall(r"\b%s\b" % IDENT, txt))


def used_params(txt, params):
    ids = idents(txt)
    return [p for p, _ in params if p in ids]


def is_object_param(name, ty):
    """the owner of the memo table (one per font table), not an argument of the memoised function"""
    return bool(re.match(r"&\s*(LayoutCache<|ReadCache<)", ty)) or bool(re.match(r"&\s*mut\s+ReadCache<", ty))


def entry_site(src, fname, rel):
    params, body, _ = function(src, fname)
    m = re.search(r"\.entry\s*\(", body)
    if not m:
        raise Broken("%s: no .entry( in %s" % (rel, fname))
    i = body.index("(", m.end() - 1)
    j = balanced(body, i, "(", ")", fname + " entry key")
    key_txt = body[i + 1:j]
    mv = re.search(r"Entry::Vacant\s*\(\s*\w+\s*\)\s*=>\s*\{", body)
    if not mv:
        raise Broken("%s: no Entry::Vacant arm in %s" % (rel, fname))
    k = body.index("{", mv.end() - 1)
    e = balanced(body, k, "{", "}", fname + " vacant arm")
    vac = body[k + 1:e]
    mo = re.search(r"Entry::Occupied\s*\(\s*\w+\s*\)\s*=>", body)
    if not mo:
        raise Broken("%s: no Entry::Occupied arm in %s" % (rel, fname))
    if len(re.findall(r"\.entry\s*\(", body)) != 1:
        raise Broken("%s: %s has more than one .entry( site" % (rel, fname))
    key = used_params(key_txt, params)
    loader = used_params(vac, params)
    const = [p for p, t in params if is_object_param(p, t)]
    return {"name": fname, "file": rel, "key": key, "loader": loader, "pinned": [], "const": const,
            "key_text": " ".join(key_txt.split()), "inj": key_components_injective(key_txt)}


def key_components_injective(key_txt):
    """every component of the key tuple is a parameter itself or an injective view of one:
    `p`, `p.bits()` (bitflags), `p.and_then(FeatureTableSubstitution::cache_key)` (the offset of the substitution
    table identifies it within one layout table).  `lang_tag_key(p)`-style wrappers are not."""
    t = key_txt.strip()
    if t.startswith("(") and t.endswith(")"):
        t = t[1:-1]
    comps, depth, start = [], 0, 0
    for k, c in enumerate(t):
        if c in "([<":
            depth += 1
        elif c in ")]>":
            depth -= 1
        elif c == "," and depth == 0:
            comps.append(t[start:k])
            start = k + 1
    comps.append(t[start:])
    for c in comps:
        c = "".join(c.split())
        if not c:
            continue
        if re.fullmatch(IDENT, c) or re.fullmatch(IDENT + r"\.bits\(\)", c) \
                or re.fullmatch(IDENT + r"\.and_then\(FeatureTableSubstitution::cache_key\)", c):
            continue
        return False
    return True


def parse_gsub_tables(gsub, tagsrc):
    tags = {m.group(1): m.group(2) for m in re.finditer(r"pub const (\w+): u32 = tag!\(b\"(....)\"\);", tagsrc)}

    def tagval(name):
        if name not in tags:
            raise Broken("tag::%s not found in src/tag.rs" % name)
        b = tags[name].encode("latin1")
        return (b[0] << 24) | (b[1] << 16) | (b[2] << 8) | b[3]

    m = re.search(r"pub struct FeatureMask\s*:\s*u64\s*\{", gsub)
    if not m:
        raise Broken("bitflags FeatureMask: u64 not found in src/gsub.rs")
    i = gsub.index("{", m.end() - 1)
    j = balanced(gsub, i, "{", "}", "FeatureMask")
    bits = {}
    for mm in re.finditer(r"const\s+(\w+)\s*=\s*1\s*<<\s*(\d+)\s*;", gsub[i:j]):
        bits[mm.group(1)] = 1 << int(mm.group(2))
    if len(bits) < 40 or len(set(bits.values())) != len(bits):
        raise Broken("FeatureMask: expected >= 40 distinct single-bit flags, got %d" % len(bits))
    if re.search(r"const\s+\w+\s*=(?!\s*1\s*<<)", gsub[i:j]):
        raise Broken("FeatureMask has a flag that is not `1 << n`")
    m = re.search(r"const FEATURE_MASKS\s*:\s*&\[\(FeatureMask,\s*u32\)\]\s*=\s*&\[", gsub)
    if not m:
        raise Broken("FEATURE_MASKS not found")
    i = gsub.index("[", m.end() - 1)
    j = balanced(gsub, i, "[", "]", "FEATURE_MASKS")
    table = []
    for mm in re.finditer(r"\(\s*FeatureMask::(\w+)\s*,\s*tag::(\w+)\s*\)", gsub[i:j]):
        if mm.group(1) not in bits:
            raise Broken("FEATURE_MASKS uses unknown flag %s" % mm.group(1))
        table.append((bits[mm.group(1)], tagval(mm.group(2)), mm.group(2)))
    if len(table) != gsub[i:j].count("FeatureMask::") or len(table) < 40:
        raise Broken("FEATURE_MASKS: %d entries parsed" % len(table))
    _, body, _ = function(gsub, "from_tag")
    arms = []
    for mm in re.finditer(r"tag::(\w+)\s*=>\s*FeatureMask::(\w+)\s*,", body):
        arms.append((tagval(mm.group(1)), bits[mm.group(2)], mm.group(1)))
    if not re.search(r"_\s*=>\s*FeatureMask::empty\(\)", body):
        raise Broken("from_tag: default arm is not FeatureMask::empty()")
    if len(arms) != body.count("=> FeatureMask::") - 1:
        raise Broken("from_tag: %d arms parsed of %d" % (len(arms), body.count("=> FeatureMask::") - 1))
    # the vrt2 -> vert fallback of build_lookups_default
    _, bld, _ = function(gsub, "build_lookups_default")
    mf = re.search(r"else if \*feature_tag == tag::(\w+)\s*\{\s*let vert_tag = tag::(\w+);", bld)
    if not mf:
        raise Broken("build_lookups_default: vrt2/vert fallback not found")
    return bits, table, arms, tagval(mf.group(1)), tagval(mf.group(2)), tagval("DFLT")


def lookup_vec_site(layout, fname):
    params, body, _ = function(layout, fname)
    mi = re.search(r"if let Some\(ref (\w+)\) = (\w+)\[(\w+)\]", body)
    if not mi:
        raise Broken("%s: slot test `if let Some(ref ..) = vec[index]` not found" % fname)
    idx = mi.group(3)
    ml = re.search(r"Rc::new\(self\.(read_lookup_\w+)\(([^)]*)\)\?\)", body)
    if not ml:
        raise Broken("%s: loader call not found" % fname)
    ms = re.search(r"%s\[(\w+)\]\s*=\s*Some\(" % re.escape(mi.group(2)), body)
    if not ms or ms.group(1) != idx:
        raise Broken("%s: the slot written is not the slot tested" % fname)
    loader = ["self"] + used_params(ml.group(2), params)
    const = ["self"] + [p for p, t in params if is_object_param(p, t)]
    return {"name": fname, "file": "src/layout.rs", "key": [idx], "loader": loader, "pinned": [], "const": const,
            "key_text": idx}


def read_cache_sites(readsrc, layout):
    sites = []
    for fname in ("read_cache", "read_cache_state"):
        params, body, _ = function(readsrc, fname)
        m = re.search(r"cache\.map\.entry\(([^)]*)\)", body)
        if not m or m.group(1).strip() != "self.base":
            raise Broken("%s: key is not self.base" % fname)
        mv = re.search(r"Entry::Vacant\(entry\)\s*=>\s*\{", body)
        k = body.index("{", mv.end() - 1)
        e = balanced(body, k, "{", "}", fname)
        vac = body[k + 1:e]
        if not re.search(r"self\.read(_dep)?::<T>\(", vac):
            raise Broken("%s: loader is not self.read::<T>()" % fname)
        loader = ["self.base", "self.data"] + [p for p in used_params(vac, params) if p not in ("self", "cache")]
        sites.append({"name": fname, "file": "src/binary/read.rs", "key": ["self.base"], "loader": loader,
                      "pinned": [], "const": [], "key_text": "self.base"})
    # call sites: every receiver is `<ident>\n.offset(<expr>)\n.read_cache::<T>(&mut cache.<field>.borrow_mut())`
    calls = list(re.finditer(r"\.read_cache::<(\w+)>\(", layout))
    ok = 0
    for c in calls:
        pre = layout[:c.start()]
        mrecv = re.search(r"\b(%s)\s*\.offset\(([^;]*)\)\s*$" % IDENT, pre[-300:], re.S)
        if not mrecv:
            raise Broken("read_cache call at offset %d: receiver is not <scope>.offset(..)" % c.start())
        j = balanced(layout, layout.index("(", c.end() - 1), "(", ")", "read_cache args")
        arg = " ".join(layout[c.end():j].split())
        want = {"Coverage": "coverages", "ClassDef": "classdefs"}.get(c.group(1))
        if want is None or arg != "&mut cache.%s.borrow_mut()" % want:
            raise Broken("read_cache::<%s>(%s): element type / cache field pairing not recognised" % (c.group(1), arg))
        ok += 1
    if "offset_length" in layout:
        raise Broken("src/layout.rs uses offset_length: a scope whose data is not a suffix of the table")
    for other in glob.glob(os.path.join(REPO, "src", "**", "*.rs"), recursive=True):
        rel = os.path.relpath(other, REPO)
        txt = strip_tests(strip_comments(open(other, encoding="utf-8").read()))
        n = len(re.findall(r"\.read_cache(_state)?::<", txt))
        if n and rel != "src/layout.rs":
            raise Broken("%s calls read_cache: not modelled" % rel)
    if re.search(r"\.read_cache_state::<", layout):
        raise Broken("read_cache_state has a caller: not modelled")
    # the suffix-scope argument pins self.data for read_cache; read_cache_state is unused
    sites[0]["pinned"] = ["self.data"]
    sites[1]["pinned"] = ["self.data", "state"]
    return sites, ok


def font_sites(font):
    mimpl = re.search(r"impl<T: FontTableProvider> Font<T>\s*\{", font)
    if not mimpl:
        raise Broken("impl Font not found")
    i = font.index("{", mimpl.end() - 1)
    j = balanced(font, i, "{", "}", "impl Font")
    impl = font[i + 1:j]
    # functions of the impl
    fns = []
    for m in re.finditer(r"\bfn\s+(%s)\s*(<[^>(]*>)?\s*\(" % IDENT, impl):
        try:
            params, body, _ = function(impl[m.start():], m.group(1))
        except Broken:
            continue
        fns.append((m.group(1), params, body))
    names = [n for n, _, _ in fns]
    bodies = {n: b for n, _, b in fns}
    # struct fields
    ms = re.search(r"pub struct Font<T: FontTableProvider>\s*\{", font)
    k = font.index("{", ms.end() - 1)
    e = balanced(font, k, "{", "}", "struct Font")
    fields = {}
    for m in re.finditer(r"(?:pub\s+)?(%s)\s*:\s*([^,\n]+),?" % IDENT, font[k + 1:e]):
        fields[m.group(1)] = m.group(2).strip()
    lazy = [f for f, t in fields.items() if t.startswith("LazyLoad<")]
    if len(lazy) < 8:
        raise Broken("expected >= 8 LazyLoad slots in Font, found %d" % len(lazy))
    # which fields are assigned after construction, and by which functions
    assigned = {}
    for n, _, b in fns:
        if n == "new":
            continue
        for m in re.finditer(r"\bself\.(%s)\s*(?:\|=|&=|\+=|-=|=(?!=))" % IDENT, b):
            assigned.setdefault(m.group(1), set()).add(n)

    def self_fields(expr, depth=0):
        out = set(re.findall(r"\bself\.(%s)\b(?!\s*\()" % IDENT, expr))
        if depth < 2:
            for m in re.finditer(r"\bself\.(%s)\s*\(" % IDENT, expr):
                if m.group(1) in bodies:
                    out |= self_fields(bodies[m.group(1)], depth + 1)
        return out & set(fields)

    sites = []
    nsites = 0
    for n, params, b in fns:
        for m in re.finditer(r"self\s*\.\s*(%s)\s*\.\s*get_or_load\s*\(" % IDENT, b):
            nsites += 1
            slot = m.group(1)
            if slot not in lazy:
                raise Broken("get_or_load on %s which is not a LazyLoad field" % slot)
            a = b.index("(", m.end() - 1)
            z = balanced(b, a, "(", ")", "%s get_or_load" % n)
            closure = b[a + 1:z]
            # locals bound before the site
            locs = {}
            for ml in re.finditer(r"\blet\s+(?:mut\s+)?(%s)\s*(?::[^=;]+)?=\s*([^;]+);" % IDENT, b[:m.start()]):
                locs[ml.group(1)] = ml.group(2)
            deps = set()
            free = idents(closure)
            for v in free:
                if v in locs:
                    deps |= self_fields(locs[v])
            deps |= self_fields(closure)
            deps.discard(slot)
            mutable = sorted(d for d in deps if d in assigned)
            pinned = []
            for d in mutable:
                # every function that assigns the field must reset the slot
                if all(re.search(r"\bself\.%s\s*=\s*LazyLoad::NotLoaded\s*;" % slot, bodies[fn]) for fn in assigned[d]):
                    pinned.append(d)
            const = sorted(d for d in deps if d not in assigned)
            sites.append({"name": "%s.%s" % (n, slot), "file": "src/font.rs", "key": [], "loader": sorted(deps),
                          "pinned": pinned, "const": const, "key_text": "()"})
    if nsites != len(re.findall(r"\.get_or_load\s*\(", impl)):
        raise Broken("a get_or_load call in impl Font is not of the form self.<slot>.get_or_load(")
    # a slot may be assigned only to reset it
    for slot in lazy:
        for fn in assigned.get(slot, ()):
            for m in re.finditer(r"\bself\.%s\s*=\s*([^;]+);" % slot, bodies[fn]):
                if m.group(1).strip() != "LazyLoad::NotLoaded":
                    raise Broken("%s assigns self.%s = %s" % (fn, slot, m.group(1).strip()))
    # GlyphCache
    params, body, _ = function(impl, "lookup_glyph_index")
    mg = re.search(r"self\.glyph_cache\.get\(([^)]*)\)\s*\.unwrap_or_else\(\|\|\s*\{", body)
    if not mg:
        raise Broken("lookup_glyph_index: self.glyph_cache.get(..).unwrap_or_else(|| {..}) not found")
    k = body.index("{", mg.end() - 1)
    e = balanced(body, k, "{", "}", "lookup_glyph_index loader")
    loader_txt = body[k + 1:e]
    mput = re.search(r"self\.glyph_cache\.put\(([^)]*)\)", loader_txt)
    if not mput:
        raise Broken("lookup_glyph_index: no glyph_cache.put in the loader")
    key = used_params(mg.group(1), params)
    if used_params(mput.group(1), params) != key:
        raise Broken("lookup_glyph_index: get and put use different key parameters")
    loader = used_params(loader_txt, params)
    pinned = []
    guard = body[:mg.start()]
    for mgd in re.finditer(r"\bif\s+(.*?)\{\s*return\s+self\.map_unicode_to_glyph\(", guard, re.S):
        cond = mgd.group(1)
        for p, _ in params:
            if re.search(r"\b%s\s*!=\s*[A-Z]\w*(::\w+)*" % p, cond) or re.search(r"\b%s\.is_(some|none)\(\)" % p, cond):
                pinned.append(p)
    sites.append({"name": "lookup_glyph_index.glyph_cache", "file": "src/font.rs", "key": key, "loader": loader,
                  "pinned": pinned, "const": ["self"], "key_text": mg.group(1).strip()})
    if len(re.findall(r"\bglyph_cache\.(get|put)\(", font)) != 2:
        raise Broken("glyph_cache is used outside lookup_glyph_index")
    return sites, lazy


def census(known_refcells):
    """interior-mutable / global state anywhere in src (non-test code)"""
    found = []
    for p in sorted(glob.glob(os.path.join(REPO, "src", "**", "*.rs"), recursive=True)):
        rel = os.path.relpath(p, REPO)
        txt = strip_tests(strip_comments(open(p, encoding="utf-8").read()))
        for m in re.finditer(r"\b(static\s+mut|thread_local!|lazy_static!|OnceCell|OnceLock|LazyLock|AtomicU\w+|AtomicI\w+|"
                             r"AtomicBool|Mutex<|RwLock<|UnsafeCell<|\bCell<)", txt):
            found.append((rel, m.group(1).strip()))
        for m in re.finditer(r"(%s)\s*:\s*RefCell<" % IDENT, txt):
            if (rel, m.group(1)) not in known_refcells:
                found.append((rel, "RefCell field %s" % m.group(1)))
    allowed = {("src/cff.rs", "lazy_static!")}
    bad = [f for f in found if f not in allowed]
    if bad:
        raise Broken("state outside the modelled caches: %s" % bad[:4])
    return [f for f in found if f in allowed]


def glyf_table_memo():
    """the lazily parsed GlyfTable (src/tables/glyf.rs, glyf/outline.rs): the model Model/GlyfTableMemo.v says that
    drawing writes to the table only through get_parsed_glyph (Present -> Parsed in place) and that the recursion
    is cut at depth > COMPOSITE_GLYPH_RECURSION_LIMIT.  Returns the limit."""
    glyf = strip_tests(strip_comments(read("src/tables/glyf.rs")))
    outline = strip_tests(strip_comments(read("src/tables/glyf/outline.rs")))
    m = re.search(r"const COMPOSITE_GLYPH_RECURSION_LIMIT\s*:\s*u8\s*=\s*(\d+)\s*;", glyf)
    if not m:
        raise Broken("COMPOSITE_GLYPH_RECURSION_LIMIT not found in src/tables/glyf.rs")
    limit = int(m.group(1))
    # the functions of glyf.rs that take the table / a record by &mut: the model knows these
    muts = re.findall(r"fn\s+(%s)\s*(?:<[^>(]*>)?\s*\(\s*&(?:'\w+\s+)?mut\s+self" % IDENT, glyf)
    want = ["records_mut", "push", "get_parsed_glyph", "take", "replace", "parse", "add"]
    if muts != want:
        raise Broken("src/tables/glyf.rs: &mut self functions are %s, the model knows %s" % (muts, want))
    _, gp, _ = function(glyf, "get_parsed_glyph")
    if not re.search(r"\.get_mut\(usize::from\(glyph_index\)\)\s*\.ok_or\(ParseError::BadIndex\)\?\s*;\s*record\.parse\(\)\?\s*;", gp):
        raise Broken("get_parsed_glyph is not `records.get_mut(i).ok_or(BadIndex)?; record.parse()?`")
    i = glyf.index("impl<'a> GlyfRecord<'a>")
    _, pr, _ = function(glyf[i:], "parse")
    if not re.search(r"if let GlyfRecord::Present \{ scope, \.\. \} = self \{\s*\*self = scope\.read::<Glyph<'_>>\(\)"
                     r"\.map\(GlyfRecord::Parsed\)\?\s*;\s*\}\s*Ok\(\(\)\)", pr):
        raise Broken("GlyfRecord::parse is not `if Present { *self = scope.read::<Glyph>().map(Parsed)? } Ok(())`")
    # outline.rs: the table is written only through get_parsed_glyph
    body = outline[:outline.index("mod contour")] if "mod contour" in outline else outline
    calls = sorted(set(re.findall(r"\bself\s*\.\s*(%s)\s*\(" % IDENT, body)))
    known = ["get_parsed_glyph", "visit_composite_glyph_outline", "visit_outline"]
    if calls != known:
        raise Broken("src/tables/glyf/outline.rs calls self.%s, the model knows %s" % (calls, known))
    for bad in (r"self\s*\.\s*records", r"records_mut", r"\bmem::", r"\.take\(", r"\.replace\(", r"\.push\(", r"\bunsafe\b"):
        if re.search(bad, body):
            raise Broken("src/tables/glyf/outline.rs: %s (drawing must not write to the table except by parsing a record)" % bad)
    _, vo, _ = function(body, "visit_outline")
    if not re.search(r"^\s*if depth > COMPOSITE_GLYPH_RECURSION_LIMIT \{\s*return Err\(ParseError::LimitExceeded\);\s*\}\s*"
                     r"let glyph = self\.get_parsed_glyph\(glyph_index\)\?;", vo):
        raise Broken("visit_outline does not start with the depth test and get_parsed_glyph(glyph_index)?")
    if not re.search(r"let glyphs = composite\.glyphs\.clone\(\);\s*self\.visit_composite_glyph_outline\(sink, &glyphs, transform, depth\)", vo):
        raise Broken("visit_outline: the composite arm is not `clone the component list, visit it`")
    _, vc, _ = function(body, "visit_composite_glyph_outline")
    if not re.search(r"self\.visit_outline\(\s*composite_glyph\.glyph_index,\s*sink,\s*transform \* component_transform,\s*depth \+ 1,?\s*\)\?;", vc):
        raise Broken("visit_composite_glyph_outline does not recurse with `depth + 1` and `?`")
    _, vv, _ = function(body[body.index("impl<'a> OutlineBuilder for GlyfTable<'a>"):], "visit")
    if not re.search(r"self\.visit_outline\(glyph_index, visitor, Transform2F::default\(\), 0\)", vv):
        raise Broken("OutlineBuilder::visit does not start visit_outline at depth 0")
    return limit


def coq_str_list(l):
    return "[" + "; ".join('"%s"' % x for x in l) + "]"


def main():
    gsub = strip_tests(strip_comments(read("src/gsub.rs")))
    layout = strip_tests(strip_comments(read("src/layout.rs")))
    readsrc = strip_tests(strip_comments(read("src/binary/read.rs")))
    font = strip_tests(strip_comments(read("src/font.rs")))
    tagsrc = read("src/tag.rs")
    lib = strip_comments(read("src/lib.rs"))

    sites = []
    sites.append(entry_site(gsub, "get_supported_features", "src/gsub.rs"))
    sites.append(entry_site(gsub, "get_lookups_cache_index", "src/gsub.rs"))
    n_entry = len(re.findall(r"\.entry\s*\(", gsub))
    if n_entry != 2:
        raise Broken("src/gsub.rs has %d .entry( sites, the model knows 2" % n_entry)
    rc_sites, n_calls = read_cache_sites(readsrc, layout)
    sites += rc_sites
    sites.append(lookup_vec_site(layout, "lookup_cache_gsub"))
    sites.append(lookup_vec_site(layout, "lookup_cache_gpos"))
    fsites, lazy = font_sites(font)
    sites += fsites

    # LayoutCacheData fields
    m = re.search(r"pub struct LayoutCacheData<T: LayoutTableType>\s*\{", layout)
    if not m:
        raise Broken("LayoutCacheData not found")
    i = layout.index("{", m.end() - 1)
    j = balanced(layout, i, "{", "}", "LayoutCacheData")
    cells = re.findall(r"(%s)\s*:\s*RefCell<" % IDENT, layout[i:j])
    want = ["coverages", "classdefs", "lookup_cache", "supported_features", "lookups_index", "cached_lookups"]
    if cells != want:
        raise Broken("LayoutCacheData RefCell fields are %s, the model knows %s" % (cells, want))
    # every borrow_mut in src is on one of those fields
    for p in sorted(glob.glob(os.path.join(REPO, "src", "**", "*.rs"), recursive=True)):
        txt = strip_tests(strip_comments(open(p, encoding="utf-8").read()))
        for mm in re.finditer(r"([\w.]+)\s*\.\s*borrow_mut\(\)", txt):
            f = mm.group(1).split(".")[-1]
            if f not in want:
                raise Broken("%s: borrow_mut on %s" % (os.path.relpath(p, REPO), mm.group(1)))
    # cached_lookups is only pushed to (indices stay valid) and starts with one empty list
    pushes = re.findall(r"cached_lookups\s*\.\s*borrow_mut\(\)\s*\.\s*(\w+)\(", gsub)
    if pushes != ["push"]:
        raise Broken("cached_lookups is mutated by %s (the model knows one push)" % pushes)
    if not re.search(r"let cached_lookups = RefCell::new\(vec!\[Vec::new\(\)\]\);", layout):
        raise Broken("new_layout_cache: cached_lookups does not start as vec![Vec::new()]")
    statics = census({("src/layout.rs", c) for c in want})

    bits, table, arms, vrt2, vert, dflt = parse_gsub_tables(gsub, tagsrc)
    mdc = re.search(r"pub const DOTTED_CIRCLE\s*:\s*char\s*=\s*'(?:\\u\{([0-9A-Fa-f]+)\}|([^'\\]))'\s*;", lib)
    if not mdc:
        raise Broken("DOTTED_CIRCLE not found in src/lib.rs")
    dc = int(mdc.group(1), 16) if mdc.group(1) else ord(mdc.group(2))
    # GlyphTableFlags
    mfl = re.search(r"pub struct GlyphTableFlags\s*:\s*u8\s*\{", font)
    i = font.index("{", mfl.end() - 1)
    j = balanced(font, i, "{", "}", "GlyphTableFlags")
    gtf = {mm.group(1): 1 << int(mm.group(2)) for mm in re.finditer(r"const\s+(\w+)\s*=\s*1\s*<<\s*(\d+)\s*;", font[i:j])}
    for need in ("GLYF", "CFF", "SVG", "SBIX", "CBDT", "EBDT", "CFF2"):
        if need not in gtf:
            raise Broken("GlyphTableFlags::%s not found" % need)
    mdef = re.search(r"let embedded_image_filter\s*=\s*([^;]+);", font)
    if not mdef:
        raise Broken("default embedded_image_filter not found in Font::new")
    dflt_filter = 0
    for mm in re.finditer(r"GlyphTableFlags::(\w+)", mdef.group(1)):
        dflt_filter |= gtf[mm.group(1)]
    # order in which embedded_images tests the tables
    _, eib, _ = function(font, "embedded_images")
    order = re.findall(r"tables_to_check\.contains\(GlyphTableFlags::(\w+)\)", eib)
    if order != ["SVG", "CBDT", "SBIX", "EBDT"]:
        raise Broken("embedded_images tests the tables in the order %s" % order)
    _, hgo, _ = function(font, "has_glyph_outlines")
    outl = 0
    for mm in re.finditer(r"GlyphTableFlags::(\w+)", hgo):
        outl |= gtf[mm.group(1)]

    glyf_limit = glyf_table_memo()

    o = []
    o.append("(* GENERATED by translators/tr_caches.py from the allsorts sources - do not edit. *)")
    o.append("From Coq Require Import ZArith List String.\nImport ListNotations.\nOpen Scope Z_scope.\nOpen Scope string_scope.\n")
    o.append("(* One memoisation site: the parameters (or self fields) the stored value is computed from (loader), the ones")
    o.append("   that form the key, the ones fixed on the cached path (pinned: by an early-return guard, by a reset of the")
    o.append("   slot in every function that assigns the field, or by the suffix-scope shape of every call site) and the")
    o.append("   ones that are the owner of the memo table / never assigned after construction (const); s_key_injective: every")
    o.append("   key component is the parameter itself or an injective view of it (not e.g. lang_tag_key(opt_lang_tag)). *)")
    o.append("Record site := mk_site { s_name : string; s_file : string; s_key : list string; s_loader : list string;")
    o.append("                         s_pinned : list string; s_const : list string; s_key_injective : bool }.\n")
    o.append("Definition sites : list site :=\n  [%s].\n" % ";\n   ".join(
        'mk_site "%s" "%s" %s %s %s %s %s' % (s["name"], s["file"], coq_str_list(s["key"]), coq_str_list(s["loader"]),
                                             coq_str_list(s["pinned"]), coq_str_list(s["const"]),
                                             "true" if s.get("inj", True) else "false") for s in sites))
    o.append("(* census: %d read_cache call sites (all on <scope>.offset(..) receivers), LazyLoad slots %s,\n   immutable lazy_static blocks: %s *)"
             % (n_calls, ", ".join(lazy), statics))
    o.append("Definition read_cache_call_sites : Z := %d.\n" % n_calls)
    o.append("Close Scope string_scope.\n")
    o.append("(* src/gsub.rs: FEATURE_MASKS as (mask bits, tag), in source order *)")
    o.append("Definition FEATURE_MASKS : list (Z * Z) :=\n  [%s].\n" % ";\n   ".join(
        "(%d, %d) (* %s *)" % t for t in table))
    o.append("(* FeatureMask::from_tag: (tag, mask bits); any other tag gives the empty mask *)")
    o.append("Definition FROM_TAG : list (Z * Z) :=\n  [%s].\n" % ";\n   ".join("(%d, %d) (* %s *)" % t for t in arms))
    o.append("Definition TAG_VRT2 : Z := %d.\nDefinition TAG_VERT : Z := %d.\nDefinition TAG_DFLT : Z := %d." % (vrt2, vert, dflt))
    o.append("Definition MASK_ALL : Z := %d.\n" % sum(bits.values()))
    o.append("(* src/lib.rs, src/font.rs *)")
    o.append("Definition DOTTED_CIRCLE : Z := %d." % dc)
    for k in ("GLYF", "CFF", "SVG", "SBIX", "CBDT", "EBDT", "CFF2"):
        o.append("Definition GTF_%s : Z := %d." % (k, gtf[k]))
    o.append("Definition DEFAULT_IMAGE_FILTER : Z := %d." % dflt_filter)
    o.append("Definition OUTLINE_FLAGS : Z := %d." % outl)
    o.append("(* src/tables/glyf.rs; visit_outline fails with LimitExceeded when depth > this *)")
    o.append("Definition COMPOSITE_GLYPH_RECURSION_LIMIT : Z := %d." % glyf_limit)
    txt = "\n".join(o) + "\n"
    out = os.path.normpath(OUT)
    old = open(out).read() if os.path.exists(out) else None
    if old != txt:
        os.makedirs(os.path.dirname(out), exist_ok=True)
        with open(out, "w") as f:
            f.write(txt)
    print("tr_caches: ok (%d sites, %d read_cache calls, %d feature masks, %d from_tag arms)"
          % (len(sites), n_calls, len(table), len(arms)))


if __name__ == "__main__":
    try:
        main()
    except Broken as e:
        print("tr_caches: BROKEN: %s" % e)
        sys.exit(2)
