#!/usr/bin/env python3
"""Translate the straight-line table readers and writers of allsorts into Gallina
(coq/Gen/TableLayouts.v), for property C15 (read is the inverse of write).

For every table T below, BOTH sides are extracted independently from the Rust text:

  * the read side: the ordered statements of `ReadBinary::read` / `ReadFrom` (which primitive is
    read into which variable, which variables end up in the struct, `ctxt.check(x == K)?` at the
    place where it occurs, enum matches, `from_bits_truncate` masks, fixed-size byte arrays),
  * the write side: the ordered statements of `WriteBinary::write` (which primitive is written
    from which struct field, literal constants, placeholders, fixed-size byte arrays).

The Coq development then has the obligation `compat T_read T_write = true` (decided by
vm_compute) and one generic theorem turns that into "reading the written bytes gives the
values back".  Nothing here decides compatibility: a swapped, dropped or retyped field on either
side changes the generated lists and the Coq obligation fails.

Tables: head, hhea, maxp (header, 0.5/1.0 split, version-1 subtable), LongHorMetric, NameRecord,
LangTagRecord, TableRecord, OS/2 (base + the four version tails with their conditions and the
writer's version choice), post header, glyf BoundingBox; constants of the CFF operand encoding,
`offset_size` and the loca/name/post writers' width guards.

Exit 0 = parsed; 2 = an anchor no longer has the expected shape (prints `tr_layouts: BROKEN: why`).
"""
import os, re, sys

HERE = os.path.dirname(os.path.abspath(__file__))
REPO = os.environ.get("VERIF_REPO", "/repo")
OUT = sys.argv[1] if len(sys.argv) > 1 else os.path.join(HERE, "..", "coq", "Gen", "TableLayouts.v")

PRIM = {"U8": "PU8", "I8": "PI8", "U16Be": "PU16", "I16Be": "PI16", "U24Be": "PU24",
        "U32Be": "PU32", "I32Be": "PI32", "U64Be": "PU64", "I64Be": "PI64"}
METHOD = {"read_u8": "PU8", "read_i8": "PI8", "read_u16be": "PU16", "read_i16be": "PI16",
          "read_u24be": "PU24", "read_u32be": "PU32", "read_i32be": "PI32", "read_u64be": "PU64",
          "read_i64be": "PI64"}
PRIM_OF_RUST = {"u8": "PU8", "i8": "PI8", "u16": "PU16", "i16": "PI16", "u32": "PU32", "i32": "PI32",
                "u64": "PU64", "i64": "PI64"}


class Broken(Exception):
    pass


def strip_comments(s):
    s = re.sub(r"//[^\n]*", "", s)
    return re.sub(r"/\*.*?\*/", "", s, flags=re.S)


def block_at(src, i):
    """src[i] == '{' -> (inner text, index after the closing brace)"""
    depth, j = 0, i
    while True:
        if src[j] == "{":
            depth += 1
        elif src[j] == "}":
            depth -= 1
            if depth == 0:
                return src[i + 1:j], j + 1
        j += 1
        if j >= len(src):
            raise Broken("unbalanced braces")


def body_of(src, header_re, fn=None):
    m = re.search(header_re, src)
    if not m:
        raise Broken("cannot find `%s`" % header_re)
    i = src.index("{", m.end() - 1)
    body, _ = block_at(src, i)
    if fn:
        mm = re.search(r"fn %s\b[^{]*" % fn, body)
        if not mm:
            raise Broken("fn %s in `%s`" % (fn, header_re))
        body, _ = block_at(body, body.index("{", mm.end() - 1))
    return body


def statements(body):
    """split a block into top-level `;`-terminated statements (braces/parens respected)"""
    out, depth, cur = [], 0, ""
    for ch in body:
        if ch in "{([":
            depth += 1
        elif ch in "})]":
            depth -= 1
        if ch == ";" and depth == 0:
            if cur.strip():
                out.append(" ".join(cur.split()))
            cur = ""
        else:
            cur += ch
    if cur.strip():
        out.append(" ".join(cur.split()))
    return out


def intlit(s):
    s = s.strip().replace("_", "")
    m = re.fullmatch(r"(0x[0-9a-fA-F]+|\d+)(u8|i8|u16|i16|u32|i32|u64|i64|usize)?", s)
    if not m:
        return None
    v = m.group(1)
    return int(v, 16) if v.startswith("0x") else int(v)


class Ctx:
    """source-wide knowledge: newtypes over a primitive, C-like enums, bitflags masks, array fields"""

    def __init__(self, srcs):
        self.srcs = srcs
        self.all = "\n".join(srcs.values())

    def newtype_prim(self, ty):
        """`impl ReadFrom for ty { type ReadType = P; fn read_from(v) -> Self { ty(v) } }` and
        `impl WriteBinary for ty { ... P::write(ctxt, val.0) }` -> P"""
        m = re.search(r"impl ReadFrom for %s \{\s*type ReadType = (\w+);\s*fn read_from\((\w+): \w+\) -> Self \{\s*%s\(\2\)\s*\}" % (ty, ty), self.all)
        if not m or m.group(1) not in PRIM:
            return None
        w = body_of(self.all, r"impl WriteBinary for %s " % ty, "write")
        st = statements(w)
        if len(st) != 1 or not re.fullmatch(r"%s::write\(ctxt, \w+\.0\)" % m.group(1), st[0]):
            raise Broken("writer of newtype %s is not `%s::write(ctxt, val.0)`: %s" % (ty, m.group(1), st))
        return PRIM[m.group(1)]

    def enum_wire(self, ty):
        """C-like enum read by `match ctxt.read_xxx()? { K => Ok(ty::V), ... _ => Err(BadValue) }`
        and written by `match v { ty::V => P::write(ctxt, Klit) }` -> (prim, [(variant, read K)], [(variant, written K)])"""
        try:
            r = body_of(self.all, r"impl ReadBinary for %s " % ty, "read")
        except Broken:
            return None
        m = re.search(r"let (\w+) = ctxt\.(read_\w+)\(\)\?;\s*match \1 \{(.*)\}", r, re.S)
        if not m or m.group(2) not in METHOD:
            raise Broken("reader of enum %s" % ty)
        arms = [a.strip() for a in m.group(3).split(",") if a.strip()]
        rd = []
        for a in arms[:-1]:
            mm = re.fullmatch(r"(\d+) => Ok\(%s::(\w+)\)" % ty, a)
            if not mm:
                raise Broken("enum %s read arm `%s`" % (ty, a))
            rd.append((mm.group(2), int(mm.group(1))))
        if arms[-1] != "_ => Err(ParseError::BadValue)":
            raise Broken("enum %s read fallthrough `%s`" % (ty, arms[-1]))
        w = body_of(self.all, r"impl WriteBinary for %s " % ty, "write")
        mw = re.search(r"match \w+ \{(.*)\}", w, re.S)
        wr = []
        wp = None
        for a in [a.strip() for a in mw.group(1).split("),") if a.strip()]:
            mm = re.fullmatch(r"%s::(\w+) => (\w+)::write\(ctxt, (\w+)\)?,?" % ty, a)
            if not mm or mm.group(2) not in PRIM or intlit(mm.group(3)) is None:
                raise Broken("enum %s write arm `%s`" % (ty, a))
            wr.append((mm.group(1), intlit(mm.group(3))))
            if wp not in (None, PRIM[mm.group(2)]):
                raise Broken("enum %s written with two primitives" % ty)
            wp = PRIM[mm.group(2)]
        if wp != METHOD[m.group(2)]:
            raise Broken("enum %s read as %s written as %s" % (ty, METHOD[m.group(2)], wp))
        return wp, rd, wr

    def bitflags_mask(self, ty):
        m = re.search(r"pub struct %s: (\w+) \{(.*?)\n\s*\}\n" % ty, self.all, re.S)
        if not m:
            raise Broken("bitflags " + ty)
        mask = 0
        for c in re.finditer(r"const \w+ = 1 << (\d+);", m.group(2)):
            mask |= 1 << int(c.group(1))
        if mask == 0:
            raise Broken("bitflags %s has no `1 << n` constants" % ty)
        return PRIM_OF_RUST[m.group(1)], mask

    def struct_fields(self, ty):
        m = re.search(r"pub struct %s(?:<[^>]*>)? \{(.*?)\n\}" % ty, self.all, re.S)
        if not m:
            raise Broken("struct " + ty)
        out = []
        for f in re.finditer(r"pub (\w+): ([^,\n]+),", m.group(1)):
            out.append((f.group(1), f.group(2).strip()))
        return out


def parse_read_block(cx, body, struct_ty, allow_tail=False, need_literal=True):
    """ordered read items of a straight-line block.
    items: ("read", name, prim) | ("assert", name, K) | ("enum", name, prim, [K]) | ("trunc", name, prim, mask)
           | ("bytes", name, n); returns (items, names kept in the struct literal, unparsed statements)"""
    items, rest = [], []
    for st in statements(body):
        m = re.fullmatch(r"let (\w+) = ctxt\.(read_\w+)\(\)\?", st)
        if m and m.group(2) in METHOD:
            items.append(("read", m.group(1), METHOD[m.group(2)]))
            continue
        m = re.fullmatch(r"let (\w+) = usize::from\(ctxt\.(read_\w+)\(\)\?\)", st)
        if m and m.group(2) in METHOD:
            items.append(("read", m.group(1), METHOD[m.group(2)]))
            continue
        m = re.fullmatch(r"let (\w+) = ctxt\.read::<(\w+)>\(\)\?", st)
        if m:
            name, ty = m.group(1), m.group(2)
            if ty in PRIM:
                items.append(("read", name, PRIM[ty]))
                continue
            p = cx.newtype_prim(ty)
            if p:
                items.append(("read", name, p))
                continue
            e = cx.enum_wire(ty)
            if e:
                items.append(("enum", name, e[0], e[1], ty))
                continue
            raise Broken("read::<%s>: not a primitive, newtype or C-like enum" % ty)
        m = re.fullmatch(r"let (\w+) = ctxt\.read::<(\w+)>\(\)\.map\((\w+)::from_bits_truncate\)\?", st)
        if m and m.group(2) in PRIM:
            p, mask = cx.bitflags_mask(m.group(3))
            if p != PRIM[m.group(2)]:
                raise Broken("bitflags %s over %s read as %s" % (m.group(3), p, m.group(2)))
            items.append(("trunc", m.group(1), p, mask))
            continue
        m = re.fullmatch(r"let (\w+): \[u8; (\d+)\] = ctxt\.read_slice\((\d+)\)\?\.try_into\(\)\.unwrap\(\)", st)
        if m and m.group(2) == m.group(3):
            items.append(("bytes", m.group(1), int(m.group(2))))
            continue
        m = re.fullmatch(r"ctxt\.check\((\w+) == (\w+)\)\?", st)
        if m and intlit(m.group(2)) is not None:
            items.append(("assert", m.group(1), intlit(m.group(2))))
            continue
        rest.append(st)
    # the struct literal: last unparsed statement(s) must contain `Ok(Ty { a, b, c })` / `Some(Ty {..})`
    kept = None
    tail = []
    if not need_literal:
        return items, [it[1] for it in items if it[0] != "assert"], rest
    for st in rest:
        m = re.search(r"(?:Ok|Some)\(%s \{([^}]*)\}\)" % struct_ty, st)
        if m and kept is None:
            fields = [f.strip() for f in m.group(1).split(",") if f.strip()]
            if any(":" in f for f in fields):
                raise Broken("renamed field in the %s literal: %s" % (struct_ty, fields))
            kept = fields
            pre = st[:m.start()].strip()
            if pre:
                tail.append(pre)
        else:
            tail.append(st)
    if kept is None:
        raise Broken("no `%s { .. }` literal" % struct_ty)
    if tail and not allow_tail:
        raise Broken("unrecognised statements in the reader of %s: %s" % (struct_ty, tail[:2]))
    names = [it[1] for it in items if it[0] != "assert"]
    if len(set(names)) != len(names):
        raise Broken("variable bound twice in the reader of " + struct_ty)
    for k in kept:
        if k not in names:
            raise Broken("%s.%s is not bound by a read" % (struct_ty, k))
    return items, kept, tail


def parse_write_block(cx, body, struct_ty, var=None):
    """ordered write items: ("field", name, prim) | ("const", prim, K) | ("hole", name, prim)
       | ("enum", name, prim, [K], ty) | ("bytes", name, n)"""
    items = []
    fields = dict(cx.struct_fields(struct_ty)) if struct_ty else {}
    for st in statements(body):
        if re.fullmatch(r"Ok\(.*\)", st):
            continue
        m = re.fullmatch(r"(\w+)::write\(ctxt, (.+?)\)\?", st)
        if m:
            ty, expr = m.group(1), m.group(2)
            k = intlit(expr)
            mf = re.fullmatch(r"(\w+)\.(\w+)(\.bits\(\))?", expr)
            if ty in PRIM:
                if k is not None:
                    items.append(("const", PRIM[ty], k))
                    continue
                if mf and (var is None or mf.group(1) == var):
                    fty = fields.get(mf.group(2))
                    if fty is None:
                        raise Broken("%s has no field %s" % (struct_ty, mf.group(2)))
                    if mf.group(3):
                        p, _ = cx.bitflags_mask(fty)
                        if p != PRIM[ty]:
                            raise Broken("bits() of %s written as %s" % (fty, ty))
                    elif PRIM_OF_RUST.get(fty) != PRIM[ty] and not (fty == "LongDateTime" and ty == "I64Be"):
                        raise Broken("field %s: %s written as %s" % (mf.group(2), fty, ty))
                    items.append(("field", mf.group(2), PRIM[ty]))
                    continue
            elif mf and not mf.group(3):
                p = cx.newtype_prim(ty)
                if p:
                    items.append(("field", mf.group(2), p))
                    continue
                e = cx.enum_wire(ty)
                if e:
                    items.append(("enum", mf.group(2), e[0], e[2], ty))
                    continue
            raise Broken("write statement `%s`" % st)
        m = re.fullmatch(r"let (\w+) = ctxt\.placeholder\(\)\?", st)
        if m:
            items.append(("hole", m.group(1), None))
            continue
        m = re.fullmatch(r"ctxt\.write_bytes\(&(\w+)\.(\w+)\)\?", st)
        if m:
            fty = fields.get(m.group(2), "")
            mm = re.fullmatch(r"\[u8; (\d+)\]", fty)
            if not mm:
                raise Broken("write_bytes of non-array field %s: %s" % (m.group(2), fty))
            items.append(("bytes", m.group(2), int(mm.group(1))))
            continue
        raise Broken("unrecognised statement in the writer of %s: `%s`" % (struct_ty, st))
    return items


def readfrom(cx, src, ty):
    m = re.search(r"impl ReadFrom for %s \{\s*type ReadType = ([^;]+);\s*fn read_from\(\s*([^:]+):" % ty, src)
    if not m:
        raise Broken("impl ReadFrom for " + ty)
    prims = re.findall(r"\w+", m.group(1))
    if any(p not in PRIM for p in prims):
        raise Broken("ReadType of %s: %s" % (ty, prims))
    binders = re.findall(r"\w+", m.group(2))
    if len(binders) != len(prims):
        raise Broken("binder count of " + ty)
    b = body_of(src, r"impl ReadFrom for %s " % ty, "read_from")
    ctor = re.search(r"%s \{([^}]*)\}" % ty, b)
    if not ctor:
        raise Broken("constructor of " + ty)
    fields = [f.strip() for f in ctor.group(1).split(",") if f.strip()]
    if any(":" in f for f in fields) or sorted(fields) != sorted(binders):
        raise Broken("%s fields %s bound as %s" % (ty, fields, binders))
    return [("read", b_, PRIM[p]) for b_, p in zip(binders, prims)], fields


# ----------------------------------------------------------------------------------------------
def coq_str(s):
    return '"%s"' % s


def coq_ritems(items, kept):
    out = []
    for it in items:
        if it[0] == "read":
            out.append("RRead %s %s %s" % (coq_str(it[1]), it[2], "true" if it[1] in kept else "false"))
        elif it[0] == "assert":
            out.append("RAssert %s %d" % (coq_str(it[1]), it[2]))
        elif it[0] == "enum":
            out.append("REnum %s %s [%s]" % (coq_str(it[1]), it[2], "; ".join(str(k) for _, k in sorted(it[3]))))
        elif it[0] == "trunc":
            out.append("RTrunc %s %s %d" % (coq_str(it[1]), it[2], it[3]))
        elif it[0] == "bytes":
            out.append("RBytes %s %d" % (coq_str(it[1]), it[2]))
    return "[" + ";\n   ".join(out) + "]"


def coq_witems(items):
    out = []
    for it in items:
        if it[0] == "field":
            out.append("WField %s %s" % (coq_str(it[1]), it[2]))
        elif it[0] == "const":
            out.append("WConst %s %d" % (it[1], it[2]))
        elif it[0] == "hole":
            out.append("WHole %s %s" % (coq_str(it[1]), it[2]))
        elif it[0] == "enum":
            out.append("WEnum %s %s [%s]" % (coq_str(it[1]), it[2], "; ".join(str(k) for _, k in sorted(it[3]))))
        elif it[0] == "bytes":
            out.append("WBytes %s %d" % (coq_str(it[1]), it[2]))
    return "[" + ";\n   ".join(out) + "]"


def main():
    rd = lambda p: strip_comments(open(os.path.join(REPO, p)).read())
    tables, os2, post, glyf, cff, loca, write = (rd("src/tables.rs"), rd("src/tables/os2.rs"), rd("src/post.rs"),
                                                 rd("src/tables/glyf.rs"), rd("src/cff.rs"),
                                                 rd("src/tables/loca.rs"), rd("src/binary/write.rs"))
    cx = Ctx({"tables": tables, "os2": os2, "post": post, "glyf": glyf})
    defs = []   # (coq name, comment, "ritem"/"witem"/"Z", text)

    def layout(name, r_items, kept, w_items, comment):
        defs.append((name + "_read", comment + ": reader", "list ritem", coq_ritems(r_items, kept)))
        defs.append((name + "_write", comment + ": writer", "list witem", coq_witems(w_items)))

    # ---- head
    r, kept, _ = parse_read_block(cx, body_of(tables, r"impl ReadBinary for HeadTable ", "read"), "HeadTable")
    wbody = body_of(tables, r"impl WriteBinary<&Self> for HeadTable ")
    mo = re.search(r"type Output = Placeholder<(\w+), \w+>;", wbody)
    if not mo or mo.group(1) not in PRIM:
        raise Broken("HeadTable writer Output placeholder type")
    w = parse_write_block(cx, body_of(tables, r"impl WriteBinary<&Self> for HeadTable ", "write"), "HeadTable", "table")
    w = [("hole", it[1], PRIM[mo.group(1)]) if it[0] == "hole" else it for it in w]
    if sum(1 for it in w if it[0] == "hole") != 1:
        raise Broken("HeadTable writer: expected exactly one placeholder")
    layout("head", r, kept, w, "HeadTable (src/tables.rs)")

    # ---- hhea
    r, kept, _ = parse_read_block(cx, body_of(tables, r"impl ReadBinary for HheaTable ", "read"), "HheaTable")
    w = parse_write_block(cx, body_of(tables, r"impl WriteBinary<&Self> for HheaTable ", "write"), "HheaTable", "table")
    layout("hhea", r, kept, w, "HheaTable (src/tables.rs)")

    # ---- maxp: header (version, num_glyphs), the version test, the two writer branches, the v1 subtable
    b = body_of(tables, r"impl ReadBinary for MaxpTable ", "read")
    r, kept, tail = parse_read_block(cx, b, "MaxpTable", allow_tail=True, need_literal=False)
    tail = [t for t in tail if not t.startswith("Ok(MaxpTable")]
    if [it[1] for it in r] != ["version", "num_glyphs"]:
        raise Broken("MaxpTable::read header %s" % r)
    mt = re.fullmatch(r"let sub_table = if version == (\w+) \{ Some\(ctxt\.read::<MaxpVersion1SubTable>\(\)\?\) \} else \{ None \}", tail[0]) if len(tail) == 1 else None
    if not mt or intlit(mt.group(1)) is None:
        raise Broken("MaxpTable::read version test: %s" % tail)
    if not re.search(r"MaxpTable \{\s*num_glyphs,\s*version1_sub_table: sub_table,?\s*\}", b):
        raise Broken("MaxpTable literal")
    defs.append(("maxp_header_read", "MaxpTable::read: version, num_glyphs", "list ritem", coq_ritems(r, ["version", "num_glyphs"])))
    defs.append(("maxp_v1_version", "`if version == K` selecting the version-1 subtable", "Z", str(intlit(mt.group(1)))))
    wb = body_of(tables, r"impl WriteBinary<&Self> for MaxpTable ", "write")
    mw = re.search(r"if let Some\(sub_table\) = &table\.version1_sub_table \{(.*?)\} else \{(.*?)\}", wb, re.S)
    if not mw:
        raise Broken("MaxpTable::write branches")
    st1 = statements(mw.group(1))
    if st1[-1] != "MaxpVersion1SubTable::write(ctxt, sub_table)?":
        raise Broken("MaxpTable::write v1 branch tail")
    w1 = parse_write_block(cx, ";".join(st1[:-1]) + ";", "MaxpTable", "table")
    w05 = parse_write_block(cx, mw.group(2), "MaxpTable", "table")
    defs.append(("maxp_header_write_v1", "MaxpTable::write, Some(sub_table) branch (then the subtable)", "list witem", coq_witems(w1)))
    defs.append(("maxp_header_write_v05", "MaxpTable::write, None branch", "list witem", coq_witems(w05)))
    r, kept, _ = parse_read_block(cx, body_of(tables, r"impl ReadBinary for MaxpVersion1SubTable ", "read"), "MaxpVersion1SubTable")
    w = parse_write_block(cx, body_of(tables, r"impl WriteBinary<&Self> for MaxpVersion1SubTable ", "write"), "MaxpVersion1SubTable", "table")
    layout("maxp_v1", r, kept, w, "MaxpVersion1SubTable")

    # ---- ReadFrom records
    for ty, src, name, hdr, var in [("LongHorMetric", tables, "long_hor_metric", r"impl WriteBinary for LongHorMetric ", "metric"),
                                    ("NameRecord", tables, "name_record", r"impl WriteBinary for NameRecord ", "record"),
                                    ("LangTagRecord", tables, "langtag_record", r"impl WriteBinary for LangTagRecord ", "record"),
                                    ("TableRecord", tables, "table_record", r"impl WriteBinary<&Self> for TableRecord ", "table"),
                                    ("BoundingBox", glyf, "bounding_box", r"impl WriteBinary for BoundingBox ", "bbox")]:
        r, kept = readfrom(cx, src, ty)
        w = parse_write_block(cx, body_of(src, hdr, "write"), ty, var)
        layout(name, r, kept, w, "%s (ReadFrom tuple / WriteBinary)" % ty)

    # ---- post header
    r, kept, _ = parse_read_block(cx, body_of(post, r"impl ReadBinary for Header ", "read"), "Header")
    cxp = Ctx({"post": post})
    w = parse_write_block(cxp, body_of(post, r"impl WriteBinary<&Self> for Header ", "write"), "Header", "table")
    layout("post_header", r, kept, w, "post::Header")
    mp = re.search(r"if string\.bytes\.len\(\) <= usize::from\(std::u8::MAX\) \{\s*U8::write\(ctxt, string\.bytes\.len\(\) as u8\)\?;\s*ctxt\.write_bytes\(string\.bytes\)\?;\s*Ok\(\(\)\)\s*\} else \{\s*Err\(WriteError::BadValue\)", post)
    if not mp:
        raise Broken("PascalString::write length guard")
    defs.append(("pascal_string_max", "PascalString::write refuses longer strings", "Z", "255"))

    # ---- OS/2
    b = body_of(os2, r"impl ReadBinaryDep for Os2 ", "read_dep")
    cut = b.index("let version0 = if")
    cxo = Ctx({"os2": os2, "tables": tables})
    # base part: every statement before `let version0`
    base_items, _, _ = parse_read_block(cxo, b[:cut] + "Ok(Os2 {})", "Os2")
    lit = re.search(r"Ok\(Os2 \{([^}]*)\}\)", b)
    os2_fields = [f.strip() for f in lit.group(1).split(",") if f.strip()]
    base_names = [it[1] for it in base_items]
    tails = ["version0", "version1", "version2to4", "version5"]
    if os2_fields != base_names + tails:
        raise Broken("Os2 literal %s vs reads %s" % (os2_fields, base_names + tails))
    defs.append(("os2_base_read", "Os2::read_dep up to us_last_char_index", "list ritem", coq_ritems(base_items, base_names)))
    conds = {}
    tail_tys = {"version0": "Version0", "version1": "Version1", "version2to4": "Version2to4", "version5": "Version5"}
    pos = cut
    for t in tails:
        m = re.compile(r"let %s = if (\w+) >= (\d+) \{" % t).search(b, pos)
        if not m:
            raise Broken("Os2 tail " + t)
        blk, end = block_at(b, m.end() - 1)
        me = re.compile(r"\s*else \{\s*None\s*\};").match(b, end)
        if not me:
            raise Broken("Os2 tail %s: else branch" % t)
        pos = me.end()
        r, kept, _ = parse_read_block(cxo, blk, tail_tys[t])
        conds[t] = (m.group(1), int(m.group(2)))
        w = parse_write_block(cxo, body_of(os2, r"impl WriteBinary<&Self> for %s " % tail_tys[t], "write"), tail_tys[t], "table")
        layout("os2_" + t, r, kept, w, "os2::%s" % tail_tys[t])
    if [conds[t][0] for t in tails] != ["table_size", "version", "version", "version"]:
        raise Broken("Os2 tail conditions %s" % conds)
    defs.append(("os2_v0_min_size", "`table_size >= K` for Version0", "Z", str(conds["version0"][1])))
    defs.append(("os2_v1_min_version", "`version >= K` for Version1", "Z", str(conds["version1"][1])))
    defs.append(("os2_v2_min_version", "`version >= K` for Version2to4", "Z", str(conds["version2to4"][1])))
    defs.append(("os2_v5_min_version", "`version >= K` for Version5", "Z", str(conds["version5"][1])))
    wb = body_of(os2, r"impl WriteBinary<&Self> for Os2 ", "write")
    mv = re.search(r"let version = if table\.version5\.is_some\(\) \{\s*(\w+)\s*\} else if table\.version2to4\.is_some\(\) \{\s*(\w+)\s*\} else if table\.version1\.is_some\(\) \{\s*(\w+)\s*\} else \{\s*(\w+)\s*\};", wb)
    if not mv:
        raise Broken("Os2::write version choice")
    for nm, g in zip(["os2_wver_v5", "os2_wver_v2", "os2_wver_v1", "os2_wver_v0"], mv.groups()):
        defs.append((nm, "Os2::write version number", "Z", str(intlit(g))))
    rest = wb[mv.end():]
    cutw = rest.index("if let Some(v0)")
    wbase = parse_write_block(cxo, "U16Be::write(ctxt, 0u16)?;" + rest[:cutw].split("U16Be::write(ctxt, version)?;", 1)[1], "Os2", "table")
    if "U16Be::write(ctxt, version)?;" not in rest[:cutw]:
        raise Broken("Os2::write does not write `version` first")
    # the first item stands for the computed version: emitted as a field named version
    wbase[0] = ("field", "version", "PU16")
    defs.append(("os2_base_write", "Os2::write up to us_last_char_index (first item = the computed version)", "list witem", coq_witems(wbase)))
    want_tail = ["if let Some(v0) = &table.version0 { Version0::write(ctxt, v0)?; }",
                 "if let Some(v1) = &table.version1 { Version1::write(ctxt, v1)?; }",
                 "if let Some(v2) = &table.version2to4 { Version2to4::write(ctxt, v2)?; }",
                 "if let Some(v5) = &table.version5 { Version5::write(ctxt, v5)?; }"]
    got_tail = " ".join(rest[cutw:].split())
    if got_tail.replace(" ", "") != ("".join(want_tail) + "Ok(())").replace(" ", ""):
        raise Broken("Os2::write tail order: %s" % got_tail[:200])

    # ---- U24 writer guard, CFF operand encoding, offset_size, loca short guard
    m = re.search(r"impl<T> WriteBinary<T> for U24Be.*?if val > (0x[0-9A-Fa-f_]+) \{\s*return Err\(WriteError::BadValue\);\s*\}\s*ctxt\.write_bytes\(&val\.to_be_bytes\(\)\[1\.\.4\]\)", write, re.S)
    if not m:
        raise Broken("U24Be::write guard")
    defs.append(("u24_max", "U24Be::write: `val > K` is BadValue", "Z", str(intlit(m.group(1)))))

    ob = body_of(cff, r"impl WriteBinary<&Self> for Operand ", "write")
    mi = re.search(r"Operand::Integer\(val\) => match \*val \{(.*?)\n\s*\},\s*Operand::Offset", ob, re.S)
    if not mi:
        raise Broken("Operand::write integer match")
    arms = re.findall(r"(-?\d+)\.\.=(-?\d+) => \{(.*?)\}", mi.group(1), re.S)
    if len(arms) != 4 or "_ => {" not in mi.group(1):
        raise Broken("Operand::write integer arms %s" % [(a, b_) for a, b_, _ in arms])
    shape = [
        r"U8::write\(ctxt, \(val \+ (\d+)\) as u8\)\?;",
        r"let val = \*val - (\d+);\s*U8::write\(ctxt, \(\(val >> 8\) \+ (\d+)\) as u8\)\?;\s*U8::write\(ctxt, val as u8\)\?;",
        r"let val = -\*val - (\d+);\s*U8::write\(ctxt, \(\(val >> 8\) \+ (\d+)\) as u8\)\?;\s*U8::write\(ctxt, val as u8\)\?;",
        r"U8::write\(ctxt, (\d+)\)\?;\s*I16Be::write\(ctxt, \*val as i16\)\?",
    ]
    names = [("cffw_small", ["bias"]), ("cffw_pos", ["sub", "b0"]), ("cffw_neg", ["sub", "b0"]), ("cffw_i16", ["b0"])]
    for (lo, hi, bodytxt), sh, (nm, ks) in zip(arms, shape, names):
        mm = re.fullmatch(r"\s*" + sh + r"\s*", bodytxt, re.S)
        if not mm:
            raise Broken("Operand::write arm %s..=%s: `%s`" % (lo, hi, " ".join(bodytxt.split())))
        defs.append((nm + "_lo", "Operand::write arm %s..=%s" % (lo, hi), "Z", "(%s)" % lo))
        defs.append((nm + "_hi", "", "Z", "(%s)" % hi))
        for kname, kval in zip(ks, mm.groups()):
            defs.append(("%s_%s" % (nm, kname), "", "Z", kval))
    m5 = re.search(r"_ => \{\s*U8::write\(ctxt, (\d+)\)\?;\s*I32Be::write\(ctxt, \*val\)\?\s*\}", mi.group(1))
    if not m5:
        raise Broken("Operand::write i32 arm")
    defs.append(("cffw_i32_b0", "Operand::write fallthrough arm (5 bytes)", "Z", m5.group(1)))
    mo_ = re.search(r"Operand::Offset\(val\) => \{\s*U8::write\(ctxt, (\d+)\)\?;\s*I32Be::write\(ctxt, \*val\)\?;", ob)
    if not mo_:
        raise Broken("Operand::write offset arm")
    defs.append(("cffw_offset_b0", "Operand::Offset is always 5 bytes", "Z", mo_.group(1)))

    rb = body_of(cff, r"impl ReadBinary for Op ", "read")
    pats = [
        ("cffr_i16_b0", r"(\d+) => \{\s*let num = ctxt\.read_i16be\(\)\?;\s*Ok\(Op::Operand\(Operand::Integer\(i32::from\(num\)\)\)\)\s*\}"),
        ("cffr_i32_b0", r"(\d+) => ok_int\(ctxt\.read_i32be\(\)\?\)"),
        ("cffr_real_b0", r"(\d+) => ok_real\(ctxt\.read_until_nibble\(END_OF_FLOAT_FLAG\)\?\)"),
    ]
    for nm, p in pats:
        mm = re.search(p, rb)
        if not mm:
            raise Broken("Op::read arm " + nm)
        defs.append((nm, "Op::read", "Z", mm.group(1)))
    mm = re.search(r"(\d+)\.\.=(\d+) => ok_int\(i32::from\(b0\) - (\d+)\)", rb)
    if not mm:
        raise Broken("Op::read small-int arm")
    for nm, v in zip(["cffr_small_lo", "cffr_small_hi", "cffr_small_bias"], mm.groups()):
        defs.append((nm, "Op::read 1-byte integers", "Z", v))
    mm = re.search(r"(\d+)\.\.=(\d+) => \{\s*let b1 = ctxt\.read_u8\(\)\?;\s*ok_int\(\(i32::from\(b0\) - (\d+)\) \* 256 \+ i32::from\(b1\) \+ (\d+)\)\s*\}", rb)
    if not mm:
        raise Broken("Op::read positive 2-byte arm")
    for nm, v in zip(["cffr_pos_lo", "cffr_pos_hi", "cffr_pos_b0", "cffr_pos_add"], mm.groups()):
        defs.append((nm, "Op::read positive 2-byte integers", "Z", v))
    mm = re.search(r"(\d+)\.\.=(\d+) => \{\s*let b1 = ctxt\.read_u8\(\)\?;\s*ok_int\(-\(i32::from\(b0\) - (\d+)\) \* 256 - i32::from\(b1\) - (\d+)\)\s*\}", rb)
    if not mm:
        raise Broken("Op::read negative 2-byte arm")
    for nm, v in zip(["cffr_neg_lo", "cffr_neg_hi", "cffr_neg_b0", "cffr_neg_sub"], mm.groups()):
        defs.append((nm, "Op::read negative 2-byte integers", "Z", v))
    if not re.search(r"0\.\.=11 \| 13\.\.=21 => ok_operator", rb) or not re.search(r"22\.\.=24 => ok_operator", rb) \
            or not re.search(r"12 => ok_operator\(op2\(ctxt\.read_u8\(\)\?\)\.try_into\(\)\?\)", rb) \
            or not re.search(r"25\.\.=27 \| 31 \| 255 => Err\(ParseError::BadValue\)", rb):
        raise Broken("Op::read operator / reserved arms")

    osz = body_of(cff, r"fn offset_size\(value: usize\) -> Option<u8> ")
    arms = re.findall(r"(0x[0-9A-Fa-f_]+|\d+)\.\.=(0x[0-9A-Fa-f_]+) => Some\((\d)\)", osz)
    if [a[2] for a in arms] != ["1", "2", "3", "4"] or "_ => None" not in osz:
        raise Broken("offset_size arms %s" % arms)
    prev = -1
    for lo, hi, k in arms:
        if intlit(lo) != prev + 1:
            raise Broken("offset_size arms are not contiguous")
        prev = intlit(hi)
        defs.append(("offset_size_max%s" % k, "offset_size: values up to K need %s byte(s)" % k, "Z", str(intlit(hi))))

    lw = body_of(loca, r"impl WriteBinaryDep<Self> for LocaTable ", "write_dep")
    if not re.search(r"Some\(&last\) if \(last / 2\) > u32::from\(std::u16::MAX\) => \{\s*return Err\(WriteError::BadValue\)", lw) \
            or not re.search(r"if offset & 1 == 1 \{\s*return Err\(WriteError::BadValue\);\s*\}\s*let short_offset = u16::try_from\(offset / 2\)\?;\s*U16Be::write\(ctxt, short_offset\)\?;", lw) \
            or "IndexToLocFormat::Long => ctxt.write_vec::<U32Be, _>(loca.offsets)" not in lw:
        raise Broken("owned LocaTable::write_dep shape")
    defs.append(("loca_short_divisor", "short loca stores offset / K", "Z", "2"))
    lr = body_of(loca, r"impl<'b> ReadBinaryDep for LocaTable<'b> ", "read_dep")
    if "LocaOffsets::Short(ctxt.read_array::<U16Be>(num_glyphs + 1)?)" not in lr or \
            "LocaOffsets::Long(ctxt.read_array::<U32Be>(num_glyphs + 1)?)" not in lr:
        raise Broken("LocaTable::read_dep shape")
    if "LocaOffsets::Short(array) => array.get_item(index).map(|offset| u32::from(offset) * 2)" not in loca:
        raise Broken("LocaOffsets::get short multiplier")

    txt = "(* GENERATED by translators/tr_layouts.py from src/tables.rs, src/tables/os2.rs, src/post.rs, src/tables/glyf.rs,\n"
    txt += "   src/tables/loca.rs, src/cff.rs, src/binary/write.rs — do not edit *)\n"
    txt += "From AV Require Import Base.Prelude Model.TableLayout.\nOpen Scope Z_scope.\nLocal Open Scope fname_scope.\n\n"
    for name, comment, ty, body in defs:
        if comment:
            txt += "(* %s *)\n" % comment
        txt += "Definition %s : %s :=\n  %s.\n" % (name, ty, body) if ty.startswith("list") else \
               "Definition %s : %s := %s.\n" % (name, ty, body)
    out = os.path.normpath(OUT)
    if not (os.path.exists(out) and open(out).read() == txt):
        open(out, "w").write(txt)
    print("tr_layouts: ok (%d definitions)" % len(defs))


if __name__ == "__main__":
    try:
        main()
    except Broken as e:
        print("tr_layouts: BROKEN:", e)
        sys.exit(2)
