#!/usr/bin/env python3
"""Source-drift map for C06 (DESIGN.md 3.7): hash of the comment-/whitespace-normalised text of every
Rust function that coq/Model/Cmap.v models by hand.  `python3 translators/model_map_C06.py` prints
the current map as JSON; `--check` compares with translators/model_map_C06.json and lists the
functions whose text changed (exit 0 either way: a changed hash is not an alarm, it is a reason to
spend a larger correspondence budget and to re-read the model)."""
import re, os, sys, json, hashlib

REPO = os.environ.get("VERIF_REPO", "/repo")
HERE = os.path.dirname(os.path.abspath(__file__))

# (file, regex locating the header, Coq definition)
FUNCS = [
    ("src/tables/cmap.rs", r"impl<'b> ReadBinary for CmapSubtable<'b>", "parse, parse0..parse12"),
    ("src/tables/cmap.rs", r"impl<'b> ReadBinary for Cmap<'b>", "parse_cmap"),
    ("src/tables/cmap.rs", r"impl SubHeader \{", "sh_contains, glyph_index_sub_array"),
    ("src/tables/cmap.rs", r"pub fn map_glyph\(&self, ch: u32\) -> Result<Option<u16>, ParseError> \{\s*match \*self \{\s*CmapSubtable::Format0 \{\s*ref glyph_id_array, \.\.\s*\} => \{\s*let index = usize::safe_from", "map_glyph, f2_map_glyph, f12_map_glyph"),
    ("src/tables/cmap.rs", r"pub fn mappings_fn\(&self", "mappings, f2_high_mappings, f10_mappings, f12_group_mappings"),
    ("src/tables/cmap.rs", r"trait Format4 \{", "f4_map_glyph, find_seg, f4_mappings, glyph_id_for_id_range_offset"),
    ("src/tables/cmap.rs", r"fn offset_to_index\(", "offset_to_index"),
    ("src/tables/cmap.rs", r"impl CmapSubtable \{\s*pub fn map_glyph\(&self, ch: u32\) -> Result<Option<u16>, ParseError> \{\s*// NOTE: Currently a duplicate", "owned_map_glyph"),
    ("src/font.rs", r"fn map_glyph\(&self, char_code: u32\) -> u16", "font_map_glyph"),
    ("src/font.rs", r"fn map_unicode_to_glyph\(", "map_unicode_to_glyph"),
    ("src/font.rs", r"fn legacy_symbol_char_code\(", "legacy_symbol_char_code"),
    ("src/font.rs", r"pub fn cmap_subtable_data\(", "font_map_glyph (slice_from)"),
    ("src/font.rs", r"fn charmap_info\(", "charmap_info"),
]


def body(src, header_re):
    m = re.search(header_re, src)
    if not m:
        return None
    i = src.index("{", m.start())
    depth, j = 0, i
    while True:
        c = src[j]
        if c == "{":
            depth += 1
        elif c == "}":
            depth -= 1
            if depth == 0:
                break
        j += 1
    return src[m.start():j + 1]


def norm(s):
    s = re.sub(r"/\*.*?\*/", "", s, flags=re.S)
    s = re.sub(r"//[^\n]*", "", s)
    return re.sub(r"\s+", "", s)


def current():
    out = {}
    for f, hdr, coq in FUNCS:
        src = open(os.path.join(REPO, f), encoding="utf-8").read()
        b = body(src, hdr)
        key = "%s :: %s" % (f, coq)
        out[key] = hashlib.sha256(norm(b).encode()).hexdigest()[:16] if b else "NOT FOUND"
    return out


if __name__ == "__main__":
    cur = current()
    if "--check" in sys.argv:
        old = json.load(open(os.path.join(HERE, "model_map_C06.json")))
        changed = [k for k in cur if old.get(k) != cur[k]]
        print("model_map_C06: %d of %d modelled functions changed%s" % (len(changed), len(cur), (": " + "; ".join(changed)) if changed else ""))
    else:
        print(json.dumps(cur, indent=1))
