#!/usr/bin/env python3
"""Source-drift map for C08 (DESIGN.md 3.7): hash of the comment-/whitespace-normalised text of every
Rust function that coq/Model/CmapSubset.v models by hand.  `python3 translators/model_map_C08.py` prints
the current map as JSON; `--check` compares with translators/model_map_C08.json and lists the
functions whose text changed (exit 0 either way: a changed hash is not an alarm, it is a reason to
spend a larger correspondence budget and to re-read the model)."""
import re, os, sys, json, hashlib

REPO = os.environ.get("VERIF_REPO", "/repo")
HERE = os.path.dirname(os.path.abspath(__file__))

# (file, regex locating the header, Coq definition)
FUNCS = [
    ("src/tables/cmap/subset.rs", r"impl Character \{", "character_new, existence_of, char_code"),
    ("src/tables/cmap/subset.rs", r"impl<'a> CmapSubtableFormat4Segment<'a> \{", "seg_new, seg_add"),
    ("src/tables/cmap/subset.rs", r"impl owned::CmapSubtableFormat4 \{", "f4_from_mappings, split_segments, add_segment, fixup_ros"),
    ("src/tables/cmap/subset.rs", r"impl owned::CmapSubtableFormat12 \{", "f12_from_mappings, f12_groups"),
    ("src/tables/cmap/subset.rs", r"impl owned::EncodingRecord \{", "encoding_record_from_mappings, f0_fill"),
    ("src/tables/cmap/subset.rs", r"impl MappingsToKeep<OldIds> \{", "mappings_to_keep_new, keep_step, update_to_new_ids"),
    ("src/tables/cmap/subset.rs", r"fn legacy_symbol_char_code_to_unicode\(", "legacy_symbol_char_code_to_unicode"),
    ("src/tables/cmap.rs", r"impl WriteBinary<Self> for Cmap \{", "write_cmap"),
    ("src/tables/cmap.rs", r"impl WriteBinary<Self> for CmapSubtable \{", "write_subtable"),
    ("src/tables/cmap.rs", r"impl Format4Calculator \{", "search_range, entry_selector, range_shift"),
    ("src/tables/glyf/subset.rs", r"impl<'a> SubsetGlyphs for SubsetGlyf<'a> \{", "new_id"),
    ("src/subset.rs", r"fn create_cmap_table\(", "build_cmap"),
]


def body(src, header_re):
    m = re.search(header_re, src)
    if not m:
        return None
    i = src.index("{", m.start())
    depth, j = 0, i
    while True:
        c = src[j]
        if c == "{":
            depth += 1
        elif c == "}":
            depth -= 1
            if depth == 0:
                break
        j += 1
    return src[m.start():j + 1]


def norm(s):
    s = re.sub(r"/\*.*?\*/", "", s, flags=re.S)
    s = re.sub(r"//[^\n]*", "", s)
    return re.sub(r"\s+", "", s)


def current():
    out = {}
    for f, hdr, coq in FUNCS:
        src = open(os.path.join(REPO, f), encoding="utf-8").read()
        b = body(src, hdr)
        key = "%s :: %s" % (f, coq)
        out[key] = hashlib.sha256(norm(b).encode()).hexdigest()[:16] if b else "NOT FOUND"
    return out


if __name__ == "__main__":
    cur = current()
    if "--check" in sys.argv:
        old = json.load(open(os.path.join(HERE, "model_map_C08.json")))
        changed = [k for k in cur if old.get(k) != cur[k]]
        print("model_map_C08: %d of %d modelled functions changed%s" % (len(changed), len(cur), (": " + "; ".join(changed)) if changed else ""))
    else:
        print(json.dumps(cur, indent=1))
