#!/usr/bin/env python3
"""Translate the WOFF2 lookup tables and the straight-line triplet arithmetic into Gallina.

From src/woff2/lut.rs:
  * `KNOWN_TABLE_TAGS` (63 names, resolved through the `pub const NAME: u32 = tag!(b"....")`
    definitions of src/tag.rs)                                   -> known_table_tags : list Z
  * `COORD_LUT` (128 `XYTriplet { .. }` rows, fields by name)     -> coord_lut : list xytriplet
  * the bodies of `XYTriplet::dx` / `XYTriplet::dy` (let-bound straight-line integer code ending
    in an if/else) are parsed and re-emitted operation by operation in a small typed-operation
    monad (`m_add`, `m_sub`, `m_mul`, `m_shl`, `m_shr`, `m_neg`: panic in debug / wrap in release,
    exactly as rustc defines them; `as` casts truncate; wrapping_* never panic) -> xy_dx, xy_dy
From src/woff2.rs: the constants BITS_0_TO_5 and LOWEST_UCODE.

Output: coq/Gen/Woff2Lut.v.  Exit 0 = parsed, 2 = an anchor no longer parses.
"""
import os, re, sys

REPO = os.environ.get("VERIF_REPO", "/repo")
HERE = os.path.dirname(os.path.abspath(__file__))
OUT = sys.argv[1] if len(sys.argv) > 1 else os.path.join(HERE, "..", "coq", "Gen", "Woff2Lut.v")


class Broken(Exception):
    pass


def strip_comments(src):
    src = re.sub(r"//[^\n]*", "", src)
    return re.sub(r"/\*.*?\*/", "", src, flags=re.S)


def block_after(src, start):
    """text between the first '{' or '[' at/after start and its match"""
    m = re.compile(r"[\[{]").search(src, start)
    if not m:
        raise Broken("no block after offset %d" % start)
    op = m.group(0)
    cl = "]" if op == "[" else "}"
    depth, j = 0, m.start()
    while j < len(src):
        if src[j] == op:
            depth += 1
        elif src[j] == cl:
            depth -= 1
            if depth == 0:
                return src[m.start() + 1:j], j + 1
        j += 1
    raise Broken("unbalanced block")


# ------------------------------------------------------------------ tables
def parse_tags(tag_src):
    tags = {}
    for m in re.finditer(r'pub const (\w+): u32 = tag!\(b"((?:[^"\\]|\\.){4})"\);', tag_src):
        s = m.group(2)
        if len(s) != 4:
            raise Broken("tag constant %s is not 4 plain bytes" % m.group(1))
        v = 0
        for c in s:
            v = v * 256 + ord(c)
        tags[m.group(1)] = v
    return tags


def parse_known_tags(lut, tags):
    m = re.search(r"pub static KNOWN_TABLE_TAGS: \[u32; (\d+)\] =", lut)
    if not m:
        raise Broken("KNOWN_TABLE_TAGS not found")
    n = int(m.group(1))
    body, _ = block_after(lut, m.end())
    names = [x.strip() for x in body.split(",") if x.strip()]
    if len(names) != n:
        raise Broken("KNOWN_TABLE_TAGS: %d names for declared length %d" % (len(names), n))
    out = []
    for nm in names:
        if nm not in tags:
            raise Broken("KNOWN_TABLE_TAGS: unknown tag constant %s" % nm)
        out.append(tags[nm])
    return out


FIELDS = ["byte_count", "x_bits", "y_bits", "delta_x", "delta_y", "x_is_negative", "y_is_negative"]
FIELD_TY = {"byte_count": "u8", "x_bits": "u8", "y_bits": "u8", "delta_x": "u16", "delta_y": "u16",
            "x_is_negative": "bool", "y_is_negative": "bool"}


def parse_struct(lut):
    m = re.search(r"pub struct XYTriplet", lut)
    if not m:
        raise Broken("struct XYTriplet not found")
    body, _ = block_after(lut, m.end())
    got = dict((a, b) for a, b in re.findall(r"pub (\w+): (\w+)", body))
    if got != FIELD_TY:
        raise Broken("struct XYTriplet fields changed: %s" % got)


def parse_lut(lut):
    m = re.search(r"pub static COORD_LUT: \[XYTriplet; (\d+)\] =", lut)
    if not m:
        raise Broken("COORD_LUT not found")
    n = int(m.group(1))
    body, _ = block_after(lut, m.end())
    rows = []
    for rm in re.finditer(r"XYTriplet\s*\{([^}]*)\}", body):
        kv = {}
        for part in rm.group(1).split(","):
            part = part.strip()
            if not part:
                continue
            k, v = [x.strip() for x in part.split(":")]
            kv[k] = v
        if sorted(kv) != sorted(FIELDS):
            raise Broken("COORD_LUT row with fields %s" % sorted(kv))
        row = []
        for f in FIELDS:
            v = kv[f]
            if FIELD_TY[f] == "bool":
                if v not in ("true", "false"):
                    raise Broken("COORD_LUT: bad bool %s" % v)
                row.append(v)
            else:
                if not re.fullmatch(r"\d+", v):
                    raise Broken("COORD_LUT: bad number %s" % v)
                iv = int(v)
                lim = 256 if FIELD_TY[f] == "u8" else 65536
                if iv >= lim:
                    raise Broken("COORD_LUT: %s out of range for %s" % (v, FIELD_TY[f]))
                row.append(v)
        rows.append(row)
    if len(rows) != n:
        raise Broken("COORD_LUT: %d rows for declared length %d" % (len(rows), n))
    return rows


# ------------------------------------------------------------------ straight-line code
TYS = {"u8": "TU8", "u16": "TU16", "u32": "TU32", "i16": "TI16", "usize": "TU64", "i32": "TI32"}
TOK = re.compile(r"\s*(<<|>>|\|\||&&|::|[A-Za-z_][A-Za-z_0-9]*|\d+(?:_?[a-z]+\d*)?|[-+*&|^(){};=.,<>!])")


def tokenize(s):
    out, i = [], 0
    s = s.strip()
    while i < len(s):
        m = TOK.match(s, i)
        if not m:
            raise Broken("cannot tokenize %r" % s[i:i + 20])
        out.append(m.group(1))
        i = m.end()
    return out


class Tr:
    """expression -> A-normal form in the typed-operation monad.
    A value is (coq_term, type-or-None); literals get their type from the other operand."""

    def __init__(self, toks, env):
        self.t, self.i, self.env = toks, 0, dict(env)
        self.lines, self.n = [], 0

    def peek(self, k=0):
        return self.t[self.i + k] if self.i + k < len(self.t) else None

    def eat(self, x=None):
        v = self.peek()
        if v is None or (x is not None and v != x):
            raise Broken("expected %s, got %s" % (x, v))
        self.i += 1
        return v

    def fresh(self):
        self.n += 1
        return "t%d" % self.n

    def bind(self, term):
        v = self.fresh()
        self.lines.append("%s <- %s ;;" % (v, term))
        return v

    def let(self, term):
        v = self.fresh()
        self.lines.append("let %s := %s in" % (v, term))
        return v

    @staticmethod
    def unify(a, b, what):
        ta, tb = a[1], b[1]
        if ta is None and tb is None:
            raise Broken("cannot type %s" % what)
        if ta is not None and tb is not None and ta != tb:
            raise Broken("operand types differ in %s: %s vs %s" % (what, ta, tb))
        return ta or tb

    # precedence climbing, Rust order: | < ^ < & < shifts < +- < * < as < unary
    def expr(self):
        return self.bor()

    def bor(self):
        a = self.band()
        while self.peek() == "|":
            self.eat()
            b = self.band()
            ty = self.unify(a, b, "|")
            a = (self.let("Z.lor %s %s" % (a[0], b[0])), ty)
        return a

    def band(self):
        a = self.shift()
        while self.peek() == "&":
            self.eat()
            b = self.shift()
            ty = self.unify(a, b, "&")
            a = (self.let("Z.land %s %s" % (a[0], b[0])), ty)
        return a

    def shift(self):
        a = self.addsub()
        while self.peek() in ("<<", ">>"):
            op = self.eat()
            b = self.addsub()
            if a[1] is None:
                raise Broken("untyped left operand of shift")
            a = (self.bind("%s m %s %s %s" % ("m_shl" if op == "<<" else "m_shr", TYS[a[1]], a[0], b[0])), a[1])
        return a

    def addsub(self):
        a = self.mul()
        while self.peek() in ("+", "-"):
            op = self.eat()
            b = self.mul()
            ty = self.unify(a, b, op)
            a = (self.bind("%s m %s %s %s" % ("m_add" if op == "+" else "m_sub", TYS[ty], a[0], b[0])), ty)
        return a

    def mul(self):
        a = self.cast()
        while self.peek() == "*":
            self.eat()
            b = self.cast()
            ty = self.unify(a, b, "*")
            a = (self.bind("m_mul m %s %s %s" % (TYS[ty], a[0], b[0])), ty)
        return a

    def cast(self):
        a = self.unary()
        while self.peek() == "as":
            self.eat()
            ty = self.eat()
            if ty not in TYS:
                raise Broken("cast to unknown type %s" % ty)
            a = (self.let("m_cast %s %s" % (TYS[ty], a[0])), ty)
        return a

    def unary(self):
        if self.peek() == "-":
            self.eat()
            a = self.unary()
            if a[1] is None:
                raise Broken("negation of an untyped literal")
            return (self.bind("m_neg m %s %s" % (TYS[a[1]], a[0])), a[1])
        return self.postfix()

    def postfix(self):
        a = self.atom()
        while self.peek() == "." and self.peek(1) in ("wrapping_neg", "wrapping_add", "wrapping_sub"):
            self.eat()
            meth = self.eat()
            self.eat("(")
            if a[1] is None:
                raise Broken("method on untyped literal")
            if meth == "wrapping_neg":
                self.eat(")")
                a = (self.let("m_cast %s (- %s)" % (TYS[a[1]], a[0])), a[1])
            else:
                b = self.expr()
                self.eat(")")
                op = "+" if meth == "wrapping_add" else "-"
                a = (self.let("m_cast %s (%s %s %s)" % (TYS[a[1]], a[0], op, b[0])), a[1])
        return a

    def atom(self):
        t = self.eat()
        if t == "(":
            a = self.expr()
            self.eat(")")
            return a
        m = re.fullmatch(r"(\d+)_?([a-z]+\d*)?", t)
        if m:
            ty = m.group(2)
            if ty is not None and ty not in TYS:
                raise Broken("literal suffix %s" % ty)
            return (m.group(1), ty)
        if t == "self":
            self.eat(".")
            f = self.eat()
            if f not in FIELD_TY or FIELD_TY[f] == "bool":
                raise Broken("self.%s is not a numeric field" % f)
            return ("(%s t)" % f, FIELD_TY[f])
        if t in TYS and self.peek() == "::":
            self.eat("::")
            self.eat("from")
            self.eat("(")
            a = self.expr()
            self.eat(")")
            order = ["u8", "u16", "u32"]
            if a[1] not in order or t not in order or order.index(a[1]) > order.index(t):
                raise Broken("%s::from(%s) is not a widening conversion" % (t, a[1]))
            return (a[0], t)
        if t in self.env:
            return self.env[t]
        raise Broken("unknown identifier %s" % t)


def translate_fn(lut, name, sign_field):
    m = re.search(r"pub fn %s\(&self, data: u32\) -> i16" % name, lut)
    if not m:
        raise Broken("fn %s(&self, data: u32) -> i16 not found" % name)
    body, _ = block_after(lut, m.end())
    toks = tokenize(body)
    tr = Tr(toks, {"data": ("data", "u32")})
    while tr.peek() == "let":
        tr.eat()
        var = tr.eat()
        if not re.fullmatch(r"[a-z_][a-z_0-9]*", var):
            raise Broken("let pattern %s" % var)
        tr.eat("=")
        v = tr.expr()
        tr.eat(";")
        tr.env[var] = v
        tr.lines.append("(* %s = %s *)" % (var, v[0]))
    tr.eat("if")
    tr.eat("self")
    tr.eat(".")
    cond = tr.eat()
    if cond != sign_field:
        raise Broken("%s: condition is self.%s, expected self.%s" % (name, cond, sign_field))
    branches = []
    for k in range(2):
        tr.eat("{")
        saved, tr.lines = tr.lines, []
        v = tr.expr()
        if v[1] != "i16":
            raise Broken("%s: branch has type %s, not i16" % (name, v[1]))
        tr.eat("}")
        branches.append(tr.lines + ["Ok %s" % v[0]])
        tr.lines = saved
        if k == 0:
            tr.eat("else")
    if tr.peek() is not None:
        raise Broken("%s: trailing tokens %s" % (name, tr.t[tr.i:]))
    out = ["Definition xy_%s (m : mode) (t : xytriplet) (data : Z) : outcome Z :=" % name]
    out += ["  " + l for l in tr.lines]
    out.append("  if %s t then" % sign_field)
    out += ["    " + l for l in branches[0]]
    out.append("  else")
    out += ["    " + l for l in branches[1]]
    out[-1] += "."
    return "\n".join(out)


def parse_const(src, name, ty):
    m = re.search(r"const %s: %s = (0x[0-9A-Fa-f]+|\d+);" % (name, ty), src)
    if not m:
        raise Broken("const %s: %s not found" % (name, ty))
    return int(m.group(1), 0)


PREAMBLE = r"""(* GENERATED by translators/tr_woff2.py from src/woff2/lut.rs, src/woff2.rs, src/tag.rs — do not edit *)
From AV Require Import Base.Prelude.
Open Scope Z_scope.

(* machine integer types and the operations rustc gives them: default-mode + - * and unary -
   panic on overflow in debug builds and wrap in release builds; << and >> panic in debug when
   the shift amount is >= the bit width and mask the amount in release; `as` truncates. *)
Inductive ity := TU8 | TU16 | TU32 | TU64 | TI16 | TI32.
Definition ity_bits (t : ity) : Z :=
  match t with TU8 => 8 | TU16 => 16 | TU32 => 32 | TU64 => 64 | TI16 => 16 | TI32 => 32 end.
Definition ity_signed (t : ity) : bool := match t with TI16 | TI32 => true | _ => false end.
Definition ity_min (t : ity) : Z := if ity_signed t then - 2 ^ (ity_bits t - 1) else 0.
Definition ity_max (t : ity) : Z := if ity_signed t then 2 ^ (ity_bits t - 1) - 1 else 2 ^ ity_bits t - 1.
Definition m_cast (t : ity) (v : Z) : Z :=
  if ity_signed t then to_signed (ity_bits t) v else v mod 2 ^ ity_bits t.
Definition m_ck (m : mode) (t : ity) (v : Z) : outcome Z :=
  if (ity_min t <=? v) && (v <=? ity_max t) then Ok v
  else match m with Debug => Panic | Release => Ok (m_cast t v) end.
Definition m_add (m : mode) (t : ity) (a b : Z) : outcome Z := m_ck m t (a + b).
Definition m_sub (m : mode) (t : ity) (a b : Z) : outcome Z := m_ck m t (a - b).
Definition m_mul (m : mode) (t : ity) (a b : Z) : outcome Z := m_ck m t (a * b).
Definition m_neg (m : mode) (t : ity) (a : Z) : outcome Z := m_ck m t (- a).
Definition m_shl (m : mode) (t : ity) (a s : Z) : outcome Z :=
  if (0 <=? s) && (s <? ity_bits t) then Ok (m_cast t (a * 2 ^ s))
  else match m with Debug => Panic | Release => Ok (m_cast t (a * 2 ^ (s mod ity_bits t))) end.
Definition m_shr (m : mode) (t : ity) (a s : Z) : outcome Z :=
  if (0 <=? s) && (s <? ity_bits t) then Ok (a / 2 ^ s)
  else match m with Debug => Panic | Release => Ok (a / 2 ^ (s mod ity_bits t)) end.

Record xytriplet := {
  byte_count : Z; x_bits : Z; y_bits : Z; delta_x : Z; delta_y : Z;
  x_is_negative : bool; y_is_negative : bool }.
"""


def main():
    try:
        lut = strip_comments(open(os.path.join(REPO, "src/woff2/lut.rs")).read())
        woff2 = strip_comments(open(os.path.join(REPO, "src/woff2.rs")).read())
        tag_src = strip_comments(open(os.path.join(REPO, "src/tag.rs")).read())
        tags = parse_tags(tag_src)
        known = parse_known_tags(lut, tags)
        parse_struct(lut)
        rows = parse_lut(lut)
        dx = translate_fn(lut, "dx", "x_is_negative")
        dy = translate_fn(lut, "dy", "y_is_negative")
        bits05 = parse_const(woff2, "BITS_0_TO_5", "u8")
        lowest = parse_const(woff2, "LOWEST_UCODE", "u16")
        for nm in ("GLYF", "LOCA", "HMTX", "HEAD", "MAXP", "HHEA"):
            if nm not in tags:
                raise Broken("tag::%s missing" % nm)
        if not re.search(r"pub const TTCF_MAGIC: u32 = tag::TTCF;", strip_comments(
                open(os.path.join(REPO, "src/tables.rs")).read())) or "TTCF" not in tags:
            raise Broken("TTCF_MAGIC = tag::TTCF not found")
        magic = re.search(r'pub const MAGIC: u32 = tag!\(b"(....)"\);', woff2)
        if not magic:
            raise Broken("woff2 MAGIC not found")
    except (Broken, OSError) as e:
        print("tr_woff2.py: BROKEN: %s" % e)
        sys.exit(2)

    def tagval(s):
        v = 0
        for c in s:
            v = v * 256 + ord(c)
        return v

    o = [PREAMBLE]
    o.append("Definition coord_lut : list xytriplet := [")
    rs = []
    for r in rows:
        rs.append("  {| byte_count := %s; x_bits := %s; y_bits := %s; delta_x := %s; delta_y := %s; "
                  "x_is_negative := %s; y_is_negative := %s |}" % tuple(r))
    o.append(";\n".join(rs))
    o.append("].\n")
    o.append("Definition known_table_tags : list Z := [")
    o.append(";\n".join("  %d" % v for v in known))
    o.append("].\n")
    o.append("Definition bits_0_to_5 : Z := %d." % bits05)
    o.append("Definition lowest_ucode : Z := %d." % lowest)
    for nm in ("GLYF", "LOCA", "HMTX", "HEAD", "MAXP", "HHEA"):
        o.append("Definition tag_%s : Z := %d." % (nm.lower(), tags[nm]))
    o.append("Definition ttcf_magic : Z := %d." % tags["TTCF"])
    o.append("Definition woff2_magic : Z := %d.\n" % tagval(magic.group(1)))
    o.append(dx + "\n")
    o.append(dy + "\n")
    txt = "\n".join(o)
    out = os.path.abspath(OUT)
    if os.path.exists(out) and open(out).read() == txt:
        print("tr_woff2.py: ok (unchanged)")
    else:
        with open(out + ".tmp", "w") as f:
            f.write(txt)
        os.replace(out + ".tmp", out)
        print("tr_woff2.py: ok (regenerated %s)" % out)
    sys.exit(0)


if __name__ == "__main__":
    main()
