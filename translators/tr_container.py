#!/usr/bin/env python3
"""Translate the byte layouts of the font containers into Gallina (coq/Gen/ContainerLayouts.v):

  * magic numbers (TTF/TRUE/CFF/TTCF in src/tables.rs, resolved through src/tag.rs; WOFF; WOFF2),
  * `impl ReadFrom for TableRecord` / woff `TableDirectoryEntry`: the ReadType tuple, flattened, and the
    order in which its components are bound to the struct fields,
  * the straight-line read sequences of OffsetTable::read, TTCHeader::read and WoffHeader::read
    (which primitive is read for which field, in order, with the checks in between).

Exit 0 = parsed; 2 = an anchor no longer has the expected shape (tie for C10/C09 reported broken).
"""
import os, re, sys

REPO = os.environ.get("VERIF_REPO", "/repo")
OUT = sys.argv[1] if len(sys.argv) > 1 else os.path.join(os.path.dirname(os.path.abspath(__file__)), "..", "coq", "Gen", "ContainerLayouts.v")
PRIM = {"U8": "PU8", "I8": "PI8", "U16Be": "PU16", "I16Be": "PI16", "U24Be": "PU24",
        "U32Be": "PU32", "I32Be": "PI32", "U64Be": "PU64", "I64Be": "PI64"}
METHOD = {"read_u8": "PU8", "read_i8": "PI8", "read_u16be": "PU16", "read_i16be": "PI16",
          "read_u32be": "PU32", "read_i32be": "PI32", "read_u64be": "PU64", "read_i64be": "PI64"}


class Broken(Exception):
    pass


def body_of(src, header_re):
    m = re.search(header_re, src)
    if not m:
        raise Broken("cannot find " + header_re)
    i = src.index("{", m.end() - 1)
    depth, j = 0, i
    while True:
        if src[j] == "{":
            depth += 1
        elif src[j] == "}":
            depth -= 1
            if depth == 0:
                break
        j += 1
    return src[i + 1:j]


def strip_comments(s):
    return re.sub(r"//[^\n]*", "", s)


def tag_value(tagsrc, name):
    m = re.search(r"pub const %s: u32 = tag!\(b\"(.{4})\"\);" % name, tagsrc)
    if not m:
        raise Broken("tag::" + name)
    return int.from_bytes(m.group(1).encode("latin-1"), "big")


def const_u32(src, tagsrc, name):
    m = re.search(r"pub const %s: u32 = ([^;]+);" % name, src)
    if not m:
        raise Broken("const " + name)
    rhs = m.group(1).strip()
    if rhs.startswith("0x"):
        return int(rhs, 16)
    mm = re.fullmatch(r"tag::(\w+)", rhs)
    if mm:
        return tag_value(tagsrc, mm.group(1))
    mm = re.fullmatch(r'tag!\(b"(.{4})"\)', rhs)
    if mm:
        return int.from_bytes(mm.group(1).encode("latin-1"), "big")
    raise Broken("const %s = %s" % (name, rhs))


def readfrom(src, ty):
    """flattened ReadType and the field order of `impl ReadFrom for ty`"""
    m = re.search(r"impl ReadFrom for %s \{\s*type ReadType = ([^;]+);\s*fn read_from\(\s*([^:]+):" % ty, src)
    if not m:
        raise Broken("impl ReadFrom for " + ty)
    prims = re.findall(r"\w+", m.group(1))
    if any(p not in PRIM for p in prims):
        raise Broken("ReadType of %s: %s" % (ty, prims))
    binders = re.findall(r"\w+", m.group(2))
    if len(binders) != len(prims):
        raise Broken("binder count of " + ty)
    b = body_of(src, r"impl ReadFrom for %s " % ty)
    ctor = re.search(r"%s \{([^}]*)\}" % ty, b[b.index("fn read_from"):])
    if not ctor:
        raise Broken("constructor of " + ty)
    fields = [f.strip() for f in ctor.group(1).split(",") if f.strip()]
    if any(":" in f for f in fields):
        raise Broken("renamed fields in " + ty)
    if fields != binders:
        raise Broken("%s fields %s bound as %s" % (ty, fields, binders))
    return [PRIM[p] for p in prims], fields


def read_sequence(body):
    """[(name, prim)] for `let name = ctxt.read_xxx()?;` statements in order, plus the raw statements"""
    seq = []
    for m in re.finditer(r"let (\w+) = (?:usize::try_from\()?ctxt\.(read_\w+)\(\)\?\)?\??;", body):
        if m.group(2) not in METHOD:
            raise Broken("read method " + m.group(2))
        seq.append((m.group(1), METHOD[m.group(2)]))
    return seq


def main():
    tables = strip_comments(open(os.path.join(REPO, "src/tables.rs")).read())
    tagsrc = open(os.path.join(REPO, "src/tag.rs")).read()
    woff = strip_comments(open(os.path.join(REPO, "src/woff.rs")).read())
    woff2 = strip_comments(open(os.path.join(REPO, "src/woff2.rs")).read())
    magics = {
        "TTF_MAGIC": const_u32(tables, tagsrc, "TTF_MAGIC"),
        "TRUE_MAGIC": const_u32(tables, tagsrc, "TRUE_MAGIC"),
        "CFF_MAGIC": const_u32(tables, tagsrc, "CFF_MAGIC"),
        "TTCF_MAGIC": const_u32(tables, tagsrc, "TTCF_MAGIC"),
        "WOFF_MAGIC": const_u32(woff, tagsrc, "MAGIC"),
        "WOFF2_MAGIC": const_u32(woff2, tagsrc, "MAGIC"),
    }
    tr_ty, tr_fields = readfrom(tables, "TableRecord")
    if tr_fields != ["table_tag", "checksum", "offset", "length"]:
        raise Broken("TableRecord field order %s" % tr_fields)
    we_ty, we_fields = readfrom(woff, "TableDirectoryEntry")
    if we_fields != ["tag", "offset", "comp_length", "orig_length", "orig_checksum"]:
        raise Broken("woff TableDirectoryEntry field order %s" % we_fields)

    # OffsetTable::read
    b = body_of(tables, r"impl<'b> ReadBinary for OffsetTable<'b> ")
    seq = read_sequence(b)
    want = ["sfnt_version", "num_tables", "search_range", "entry_selector", "range_shift"]
    if [n for n, _ in seq] != want:
        raise Broken("OffsetTable::read sequence %s" % seq)
    if not re.search(r"TTF_MAGIC \| TRUE_MAGIC \| CFF_MAGIC => \{", b):
        raise Broken("OffsetTable::read magic match")
    if not re.search(r"ctxt\.read_array::<TableRecord>\(usize::from\(num_tables\)\)\?", b):
        raise Broken("OffsetTable::read record array")
    if "_ => Err(ParseError::BadVersion)" not in b:
        raise Broken("OffsetTable::read fallthrough")
    ot_hdr = [p for _, p in seq]

    # TTCHeader::read
    b = body_of(tables, r"impl<'b> ReadBinary for TTCHeader<'b> ")
    seq = read_sequence(b)
    if [n for n, _ in seq] != ["ttc_tag", "major_version", "minor_version", "num_fonts"]:
        raise Broken("TTCHeader::read sequence %s" % seq)
    if "ctxt.check(major_version == 1 || major_version == 2)?;" not in b:
        raise Broken("TTCHeader version check")
    if "ctxt.read_array::<U32Be>(num_fonts)?" not in b:
        raise Broken("TTCHeader offsets array")
    ttc_hdr = [p for _, p in seq]

    # WoffHeader::read
    b = body_of(woff, r"impl ReadBinary for WoffHeader ")
    seq = read_sequence(b)
    wantw = ["signature", "flavor", "length", "num_tables", "reserved", "total_sfnt_size", "_major_version",
             "_minor_version", "meta_offset", "meta_length", "meta_orig_length", "priv_offset", "priv_length"]
    if [n for n, _ in seq] != wantw:
        raise Broken("WoffHeader::read sequence %s" % [n for n, _ in seq])
    if "ctxt.check(reserved == 0)?;" not in b:
        raise Broken("WoffHeader reserved check")
    woff_hdr = [p for _, p in seq]
    bw = body_of(woff, r"impl<'b> ReadBinary for WoffFont<'b> ")
    if "ctxt.read_array::<TableDirectoryEntry>(usize::from(woff_header.num_tables))?" not in bw:
        raise Broken("WoffFont::read directory array")

    def coqlist(xs):
        return "[" + "; ".join(xs) + "]"

    txt = "(* GENERATED by translators/tr_container.py from src/tables.rs, src/tag.rs, src/woff.rs, src/woff2.rs — do not edit *)\n"
    txt += "From AV Require Import Base.Prelude.\nOpen Scope Z_scope.\n\n"
    for k, v in magics.items():
        txt += "Definition %s : Z := %d.\n" % (k, v)
    txt += "\n(* impl ReadFrom for TableRecord: fields table_tag, checksum, offset, length *)\n"
    txt += "Definition table_record_ty : list prim := %s.\n" % coqlist(tr_ty)
    txt += "(* impl ReadFrom for woff::TableDirectoryEntry: tag, offset, comp_length, orig_length, orig_checksum *)\n"
    txt += "Definition woff_entry_ty : list prim := %s.\n" % coqlist(we_ty)
    txt += "(* OffsetTable::read: sfnt_version, num_tables, search_range, entry_selector, range_shift *)\n"
    txt += "Definition offset_table_header_ty : list prim := %s.\n" % coqlist(ot_hdr)
    txt += "(* TTCHeader::read: ttc_tag, major_version, minor_version, num_fonts *)\n"
    txt += "Definition ttc_header_ty : list prim := %s.\n" % coqlist(ttc_hdr)
    txt += "(* WoffHeader::read: %s *)\n" % ", ".join(wantw)
    txt += "Definition woff_header_ty : list prim := %s.\n" % coqlist(woff_hdr)
    if os.path.exists(OUT) and open(OUT).read() == txt:
        pass
    else:
        open(OUT, "w").write(txt)
    print("tr_container: ok")


if __name__ == "__main__":
    try:
        main()
    except Broken as e:
        print("tr_container: BROKEN:", e)
        sys.exit(2)
