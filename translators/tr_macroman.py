#!/usr/bin/env python3
"""Translate the two Mac OS Roman conversion functions of src/macroman.rs into Gallina tables.

`char_to_macroman` has the shape   if (chr as u32) < BOUND { Some(chr as u8) } else { match chr { 'X' => Some(N), ... _ => None } }
`macroman_to_char` has the shape   match macroman { LO..=HI => Some(macroman as char), N => Some('X'), ... _ => None }

The translator extracts BOUND, LO, HI and both arm lists *in source order* (Rust's match takes the
first matching arm, the Coq model looks the key up with a first-match association list, so
duplicate keys keep their meaning).  Anything that is not of that shape makes it fail closed.

Output: coq/Gen/MacRomanTables.v.  Exit status 0 = parsed; 2 = the anchor no longer parses.
"""
import re, sys, os

REPO = os.environ.get("VERIF_REPO", "/repo")
ROOT = os.path.dirname(os.path.dirname(os.path.abspath(__file__)))
OUT = sys.argv[1] if len(sys.argv) > 1 else os.path.join(ROOT, "coq", "Gen", "MacRomanTables.v")


class Broken(Exception):
    pass


def fn_body(src, name):
    m = re.search(r"pub fn %s\s*\(([^)]*)\)\s*->\s*([^{]+)\{" % name, src)
    if not m:
        raise Broken("cannot find fn " + name)
    i = m.end() - 1
    depth, j = 0, i
    while True:
        c = src[j]
        if c == "'":  # skip char literals ('{', '\'' ...)
            k = j + 1
            if src[k] == "\\":
                k += 1
                if src[k] == "u":
                    k = src.index("}", k)
            j = src.index("'", k + 1)
        elif c == "/" and src[j + 1] == "/":
            j = src.index("\n", j)
        elif c == "{":
            depth += 1
        elif c == "}":
            depth -= 1
            if depth == 0:
                break
        j += 1
    return m, src[i + 1:j]


def strip_line_comments(body):
    out = []
    for line in body.split("\n"):
        # a comment starts at the first // that is not inside a char literal
        m = re.match(r"^((?:[^'/]|'(?:\\.[^']*|[^'\\])'|/(?!/))*)//.*$", line)
        out.append(m.group(1) if m else line)
    return "\n".join(out)


def char_lit(s):
    """value of a Rust char literal (without the quotes)"""
    if len(s) == 1:
        return ord(s)
    m = re.fullmatch(r"\\u\{([0-9a-fA-F_]+)\}", s)
    if m:
        return int(m.group(1).replace("_", ""), 16)
    m = re.fullmatch(r"\\x([0-9a-fA-F]{2})", s)
    if m:
        return int(m.group(1), 16)
    esc = {"\\n": 10, "\\r": 13, "\\t": 9, "\\\\": 92, "\\'": 39, "\\0": 0, '\\"': 34}
    if s in esc:
        return esc[s]
    raise Broken("char literal %r" % s)


def num(s):
    s = s.replace("_", "")
    s = re.sub(r"(u8|u16|u32|usize)$", "", s)
    return int(s, 16) if s.lower().startswith("0x") else int(s)


CH = r"'((?:\\u\{[0-9a-fA-F_]+\}|\\x[0-9a-fA-F]{2}|\\.|[^'\\]))'"
NUM = r"(0x[0-9a-fA-F_]+|[0-9_]+)(?:u8|u32)?"


def split_arms(match_body):
    arms = [a.strip().rstrip(",").strip() for a in match_body.split("\n")]
    return [a for a in arms if a]


def parse_c2m(src):
    m, body = fn_body(src, "char_to_macroman")
    if not re.fullmatch(r"\s*chr\s*:\s*char\s*", m.group(1)) or m.group(2).strip() != "Option<u8>":
        raise Broken("char_to_macroman signature changed")
    body = strip_line_comments(body)
    m = re.fullmatch(
        r"\s*if\s*\(chr as u32\)\s*(<=|<)\s*" + NUM + r"\s*\{\s*Some\(chr as u8\)\s*\}\s*else\s*\{\s*match\s+chr\s*\{(.*)\}\s*\}\s*",
        body, re.S)
    if not m:
        raise Broken("char_to_macroman is no longer `if (chr as u32) < N { Some(chr as u8) } else { match chr {..} }`")
    bound = num(m.group(2)) + (1 if m.group(1) == "<=" else 0)
    if bound > 256:
        raise Broken("char_to_macroman: `chr as u8` would truncate (bound %d)" % bound)
    table, default_seen = [], False
    for arm in split_arms(m.group(3)):
        if default_seen:
            raise Broken("arm after `_ =>` in char_to_macroman: " + arm)
        a = re.fullmatch(CH + r"\s*=>\s*Some\(\s*" + NUM + r"\s*\)", arm)
        if a:
            v = num(a.group(2))
            if not 0 <= v < 256:
                raise Broken("char_to_macroman arm value out of u8 range: " + arm)
            table.append((char_lit(a.group(1)), v))
        elif re.fullmatch(r"_\s*=>\s*None", arm):
            default_seen = True
        else:
            raise Broken("unrecognised arm in char_to_macroman: " + arm)
    if not default_seen:
        raise Broken("char_to_macroman: no `_ => None` arm")
    return bound, table


def parse_m2c(src):
    m, body = fn_body(src, "macroman_to_char")
    if not re.fullmatch(r"\s*macroman\s*:\s*u8\s*", m.group(1)) or m.group(2).strip() != "Option<char>":
        raise Broken("macroman_to_char signature changed")
    body = strip_line_comments(body)
    m = re.fullmatch(r"\s*match\s+macroman\s*\{(.*)\}\s*", body, re.S)
    if not m:
        raise Broken("macroman_to_char is no longer a single match")
    arms = split_arms(m.group(1))
    if not arms:
        raise Broken("macroman_to_char: empty match")
    a = re.fullmatch(NUM + r"\s*\.\.=\s*" + NUM + r"\s*=>\s*Some\(macroman as char\)", arms[0])
    if not a:
        raise Broken("macroman_to_char: first arm is no longer `LO..=HI => Some(macroman as char)`")
    lo, hi = num(a.group(1)), num(a.group(2))
    table, default_seen = [], False
    for arm in arms[1:]:
        if default_seen:
            raise Broken("arm after `_ =>` in macroman_to_char: " + arm)
        a = re.fullmatch(NUM + r"\s*=>\s*Some\(\s*" + CH + r"\s*\)", arm)
        if a:
            table.append((num(a.group(1)), char_lit(a.group(2))))
        elif re.fullmatch(r"_\s*=>\s*None", arm):
            default_seen = True
        else:
            raise Broken("unrecognised arm in macroman_to_char: " + arm)
    if not default_seen:
        raise Broken("macroman_to_char: no `_ => None` arm")
    return lo, hi, table


def coq_pairs(name, pairs):
    lines = ["Definition %s : list (Z * Z) := [" % name]
    body = [" (%d, %d)" % p for p in pairs]
    for i in range(0, len(body), 8):
        chunk = ";".join(body[i:i + 8])
        lines.append(" " + chunk + (";" if i + 8 < len(body) else ""))
    lines.append("].")
    return "\n".join(lines)


def main():
    path = os.path.join(REPO, "src", "macroman.rs")
    try:
        src = open(path, encoding="utf-8").read()
        bound, c2m = parse_c2m(src)
        lo, hi, m2c = parse_m2c(src)
    except Broken as e:
        print("tr_macroman.py: BROKEN: %s" % e)
        sys.exit(2)
    except Exception as e:  # fail closed
        print("tr_macroman.py: BROKEN: %s: %s" % (type(e).__name__, e))
        sys.exit(2)
    txt = "\n".join([
        "(* GENERATED by translators/tr_macroman.py from src/macroman.rs -- do not edit. *)",
        "From Coq Require Import List ZArith.",
        "Import ListNotations.",
        "Open Scope Z_scope.",
        "",
        "(* char_to_macroman: `if (chr as u32) < c2m_bound { Some(chr as u8) } else match chr {..}` *)",
        "Definition c2m_bound : Z := %d." % bound,
        "(* (code point, Mac Roman byte) in source order *)",
        coq_pairs("c2m_arms", c2m),
        "",
        "(* macroman_to_char: `m2c_lo..=m2c_hi => Some(macroman as char)`, then (byte, code point) arms *)",
        "Definition m2c_lo : Z := %d." % lo,
        "Definition m2c_hi : Z := %d." % hi,
        coq_pairs("m2c_arms", m2c),
        "",
    ])
    old = open(OUT).read() if os.path.exists(OUT) else None
    if old != txt:
        os.makedirs(os.path.dirname(OUT), exist_ok=True)
        with open(OUT, "w") as f:
            f.write(txt)
    print("tr_macroman.py: ok (bound %d, %d + %d arms, identity range %d..=%d)" % (bound, len(c2m), len(m2c), lo, hi))


if __name__ == "__main__":
    main()
