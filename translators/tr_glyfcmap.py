#!/usr/bin/env python3
"""Ties the hand-written models of property C15's second part to the Rust source, on every run:

  coq/Model/Composite.v   <- src/tables/glyf.rs  Glyph::{read, write}, CompositeGlyphs::read,
                             CompositeGlyph::{read, write}, CompositeGlyphComponent::{read_dep, write},
                             CompositeGlyphArgument::{read_dep, write}, CompositeGlyphScale::write,
                             CompositeGlyphFlag (bit values, from_bits_truncate, the accessors)
  coq/Model/CmapWrite.v   <- src/tables/cmap.rs  CmapSubtable::{read, write, to_owned}, Cmap::read,
                             owned::{Cmap, CmapSubtable}::write, Format4Calculator, SequentialMapGroup::write

1. SHAPES.  The text of each of these functions (comments and whitespace aside) is compared with the
   text the model was written after; a difference is `tr_glyfcmap: BROKEN: ...` (exit 2).  In
   particular the `has_instructions |= ...` over ALL components of CompositeGlyph::write and the
   `placeholder` ... `write_placeholder(length, uN::try_from(ctxt.bytes_written() - start)?)`
   back-patch of every cmap length field are part of the pinned text.
2. DERIVED CHECKS, independent of the pins: the instruction decision of the composite writer is an
   OR-accumulation inside the loop over the components; every cmap length field is a placeholder
   whose type agrees with the checked conversion that back-patches it; the owned sub-table writer is
   the borrowed one after the substitution (ReadArray write / write_vec / write_bytes -> array write,
   `*field` -> `field`).
3. CONSTANTS, regenerated into coq/Gen/GlyfCmapShapes.v: the composite flag bits and the truncation
   mask, the flags the reader's accessors test, the literal numberOfContours, per cmap format the
   format number, the width of the length field and of the count field, the largest segment count
   Format4Calculator::new accepts, the reader's format 0 constants.  Props/C15.v has the obligation
   that they are the declared ones (and Model/CmapWrite.v uses the segment limit).

Exit 0 = parsed; 2 = BROKEN.  Reads the repo from $VERIF_REPO (default /repo); writes only on change.
"""
import os, re, sys

HERE = os.path.dirname(os.path.abspath(__file__))
REPO = os.environ.get("VERIF_REPO", "/repo")
OUT = sys.argv[1] if len(sys.argv) > 1 else os.path.join(HERE, "..", "coq", "Gen", "GlyfCmapShapes.v")


class Broken(Exception):
    pass


def strip_comments(s):
    s = re.sub(r"//[^\n]*", "", s)
    return re.sub(r"/\*.*?\*/", "", s, flags=re.S)


def block_at(src, i):
    depth, j = 0, i
    while True:
        if src[j] == "{":
            depth += 1
        elif src[j] == "}":
            depth -= 1
            if depth == 0:
                return src[i + 1:j], j + 1
        j += 1
        if j >= len(src):
            raise Broken("unbalanced braces")


def body_of(src, header_re, fn=None):
    m = re.search(header_re, src)
    if not m:
        raise Broken("cannot find `%s`" % header_re)
    i = src.index("{", m.end() - 1)
    body, _ = block_at(src, i)
    if fn:
        mm = re.search(r"fn %s\b[^{]*" % fn, body)
        if not mm:
            raise Broken("fn %s in `%s`" % (fn, header_re))
        body, _ = block_at(body, body.index("{", mm.end() - 1))
    return body


def squash(s):
    return "".join(s.split())


def intlit(s):
    s = s.strip().replace("_", "")
    m = re.fullmatch(r"(-?)(0x[0-9a-fA-F]+|0b[01]+|\d+)(u8|i8|u16|i16|u32|i32|u64|i64|usize)?", s)
    if not m:
        raise Broken("integer literal `%s`" % s)
    t = m.group(2)
    v = int(t, 16) if t.startswith("0x") else int(t[2:], 2) if t.startswith("0b") else int(t)
    return -v if m.group(1) else v


def expect_shape(what, got, want):
    if squash(got) != squash(want):
        raise Broken("%s no longer has the shape the model was written after: `%s`" % (what, " ".join(got.split())[:400]))


# ------------------------------------------------------------------------------------------------
# the texts the models were written after
GLYPH_READ = """
        let number_of_contours = ctxt.read_i16be()?;
        if number_of_contours >= 0 {
            let glyph = ctxt.read_dep::<SimpleGlyph<'_>>(number_of_contours as u16)?;
            Ok(Glyph::Simple(glyph))
        } else {
            let glyph = ctxt.read::<CompositeGlyph<'_>>()?;
            Ok(Glyph::Composite(glyph))
        }
"""

GLYPH_WRITE = """
        match glyph {
            Glyph::Empty(_) => Ok(()),
            Glyph::Simple(simple_glyph) => SimpleGlyph::write(ctxt, simple_glyph),
            Glyph::Composite(composite) => CompositeGlyph::write(ctxt, composite),
        }
"""

COMPS_READ = """
        let mut have_instructions = false;
        let mut glyphs = Vec::new();
        loop {
            let flags = ctxt.read::<CompositeGlyphFlag>()?;
            let data = ctxt.read_dep::<CompositeGlyphComponent>(flags)?;
            if flags.we_have_instructions() {
                have_instructions = true;
            }
            glyphs.push(data);
            if !flags.more_components() {
                break;
            }
        }
        Ok(CompositeGlyphs {
            glyphs,
            have_instructions,
        })
"""

CG_READ = """
        let bounding_box = ctxt.read::<BoundingBox>()?;
        let glyphs = ctxt.read::<CompositeGlyphs>()?;
        let instruction_length = if glyphs.have_instructions {
            usize::from(ctxt.read::<U16Be>()?)
        } else {
            0
        };
        let instructions = ctxt.read_slice(instruction_length)?;
        Ok(CompositeGlyph {
            bounding_box,
            glyphs: glyphs.glyphs,
            instructions,
            phantom_points: None,
        })
"""

CG_WRITE = """
        I16Be::write(ctxt, -1_i16)?;
        BoundingBox::write(ctxt, composite.bounding_box)?;
        let mut has_instructions = false;
        for glyph in composite.glyphs {
            has_instructions |= glyph.flags.we_have_instructions();
            CompositeGlyphComponent::write(ctxt, glyph)?;
        }
        if has_instructions {
            U16Be::write(ctxt, u16::try_from(composite.instructions.len())?)?;
            ctxt.write_bytes(composite.instructions)?;
        }
        Ok(())
"""

ARG_READ = """
        let arg = match (flags.arg_1_and_2_are_words(), flags.args_are_xy_values()) {
            (true, true) => CompositeGlyphArgument::I16(ctxt.read_i16be()?),
            (true, false) => CompositeGlyphArgument::U16(ctxt.read_u16be()?),
            (false, true) => CompositeGlyphArgument::I8(ctxt.read_i8()?),
            (false, false) => CompositeGlyphArgument::U8(ctxt.read_u8()?),
        };
        Ok(arg)
"""

ARG_WRITE = """
        match arg {
            CompositeGlyphArgument::U8(val) => U8::write(ctxt, val),
            CompositeGlyphArgument::I8(val) => I8::write(ctxt, val),
            CompositeGlyphArgument::U16(val) => U16Be::write(ctxt, val),
            CompositeGlyphArgument::I16(val) => I16Be::write(ctxt, val),
        }
"""

COMP_READ = """
        let glyph_index = ctxt.read_u16be()?;
        let argument1 = ctxt.read_dep::<CompositeGlyphArgument>(flags)?;
        let argument2 = ctxt.read_dep::<CompositeGlyphArgument>(flags)?;
        let scale = if flags.we_have_a_scale() {
            Some(CompositeGlyphScale::Scale(ctxt.read::<F2Dot14>()?))
        } else if flags.we_have_an_x_and_y_scale() {
            Some(CompositeGlyphScale::XY {
                x_scale: ctxt.read::<F2Dot14>()?,
                y_scale: ctxt.read::<F2Dot14>()?,
            })
        } else if flags.we_have_a_two_by_two() {
            Some(CompositeGlyphScale::Matrix([
                [ctxt.read::<F2Dot14>()?, ctxt.read::<F2Dot14>()?],
                [ctxt.read::<F2Dot14>()?, ctxt.read::<F2Dot14>()?],
            ]))
        } else {
            None
        };
        Ok(CompositeGlyphComponent {
            flags,
            glyph_index,
            argument1,
            argument2,
            scale,
        })
"""

COMP_WRITE = """
        U16Be::write(ctxt, glyph.flags.bits())?;
        U16Be::write(ctxt, glyph.glyph_index)?;
        CompositeGlyphArgument::write(ctxt, glyph.argument1)?;
        CompositeGlyphArgument::write(ctxt, glyph.argument2)?;
        if let Some(scale) = glyph.scale {
            CompositeGlyphScale::write(ctxt, scale)?;
        }
        Ok(())
"""

SCALE_WRITE = """
        match scale {
            CompositeGlyphScale::Scale(scale) => F2Dot14::write(ctxt, scale)?,
            CompositeGlyphScale::XY { x_scale, y_scale } => {
                F2Dot14::write(ctxt, x_scale)?;
                F2Dot14::write(ctxt, y_scale)?;
            }
            CompositeGlyphScale::Matrix(matrix) => {
                F2Dot14::write(ctxt, matrix[0][0])?;
                F2Dot14::write(ctxt, matrix[0][1])?;
                F2Dot14::write(ctxt, matrix[1][0])?;
                F2Dot14::write(ctxt, matrix[1][1])?;
            }
        }
        Ok(())
"""

FLAG_READ_FROM = """
        CompositeGlyphFlag::from_bits_truncate(flag)
"""

CMAP_READ = """
        let scope = ctxt.scope();
        let version = ctxt.read_u16be()?;
        ctxt.check(version == 0)?;
        let num_tables = usize::from(ctxt.read_u16be()?);
        let encoding_records = ctxt.read_array::<EncodingRecord>(num_tables)?;
        Ok(Cmap {
            scope,
            encoding_records,
        })
"""

SUB_READ = """
        let subtable_format = ctxt.read_u16be()?;
        match subtable_format {
            0 => {
                let length = usize::from(ctxt.read_u16be()?);
                ctxt.check(length >= 3 * size::U16 + 256)?;
                let language = ctxt.read_u16be()?;
                let glyph_id_array = ctxt.read_array::<U8>(256)?;
                Ok(CmapSubtable::Format0 {
                    language,
                    glyph_id_array,
                })
            }
            2 => {
                let _length = usize::from(ctxt.read_u16be()?);
                let language = ctxt.read_u16be()?;
                let sub_header_keys = ctxt.read_array::<U16Be>(256)?;
                let max_sub_header_index =
                    sub_header_keys.iter().map(|value| value / 8).max().unwrap();
                let sub_headers_scope = ctxt.scope();
                let sub_headers =
                    ctxt.read_array::<SubHeader>(usize::from(max_sub_header_index) + 1)?;
                Ok(CmapSubtable::Format2 {
                    language,
                    sub_header_keys,
                    sub_headers,
                    sub_headers_scope,
                })
            }
            4 => {
                let length = usize::from(ctxt.read_u16be()?);
                let language = ctxt.read_u16be()?;
                let seg_count_x2 = usize::from(ctxt.read_u16be()?);
                ctxt.check((seg_count_x2 & 1) == 0)?;
                let seg_count = seg_count_x2 >> 1;
                let _search_range = ctxt.read_u16be()?;
                let _entry_selector = ctxt.read_u16be()?;
                let _range_shift = ctxt.read_u16be()?;
                let end_codes = ctxt.read_array::<U16Be>(seg_count)?;
                let _reserved_pad = ctxt.read_u16be()?;
                let start_codes = ctxt.read_array::<U16Be>(seg_count)?;
                let id_deltas = ctxt.read_array::<I16Be>(seg_count)?;
                let id_range_offsets = ctxt.read_array::<U16Be>(seg_count)?;
                ctxt.check(length >= (8 + (4 * seg_count)) * size::U16)?;
                let remaining = length - ((8 + (4 * seg_count)) * size::U16);
                ctxt.check((remaining & 1) == 0)?;
                let num_indices = remaining >> 1;
                let glyph_id_array = ctxt.read_array::<U16Be>(num_indices)?;
                Ok(CmapSubtable::Format4(CmapSubtableFormat4 {
                    language,
                    end_codes,
                    start_codes,
                    id_deltas,
                    id_range_offsets,
                    glyph_id_array,
                }))
            }
            6 => {
                let _length = ctxt.read_u16be()?;
                let language = ctxt.read_u16be()?;
                let first_code = ctxt.read_u16be()?;
                let entry_count = usize::from(ctxt.read_u16be()?);
                let glyph_id_array = ctxt.read_array::<U16Be>(entry_count)?;
                Ok(CmapSubtable::Format6 {
                    language,
                    first_code,
                    glyph_id_array,
                })
            }
            10 => {
                let reserved = ctxt.read_u16be()?;
                ctxt.check(reserved == 0)?;
                let _length = ctxt.read_u32be()?;
                let language = ctxt.read_u32be()?;
                let start_char_code = ctxt.read_u32be()?;
                let num_chars = usize::try_from(ctxt.read_u32be()?)?;
                let glyph_id_array = ctxt.read_array::<U16Be>(num_chars)?;
                Ok(CmapSubtable::Format10 {
                    language,
                    start_char_code,
                    glyph_id_array,
                })
            }
            12 => {
                let reserved = ctxt.read_u16be()?;
                ctxt.check(reserved == 0)?;
                let _length = ctxt.read_u32be()?;
                let language = ctxt.read_u32be()?;
                let num_groups = usize::try_from(ctxt.read_u32be()?)?;
                let groups = ctxt.read_array::<SequentialMapGroup>(num_groups)?;
                Ok(CmapSubtable::Format12 { language, groups })
            }
            _ => Err(ParseError::BadVersion),
        }
"""

SUB_WRITE = """
        match table {
            CmapSubtable::Format0 {
                language,
                glyph_id_array,
            } => {
                U16Be::write(ctxt, 0u16)?;
                U16Be::write(ctxt, u16::try_from(3 * size::U16 + glyph_id_array.len())?)?;
                U16Be::write(ctxt, *language)?;
                <&ReadArray<'_, _>>::write(ctxt, glyph_id_array)?;
            }
            CmapSubtable::Format2 { .. } => {
                return Err(WriteError::NotImplemented);
            }
            CmapSubtable::Format4(CmapSubtableFormat4 {
                language,
                end_codes,
                start_codes,
                id_deltas,
                id_range_offsets,
                glyph_id_array,
            }) => {
                let start = ctxt.bytes_written();
                let calc = Format4Calculator::new(start_codes.len())?;
                U16Be::write(ctxt, 4u16)?;
                let length = ctxt.placeholder::<U16Be, _>()?;
                U16Be::write(ctxt, *language)?;
                U16Be::write(ctxt, calc.seg_count_x2())?;
                U16Be::write(ctxt, calc.search_range())?;
                U16Be::write(ctxt, calc.entry_selector())?;
                U16Be::write(ctxt, calc.range_shift())?;
                <&ReadArray<'_, _>>::write(ctxt, end_codes)?;
                U16Be::write(ctxt, 0u16)?;
                <&ReadArray<'_, _>>::write(ctxt, start_codes)?;
                <&ReadArray<'_, _>>::write(ctxt, id_deltas)?;
                <&ReadArray<'_, _>>::write(ctxt, id_range_offsets)?;
                <&ReadArray<'_, _>>::write(ctxt, glyph_id_array)?;
                ctxt.write_placeholder(length, u16::try_from(ctxt.bytes_written() - start)?)?;
            }
            CmapSubtable::Format6 {
                language,
                first_code,
                glyph_id_array,
            } => {
                let start = ctxt.bytes_written();
                U16Be::write(ctxt, 6u16)?;
                let length = ctxt.placeholder::<U16Be, _>()?;
                U16Be::write(ctxt, *language)?;
                U16Be::write(ctxt, *first_code)?;
                U16Be::write(ctxt, u16::try_from(glyph_id_array.len())?)?;
                <&ReadArray<'_, _>>::write(ctxt, glyph_id_array)?;
                ctxt.write_placeholder(length, u16::try_from(ctxt.bytes_written() - start)?)?;
            }
            CmapSubtable::Format10 {
                language,
                start_char_code,
                glyph_id_array,
            } => {
                let start = ctxt.bytes_written();
                U16Be::write(ctxt, 10u16)?;
                U16Be::write(ctxt, 0u16)?;
                let length = ctxt.placeholder::<U32Be, _>()?;
                U32Be::write(ctxt, *language)?;
                U32Be::write(ctxt, *start_char_code)?;
                U32Be::write(ctxt, u32::try_from(glyph_id_array.len())?)?;
                <&ReadArray<'_, _>>::write(ctxt, glyph_id_array)?;
                ctxt.write_placeholder(length, u32::try_from(ctxt.bytes_written() - start)?)?;
            }
            CmapSubtable::Format12 { language, groups } => {
                let start = ctxt.bytes_written();
                U16Be::write(ctxt, 12u16)?;
                U16Be::write(ctxt, 0u16)?;
                let length = ctxt.placeholder::<U32Be, _>()?;
                U32Be::write(ctxt, *language)?;
                U32Be::write(ctxt, u32::try_from(groups.len())?)?;
                <&ReadArray<'_, _>>::write(ctxt, groups)?;
                ctxt.write_placeholder(length, u32::try_from(ctxt.bytes_written() - start)?)?;
            }
        }
        Ok(())
"""

CALC = """
    fn new(seg_count: usize) -> Result<Self, WriteError> {
        let seg_count = u16::try_from(seg_count)?;
        if seg_count > u16::MAX / 2 {
            return Err(WriteError::BadValue);
        }
        Ok(Format4Calculator { seg_count })
    }
    fn seg_count_x2(self) -> u16 {
        2 * self.seg_count
    }
    fn search_range(self) -> u16 {
        if self.seg_count == 0 {
            return 0;
        }
        2 * (2u16.pow((self.seg_count as f64).log2().floor() as u32))
    }
    fn entry_selector(self) -> u16 {
        (self.search_range() as f64 / 2.).log2() as u16
    }
    fn range_shift(self) -> u16 {
        2 * self.seg_count - self.search_range()
    }
"""

GROUP_WRITE = """
        U32Be::write(ctxt, group.start_char_code)?;
        U32Be::write(ctxt, group.end_char_code)?;
        U32Be::write(ctxt, group.start_glyph_id)?;
        Ok(())
"""

TO_OWNED = """
        match self {
            CmapSubtable::Format0 {
                language,
                glyph_id_array,
            } => Some(OwnedCmapSubtable::Format0 {
                language: *language,
                glyph_id_array: {
                    let mut uninitialized = [0_u8; 256];
                    for (target, source) in uninitialized.iter_mut().zip(glyph_id_array.iter()) {
                        *target = source;
                    }
                    Box::new(uninitialized)
                },
            }),

            CmapSubtable::Format2 { .. } => None,
            CmapSubtable::Format4(CmapSubtableFormat4 {
                language,
                end_codes,
                start_codes,
                id_deltas,
                id_range_offsets,
                glyph_id_array,
            }) => Some(OwnedCmapSubtable::Format4(owned::CmapSubtableFormat4 {
                language: *language,
                end_codes: end_codes.to_vec(),
                start_codes: start_codes.to_vec(),
                id_deltas: id_deltas.to_vec(),
                id_range_offsets: id_range_offsets.to_vec(),
                glyph_id_array: glyph_id_array.to_vec(),
            })),
            CmapSubtable::Format6 {
                language,
                first_code,
                glyph_id_array,
            } => Some(OwnedCmapSubtable::Format6 {
                language: *language,
                first_code: *first_code,
                glyph_id_array: glyph_id_array.to_vec(),
            }),
            CmapSubtable::Format10 {
                language,
                start_char_code,
                glyph_id_array,
            } => Some(OwnedCmapSubtable::Format10 {
                language: *language,
                start_char_code: *start_char_code,
                glyph_id_array: glyph_id_array.to_vec(),
            }),
            CmapSubtable::Format12 { language, groups } => {
                Some(OwnedCmapSubtable::Format12(owned::CmapSubtableFormat12 {
                    language: *language,
                    groups: groups.to_vec(),
                }))
            }
        }
"""

OWNED_CMAP_WRITE = """
            let start = ctxt.bytes_written();
            U16Be::write(ctxt, 0u16)?;
            U16Be::write(ctxt, u16::try_from(table.encoding_records.len())?)?;
            let mut offsets = Vec::with_capacity(table.encoding_records.len());
            for record in &table.encoding_records {
                U16Be::write(ctxt, record.platform_id.0)?;
                U16Be::write(ctxt, record.encoding_id.0)?;
                let offset = ctxt.placeholder::<U32Be, _>()?;
                offsets.push(offset);
            }
            for (record, placeholder) in table.encoding_records.into_iter().zip(offsets.into_iter())
            {
                let offset = u32::try_from(ctxt.bytes_written() - start)?;
                CmapSubtable::write(ctxt, record.sub_table)?;
                ctxt.write_placeholder(placeholder, offset)?;
            }
            Ok(())
"""

OWNED_SUB_WRITE = """
            match table {
                CmapSubtable::Format0 {
                    language,
                    glyph_id_array,
                } => {
                    U16Be::write(ctxt, 0u16)?;
                    U16Be::write(ctxt, u16::try_from(3 * size::U16 + glyph_id_array.len())?)?;
                    U16Be::write(ctxt, language)?;
                    ctxt.write_bytes(glyph_id_array.as_ref())?;
                }
                CmapSubtable::Format4(CmapSubtableFormat4 {
                    language,
                    end_codes,
                    start_codes,
                    id_deltas,
                    id_range_offsets,
                    glyph_id_array,
                }) => {
                    let start = ctxt.bytes_written();
                    let calc = Format4Calculator::new(start_codes.len())?;
                    U16Be::write(ctxt, 4u16)?;
                    let length = ctxt.placeholder::<U16Be, _>()?;
                    U16Be::write(ctxt, language)?;
                    U16Be::write(ctxt, calc.seg_count_x2())?;
                    U16Be::write(ctxt, calc.search_range())?;
                    U16Be::write(ctxt, calc.entry_selector())?;
                    U16Be::write(ctxt, calc.range_shift())?;
                    ctxt.write_vec::<U16Be, _>(end_codes)?;
                    U16Be::write(ctxt, 0u16)?;
                    ctxt.write_vec::<U16Be, _>(start_codes)?;
                    ctxt.write_vec::<I16Be, _>(id_deltas)?;
                    ctxt.write_vec::<U16Be, _>(id_range_offsets)?;
                    ctxt.write_vec::<U16Be, _>(glyph_id_array)?;
                    ctxt.write_placeholder(length, u16::try_from(ctxt.bytes_written() - start)?)?;
                }
                CmapSubtable::Format6 {
                    language,
                    first_code,
                    glyph_id_array,
                } => {
                    let start = ctxt.bytes_written();
                    U16Be::write(ctxt, 6u16)?;
                    let length = ctxt.placeholder::<U16Be, _>()?;
                    U16Be::write(ctxt, language)?;
                    U16Be::write(ctxt, first_code)?;
                    U16Be::write(ctxt, u16::try_from(glyph_id_array.len())?)?;
                    ctxt.write_vec::<U16Be, _>(glyph_id_array)?;
                    ctxt.write_placeholder(length, u16::try_from(ctxt.bytes_written() - start)?)?;
                }
                CmapSubtable::Format10 {
                    language,
                    start_char_code,
                    glyph_id_array,
                } => {
                    let start = ctxt.bytes_written();
                    U16Be::write(ctxt, 10u16)?;
                    U16Be::write(ctxt, 0u16)?;
                    let length = ctxt.placeholder::<U32Be, _>()?;
                    U32Be::write(ctxt, language)?;
                    U32Be::write(ctxt, start_char_code)?;
                    U32Be::write(ctxt, u32::try_from(glyph_id_array.len())?)?;
                    ctxt.write_vec::<U16Be, _>(glyph_id_array)?;
                    ctxt.write_placeholder(length, u32::try_from(ctxt.bytes_written() - start)?)?;
                }
                CmapSubtable::Format12(CmapSubtableFormat12 { language, groups }) => {
                    let start = ctxt.bytes_written();
                    U16Be::write(ctxt, 12u16)?;
                    U16Be::write(ctxt, 0u16)?;
                    let length = ctxt.placeholder::<U32Be, _>()?;
                    U32Be::write(ctxt, language)?;
                    U32Be::write(ctxt, u32::try_from(groups.len())?)?;
                    ctxt.write_vec::<SequentialMapGroup, _>(groups)?;
                    ctxt.write_placeholder(length, u32::try_from(ctxt.bytes_written() - start)?)?;
                }
            }
            Ok(())
"""


PINS = [
    # (what, file, impl header regex, fn, pinned text)
    ("Glyph::read", "glyf", r"impl<'b> ReadBinary for Glyph<'b> ", "read", GLYPH_READ),
    ("Glyph::write", "glyf", r"impl<'a> WriteBinary for Glyph<'a> ", "write", GLYPH_WRITE),
    ("CompositeGlyphs::read", "glyf", r"impl ReadBinary for CompositeGlyphs ", "read", COMPS_READ),
    ("CompositeGlyph::read", "glyf", r"impl ReadBinary for CompositeGlyph<'_> ", "read", CG_READ),
    ("CompositeGlyph::write", "glyf", r"impl WriteBinary for CompositeGlyph<'_> ", "write", CG_WRITE),
    ("CompositeGlyphArgument::read_dep", "glyf", r"impl ReadBinaryDep for CompositeGlyphArgument ", "read_dep", ARG_READ),
    ("CompositeGlyphArgument::write", "glyf", r"impl WriteBinary for CompositeGlyphArgument ", "write", ARG_WRITE),
    ("CompositeGlyphComponent::read_dep", "glyf", r"impl ReadBinaryDep for CompositeGlyphComponent ", "read_dep", COMP_READ),
    ("CompositeGlyphComponent::write", "glyf", r"impl WriteBinary for CompositeGlyphComponent ", "write", COMP_WRITE),
    ("CompositeGlyphScale::write", "glyf", r"impl WriteBinary for CompositeGlyphScale ", "write", SCALE_WRITE),
    ("CompositeGlyphFlag::read_from", "glyf", r"impl ReadFrom for CompositeGlyphFlag ", "read_from", FLAG_READ_FROM),
    ("Cmap::read", "cmap", r"impl<'b> ReadBinary for Cmap<'b> ", "read", CMAP_READ),
    ("CmapSubtable::read", "cmap", r"impl<'b> ReadBinary for CmapSubtable<'b> ", "read", SUB_READ),
    ("CmapSubtable::write (borrowed)", "cmap", r"impl<'a> WriteBinary<&Self> for CmapSubtable<'a> ", "write", SUB_WRITE),
    ("Format4Calculator", "cmap", r"impl Format4Calculator ", None, CALC),
    ("SequentialMapGroup::write", "cmap", r"impl WriteBinary for SequentialMapGroup ", "write", GROUP_WRITE),
    ("CmapSubtable::to_owned", "cmap", r"impl<'a> CmapSubtable<'a> ", "to_owned", TO_OWNED),
    ("owned::Cmap::write", "cmap", r"impl WriteBinary<Self> for Cmap ", "write", OWNED_CMAP_WRITE),
    ("owned::CmapSubtable::write", "cmap", r"impl WriteBinary<Self> for CmapSubtable ", "write", OWNED_SUB_WRITE),
]

PRIM = {"U8": "PU8", "I8": "PI8", "U16Be": "PU16", "I16Be": "PI16", "U32Be": "PU32", "I32Be": "PI32"}
CONV = {"u16": "PU16", "u32": "PU32"}


def match_arms(body):
    """the arms of the outermost `match x { PAT => { BLOCK } ... }` of a function body: [(pattern, block)]"""
    m = re.search(r"match \w+ \{", body)
    if not m:
        raise Broken("no match expression")
    inner, _ = block_at(body, m.end() - 1)
    arms, i = [], 0
    while True:
        mm = re.compile(r"\s*(.*?)\s*=>\s*\{", re.S).match(inner, i)
        if not mm:
            break
        blk, j = block_at(inner, mm.end() - 1)
        arms.append((" ".join(mm.group(1).split()), blk))
        i = j
        while i < len(inner) and inner[i] in ", \n\t":
            i += 1
    return arms


def arm_format(pat):
    m = re.match(r"CmapSubtable::Format(\d+)", pat)
    if not m:
        raise Broken("sub-table arm `%s`" % pat[:60])
    return int(m.group(1))


def analyse_arm(fmt, blk, who):
    """-> (format number written, prim of the length field, how the length is produced, prim of the count field or None)"""
    m = re.search(r"U16Be::write\(ctxt, (\d+)u16\)\?;", blk)
    if not m:
        raise Broken("%s format %d: no format word" % (who, fmt))
    number = int(m.group(1))
    mp = re.search(r"let length = ctxt\.placeholder::<(\w+), _>\(\)\?;", blk)
    if mp:
        mw = re.search(r"ctxt\.write_placeholder\(length, (\w+)::try_from\(ctxt\.bytes_written\(\) - start\)\?\)\?;", blk)
        if not mw or "let start = ctxt.bytes_written();" not in blk:
            raise Broken("%s format %d: the length placeholder is not back-patched with a checked conversion of bytes_written() - start" % (who, fmt))
        if mp.group(1) not in PRIM or CONV.get(mw.group(1)) != PRIM[mp.group(1)]:
            raise Broken("%s format %d: placeholder type %s vs conversion %s" % (who, fmt, mp.group(1), mw.group(1)))
        if not squash(blk).rstrip().endswith(squash(mw.group(0))):
            raise Broken("%s format %d: the back-patch is not the last statement" % (who, fmt))
        length = (PRIM[mp.group(1)], "backpatch")
    else:
        ml = re.search(r"(\w+)::write\(ctxt, (\w+)::try_from\(3 \* size::U16 \+ glyph_id_array\.len\(\)\)\?\)\?;", blk)
        if not ml or ml.group(1) not in PRIM or CONV.get(ml.group(2)) != PRIM[ml.group(1)]:
            raise Broken("%s format %d: the length field is neither a back-patched placeholder nor a checked conversion" % (who, fmt))
        length = (PRIM[ml.group(1)], "direct")
    if re.search(r"\bas u(8|16|32)\b", blk):
        raise Broken("%s format %d: a truncating cast in the writer" % (who, fmt))
    mc = re.search(r"(\w+)::write\(ctxt, (\w+)::try_from\((?:glyph_id_array|groups)\.len\(\)\)\?\)\?;", blk)
    count = None
    if mc:
        if mc.group(1) not in PRIM or CONV.get(mc.group(2)) != PRIM[mc.group(1)]:
            raise Broken("%s format %d: count field %s vs conversion %s" % (who, fmt, mc.group(1), mc.group(2)))
        count = PRIM[mc.group(1)]
    return number, length, count


def normalise_writer(blk):
    """borrowed and owned arm bodies after the substitution described in the header"""
    s = blk
    s = re.sub(r"<&ReadArray<'_, _>>::write\(ctxt, (\w+)\)\?;", r"ARRAY(\1);", s)
    s = re.sub(r"ctxt\.write_vec::<\w+, _>\((\w+)\)\?;", r"ARRAY(\1);", s)
    s = re.sub(r"ctxt\.write_bytes\((\w+)\.as_ref\(\)\)\?;", r"ARRAY(\1);", s)
    s = re.sub(r"\*(language|first_code|start_char_code)\b", r"\1", s)
    return squash(s)


def main():
    rd = lambda p: strip_comments(open(os.path.join(REPO, p)).read())
    src = {"glyf": rd("src/tables/glyf.rs"), "cmap": rd("src/tables/cmap.rs")}
    glyf, cmap = src["glyf"], src["cmap"]
    defs = []

    # ---- 1. shapes (reported after the more specific derived checks below)
    bodies, shape_problems = {}, []
    for what, f, hdr, fn, want in PINS:
        got = body_of(src[f], hdr, fn)
        bodies[what] = got
        try:
            expect_shape(what, got, want)
        except Broken as e:
            shape_problems.append(str(e))

    # ---- 2a. composite: the instruction decision
    cgw = bodies["CompositeGlyph::write"]
    loop = re.search(r"for glyph in composite\.glyphs \{", cgw)
    if not loop:
        raise Broken("CompositeGlyph::write: no loop over composite.glyphs")
    loop_body, loop_end = block_at(cgw, loop.end() - 1)
    if not re.search(r"has_instructions \|= glyph\.flags\.we_have_instructions\(\);", loop_body):
        raise Broken("CompositeGlyph::write: has_instructions is not OR-accumulated over all components")
    if not re.search(r"let mut has_instructions = false;", cgw[:loop.start()]):
        raise Broken("CompositeGlyph::write: has_instructions does not start as false")
    tail = cgw[loop_end:]
    if not re.match(r"\s*if has_instructions \{\s*U16Be::write\(ctxt, u16::try_from\(composite\.instructions\.len\(\)\)\?\)\?;\s*ctxt\.write_bytes\(composite\.instructions\)\?;\s*\}\s*Ok\(\(\)\)\s*$", tail):
        raise Broken("CompositeGlyph::write: instructionLength is not a checked u16 conversion guarded by has_instructions")
    mnc = re.search(r"I16Be::write\(ctxt, (-?\d+)_i16\)\?;", cgw)
    if not mnc:
        raise Broken("CompositeGlyph::write: numberOfContours literal")
    defs.append(("cgw_number_of_contours", "CompositeGlyph::write: the numberOfContours written", "Z", "(%s)" % mnc.group(1)))

    # ---- 2b. composite flags: bit values, mask, what the accessors test
    mb = re.search(r"pub struct CompositeGlyphFlag: u16 \{(.*?)\}", glyf, re.S)
    if not mb:
        raise Broken("bitflags CompositeGlyphFlag")
    flags = re.findall(r"const (\w+) = (0x[0-9A-Fa-f]+|0b[01]+|\d+);", mb.group(1))
    if len(flags) != 12:
        raise Broken("CompositeGlyphFlag: %d constants" % len(flags))
    vals = {}
    for n, v in flags:
        vals[n] = intlit(v)
        defs.append(("cgf_" + n.lower(), "CompositeGlyphFlag::" + n, "Z", str(vals[n])))
    mask = 0
    for v in vals.values():
        mask |= v
    defs.append(("cgf_all", "what from_bits_truncate keeps", "Z", str(mask)))
    acc = body_of(glyf, r"impl CompositeGlyphFlag ")
    for fn in ["arg_1_and_2_are_words", "args_are_xy_values", "we_have_a_scale", "we_have_an_x_and_y_scale",
               "we_have_a_two_by_two", "more_components", "we_have_instructions"]:
        m = re.search(r"pub fn %s\(self\) -> bool \{\s*self & Self::(\w+) == Self::(\w+)\s*\}" % fn, acc)
        if not m or m.group(1) != m.group(2) or m.group(1) not in vals:
            raise Broken("CompositeGlyphFlag::%s" % fn)
        defs.append(("cgf_test_" + fn, "CompositeGlyphFlag::%s tests %s" % (fn, m.group(1)), "Z", str(vals[m.group(1)])))

    # ---- 2c. cmap sub-table writers: per format number / length field / count field, borrowed = owned
    barms = {arm_format(p): b for p, b in match_arms(bodies["CmapSubtable::write (borrowed)"]) if "NotImplemented" not in b}
    oarms = {arm_format(p): b for p, b in match_arms(bodies["owned::CmapSubtable::write"])}
    if sorted(barms) != [0, 4, 6, 10, 12] or sorted(oarms) != [0, 4, 6, 10, 12]:
        raise Broken("sub-table writer formats: borrowed %s owned %s" % (sorted(barms), sorted(oarms)))
    if "CmapSubtable::Format2 { .. } => { return Err(WriteError::NotImplemented); }".replace(" ", "") not in squash(bodies["CmapSubtable::write (borrowed)"]):
        raise Broken("borrowed writer: format 2 arm")
    rows = []
    for fmt in sorted(barms):
        a = analyse_arm(fmt, barms[fmt], "borrowed writer")
        b = analyse_arm(fmt, oarms[fmt], "owned writer")
        if a != b or a[0] != fmt:
            raise Broken("format %d: borrowed %s vs owned %s" % (fmt, a, b))
        if normalise_writer(barms[fmt]) != normalise_writer(oarms[fmt]):
            raise Broken("format %d: the owned writer is not the borrowed writer up to array writes and `*field`" % fmt)
        rows.append("(%d, %s, %s)" % (fmt, a[1][0], "Some %s" % a[2] if a[2] else "None"))
    defs.append(("cmw_formats", "sub-table writers: (format word, width of the length field, width of the count field)",
                 "list (Z * prim * option prim)", "[" + "; ".join(rows) + "]"))
    for fmt in [4]:
        if "let calc = Format4Calculator::new(start_codes.len())?;" not in barms[fmt] or \
                "let calc = Format4Calculator::new(start_codes.len())?;" not in oarms[fmt]:
            raise Broken("format 4: the segment count does not go through Format4Calculator::new")
    calc = bodies["Format4Calculator"]
    m = re.search(r"let seg_count = u16::try_from\(seg_count\)\?;\s*if seg_count > u16::MAX / (\d+) \{\s*return Err\(WriteError::BadValue\);\s*\}", calc)
    if not m:
        raise Broken("Format4Calculator::new: the segment limit")
    defs.append(("cmw_max_segments", "Format4Calculator::new refuses more segments (u16::MAX / %s)" % m.group(1), "Z", str(65535 // int(m.group(1)))))
    if not re.search(r"fn seg_count_x2\(self\) -> u16 \{\s*2 \* self\.seg_count\s*\}", calc) or \
            not re.search(r"fn range_shift\(self\) -> u16 \{\s*2 \* self\.seg_count - self\.search_range\(\)\s*\}", calc) or \
            not re.search(r"if self\.seg_count == 0 \{\s*return 0;\s*\}\s*2 \* \(2u16\.pow\(\(self\.seg_count as f64\)\.log2\(\)\.floor\(\) as u32\)\)", calc):
        raise Broken("Format4Calculator fields")

    # ---- 2d. the owned table writer: count, placeholders, offsets
    ow = bodies["owned::Cmap::write"]
    for need, why in [
        (r"U16Be::write\(ctxt, u16::try_from\(table\.encoding_records\.len\(\)\)\?\)\?;", "numTables is a checked u16 conversion"),
        (r"let offset = ctxt\.placeholder::<U32Be, _>\(\)\?;", "offsets are 32-bit placeholders"),
        (r"let offset = u32::try_from\(ctxt\.bytes_written\(\) - start\)\?;\s*CmapSubtable::write\(ctxt, record\.sub_table\)\?;\s*ctxt\.write_placeholder\(placeholder, offset\)\?;",
         "each offset is the checked position of its sub-table relative to the start of the table"),
        (r"let start = ctxt\.bytes_written\(\);\s*U16Be::write\(ctxt, 0u16\)\?;", "start is taken before the version word"),
    ]:
        if not re.search(need, ow):
            raise Broken("owned::Cmap::write: " + why)

    # ---- 2e. reader constants the round trip relies on
    sr = bodies["CmapSubtable::read"]
    m = re.search(r"ctxt\.check\(length >= (\d+) \* size::U16 \+ (\d+)\)\?;\s*let language = ctxt\.read_u16be\(\)\?;\s*let glyph_id_array = ctxt\.read_array::<U8>\((\d+)\)\?;", sr)
    if not m or m.group(2) != m.group(3):
        raise Broken("CmapSubtable::read format 0 constants")
    defs.append(("cmr_f0_entries", "format 0: number of glyph ids read", "Z", m.group(3)))
    defs.append(("cmr_f0_min_length", "format 0: `length >= K`", "Z", str(int(m.group(1)) * 2 + int(m.group(2)))))
    m = re.search(r"ctxt\.check\(length >= \((\d+) \+ \((\d+) \* seg_count\)\) \* size::U16\)\?;", sr)
    if not m:
        raise Broken("CmapSubtable::read format 4 length check")
    defs.append(("cmr_f4_header_words", "format 4: 16-bit words before glyphIdArray = K + M * segCount", "Z * Z", "(%s, %s)" % (m.group(1), m.group(2))))

    if shape_problems:
        raise Broken("; ".join(shape_problems))

    txt = "(* GENERATED by translators/tr_glyfcmap.py from src/tables/glyf.rs and src/tables/cmap.rs — do not edit *)\n"
    txt += "From AV Require Import Base.Prelude.\nOpen Scope Z_scope.\n\n"
    for name, comment, ty, body in defs:
        if comment:
            txt += "(* %s *)\n" % comment
        txt += "Definition %s : %s := %s.\n" % (name, ty, body)
    out = os.path.normpath(OUT)
    if not (os.path.exists(out) and open(out).read() == txt):
        open(out, "w").write(txt)
    print("tr_glyfcmap: ok (%d pinned shapes, %d definitions)" % (len(PINS), len(defs)))


if __name__ == "__main__":
    try:
        main()
    except Broken as e:
        print("tr_glyfcmap: BROKEN:", e)
        sys.exit(2)
