#!/usr/bin/env python3
"""Translate the cmap sub-table preference cascade of src/font.rs into a Gallina list.

`find_good_cmap_subtable` is straight-line code: a sequence of

    if let Some(encoding_record) = cmap.find_subtable(PlatformId::P, EncodingId::E) {
        return Some((Encoding::X, encoding_record));
    }
    if let Some(encoding_record) = cmap.find_subtable_for_platform(PlatformId::P) { return ...; }

followed by `None`.  The translator extracts that sequence in source order, resolves the
PlatformId / EncodingId constants through src/tables/cmap.rs, checks that the two finder methods
are still `self.encoding_records.iter().find(|record| <equalities>)`, and that the `Encoding` enum
still has exactly the four variants the model knows.  Anything else makes it fail closed.

Output: coq/Gen/CmapPrefs.v.  Exit status 0 = parsed; 2 = an anchor no longer parses.
"""
import re, sys, os

REPO = os.environ.get("VERIF_REPO", "/repo")
ROOT = os.path.dirname(os.path.dirname(os.path.abspath(__file__)))
OUT = sys.argv[1] if len(sys.argv) > 1 else os.path.join(ROOT, "coq", "Gen", "CmapPrefs.v")


class Broken(Exception):
    pass


def strip_comments(src):
    src = re.sub(r"/\*.*?\*/", "", src, flags=re.S)
    return re.sub(r"//[^\n]*", "", src)


def fn_body(src, header_re):
    m = re.search(header_re, src)
    if not m:
        raise Broken("cannot find " + header_re)
    i = src.index("{", m.end() - 1)
    depth, j = 0, i
    while True:
        if src[j] == "{":
            depth += 1
        elif src[j] == "}":
            depth -= 1
            if depth == 0:
                break
        j += 1
    return src[i + 1:j]


def norm(s):
    return re.sub(r"\s+", "", s)


def consts(src, ty):
    out = {}
    for m in re.finditer(r"pub const (\w+)\s*:\s*%s\s*=\s*%s\((\d+)\)\s*;" % (ty, ty), src):
        out[m.group(1)] = int(m.group(2))
    if not out:
        raise Broken("no %s constants found" % ty)
    return out


def resolve(expr, ty, table):
    expr = expr.strip()
    m = re.fullmatch(r"%s::(\w+)" % ty, expr)
    if m:
        if m.group(1) not in table:
            raise Broken("unknown constant %s" % expr)
        return table[m.group(1)]
    m = re.fullmatch(r"%s\((\d+)\)" % ty, expr)
    if m:
        return int(m.group(1))
    raise Broken("cannot resolve %s" % expr)


ENC = {"Unicode": "EUnicode", "Symbol": "ESymbol", "AppleRoman": "EAppleRoman", "Big5": "EBig5"}


def main():
    try:
        cmap_src = strip_comments(open(os.path.join(REPO, "src", "tables", "cmap.rs"), encoding="utf-8").read())
        font_src = strip_comments(open(os.path.join(REPO, "src", "font.rs"), encoding="utf-8").read())
        plats = consts(cmap_src, "PlatformId")
        encs = consts(cmap_src, "EncodingId")

        # the two finders
        b = norm(fn_body(cmap_src, r"pub fn find_subtable_for_platform\s*\(\s*&self\s*,\s*platform_id\s*:\s*PlatformId\s*\)\s*->\s*Option<EncodingRecord>\s*\{"))
        if b != "self.encoding_records.iter().find(|record|record.platform_id==platform_id)":
            raise Broken("Cmap::find_subtable_for_platform changed shape: " + b)
        b = norm(fn_body(cmap_src, r"pub fn find_subtable\s*\(\s*&self\s*,\s*platform_id\s*:\s*PlatformId\s*,\s*encoding_id\s*:\s*EncodingId\s*,?\s*\)\s*->\s*Option<EncodingRecord>\s*\{"))
        if b != "self.encoding_records.iter().find(|record|record.platform_id==platform_id&&record.encoding_id==encoding_id)":
            raise Broken("Cmap::find_subtable changed shape: " + b)

        # the Encoding enum
        m = re.search(r"pub enum Encoding\s*\{([^}]*)\}", font_src)
        if not m:
            raise Broken("enum Encoding not found")
        variants = [v.split("=")[0].strip() for v in m.group(1).split(",") if v.strip()]
        if variants != list(ENC.keys()):
            raise Broken("enum Encoding variants changed: %s" % variants)

        body = fn_body(font_src, r"pub fn find_good_cmap_subtable\s*\(\s*cmap\s*:\s*&Cmap<'_>\s*\)\s*->\s*Option<\(Encoding,\s*EncodingRecord\)>\s*\{")
        rest = body.strip()
        prefs = []
        block = re.compile(
            r"if\s+let\s+Some\((\w+)\)\s*=\s*cmap\s*\.\s*(find_subtable|find_subtable_for_platform)\s*\(([^)]*(?:\([^)]*\)[^)]*)*)\)\s*"
            r"\{\s*return\s+Some\(\(\s*Encoding::(\w+)\s*,\s*(\w+)\s*\)\)\s*;\s*\}\s*", re.S)
        while True:
            m = block.match(rest)
            if not m:
                break
            var, fn, args, enc, var2 = m.groups()
            if var != var2:
                raise Broken("returned record is not the one found: %s / %s" % (var, var2))
            if enc not in ENC:
                raise Broken("unknown Encoding::%s" % enc)
            # split the arguments at the top-level comma
            parts, depth, cur = [], 0, ""
            for c in args:
                if c == "(":
                    depth += 1
                if c == ")":
                    depth -= 1
                if c == "," and depth == 0:
                    parts.append(cur)
                    cur = ""
                else:
                    cur += c
            if cur.strip():
                parts.append(cur)
            if fn == "find_subtable":
                if len(parts) != 2:
                    raise Broken("find_subtable with %d arguments" % len(parts))
                prefs.append(("QExact %d %d" % (resolve(parts[0], "PlatformId", plats), resolve(parts[1], "EncodingId", encs)), ENC[enc]))
            else:
                if len(parts) != 1:
                    raise Broken("find_subtable_for_platform with %d arguments" % len(parts))
                prefs.append(("QPlatform %d" % resolve(parts[0], "PlatformId", plats), ENC[enc]))
            rest = rest[m.end():]
        if rest.strip() != "None":
            raise Broken("find_good_cmap_subtable: unrecognised code after %d blocks: %s" % (len(prefs), rest.strip()[:120]))
        if not prefs:
            raise Broken("find_good_cmap_subtable: no preference found")
    except Broken as e:
        print("tr_cmap.py: BROKEN: %s" % e)
        sys.exit(2)
    except Exception as e:  # fail closed
        print("tr_cmap.py: BROKEN: %s: %s" % (type(e).__name__, e))
        sys.exit(2)

    lines = [
        "(* GENERATED by translators/tr_cmap.py from src/font.rs (find_good_cmap_subtable) and",
        "   src/tables/cmap.rs (PlatformId / EncodingId constants) -- do not edit. *)",
        "From Coq Require Import List ZArith.",
        "Import ListNotations.",
        "Open Scope Z_scope.",
        "",
        "(* font.rs `enum Encoding` *)",
        "Inductive encoding := EUnicode | ESymbol | EAppleRoman | EBig5.",
        "(* cmap.find_subtable(platform, encoding) / cmap.find_subtable_for_platform(platform) *)",
        "Inductive query := QExact (platform encoding_id : Z) | QPlatform (platform : Z).",
        "",
        "(* the cascade of find_good_cmap_subtable, in source order *)",
        "Definition cmap_preferences : list (query * encoding) := [",
    ]
    lines += ["  (%s, %s)%s" % (q, e, ";" if i + 1 < len(prefs) else "") for i, (q, e) in enumerate(prefs)]
    lines += ["].", ""]
    for name in sorted(plats):
        lines.append("Definition PLATFORM_%s : Z := %d." % (name, plats[name]))
    for name in sorted(encs):
        lines.append("Definition ENCODING_%s : Z := %d." % (name, encs[name]))
    txt = "\n".join(lines) + "\n"
    old = open(OUT).read() if os.path.exists(OUT) else None
    if old != txt:
        os.makedirs(os.path.dirname(OUT), exist_ok=True)
        with open(OUT, "w") as f:
            f.write(txt)
    print("tr_cmap.py: ok (%d preferences)" % len(prefs))


if __name__ == "__main__":
    main()
