#!/usr/bin/env python3
"""Translate the unsafe reader primitives of src/binary/read.rs into Gallina.

For every `unsafe fn read_unchecked_<p>` it symbolically evaluates the (tiny, straight-line) body:
which `self.offset + k` indices are dereferenced with get_unchecked, by how much the cursor advances,
and the shift/or expression that is returned.  For every checked `pub fn read_<p>` it extracts the
argument of the dominating `check_avail(N)`.  For every `impl ReadUnchecked for <Ty>` it extracts
SIZE (resolved through src/size.rs) and the primitive it forwards to.  It also counts `unsafe`
tokens everywhere in src/ and fails closed if one appears outside the modelled set.

Output: coq/Gen/ReaderPrims.v.  Exit status 0 = anchors parsed; 2 = an anchor no longer parses
(the tie for C14 and everything built on the reader model is then reported broken).
"""
import re, sys, os, glob

REPO = os.environ.get("VERIF_REPO", "/repo")
OUT = sys.argv[1] if len(sys.argv) > 1 else os.path.join(os.path.dirname(os.path.abspath(__file__)), "..", "coq", "Gen", "ReaderPrims.v")

PRIMS = ["u8", "i8", "u16be", "i16be", "u24be", "u32be", "i32be", "u64be", "i64be"]
COQ = {"u8": "PU8", "i8": "PI8", "u16be": "PU16", "i16be": "PI16", "u24be": "PU24",
       "u32be": "PU32", "i32be": "PI32", "u64be": "PU64", "i64be": "PI64"}
TYNAME = {"U8": "u8", "I8": "i8", "U16Be": "u16be", "I16Be": "i16be", "U24Be": "u24be",
          "U32Be": "u32be", "I32Be": "i32be", "U64Be": "u64be", "I64Be": "i64be"}


class Broken(Exception):
    pass


def fn_body(src, header_re):
    m = re.search(header_re, src)
    if not m:
        raise Broken("cannot find " + header_re)
    i = src.index("{", m.end() - 1)
    depth, j = 0, i
    while True:
        if src[j] == "{":
            depth += 1
        elif src[j] == "}":
            depth -= 1
            if depth == 0:
                break
        j += 1
    return m, src[i + 1:j]


# ---- tiny expression parser:  e := e '|' e | e '<<' n | '(' e ')' | ident | call | e 'as' ty
def tokenize(s):
    toks = re.findall(r"<<|\||\(|\)|[A-Za-z_][A-Za-z_0-9:.]*|\d+|\*|\+|;|=|&", s)
    return toks


class P:
    def __init__(self, toks, env, evalcall, width):
        self.t, self.i, self.env, self.evalcall, self.width = toks, 0, env, evalcall, width

    def peek(self):
        return self.t[self.i] if self.i < len(self.t) else None

    def eat(self, x=None):
        v = self.peek()
        if x is not None and v != x:
            raise Broken("expected %s got %s in %s" % (x, v, self.t))
        self.i += 1
        return v

    def expr(self):
        e = self.shift()
        while self.peek() == "|":
            self.eat()
            r = self.shift()
            e = "(Z.lor %s %s)" % (e, r)
        return e

    def shift(self):
        e = self.cast()
        while self.peek() == "<<":
            self.eat()
            n = self.eat()
            if not n.isdigit():
                raise Broken("non-literal shift")
            if int(n) >= self.width:
                raise Broken("shift >= width")
            e = "(wrap %d (Z.shiftl %s %s))" % (self.width, e, n)
        return e

    def cast(self):
        e = self.atom()
        while self.peek() == "as":
            self.eat()
            ty = self.eat()
            m = re.fullmatch(r"([iu])(\d+)", ty)
            if not m:
                raise Broken("cast to " + ty)
            if m.group(1) == "i":
                e = "(to_signed %s %s)" % (m.group(2), e)
            else:
                e = "(wrap %s %s)" % (m.group(2), e)
        return e

    def atom(self):
        t = self.eat()
        if t == "(":
            e = self.expr()
            self.eat(")")
            return e
        if re.fullmatch(r"u(8|16|32|64)::from", t):
            self.eat("(")
            e = self.expr()
            self.eat(")")
            return e
        if t == "*":  # *self.scope.data.get_unchecked(self.offset [+ k])
            name = self.eat()
            if name != "self.scope.data.get_unchecked":
                raise Broken("deref of " + name)
            self.eat("(")
            self.eat("self.offset")
            k = 0
            if self.peek() == "+":
                self.eat()
                k = int(self.eat())
            self.eat(")")
            return self.evalcall("byte", k)
        m = re.fullmatch(r"self\.read_unchecked_(\w+)", t)
        if m:
            self.eat("(")
            self.eat(")")
            return self.evalcall("call", m.group(1))
        if t in self.env:
            return self.env[t]
        raise Broken("unknown atom " + t)


def width_of(ret):
    return int(re.fullmatch(r"[iu](\d+)", ret).group(1))


def main():
    src = open(os.path.join(REPO, "src/binary/read.rs")).read()
    # the guarded verification assertions are compiled out unless the hook feature is on
    src = re.sub(r'#\[cfg\(feature = "verif-hooks"\)\]\s*assert!\([^;]*?"VERIF-OOB[^"]*"\s*\);', "", src)
    size_src = open(os.path.join(REPO, "src/size.rs")).read()
    sizes = {}
    for m in re.finditer(r"pub const (\w+): usize = ([^;]+);", size_src):
        name, rhs = m.group(1), m.group(2).strip()
        mm = re.fullmatch(r"mem::size_of::<([iu])(\d+)>\(\)", rhs)
        if mm:
            sizes[name] = int(mm.group(2)) // 8
        elif rhs.isdigit():
            sizes[name] = int(rhs)
        else:
            raise Broken("size.rs: " + rhs)

    prims = {}

    def analyse(p):
        if p in prims:
            return prims[p]
        m, body = fn_body(src, r"unsafe fn read_unchecked_%s\(&mut self\) -> (\w+) " % p)
        ret = m.group(1)
        st = {"adv": 0, "idx": [], "env": {}}

        def evalcall(kind, arg):
            if kind == "byte":
                st["idx"].append(st["adv"] + arg)
                return "(g %d)" % (st["adv"] + arg)
            sub = analyse(arg)
            base = st["adv"]
            st["idx"] += [base + i for i in sub["idx"]]
            st["adv"] += sub["adv"]
            return re.sub(r"\(g (\d+)\)", lambda mm: "(g %d)" % (int(mm.group(1)) + base), sub["val"])

        stmts = [s.strip() for s in body.split(";")]
        result = None
        for s in stmts:
            if not s:
                continue
            mm = re.fullmatch(r"let (\w+) = (.*)", s, re.S)
            if mm:
                # width of the let: the u<N>::from( prefix, else the return type
                w = re.match(r"u(\d+)::from", mm.group(2).strip())
                width = int(w.group(1)) if w else width_of(ret)
                pr = P(tokenize(mm.group(2)), st["env"], evalcall, width)
                st["env"][mm.group(1)] = pr.expr()
                if pr.peek() is not None:
                    raise Broken("trailing tokens in " + s)
                continue
            mm = re.fullmatch(r"self\.offset \+= (\d+)", s)
            if mm:
                st["adv"] += int(mm.group(1))
                continue
            # final expression
            pr = P(tokenize(s), st["env"], evalcall, width_of(ret))
            result = pr.expr()
            if pr.peek() is not None:
                raise Broken("trailing tokens in " + s)
        if result is None:
            raise Broken("no result expr in read_unchecked_" + p)
        prims[p] = {"idx": st["idx"], "adv": st["adv"], "val": result, "ret": ret}
        return prims[p]

    for p in PRIMS:
        analyse(p)

    chk = {}
    for p in PRIMS:
        if not re.search(r"pub fn read_%s\(&mut self\)" % p, src):
            chk[p] = None  # no direct method: only reachable through the generic ReadBinary path
            continue
        m, body = fn_body(src, r"pub fn read_%s\(&mut self\) -> Result<\w+, ReadEof> " % p)
        mm = re.fullmatch(r"\s*self\.check_avail\((\d+)\)\?;\s*Ok\(unsafe \{ self\.read_unchecked_(\w+)\(\) \}\)\s*(//[^\n]*\s*)*", body)
        if not mm or mm.group(2) != p:
            raise Broken("checked read_%s has unexpected shape: %r" % (p, body))
        chk[p] = int(mm.group(1))

    # check_avail itself
    m, body = fn_body(src, r"fn check_avail\(&self, length: usize\) -> Result<\(\), ReadEof> ")
    norm = re.sub(r"\s+", " ", body).strip()
    want = "match self.offset.checked_add(length) { Some(endpos) if endpos <= self.scope.data.len() => Ok(()), _ => Err(ReadEof {}), }"
    if norm != want:
        raise Broken("check_avail changed: " + norm)

    # generic ReadBinary for ReadUnchecked
    gm = re.search(r"impl<T> ReadBinary for T\s+where\s+T: ReadUnchecked,\s*\{.*?fn read<'a>\(ctxt: &mut ReadCtxt<'a>\)[^{]*\{\s*ctxt\.check_avail\(T::SIZE\)\?;\s*Ok\(unsafe \{ T::read_unchecked\(ctxt\) \}\)", src, re.S)
    if not gm:
        raise Broken("generic ReadBinary impl changed")

    # impl ReadUnchecked for <Ty>
    impl = {}
    for m in re.finditer(r"impl ReadUnchecked for (\w+) \{\s*type HostType = (\w+);\s*const SIZE: usize = size::(\w+);\s*unsafe fn read_unchecked<'a>\(ctxt: &mut ReadCtxt<'a>\) -> \w+ \{\s*ctxt\.read_unchecked_(\w+)\(\)\s*\}\s*\}", src):
        ty, host, sz, fwd = m.groups()
        if ty not in TYNAME:
            raise Broken("unknown ReadUnchecked type " + ty)
        if TYNAME[ty] != fwd:
            raise Broken("%s forwards to %s" % (ty, fwd))
        impl[TYNAME[ty]] = sizes[sz]
    if set(impl) != set(PRIMS):
        raise Broken("ReadUnchecked impls: %s" % sorted(impl))
    # tuple impls: SIZE is the sum and reads are in order
    for n in (2, 3, 4):
        names = ["T%d" % i for i in range(1, n + 1)]
        pat = r"const SIZE: usize = " + r" \+ ".join(x + "::SIZE" for x in names) + ";"
        if not re.search(pat, src):
            raise Broken("tuple%d SIZE" % n)
        pat2 = r"\s*".join(r"let t%d = T%d::read_unchecked\(ctxt\);" % (i, i) for i in range(1, n + 1))
        if not re.search(pat2, src):
            raise Broken("tuple%d order" % n)

    # unsafe census
    census = {}
    for f in glob.glob(os.path.join(REPO, "src/**/*.rs"), recursive=True):
        txt = open(f).read()
        txt = re.sub(r"//[^\n]*", "", txt)
        c = len(re.findall(r"\bunsafe\b", txt))
        if c:
            census[os.path.relpath(f, REPO)] = c
    allowed = {"src/binary/read.rs", "src/big5.rs", "src/tables/variable_fonts/fvar.rs"}
    extra = sorted(set(census) - allowed)
    # unsafe blocks in read.rs: each must be one of the known shapes
    body_rs = re.sub(r"//[^\n]*", "", src)
    blocks = re.findall(r"unsafe \{([^}]*)\}", body_rs)
    ok_block = re.compile(r"\s*(self\.read_unchecked_\w+\(\)|T::read_unchecked\((ctxt|&mut ctxt)\))\s*")
    bad_blocks = [b for b in blocks if not ok_block.fullmatch(b)]

    with open(OUT + ".tmp", "w") as o:
        o.write("(* GENERATED by translators/tr_reader.py from src/binary/read.rs and src/size.rs — do not edit *)\n")
        o.write("From AV Require Import Base.Prelude.\nOpen Scope Z_scope.\n\n")
        for field, f in (("unchecked_idx", lambda p: "[" + "; ".join(map(str, prims[p]["idx"])) + "]"),
                         ("unchecked_adv", lambda p: str(prims[p]["adv"])),
                         ("checked_avail", lambda p: str(chk[p] if chk[p] is not None else impl[p])),
                         ("prim_size", lambda p: str(impl[p]))):
            ty = "list Z" if field == "unchecked_idx" else "Z"
            o.write("Definition %s (p : prim) : %s :=\n  match p with\n" % (field, ty))
            for p in PRIMS:
                o.write("  | %s => %s\n" % (COQ[p], f(p)))
            o.write("  end.\n\n")
        o.write("(* value returned, as a function of g k = the byte at cursor + k *)\n")
        o.write("Definition unchecked_val (p : prim) (g : Z -> Z) : Z :=\n  match p with\n")
        for p in PRIMS:
            o.write("  | %s => %s\n" % (COQ[p], prims[p]["val"]))
        o.write("  end.\n\n")
        o.write("Definition unsafe_files_outside_model : Z := %d.\n" % len(extra))
        o.write("Definition unsafe_blocks_of_unknown_shape : Z := %d.\n" % len(bad_blocks))
        o.write("Definition unsafe_tokens_read_rs : Z := %d.\n" % census.get("src/binary/read.rs", 0))
    if os.path.exists(OUT) and open(OUT).read() == open(OUT + ".tmp").read():
        os.remove(OUT + ".tmp")
    else:
        os.replace(OUT + ".tmp", OUT)
    if extra or bad_blocks:
        print("tr_reader: unsafe outside modelled set:", extra, bad_blocks)
    print("tr_reader: ok prims=%d" % len(prims))


if __name__ == "__main__":
    try:
        main()
    except Broken as e:
        print("tr_reader: BROKEN:", e)
        sys.exit(2)
