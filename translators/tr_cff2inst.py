#!/usr/bin/env python3
"""Translate the operand conversion and operand encoding used when CFF2 charstrings are instanced
(property C12) into Gallina.

Read from $VERIF_REPO (default /repo):
  src/cff/cff2.rs   `impl From<f32> for StackValue`  (how a blended operand goes back on the
                    charstring stack) translated as an expression over abstract primitives;
                    `impl WriteBinary for StackValue` (the match arms of the integer encoding:
                    ranges, offsets, lead bytes; the formulas are checked against their shape);
                    `impl From<StackValue> for f32`  (shape check only)
  src/tables.rs     `impl From<f32> for Fixed`: the shape is checked and the operator that joins
                    the integer part and the rounded fraction is translated
  src/cff/charstring.rs  operator::SHORT_INT, operator::FIXED_16_16

Output: coq/Gen/Cff2InstConsts.v.  Exit 0 = parsed; exit 2 = an anchor no longer parses
(prints `tr_cff2inst: BROKEN: why`).  The file is rewritten only when its content changes.
"""
import os, re, sys

REPO = os.environ.get("VERIF_REPO", "/repo")
HERE = os.path.dirname(os.path.abspath(__file__))
OUT = sys.argv[1] if len(sys.argv) > 1 else os.path.join(HERE, "..", "coq", "Gen", "Cff2InstConsts.v")


class Broken(Exception):
    pass


def read(rel):
    try:
        return open(os.path.join(REPO, rel), encoding="utf-8").read()
    except OSError as e:
        raise Broken("cannot read %s: %s" % (rel, e))


def strip_comments(src):
    src = re.sub(r"/\*.*?\*/", "", src, flags=re.S)
    return re.sub(r"//[^\n]*", "", src)


def block_at(src, i, what):
    i = src.index("{", i)
    depth, j = 0, i
    while j < len(src):
        if src[j] == "{":
            depth += 1
        elif src[j] == "}":
            depth -= 1
            if depth == 0:
                return src[i + 1:j]
        j += 1
    raise Broken("unbalanced braces in %s" % what)


def impl_fn_body(src, impl_re, fn_re, what):
    m = re.search(impl_re, src)
    if not m:
        raise Broken("%s: impl not found" % what)
    body = block_at(src, m.end() - 1, what)
    f = re.search(fn_re, body)
    if not f:
        raise Broken("%s: fn not found" % what)
    return block_at(body, f.end() - 1, what)


def squeeze(s):
    return re.sub(r"\s+", " ", s).strip()


# ---------------------------------------------------------------- From<f32> for StackValue

NUM = {
    "value": "value",
    "value.round()": "(round_v value)",
    "value.trunc()": "(trunc_v value)",
    "value.floor()": "(floor_v value)",
    "value.ceil()": "(ceil_v value)",
}


def tr_num(s):
    s = squeeze(s)
    if s not in NUM:
        raise Broken("From<f32> for StackValue: unknown numeric expression %r" % s)
    return NUM[s]


def tr_sv(s):
    """expr := if NUM.fract() == 0.0 { expr } else { expr } | StackValue::Int(NUM as i16)
             | StackValue::Fixed(Fixed::from(NUM))"""
    s = squeeze(s)
    m = re.match(r"^if (.+?)\.fract\(\) == 0\.0 \{(.*)$", s)
    if m:
        rest = "{" + m.group(2)
        a = block_at(rest, 0, "then branch")
        after = rest[rest.index("{") + len(a) + 2:].strip()
        m2 = re.match(r"^else \{", after)
        if not m2:
            raise Broken("From<f32> for StackValue: `if` without `else`")
        b = block_at(after, 0, "else branch")
        tail = after[after.index("{") + len(b) + 2:].strip()
        if tail:
            raise Broken("From<f32> for StackValue: trailing code %r" % tail[:40])
        return "(if is_whole %s then %s else %s)" % (tr_num(m.group(1)), tr_sv(a), tr_sv(b))
    m = re.match(r"^StackValue::Int\((.+) as i16\)$", s)
    if m:
        return "mk_int (cast_i16 %s)" % tr_num(m.group(1))
    m = re.match(r"^StackValue::Fixed\(Fixed::from\((.+)\)\)$", s)
    if m:
        return "mk_fixed (fixed_from %s)" % tr_num(m.group(1))
    raise Broken("From<f32> for StackValue: unknown expression %r" % s[:80])


# ---------------------------------------------------------------- main

def int_lit(s, what):
    try:
        return int(s.strip().replace("_", ""), 0)
    except ValueError:
        raise Broken("%s: expected an integer, got %r" % (what, s.strip()[:30]))


def main():
    cff2 = strip_comments(read("src/cff/cff2.rs"))
    tables = strip_comments(read("src/tables.rs"))
    cs = strip_comments(read("src/cff/charstring.rs"))

    # From<f32> for StackValue
    body = impl_fn_body(cff2, r"impl\s+From<f32>\s+for\s+StackValue\s*\{", r"fn\s+from\s*\(\s*value\s*:\s*f32\s*\)\s*->\s*Self\s*\{",
                        "From<f32> for StackValue")
    sv_expr = tr_sv(body)

    # From<StackValue> for f32: Int -> f32::from(int), Fixed -> f32::from(fixed)
    body = squeeze(impl_fn_body(cff2, r"impl\s+From<StackValue>\s+for\s+f32\s*\{", r"fn\s+from\s*\(\s*value\s*:\s*StackValue\s*\)\s*->\s*Self\s*\{",
                                "From<StackValue> for f32"))
    if body != "match value { StackValue::Int(int) => f32::from(int), StackValue::Fixed(fixed) => f32::from(fixed), }":
        raise Broken("From<StackValue> for f32 changed: %r" % body[:120])

    # StackValue::write
    body = impl_fn_body(cff2, r"impl\s+WriteBinary\s+for\s+StackValue\s*\{", r"fn\s+write\s*<[^>]*>\s*\([^)]*\)\s*->\s*Result<[^{]*\{",
                        "WriteBinary for StackValue")
    sq = squeeze(body)
    arms = re.findall(r"(-?\d+)\.\.=(-?\d+) =>", sq)
    if len(arms) != 4:
        raise Broken("StackValue::write: expected 4 integer ranges, found %d" % len(arms))
    (a1, b1), (a2, b2), (a3, b3), (a4, b4) = [(int(x), int(y)) for x, y in arms]
    m1 = re.search(r"-?\d+\.\.=-?\d+ => U8::write\(ctxt, \(int \+ (\d+)\) as u8\),", sq)
    if not m1:
        raise Broken("StackValue::write: one-byte arm changed")
    m2 = re.search(r"=> \{ let int = int - (\d+); U8::write\(ctxt, \(\(int >> 8\) \+ (\d+)\) as u8\)\?; U8::write\(ctxt, int as u8\) \}", sq)
    if not m2:
        raise Broken("StackValue::write: positive two-byte arm changed")
    m3 = re.search(r"=> \{ let int = -int - (\d+); U8::write\(ctxt, \(\(int >> 8\) \+ (\d+)\) as u8\)\?; U8::write\(ctxt, int as u8\) \}", sq)
    if not m3:
        raise Broken("StackValue::write: negative two-byte arm changed")
    if not re.search(r"=> \{ U8::write\(ctxt, operator::SHORT_INT\)\?; I16Be::write\(ctxt, int\) \}", sq):
        raise Broken("StackValue::write: three-byte arm changed")
    if not re.search(r"StackValue::Fixed\(fixed\) => \{ U8::write\(ctxt, operator::FIXED_16_16\)\?; Fixed::write\(ctxt, fixed\) \}", sq):
        raise Broken("StackValue::write: 16.16 arm changed")
    # the arms are tried in source order
    order = [sq.index("%d..=%d =>" % (x, y)) for x, y in ((a1, b1), (a2, b2), (a3, b3), (a4, b4))]
    if order != sorted(order):
        raise Broken("StackValue::write: arm order")

    def const(name):
        m = re.search(r"pub const %s\s*:\s*u8\s*=\s*([^;]+);" % name, cs)
        if not m:
            raise Broken("operator::%s not found" % name)
        return int_lit(m.group(1), name)

    short_int, fixed_op = const("SHORT_INT"), const("FIXED_16_16")

    # From<f32> for Fixed
    body = squeeze(impl_fn_body(tables, r"impl\s+From<f32>\s+for\s+Fixed\s*\{", r"fn\s+from\s*\(\s*value\s*:\s*f32\s*\)\s*->\s*Self\s*\{",
                                "From<f32> for Fixed"))
    m = re.match(r"^let sign = value\.signum\(\) as i32; let value = value\.abs\(\); "
                 r"let fract = \(value\.fract\(\) \* 65536\.0\)\.round\(\) as i32; let int = value\.trunc\(\) as i32; "
                 r"Fixed::from_raw\((.+) \* sign\)$", body)
    if not m:
        raise Broken("From<f32> for Fixed changed: %r" % body[:200])
    JOIN = {
        "((int << 16) | fract)": "Z.lor (int * 65536) fract",
        "((int << 16) + fract)": "int * 65536 + fract",
        "(int << 16).wrapping_add(fract)": "int * 65536 + fract",
        # both operands are non-negative: only the upper end of i32 can saturate
        "(int << 16).saturating_add(fract)": "Z.min 2147483647 (int * 65536 + fract)",
    }
    if m.group(1) not in JOIN:
        raise Broken("From<f32> for Fixed: unknown way of joining integer part and fraction: %r" % m.group(1))
    combine = JOIN[m.group(1)]

    out = []
    w = out.append
    w("(* GENERATED by translators/tr_cff2inst.py from src/cff/cff2.rs, src/tables.rs, src/cff/charstring.rs -- do not edit *)")
    w("From Coq Require Import ZArith.")
    w("Open Scope Z_scope.")
    w("")
    w("(* impl From<f32> for StackValue, over abstract constructors and primitives *)")
    w("Definition sv_from_expr {A : Type} (mk_int mk_fixed : Z -> A) (is_whole : Z -> bool)")
    w("  (cast_i16 round_v trunc_v floor_v ceil_v fixed_from : Z -> Z) (value : Z) : A :=")
    w("  %s." % sv_expr)
    w("")
    w("(* impl From<f32> for Fixed: Fixed::from_raw(%s * sign) *)" % m.group(1))
    w("Definition fixed_combine (int fract : Z) : Z := %s." % combine)
    w("")
    w("(* impl WriteBinary for StackValue: the integer arms, in source order *)")
    for name, v in (("SV_INT1_LO", a1), ("SV_INT1_HI", b1), ("SV_INT1_ADD", int(m1.group(1))),
                    ("SV_INT2_LO", a2), ("SV_INT2_HI", b2), ("SV_INT2_SUB", int(m2.group(1))), ("SV_INT2_LEAD", int(m2.group(2))),
                    ("SV_INT3_LO", a3), ("SV_INT3_HI", b3), ("SV_INT3_SUB", int(m3.group(1))), ("SV_INT3_LEAD", int(m3.group(2))),
                    ("SV_SHORT_LO", a4), ("SV_SHORT_HI", b4), ("SV_SHORT_INT", short_int), ("SV_FIXED_16_16", fixed_op)):
        w("Definition %s : Z := %s." % (name, ("(%d)" % v) if v < 0 else str(v)))
    txt = "\n".join(out) + "\n"
    old = None
    try:
        old = open(OUT).read()
    except OSError:
        pass
    if old != txt:
        os.makedirs(os.path.dirname(OUT), exist_ok=True)
        open(OUT, "w").write(txt)
    print("tr_cff2inst: ok (operand conversion, 4 integer arms, Fixed::from joins as `%s`)" % m.group(1))


if __name__ == "__main__":
    try:
        main()
    except Broken as e:
        print("tr_cff2inst: BROKEN: %s" % e)
        sys.exit(2)
