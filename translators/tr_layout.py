#!/usr/bin/env python3
"""Translate the constants and small tables the GSUB/GPOS skipping and lookup machinery depends on.

From src/context.rs  : the bit masks used by the `LookupFlag` getters (`get_rtl`, `get_ignore_bases`,
                       `get_ignore_ligatures`, `use_mark_filtering_set`, `get_ignore_marks`: ignore-marks bit,
                       mark-attachment-type mask and shift), the order of the three branches of
                       `get_ignore_marks`, and the GDEF class literals `match_glyph` compares with.
From src/gdef.rs     : GLYPH_CLASS_* constants, and the shape of `glyph_is_mark_in_set`.
From src/gsub.rs     : SUBST_RECURSION_LIMIT, the FEATURE_MASKS table (mask bit, tag), `FeatureMask::from_tag`,
                       the tags `singlesubst` turns into IS_VERT_ALT, the tags special-cased by
                       `build_lookups_custom` / `gsub_apply_custom` (rvrn, fina).
From src/layout.rs   : GSUB `check_lookup_type` (lookup type number -> kind; 0 encodes Extension).
From src/tag.rs      : numeric values of the tags named above.

Output: coq/Gen/LayoutConsts.v (next to this script's repository).  Exit 0 = anchors parsed; 2 = an anchor
no longer has the shape the Gallina model in coq/Model/Layout.v / Gsub.v was written after.
"""
import os, re, sys

REPO = os.environ.get("VERIF_REPO", "/repo")
HERE = os.path.dirname(os.path.abspath(__file__))
OUT = sys.argv[1] if len(sys.argv) > 1 else os.path.join(HERE, "..", "coq", "Gen", "LayoutConsts.v")


class Broken(Exception):
    pass


def read(rel):
    p = os.path.join(REPO, rel)
    if not os.path.exists(p):
        raise Broken("missing " + rel)
    return open(p).read()


def strip_comments(s):
    return re.sub(r"//[^\n]*", "", s)


def fn_body(src, header_re):
    m = re.search(header_re, src)
    if not m:
        raise Broken("cannot find " + header_re)
    i = src.index("{", m.end() - 1)
    depth, j = 0, i
    while True:
        if src[j] == "{":
            depth += 1
        elif src[j] == "}":
            depth -= 1
            if depth == 0:
                break
        j += 1
    return src[i + 1:j]


def num(s):
    s = s.replace("_", "")
    return int(s, 16) if s.lower().startswith("0x") else int(s)


def norm(s):
    s = re.sub(r"\s+", " ", s).strip()
    # rustfmt-insensitive: no blank after '(' / before ')', no trailing comma before ')'
    s = re.sub(r"\( ", "(", s)
    s = re.sub(r",? \)", ")", s)
    return s


def need(m, what):
    if not m:
        raise Broken(what)
    return m


def tagval(tagsrc, name):
    m = need(re.search(r"pub const %s: u32 = tag!\(b\"(.{4})\"\);" % name, tagsrc), "tag::" + name)
    b = m.group(1).encode()
    return int.from_bytes(b, "big")


def main():
    ctx = strip_comments(read("src/context.rs"))
    gdef = strip_comments(read("src/gdef.rs"))
    gsub = strip_comments(read("src/gsub.rs"))
    layout = strip_comments(read("src/layout.rs"))
    tagsrc = read("src/tag.rs")
    consts = []

    # ---- LookupFlag getters: `(self.0 & MASK) != 0`
    for fn, name in (("get_rtl", "FLAG_RTL"), ("get_ignore_bases", "FLAG_IGNORE_BASES"),
                     ("get_ignore_ligatures", "FLAG_IGNORE_LIGATURES"),
                     ("use_mark_filtering_set", "FLAG_USE_MFS")):
        body = norm(fn_body(ctx, r"pub fn %s\(self\) -> bool \{" % fn))
        m = need(re.fullmatch(r"\(self\.0 & (0x[0-9A-Fa-f]+|\d+)\) != 0", body), "LookupFlag::%s body: %s" % (fn, body))
        consts.append((name, num(m.group(1))))
    body = norm(fn_body(ctx, r"pub fn get_ignore_marks\(self, mark_filtering_set: Option<u16>\) -> IgnoreMarks \{"))
    m = need(re.fullmatch(
        r"if \(self\.0 & (0x[0-9A-Fa-f]+|\d+)\) != 0 \{ IgnoreMarks::IgnoreAllMarks \} "
        r"else if self\.0 & (0x[0-9A-Fa-f]+|\d+) != 0 \{ IgnoreMarks::IgnoreMarksExcept\(\(self\.0 >> (\d+)\) as u8\) \} "
        r"else if self\.use_mark_filtering_set\(\) && mark_filtering_set\.is_some\(\) \{ "
        r"IgnoreMarks::IgnoreMarksInSet\(mark_filtering_set\.unwrap\(\)\) \} "
        r"else \{ IgnoreMarks::NoIgnoreMarks \}", body), "LookupFlag::get_ignore_marks body: " + body)
    consts += [("FLAG_IGNORE_MARKS", num(m.group(1))), ("FLAG_MAT_MASK", num(m.group(2))),
               ("FLAG_MAT_SHIFT", num(m.group(3)))]

    # ---- from_lookup_flag wiring
    body = norm(fn_body(ctx, r"pub fn from_lookup_flag\(lookup_flag: LookupFlag, mark_filtering_set: Option<u16>\) -> MatchType \{"))
    need(re.fullmatch(r"MatchType \{ ignore_bases: lookup_flag\.get_ignore_bases\(\), "
                      r"ignore_ligatures: lookup_flag\.get_ignore_ligatures\(\), "
                      r"ignore_marks: lookup_flag\.get_ignore_marks\(mark_filtering_set\), \}", body),
         "MatchType::from_lookup_flag body: " + body)
    body = norm(fn_body(ctx, r"pub fn marks_only\(\) -> MatchType \{"))
    need(re.fullmatch(r"MatchType \{ ignore_bases: true, ignore_ligatures: true, ignore_marks: IgnoreMarks::NoIgnoreMarks, \}", body),
         "MatchType::marks_only body: " + body)

    # ---- match_glyph: class literals and branch shapes
    body = norm(fn_body(ctx, r"pub fn match_glyph<G: Glyph>\(self, opt_gdef_table: Option<&GDEFTable>, glyph: &G\) -> bool \{"))
    m = need(re.fullmatch(
        r"if !self\.ignore_bases && !self\.ignore_ligatures && self\.ignore_marks == IgnoreMarks::NoIgnoreMarks \{ return true; \} "
        r"let glyph_class = gdef::glyph_class\(opt_gdef_table, glyph\.get_glyph_index\(\)\); "
        r"if self\.ignore_bases && glyph_class == (\d+) \{ return false; \} "
        r"if self\.ignore_ligatures && glyph_class == (\d+) \{ return false; \} "
        r"match self\.ignore_marks \{ IgnoreMarks::NoIgnoreMarks => true, "
        r"IgnoreMarks::IgnoreAllMarks => glyph_class != (\d+), "
        r"IgnoreMarks::IgnoreMarksExcept\(keep_class\) => \{ "
        r"let mark_attach_class = gdef::mark_attach_class\(opt_gdef_table, glyph\.get_glyph_index\(\)\); "
        r"\(glyph_class != (\d+)\) \|\| \(mark_attach_class == u16::from\(keep_class\)\) \} "
        r"IgnoreMarks::IgnoreMarksInSet\(index\) => \{ "
        r"glyph_class != (\d+) \|\| gdef::glyph_is_mark_in_set\(opt_gdef_table, glyph\.get_glyph_index\(\), index\.into\(\)\) \} \}",
        body), "MatchType::match_glyph body: " + body)
    marks = {num(m.group(3)), num(m.group(4)), num(m.group(5))}
    if len(marks) != 1:
        raise Broken("match_glyph compares the mark class with different literals: %s" % sorted(marks))
    consts += [("MG_CLASS_BASE", num(m.group(1))), ("MG_CLASS_LIGATURE", num(m.group(2))),
               ("MG_CLASS_MARK", marks.pop())]

    # ---- gdef.rs
    for n in ("NONE", "BASE", "LIGATURE", "MARK", "COMPONENT"):
        m = need(re.search(r"pub const GLYPH_CLASS_%s: u16 = (\d+);" % n, gdef), "GLYPH_CLASS_" + n)
        consts.append(("GLYPH_CLASS_" + n, num(m.group(1))))
    body = norm(fn_body(gdef, r"pub fn gdef_is_mark\(opt_gdef_table: Option<&GDEFTable>, glyph_index: u16\) -> bool \{"))
    need(re.fullmatch(r"glyph_class\(opt_gdef_table, glyph_index\) == GLYPH_CLASS_MARK", body), "gdef_is_mark body: " + body)
    body = norm(fn_body(gdef, r"pub fn glyph_is_mark_in_set\(opt_gdef_table: Option<&GDEFTable>, glyph: u16, index: usize\) -> bool \{"))
    need(re.fullmatch(r"gdef_is_mark\(opt_gdef_table, glyph\) && opt_gdef_table "
                      r"\.and_then\(\|gdef\| gdef\.opt_mark_glyph_sets\.as_ref\(\)\) "
                      r"\.and_then\(\|mark_glyph_sets\| mark_glyph_sets\.get\(index\)\) "
                      r"\.map_or\(false, \|mark_set\| \{ mark_set\.glyph_coverage_value\(glyph\)\.is_some\(\) \}\)", body),
         "glyph_is_mark_in_set body: " + body)

    # ---- gsub.rs
    m = need(re.search(r"const SUBST_RECURSION_LIMIT: usize = (\d+);", gsub), "SUBST_RECURSION_LIMIT")
    consts.append(("SUBST_RECURSION_LIMIT", num(m.group(1))))
    m = need(re.search(r"if subst_tag == tag::(\w+) \|\| subst_tag == tag::(\w+) \{\s*glyph\.flags\.set\(RawGlyphFlags::IS_VERT_ALT, true\);", gsub),
             "singlesubst vert tags")
    consts += [("TAG_VERT_ALT_1", tagval(tagsrc, m.group(1))), ("TAG_VERT_ALT_2", tagval(tagsrc, m.group(2)))]
    m = need(re.search(r"if feature_info\.feature_tag == tag::(\w+) \{\s*rvrn = Some\(feature_table\.lookup_indices\.clone\(\)\);", gsub),
             "build_lookups_custom rvrn special case")
    consts.append(("TAG_EARLY", tagval(tagsrc, m.group(1))))
    m = need(re.search(r"if feature_tag == tag::(\w+) && !glyphs\.is_empty\(\) \{", gsub), "gsub_apply_custom fina special case")
    consts.append(("TAG_LAST_ONLY", tagval(tagsrc, m.group(1))))
    for n in ("RVRN", "FINA", "VERT", "VRT2", "DFLT", "FRAC"):
        consts.append(("TAG_" + n, tagval(tagsrc, n)))

    # ---- Features::Mask path: build_lookups_default and the ScriptType::Default arm of gsub_apply_default
    body = norm(fn_body(gsub, r"fn build_lookups_default\("))
    need(re.fullmatch(
        r"let mut lookups = BTreeMap::new\(\); for \(feature_mask, feature_tag\) in FEATURE_MASKS \{ "
        r"if feature_masks\.contains\(\*feature_mask\) \{ "
        r"if let Some\(feature_table\) = gsub_table\.find_langsys_feature\(langsys, \*feature_tag, feature_variations\)\? \{ "
        r"for lookup_index in &feature_table\.lookup_indices \{ lookups\.insert\(usize::from\(\*lookup_index\), \*feature_tag\); \} "
        r"\} else if \*feature_tag == tag::(\w+) \{ let vert_tag = tag::(\w+); "
        r"if let Some\(feature_table\) = gsub_table\.find_langsys_feature\(langsys, vert_tag, feature_variations\)\? \{ "
        r"for lookup_index in &feature_table\.lookup_indices \{ lookups\.insert\(usize::from\(\*lookup_index\), vert_tag\); \} \} \} \} \} "
        r"Ok\(lookups\.into_iter\(\)\.collect\(\)\)", body), "build_lookups_default body: " + body)
    mm = re.search(r"else if \*feature_tag == tag::(\w+) \{ let vert_tag = tag::(\w+);", body)
    consts.append(("TAG_MASK_FALLBACK_FROM", tagval(tagsrc, mm.group(1))))
    consts.append(("TAG_MASK_FALLBACK_TO", tagval(tagsrc, mm.group(2))))
    body = norm(fn_body(gsub, r"fn gsub_apply_default\("))
    need(re.search(r"if tuple\.is_some\(\) \{ apply_rvrn\(&gsub_cache, opt_gdef_table, script_tag, opt_lang_tag, feature_variations, glyphs\)\?; \} "
                   r"feature_mask\.remove\(FeatureMask::(\w+)\);", body), "gsub_apply_default rvrn prologue")
    mm = re.search(r"feature_mask\.remove\(FeatureMask::(\w+)\); match ScriptType::from\(script_tag\)", body)
    need(mm, "gsub_apply_default: remove(RVRN) before the script dispatch")
    removed = mm.group(1)
    mm = need(re.search(r"ScriptType::Default => \{ feature_mask &= get_supported_features\(gsub_cache, script_tag, opt_lang_tag\)\?; "
                        r"if feature_mask\.contains\(FeatureMask::(\w+)\) \{", body), "gsub_apply_default Default arm")
    frac = mm.group(1)
    need(re.search(r"\} else \{ let index = get_lookups_cache_index\(gsub_cache, script_tag, opt_lang_tag, feature_variations, feature_mask\)\?; "
                   r"let lookups = &gsub_cache\.cached_lookups\.borrow\(\)\[index\]; "
                   r"gsub_apply_lookups\(gsub_cache, gsub_table, opt_gdef_table, lookups, glyphs\)\?; \} \} \} "
                   r"strip_joiners\(glyphs\); replace_missing_glyphs\(glyphs, num_glyphs\); Ok\(\(\)\)$", body),
         "gsub_apply_default tail: " + body[-400:])
    body = norm(fn_body(gsub, r"fn strip_joiners<T: GlyphData>\("))
    mm = need(re.fullmatch(r"glyphs\.retain\(\|g\| match g\.glyph_origin \{ GlyphOrigin::Char\('\\u\{([0-9A-Fa-f]+)\}'\) => false, "
                           r"GlyphOrigin::Char\('\\u\{([0-9A-Fa-f]+)\}'\) => false, _ => true, \}\)", body), "strip_joiners body: " + body)
    consts.append(("JOINER_1", int(mm.group(1), 16)))
    consts.append(("JOINER_2", int(mm.group(2), 16)))
    mask_removed_name, mask_frac_name = removed, frac

    # FeatureMask bits and FEATURE_MASKS table
    bits = {}
    mb = need(re.search(r"pub struct FeatureMask: u64 \{(.*?)\n    \}", gsub, re.S), "FeatureMask bitflags")
    for n, sh in re.findall(r"const (\w+)\s*= 1 << (\d+);", mb.group(1)):
        bits[n] = int(sh)
    if not bits:
        raise Broken("FeatureMask bits")
    for nm, cname in ((mask_removed_name, "MASK_BIT_REMOVED"), (mask_frac_name, "MASK_BIT_SPLIT")):
        if nm not in bits:
            raise Broken("unknown FeatureMask::" + nm)
        consts.append((cname, bits[nm]))
    tb = need(re.search(r"const FEATURE_MASKS: &\[\(FeatureMask, u32\)\] = &\[(.*?)\];", gsub, re.S), "FEATURE_MASKS")
    table = []
    for n, t in re.findall(r"\(FeatureMask::(\w+), tag::(\w+)\)", tb.group(1)):
        if n not in bits:
            raise Broken("FEATURE_MASKS mentions unknown mask " + n)
        table.append((bits[n], tagval(tagsrc, t)))
    ft = fn_body(gsub, r"pub fn from_tag\(tag: u32\) -> FeatureMask \{")
    from_tag = []
    for t, n in re.findall(r"tag::(\w+) => FeatureMask::(\w+),", ft):
        from_tag.append((tagval(tagsrc, t), bits[n]))
    need(re.search(r"_ => FeatureMask::empty\(\),", ft), "FeatureMask::from_tag default")

    # ---- layout.rs: GSUB check_lookup_type
    m = need(re.search(r"impl LayoutTableType for GSUB \{(.*?)\n\}", layout, re.S), "impl LayoutTableType for GSUB")
    kinds = {"SingleSubst": 1, "MultipleSubst": 2, "AlternateSubst": 3, "LigatureSubst": 4,
             "ContextSubst": 5, "ChainContextSubst": 6, "ReverseChainSingleSubst": 8}
    types = []
    for n, k in re.findall(r"(\d+) => Ok\(LookupType::(Normal\(SubstLookupType::\w+\)|Extension)\)", m.group(1)):
        if k == "Extension":
            types.append((int(n), 0))
        else:
            kn = re.search(r"SubstLookupType::(\w+)", k).group(1)
            if kn not in kinds:
                raise Broken("unknown SubstLookupType " + kn)
            types.append((int(n), kinds[kn]))
    if not types:
        raise Broken("GSUB check_lookup_type arms")

    out = ["(* GENERATED by translators/tr_layout.py from src/context.rs, src/gdef.rs, src/gsub.rs, src/layout.rs, src/tag.rs — do not edit *)",
           "From AV Require Import Base.Prelude.", "Open Scope Z_scope.", ""]
    for n, v in consts:
        out.append("Definition %s : Z := %d." % (n, v))
    out.append("")
    out.append("(* (bit number of the FeatureMask flag, feature tag) in FEATURE_MASKS order *)")
    out.append("Definition FEATURE_MASKS : list (Z * Z) :=\n  [" + ";\n   ".join("(%d, %d)" % x for x in table) + "].")
    out.append("(* FeatureMask::from_tag arms: (tag, bit number) *)")
    out.append("Definition FROM_TAG : list (Z * Z) :=\n  [" + ";\n   ".join("(%d, %d)" % x for x in from_tag) + "].")
    out.append("(* GSUB check_lookup_type: (lookup type number, kind) with kind 0 = Extension, else the base type *)")
    out.append("Definition GSUB_LOOKUP_TYPES : list (Z * Z) :=\n  [" + "; ".join("(%d, %d)" % x for x in types) + "].")
    txt = "\n".join(out) + "\n"
    os.makedirs(os.path.dirname(OUT), exist_ok=True)
    if not (os.path.exists(OUT) and open(OUT).read() == txt):
        with open(OUT + ".tmp", "w") as o:
            o.write(txt)
        os.replace(OUT + ".tmp", OUT)
    print("tr_layout: ok consts=%d feature_masks=%d" % (len(consts), len(table)))


if __name__ == "__main__":
    try:
        main()
    except Broken as e:
        print("tr_layout: BROKEN:", e)
        sys.exit(2)
