#!/usr/bin/env python3
"""Translate the constants and small tables the GSUB/GPOS skipping and lookup machinery depends on.

From src/context.rs  : the bit masks used by the `LookupFlag` getters (`get_rtl`, `get_ignore_bases`,
                       `get_ignore_ligatures`, `use_mark_filtering_set`, `get_ignore_marks`: ignore-marks bit,
                       mark-attachment-type mask and shift), the order of the three branches of
                       `get_ignore_marks`, and the GDEF class literals `match_glyph` compares with.
From src/gdef.rs     : GLYPH_CLASS_* constants, and the shape of `glyph_is_mark_in_set`.
From src/gsub.rs     : SUBST_RECURSION_LIMIT, the FEATURE_MASKS table (mask bit, tag), `FeatureMask::from_tag`,
                       the tags `singlesubst` turns into IS_VERT_ALT, the tags special-cased by
                       `build_lookups_custom` / `gsub_apply_custom` (rvrn, fina).
From src/layout.rs   : GSUB `check_lookup_type` (lookup type number -> kind; 0 encodes Extension); feature variations:
                       the version / format numbers of LayoutTable::read, FeatureVariations::read,
                       FeatureTableSubstitutionTable::read and ConditionTable::read, and the SHAPE of every
                       function Model/FeatureVariations.v is written after (see `feature_variations` below).
From src/tag.rs      : numeric values of the tags named above.

Output: coq/Gen/LayoutConsts.v (next to this script's repository).  Exit 0 = anchors parsed; 2 = an anchor
no longer has the shape the Gallina model in coq/Model/Layout.v / Gsub.v was written after.
"""
import os, re, sys

REPO = os.environ.get("VERIF_REPO", "/repo")
HERE = os.path.dirname(os.path.abspath(__file__))
OUT = sys.argv[1] if len(sys.argv) > 1 else os.path.join(HERE, "..", "coq", "Gen", "LayoutConsts.v")


class Broken(Exception):
    pass


def read(rel):
    p = os.path.join(REPO, rel)
    if not os.path.exists(p):
        raise Broken("missing " + rel)
    return open(p).read()


def strip_comments(s):
    return re.sub(r"//[^\n]*", "", s)


def fn_body(src, header_re):
    m = re.search(header_re, src)
    if not m:
        raise Broken("cannot find " + header_re)
    i = src.index("{", m.end() - 1)
    depth, j = 0, i
    while True:
        if src[j] == "{":
            depth += 1
        elif src[j] == "}":
            depth -= 1
            if depth == 0:
                break
        j += 1
    return src[i + 1:j]


def num(s):
    s = s.replace("_", "")
    return int(s, 16) if s.lower().startswith("0x") else int(s)


def norm(s):
    s = re.sub(r"\s+", " ", s).strip()
    # rustfmt-insensitive: no blank after '(' / before ')', no trailing comma before ')'
    s = re.sub(r"\( ", "(", s)
    s = re.sub(r",? \)", ")", s)
    return s


def need(m, what):
    if not m:
        raise Broken(what)
    return m


def tagval(tagsrc, name):
    m = need(re.search(r"pub const %s: u32 = tag!\(b\"(.{4})\"\);" % name, tagsrc), "tag::" + name)
    b = m.group(1).encode()
    return int.from_bytes(b, "big")



def norm2(s):
    """norm + method chains on one line (`scope .offset(..)` == `scope.offset(..)`)"""
    return re.sub(r" \.", ".", norm(s))


def expect(body, literal, what):
    """fullmatch of a normalised body against a literal in which every `<N>` stands for a decimal literal;
    returns the numbers"""
    rx = re.escape(literal).replace(re.escape("<N>"), r"(\d+)")
    m = re.fullmatch(rx, body)
    if not m:
        raise Broken("%s changed shape: %s" % (what, body[:700]))
    return [num(g) for g in m.groups()]


def feature_variations(layout, gsub, fvar, consts):
    """OpenType feature variations: every function Model/FeatureVariations.v was written after is pinned to
    its shape (the match arms of FeatureVariationsOwned::matches, the NULL-offset special cases, the early
    break of substitute, the inclusive range test, the read order of every table); the version / format
    numbers they compare with are extracted."""
    b = fn_body(layout, r"impl FeatureVariationsOwned \{")
    expect(norm2(fn_body(b, r"pub fn matches<'a>\(")),
           "for rec in &self.records { match rec.matches(self.record_scope.scope(), tuple) { "
           "substitution @ Ok(Some(_)) => return substitution, "
           "Ok(None) | Err(ParseError::BadVersion) => continue, "
           "err @ Err(_) => return err, } } Ok(None)", "FeatureVariationsOwned::matches")
    b = fn_body(layout, r"impl FeatureVariationRecord \{")
    expect(norm2(fn_body(b, r"pub fn matches<'a>\(")),
           "if self.condition_set(scope)?.matches(tuple) { self.feature_table_substitution(scope).map(Some) } "
           "else { Ok(None) }", "FeatureVariationRecord::matches")
    n = expect(norm2(fn_body(b, r"fn condition_set<'a>\(")),
               "if self.condition_set_offset == <N> { Ok(ConditionSet::Universal) } else { "
               "scope.offset(usize::safe_from(self.condition_set_offset)).read::<ConditionSetTable<'_>>()"
               ".map(ConditionSet::Set) }", "FeatureVariationRecord::condition_set")
    n += expect(norm2(fn_body(b, r"fn feature_table_substitution<'a>\(")),
                "if self.feature_table_substitution_offset == <N> { Ok(FeatureTableSubstitution::NoSubstitution) } else { "
                "scope.offset(usize::safe_from(self.feature_table_substitution_offset))"
                ".read::<FeatureTableSubstitutionTable<'_>>().map(FeatureTableSubstitution::Table) }",
                "FeatureVariationRecord::feature_table_substitution")
    if n != [0, 0]:
        raise Broken("FeatureVariationRecord: the NULL offset is no longer 0: %s" % n)
    expect(norm2(fn_body(layout, r"impl ReadFrom for FeatureVariationRecord \{")),
           "type ReadType = (U32Be, U32Be); fn read_from((condition_set_offset, feature_table_substitution_offset): "
           "(u32, u32)) -> Self { FeatureVariationRecord { condition_set_offset, feature_table_substitution_offset, } }",
           "FeatureVariationRecord::read_from")
    b = fn_body(layout, r"impl FeatureTableSubstitution<'_> \{")
    expect(norm2(fn_body(b, r"pub fn cache_key\(")),
           "match self { FeatureTableSubstitution::NoSubstitution => None, "
           "FeatureTableSubstitution::Table(table) => Some(table.substitution_scope.base()), }",
           "FeatureTableSubstitution::cache_key")
    expect(norm2(fn_body(b, r"pub fn substitute\(")),
           "match self { FeatureTableSubstitution::NoSubstitution => None, "
           "FeatureTableSubstitution::Table(table) => { let mut substitution_record = None; "
           "for rec in table.substitutions.iter() { "
           "if rec.feature_index == feature_index { substitution_record = Some(rec); break; } "
           "else if rec.feature_index > feature_index { break; } } "
           "let substitution_record = substitution_record?; "
           "table.substitution_scope.offset(usize::safe_from(substitution_record.alternate_feature_offset))"
           ".read::<FeatureTable>().ok() } }", "FeatureTableSubstitution::substitute")
    expect(norm2(fn_body(layout, r"impl ConditionSet<'_> \{")),
           "fn matches(&self, tuple: Tuple<'_>) -> bool { match self { ConditionSet::Universal => true, "
           "ConditionSet::Set(set) => set.matches(tuple), } }", "ConditionSet::matches")
    expect(norm2(fn_body(layout, r"impl ConditionSetTable<'_> \{")),
           "fn matches(&self, tuple: Tuple<'_>) -> bool { self.condition_offsets.iter()"
           ".map(|offset| { self.condition_scope.offset(usize::safe_from(offset)).read::<ConditionTable>() })"
           ".all(|table| table.map(|table| table.matches(tuple)).unwrap_or(false)) }", "ConditionSetTable::matches")
    expect(norm2(fn_body(layout, r"impl ConditionTable \{")),
           "fn matches(&self, tuple: Tuple<'_>) -> bool { match self { ConditionTable::Unknown => false, "
           "ConditionTable::Format1(condition_set) => { "
           "let axis_value = match tuple.get(condition_set.axis_index) { Some(value) => value, None => return false, }; "
           "(condition_set.filter_range_min_value..=condition_set.filter_range_max_value).contains(&axis_value) } } }",
           "ConditionTable::matches")
    n = expect(norm2(fn_body(layout, r"impl ReadBinary for ConditionTable \{")),
               "type HostType<'a> = Self; fn read<'a>(ctxt: &mut ReadCtxt<'a>) -> Result<Self, ParseError> { "
               "let format = ctxt.read_u16be()?; match format { "
               "<N> => Ok(ConditionTable::Format1(ctxt.read::<ConditionFormat1>()?)), "
               "_ => Ok(ConditionTable::Unknown), } }", "ConditionTable::read")
    consts.append(("FV_CONDITION_FORMAT_AXIS_RANGE", n[0]))
    expect(norm2(fn_body(layout, r"impl ReadFrom for ConditionFormat1 \{")),
           "type ReadType = (U16Be, F2Dot14, F2Dot14); "
           "fn read_from((axis_index, filter_range_min_value, filter_range_max_value): (u16, F2Dot14, F2Dot14)) -> Self { "
           "ConditionFormat1 { axis_index, filter_range_min_value, filter_range_max_value, } }", "ConditionFormat1::read_from")
    expect(norm2(fn_body(layout, r"impl ReadBinary for ConditionSetTable<'_> \{")),
           "type HostType<'a> = ConditionSetTable<'a>; "
           "fn read<'a>(ctxt: &mut ReadCtxt<'a>) -> Result<Self::HostType<'a>, ParseError> { "
           "let condition_scope = ctxt.scope(); let condition_count = ctxt.read_u16be()?; "
           "let conditions = ctxt.read_array(usize::from(condition_count))?; "
           "Ok(ConditionSetTable { condition_scope, condition_offsets: conditions, }) }", "ConditionSetTable::read")
    need(re.search(r"struct ConditionSetTable<'a> \{\s*condition_scope: ReadScope<'a>,\s*condition_offsets: ReadArray<'a, U32Be>,\s*\}",
                   layout), "ConditionSetTable: condition offsets are no longer 32-bit")
    n = expect(norm2(fn_body(layout, r"impl ReadBinary for FeatureVariations<'_> \{")),
               "type HostType<'a> = FeatureVariations<'a>; "
               "fn read<'a>(ctxt: &mut ReadCtxt<'a>) -> Result<Self::HostType<'a>, ParseError> { "
               "let record_scope = ctxt.scope(); let major_version = ctxt.read_u16be()?; "
               "ctxt.check_version(major_version == <N>)?; let _minor_version = ctxt.read_u16be()?; "
               "let record_count = ctxt.read_u32be()?; let records = ctxt.read_array(usize::safe_from(record_count))?; "
               "Ok(FeatureVariations { record_scope, records, }) }", "FeatureVariations::read")
    consts.append(("FV_MAJOR", n[0]))
    expect(norm2(fn_body(layout, r"impl ReadBinary for FeatureVariationsOwned \{")),
           "type HostType<'a> = FeatureVariationsOwned; "
           "fn read<'a>(ctxt: &mut ReadCtxt<'a>) -> Result<Self::HostType<'a>, ParseError> { "
           "let feature_variations = ctxt.read::<FeatureVariations<'_>>()?; "
           "Ok(FeatureVariationsOwned { record_scope: ReadScopeOwned::new(feature_variations.record_scope), "
           "records: feature_variations.records.to_vec(), }) }", "FeatureVariationsOwned::read")
    n = expect(norm2(fn_body(layout, r"impl ReadBinary for FeatureTableSubstitutionTable<'_> \{")),
               "type HostType<'a> = FeatureTableSubstitutionTable<'a>; "
               "fn read<'a>(ctxt: &mut ReadCtxt<'a>) -> Result<Self::HostType<'a>, ParseError> { "
               "let substitution_scope = ctxt.scope(); let major_version = ctxt.read_u16be()?; "
               "ctxt.check_version(major_version == <N>)?; let _minor_version = ctxt.read_u16be()?; "
               "let substitution_count = ctxt.read_u16be()?; "
               "let substitutions = ctxt.read_array(usize::from(substitution_count))?; "
               "Ok(FeatureTableSubstitutionTable { substitution_scope, substitutions, }) }",
               "FeatureTableSubstitutionTable::read")
    consts.append(("FV_SUBST_MAJOR", n[0]))
    expect(norm2(fn_body(layout, r"impl ReadFrom for FeatureTableSubstitutionRecord \{")),
           "type ReadType = (U16Be, U32Be); fn read_from((feature_index, alternate_feature_offset): (u16, u32)) -> Self { "
           "FeatureTableSubstitutionRecord { feature_index, alternate_feature_offset, } }",
           "FeatureTableSubstitutionRecord::read_from")
    expect(norm2(fn_body(layout, r"impl ReadBinary for FeatureTable \{")),
           "type HostType<'a> = Self; fn read<'a>(ctxt: &mut ReadCtxt<'a>) -> Result<Self, ParseError> { "
           "let _feature_params = ctxt.read_u16be()?; let lookup_index_count = usize::from(ctxt.read_u16be()?); "
           "let lookup_indices = ctxt.read_array::<U16Be>(lookup_index_count)?.to_vec(); "
           "Ok(FeatureTable { lookup_indices }) }", "FeatureTable::read")
    # LayoutTable::read: header fields, major version test, the featureVariationsOffset tail
    body = norm2(fn_body(layout, r"impl<T> ReadBinary for LayoutTable<T> \{"))
    m = need(re.match(
        r"type HostType<'a> = Self; fn read<'a>\(ctxt: &mut ReadCtxt<'a>\) -> Result<Self, ParseError> \{ "
        r"let table = ctxt\.scope\(\); let major_version = ctxt\.read_u16be\(\)\?; let minor_version = ctxt\.read_u16be\(\)\?; "
        r"let script_list_offset = usize::from\(ctxt\.read_u16be\(\)\?\); "
        r"let feature_list_offset = usize::from\(ctxt\.read_u16be\(\)\?\); "
        r"let lookup_list_offset = usize::from\(ctxt\.read_u16be\(\)\?\); "
        r"if major_version != (\d+) \{ return Err\(ParseError::BadVersion\); \} ", body), "LayoutTable::read header: " + body[:300])
    consts.append(("LAYOUT_MAJOR", num(m.group(1))))
    tail = ("let opt_feature_variations = (minor_version > 0).then(|| ctxt.read_u32be()).transpose()?"
            ".filter(|offset| *offset > 0).map(|offset| { table.offset(usize::safe_from(offset)).ctxt()"
            ".read::<FeatureVariationsOwned>() }).transpose()?; "
            "Ok(LayoutTable { opt_script_list, opt_feature_list, opt_lookup_list, opt_feature_variations, }) }")
    if not body.endswith(tail):
        raise Broken("LayoutTable::read featureVariationsOffset tail changed shape: " + body[-500:])
    if "ctxt.read" in body[m.end():len(body) - len(tail)]:
        raise Broken("LayoutTable::read reads more header fields between the list offsets and featureVariationsOffset")
    expect(norm2(fn_body(layout, r"pub fn feature_variations<'a>\(")),
           "match (tuple, self.opt_feature_variations.as_ref()) { "
           "(Some(tuple), Some(feature_variations)) => feature_variations.matches(tuple), _ => Ok(None), }",
           "LayoutTable::feature_variations")
    expect(norm2(fn_body(layout, r"pub fn find_langsys_feature\(")),
           "let feature_variations = feature_variations.unwrap_or(&FeatureTableSubstitution::NoSubstitution); "
           "if let Some(ref feature_list) = self.opt_feature_list { "
           "for feature_index in langsys.feature_indices.iter().copied() { "
           "let feature_record = feature_list.nth_feature_record(usize::from(feature_index))?; "
           "if feature_record.feature_tag == feature_tag { "
           "let feature_table = feature_variations.substitute(feature_index).map(Cow::Owned)"
           ".unwrap_or(Cow::Borrowed(&feature_record.feature_table)); "
           "return Ok(Some(feature_table)); } } } Ok(None)", "LayoutTable::find_langsys_feature")
    expect(norm2(fn_body(fvar, r"pub fn get\(&self, index: u16\) -> Option<F2Dot14> \{")),
           "self.0.get(usize::from(index)).copied()", "Tuple::get")
    need(re.search(r"#\[derive\(([^)]*\bOrd\b[^)]*)\)\]\s*pub struct F2Dot14\(i16\);",
                   strip_comments(read("src/tables.rs"))), "F2Dot14 is no longer ordered by its raw i16 value")
    # gsub.rs consumers
    body = norm2(fn_body(gsub, r"fn apply_rvrn\("))
    m = need(re.fullmatch(
        r"let gsub_table = &gsub_cache\.layout_table; "
        r"let index = get_lookups_cache_index\(gsub_cache, script_tag, opt_lang_tag, feature_variations, FeatureMask::(\w+)\)\?; "
        r"let lookups = &gsub_cache\.cached_lookups\.borrow\(\)\[index\]; "
        r"gsub_apply_lookups\(gsub_cache, gsub_table, opt_gdef_table, lookups, glyphs\)\?; Ok\(\(\)\)", body), "apply_rvrn body: " + body)
    rvrn_mask = m.group(1)
    expect(norm2(fn_body(gsub, r"fn build_lookups_custom\(")),
           "let mut rvrn = None; let mut lookups = BTreeMap::new(); for feature_info in feature_tags { "
           "let feature_table = gsub_table.find_langsys_feature(langsys, feature_info.feature_tag, feature_variations)?; "
           "if let Some(feature_table) = feature_table { if feature_info.feature_tag == tag::RVRN { "
           "rvrn = Some(feature_table.lookup_indices.clone()); } else { "
           "lookups.extend(feature_table.lookup_indices.iter()"
           ".map(|&lookup_index| (usize::from(lookup_index), feature_info.feature_tag))) } } } "
           "Ok(LookupsCustom { rvrn, lookups })", "build_lookups_custom")
    expect(norm2(fn_body(gsub, r"pub fn get_lookups_cache_index\(")),
           "let index = match gsub_cache.lookups_index.borrow_mut().entry((script_tag, opt_lang_tag, feature_mask.bits(), "
           "feature_variations.and_then(FeatureTableSubstitution::cache_key))) { "
           "Entry::Occupied(entry) => *entry.get(), Entry::Vacant(entry) => { "
           "let gsub_table = &gsub_cache.layout_table; "
           "if let Some(script) = gsub_table.find_script_or_default(script_tag)? { "
           "if let Some(langsys) = script.find_langsys_or_default(opt_lang_tag)? { "
           "let lookups = build_lookups_default(gsub_table, langsys, feature_mask, feature_variations)?; "
           "let index = gsub_cache.cached_lookups.borrow().len(); "
           "gsub_cache.cached_lookups.borrow_mut().push(lookups); *entry.insert(index) } "
           "else { *entry.insert(0) } } else { *entry.insert(0) } } }; Ok(index)", "get_lookups_cache_index")
    body = norm2(fn_body(gsub, r"fn gsub_apply_custom\("))
    need(re.match(
        r"let gsub_table = &gsub_cache\.layout_table; "
        r"if let Some\(script\) = gsub_table\.find_script_or_default\(script_tag\)\? \{ "
        r"if let Some\(langsys\) = script\.find_langsys_or_default\(opt_lang_tag\)\? \{ "
        r"let feature_variations = gsub_table\.feature_variations\(tuple\)\?; "
        r"let feature_variations = feature_variations\.as_ref\(\); "
        r"let lookups = build_lookups_custom\(gsub_table, langsys, features_list, feature_variations\)\?; ", body),
         "gsub_apply_custom prologue: " + body[:500])
    body = norm2(fn_body(gsub, r"fn gsub_apply_default\("))
    need(re.match(
        r"let gsub_table = &gsub_cache\.layout_table; "
        r"let feature_variations = gsub_table\.feature_variations\(tuple\)\?; "
        r"let feature_variations = feature_variations\.as_ref\(\); if tuple\.is_some\(\) \{ apply_rvrn\(", body),
         "gsub_apply_default prologue: " + body[:400])
    return rvrn_mask


def main():
    ctx = strip_comments(read("src/context.rs"))
    gdef = strip_comments(read("src/gdef.rs"))
    gsub = strip_comments(read("src/gsub.rs"))
    layout = strip_comments(read("src/layout.rs"))
    tagsrc = read("src/tag.rs")
    consts = []

    # ---- LookupFlag getters: `(self.0 & MASK) != 0`
    for fn, name in (("get_rtl", "FLAG_RTL"), ("get_ignore_bases", "FLAG_IGNORE_BASES"),
                     ("get_ignore_ligatures", "FLAG_IGNORE_LIGATURES"),
                     ("use_mark_filtering_set", "FLAG_USE_MFS")):
        body = norm(fn_body(ctx, r"pub fn %s\(self\) -> bool \{" % fn))
        m = need(re.fullmatch(r"\(self\.0 & (0x[0-9A-Fa-f]+|\d+)\) != 0", body), "LookupFlag::%s body: %s" % (fn, body))
        consts.append((name, num(m.group(1))))
    body = norm(fn_body(ctx, r"pub fn get_ignore_marks\(self, mark_filtering_set: Option<u16>\) -> IgnoreMarks \{"))
    m = need(re.fullmatch(
        r"if \(self\.0 & (0x[0-9A-Fa-f]+|\d+)\) != 0 \{ IgnoreMarks::IgnoreAllMarks \} "
        r"else if self\.0 & (0x[0-9A-Fa-f]+|\d+) != 0 \{ IgnoreMarks::IgnoreMarksExcept\(\(self\.0 >> (\d+)\) as u8\) \} "
        r"else if self\.use_mark_filtering_set\(\) && mark_filtering_set\.is_some\(\) \{ "
        r"IgnoreMarks::IgnoreMarksInSet\(mark_filtering_set\.unwrap\(\)\) \} "
        r"else \{ IgnoreMarks::NoIgnoreMarks \}", body), "LookupFlag::get_ignore_marks body: " + body)
    consts += [("FLAG_IGNORE_MARKS", num(m.group(1))), ("FLAG_MAT_MASK", num(m.group(2))),
               ("FLAG_MAT_SHIFT", num(m.group(3)))]

    # ---- from_lookup_flag wiring
    body = norm(fn_body(ctx, r"pub fn from_lookup_flag\(lookup_flag: LookupFlag, mark_filtering_set: Option<u16>\) -> MatchType \{"))
    need(re.fullmatch(r"MatchType \{ ignore_bases: lookup_flag\.get_ignore_bases\(\), "
                      r"ignore_ligatures: lookup_flag\.get_ignore_ligatures\(\), "
                      r"ignore_marks: lookup_flag\.get_ignore_marks\(mark_filtering_set\), \}", body),
         "MatchType::from_lookup_flag body: " + body)
    body = norm(fn_body(ctx, r"pub fn marks_only\(\) -> MatchType \{"))
    need(re.fullmatch(r"MatchType \{ ignore_bases: true, ignore_ligatures: true, ignore_marks: IgnoreMarks::NoIgnoreMarks, \}", body),
         "MatchType::marks_only body: " + body)

    # ---- match_glyph: class literals and branch shapes
    body = norm(fn_body(ctx, r"pub fn match_glyph<G: Glyph>\(self, opt_gdef_table: Option<&GDEFTable>, glyph: &G\) -> bool \{"))
    m = need(re.fullmatch(
        r"if !self\.ignore_bases && !self\.ignore_ligatures && self\.ignore_marks == IgnoreMarks::NoIgnoreMarks \{ return true; \} "
        r"let glyph_class = gdef::glyph_class\(opt_gdef_table, glyph\.get_glyph_index\(\)\); "
        r"if self\.ignore_bases && glyph_class == (\d+) \{ return false; \} "
        r"if self\.ignore_ligatures && glyph_class == (\d+) \{ return false; \} "
        r"match self\.ignore_marks \{ IgnoreMarks::NoIgnoreMarks => true, "
        r"IgnoreMarks::IgnoreAllMarks => glyph_class != (\d+), "
        r"IgnoreMarks::IgnoreMarksExcept\(keep_class\) => \{ "
        r"let mark_attach_class = gdef::mark_attach_class\(opt_gdef_table, glyph\.get_glyph_index\(\)\); "
        r"\(glyph_class != (\d+)\) \|\| \(mark_attach_class == u16::from\(keep_class\)\) \} "
        r"IgnoreMarks::IgnoreMarksInSet\(index\) => \{ "
        r"glyph_class != (\d+) \|\| gdef::glyph_is_mark_in_set\(opt_gdef_table, glyph\.get_glyph_index\(\), index\.into\(\)\) \} \}",
        body), "MatchType::match_glyph body: " + body)
    marks = {num(m.group(3)), num(m.group(4)), num(m.group(5))}
    if len(marks) != 1:
        raise Broken("match_glyph compares the mark class with different literals: %s" % sorted(marks))
    consts += [("MG_CLASS_BASE", num(m.group(1))), ("MG_CLASS_LIGATURE", num(m.group(2))),
               ("MG_CLASS_MARK", marks.pop())]

    # ---- gdef.rs
    for n in ("NONE", "BASE", "LIGATURE", "MARK", "COMPONENT"):
        m = need(re.search(r"pub const GLYPH_CLASS_%s: u16 = (\d+);" % n, gdef), "GLYPH_CLASS_" + n)
        consts.append(("GLYPH_CLASS_" + n, num(m.group(1))))
    body = norm(fn_body(gdef, r"pub fn gdef_is_mark\(opt_gdef_table: Option<&GDEFTable>, glyph_index: u16\) -> bool \{"))
    need(re.fullmatch(r"glyph_class\(opt_gdef_table, glyph_index\) == GLYPH_CLASS_MARK", body), "gdef_is_mark body: " + body)
    body = norm(fn_body(gdef, r"pub fn glyph_is_mark_in_set\(opt_gdef_table: Option<&GDEFTable>, glyph: u16, index: usize\) -> bool \{"))
    need(re.fullmatch(r"gdef_is_mark\(opt_gdef_table, glyph\) && opt_gdef_table "
                      r"\.and_then\(\|gdef\| gdef\.opt_mark_glyph_sets\.as_ref\(\)\) "
                      r"\.and_then\(\|mark_glyph_sets\| mark_glyph_sets\.get\(index\)\) "
                      r"\.map_or\(false, \|mark_set\| \{ mark_set\.glyph_coverage_value\(glyph\)\.is_some\(\) \}\)", body),
         "glyph_is_mark_in_set body: " + body)

    # ---- gsub.rs
    m = need(re.search(r"const SUBST_RECURSION_LIMIT: usize = (\d+);", gsub), "SUBST_RECURSION_LIMIT")
    consts.append(("SUBST_RECURSION_LIMIT", num(m.group(1))))
    m = need(re.search(r"if subst_tag == tag::(\w+) \|\| subst_tag == tag::(\w+) \{\s*glyph\.flags\.set\(RawGlyphFlags::IS_VERT_ALT, true\);", gsub),
             "singlesubst vert tags")
    consts += [("TAG_VERT_ALT_1", tagval(tagsrc, m.group(1))), ("TAG_VERT_ALT_2", tagval(tagsrc, m.group(2)))]
    m = need(re.search(r"if feature_info\.feature_tag == tag::(\w+) \{\s*rvrn = Some\(feature_table\.lookup_indices\.clone\(\)\);", gsub),
             "build_lookups_custom rvrn special case")
    consts.append(("TAG_EARLY", tagval(tagsrc, m.group(1))))
    m = need(re.search(r"if feature_tag == tag::(\w+) && !glyphs\.is_empty\(\) \{", gsub), "gsub_apply_custom fina special case")
    consts.append(("TAG_LAST_ONLY", tagval(tagsrc, m.group(1))))
    for n in ("RVRN", "FINA", "VERT", "VRT2", "DFLT", "FRAC"):
        consts.append(("TAG_" + n, tagval(tagsrc, n)))

    # ---- Features::Mask path: build_lookups_default and the ScriptType::Default arm of gsub_apply_default
    body = norm(fn_body(gsub, r"fn build_lookups_default\("))
    need(re.fullmatch(
        r"let mut lookups = BTreeMap::new\(\); for \(feature_mask, feature_tag\) in FEATURE_MASKS \{ "
        r"if feature_masks\.contains\(\*feature_mask\) \{ "
        r"if let Some\(feature_table\) = gsub_table\.find_langsys_feature\(langsys, \*feature_tag, feature_variations\)\? \{ "
        r"for lookup_index in &feature_table\.lookup_indices \{ lookups\.insert\(usize::from\(\*lookup_index\), \*feature_tag\); \} "
        r"\} else if \*feature_tag == tag::(\w+) \{ let vert_tag = tag::(\w+); "
        r"if let Some\(feature_table\) = gsub_table\.find_langsys_feature\(langsys, vert_tag, feature_variations\)\? \{ "
        r"for lookup_index in &feature_table\.lookup_indices \{ lookups\.insert\(usize::from\(\*lookup_index\), vert_tag\); \} \} \} \} \} "
        r"Ok\(lookups\.into_iter\(\)\.collect\(\)\)", body), "build_lookups_default body: " + body)
    mm = re.search(r"else if \*feature_tag == tag::(\w+) \{ let vert_tag = tag::(\w+);", body)
    consts.append(("TAG_MASK_FALLBACK_FROM", tagval(tagsrc, mm.group(1))))
    consts.append(("TAG_MASK_FALLBACK_TO", tagval(tagsrc, mm.group(2))))
    body = norm(fn_body(gsub, r"fn gsub_apply_default\("))
    need(re.search(r"if tuple\.is_some\(\) \{ apply_rvrn\(&gsub_cache, opt_gdef_table, script_tag, opt_lang_tag, feature_variations, glyphs\)\?; \} "
                   r"feature_mask\.remove\(FeatureMask::(\w+)\);", body), "gsub_apply_default rvrn prologue")
    mm = re.search(r"feature_mask\.remove\(FeatureMask::(\w+)\); match ScriptType::from\(script_tag\)", body)
    need(mm, "gsub_apply_default: remove(RVRN) before the script dispatch")
    removed = mm.group(1)
    mm = need(re.search(r"ScriptType::Default => \{ feature_mask &= get_supported_features\(gsub_cache, script_tag, opt_lang_tag\)\?; "
                        r"if feature_mask\.contains\(FeatureMask::(\w+)\) \{", body), "gsub_apply_default Default arm")
    frac = mm.group(1)
    need(re.search(r"\} else \{ let index = get_lookups_cache_index\(gsub_cache, script_tag, opt_lang_tag, feature_variations, feature_mask\)\?; "
                   r"let lookups = &gsub_cache\.cached_lookups\.borrow\(\)\[index\]; "
                   r"gsub_apply_lookups\(gsub_cache, gsub_table, opt_gdef_table, lookups, glyphs\)\?; \} \} \} "
                   r"strip_joiners\(glyphs\); replace_missing_glyphs\(glyphs, num_glyphs\); Ok\(\(\)\)$", body),
         "gsub_apply_default tail: " + body[-400:])
    body = norm(fn_body(gsub, r"fn strip_joiners<T: GlyphData>\("))
    mm = need(re.fullmatch(r"glyphs\.retain\(\|g\| match g\.glyph_origin \{ GlyphOrigin::Char\('\\u\{([0-9A-Fa-f]+)\}'\) => false, "
                           r"GlyphOrigin::Char\('\\u\{([0-9A-Fa-f]+)\}'\) => false, _ => true, \}\)", body), "strip_joiners body: " + body)
    consts.append(("JOINER_1", int(mm.group(1), 16)))
    consts.append(("JOINER_2", int(mm.group(2), 16)))
    mask_removed_name, mask_frac_name = removed, frac
    rvrn_mask_name = feature_variations(layout, gsub, strip_comments(read("src/tables/variable_fonts/fvar.rs")), consts)

    # FeatureMask bits and FEATURE_MASKS table
    bits = {}
    mb = need(re.search(r"pub struct FeatureMask: u64 \{(.*?)\n    \}", gsub, re.S), "FeatureMask bitflags")
    for n, sh in re.findall(r"const (\w+)\s*= 1 << (\d+);", mb.group(1)):
        bits[n] = int(sh)
    if not bits:
        raise Broken("FeatureMask bits")
    for nm, cname in ((mask_removed_name, "MASK_BIT_REMOVED"), (mask_frac_name, "MASK_BIT_SPLIT"), (rvrn_mask_name, "MASK_BIT_RVRN")):
        if nm not in bits:
            raise Broken("unknown FeatureMask::" + nm)
        consts.append((cname, bits[nm]))
    tb = need(re.search(r"const FEATURE_MASKS: &\[\(FeatureMask, u32\)\] = &\[(.*?)\];", gsub, re.S), "FEATURE_MASKS")
    table = []
    for n, t in re.findall(r"\(FeatureMask::(\w+), tag::(\w+)\)", tb.group(1)):
        if n not in bits:
            raise Broken("FEATURE_MASKS mentions unknown mask " + n)
        table.append((bits[n], tagval(tagsrc, t)))
    ft = fn_body(gsub, r"pub fn from_tag\(tag: u32\) -> FeatureMask \{")
    from_tag = []
    for t, n in re.findall(r"tag::(\w+) => FeatureMask::(\w+),", ft):
        from_tag.append((tagval(tagsrc, t), bits[n]))
    need(re.search(r"_ => FeatureMask::empty\(\),", ft), "FeatureMask::from_tag default")

    # ---- layout.rs: GSUB check_lookup_type
    m = need(re.search(r"impl LayoutTableType for GSUB \{(.*?)\n\}", layout, re.S), "impl LayoutTableType for GSUB")
    kinds = {"SingleSubst": 1, "MultipleSubst": 2, "AlternateSubst": 3, "LigatureSubst": 4,
             "ContextSubst": 5, "ChainContextSubst": 6, "ReverseChainSingleSubst": 8}
    types = []
    for n, k in re.findall(r"(\d+) => Ok\(LookupType::(Normal\(SubstLookupType::\w+\)|Extension)\)", m.group(1)):
        if k == "Extension":
            types.append((int(n), 0))
        else:
            kn = re.search(r"SubstLookupType::(\w+)", k).group(1)
            if kn not in kinds:
                raise Broken("unknown SubstLookupType " + kn)
            types.append((int(n), kinds[kn]))
    if not types:
        raise Broken("GSUB check_lookup_type arms")

    out = ["(* GENERATED by translators/tr_layout.py from src/context.rs, src/gdef.rs, src/gsub.rs, src/layout.rs, src/tag.rs — do not edit *)",
           "From AV Require Import Base.Prelude.", "Open Scope Z_scope.", ""]
    for n, v in consts:
        out.append("Definition %s : Z := %d." % (n, v))
    out.append("")
    out.append("(* (bit number of the FeatureMask flag, feature tag) in FEATURE_MASKS order *)")
    out.append("Definition FEATURE_MASKS : list (Z * Z) :=\n  [" + ";\n   ".join("(%d, %d)" % x for x in table) + "].")
    out.append("(* FeatureMask::from_tag arms: (tag, bit number) *)")
    out.append("Definition FROM_TAG : list (Z * Z) :=\n  [" + ";\n   ".join("(%d, %d)" % x for x in from_tag) + "].")
    out.append("(* GSUB check_lookup_type: (lookup type number, kind) with kind 0 = Extension, else the base type *)")
    out.append("Definition GSUB_LOOKUP_TYPES : list (Z * Z) :=\n  [" + "; ".join("(%d, %d)" % x for x in types) + "].")
    txt = "\n".join(out) + "\n"
    os.makedirs(os.path.dirname(OUT), exist_ok=True)
    if not (os.path.exists(OUT) and open(OUT).read() == txt):
        with open(OUT + ".tmp", "w") as o:
            o.write(txt)
        os.replace(OUT + ".tmp", OUT)
    print("tr_layout: ok consts=%d feature_masks=%d" % (len(consts), len(table)))


if __name__ == "__main__":
    try:
        main()
    except Broken as e:
        print("tr_layout: BROKEN:", e)
        sys.exit(2)
