#!/usr/bin/env python3
"""Translate the tables and constants of the text-preprocessing code (property C17) into Gallina.

Read from $VERIF_REPO (default /repo):
  src/unicode/mcc.rs        enum ModifiedCombiningClass (discriminants), MODIFIED_COMBINING_CLASS[256],
                            the fast-path bound of modified_combining_class
  src/tag.rs                the tag constants used below
  src/scripts/mod.rs        impl From<u32> for ScriptType (tag -> script type), preprocess_text (script type -> action)
  src/scripts/arabic.rs     is_modifier_combining_mark (MCM set), the class used by reorder_marks_shadda,
                            the classes (in order) passed to reorder_marks_other_combining
  src/scripts/thai_lao.rs   split_am_vowel, is_abovebase_mark
  src/scripts/indic.rs      vowel_constraint, split_matra, fn script, the literals of
                            recompose_bengali_ya_nukta and reorder_kannada_ra_halant_zwj
  src/scripts/khmer.rs      decompose_matra (split vowels and the inserted pre-base part)
  src/lib.rs                DOTTED_CIRCLE

Output: coq/Gen/PreprocessTables.v (data only).  Exit 0 = parsed; exit 2 = an anchor no longer parses.
The file is rewritten only when its content changes.
"""
import os, re, sys

REPO = os.environ.get("VERIF_REPO", "/repo")
HERE = os.path.dirname(os.path.abspath(__file__))
OUT = sys.argv[1] if len(sys.argv) > 1 else os.path.join(HERE, "..", "coq", "Gen", "PreprocessTables.v")


class Broken(Exception):
    pass


def read(rel):
    p = os.path.join(REPO, rel)
    try:
        return open(p, encoding="utf-8").read()
    except OSError as e:
        raise Broken("cannot read %s: %s" % (rel, e))


def strip_comments(src):
    """remove // and /* */ comments; char and string literals are kept intact"""
    out, i, n = [], 0, len(src)
    while i < n:
        c = src[i]
        if src.startswith("//", i):
            j = src.find("\n", i)
            i = n if j < 0 else j
        elif src.startswith("/*", i):
            j = src.find("*/", i + 2)
            i = n if j < 0 else j + 2
        elif c == '"':
            j = i + 1
            while j < n and src[j] != '"':
                j += 2 if src[j] == "\\" else 1
            out.append(src[i:j + 1])
            i = j + 1
        elif c == "'":
            m = re.match(r"'(\\u\{[0-9A-Fa-f]+\}|\\.|[^'\\])'", src[i:])
            if m:
                out.append(m.group(0))
                i += len(m.group(0))
            else:
                out.append(c)   # a lifetime
                i += 1
        else:
            out.append(c)
            i += 1
    return "".join(out)


def block_after(src, header_re, what):
    """text between the braces of the first block whose header matches header_re"""
    m = re.search(header_re, src)
    if not m:
        raise Broken("cannot find %s" % what)
    i = src.index("{", m.end() - 1)
    depth, j = 0, i
    while j < len(src):
        if src[j] == "{":
            depth += 1
        elif src[j] == "}":
            depth -= 1
            if depth == 0:
                return src[i + 1:j]
        elif src[j] == "'":
            m2 = re.match(r"'(\\u\{[0-9A-Fa-f]+\}|\\.|[^'\\])'", src[j:])
            if m2:
                j += len(m2.group(0)) - 1
        j += 1
    raise Broken("unbalanced braces in %s" % what)


CH = r"'(?:\\u\{([0-9A-Fa-f]+)\}|([^'\\]))'"
CHP = r"'(?:\\u\{[0-9A-Fa-f]+\}|[^'\\])'"   # the same without capture groups


def chval(m_u, m_c):
    return int(m_u, 16) if m_u else ord(m_c)


def one_char(txt, what):
    m = re.fullmatch(r"\s*" + CH + r"\s*", txt)
    if not m:
        raise Broken("expected a char literal in %s, got %r" % (what, txt.strip()[:60]))
    return chval(m.group(1), m.group(2))


def match_arms(body, what):
    """split the body of a `match` into (pattern, expr) arms at top-level `=>` / `,`"""
    arms, depth, i, start = [], 0, 0, 0
    pat = None
    n = len(body)
    while i < n:
        c = body[i]
        if c == "'":
            m = re.match(CH, body[i:])
            if m:
                i += len(m.group(0))
                continue
        if c in "([{":
            depth += 1
        elif c in ")]}":
            depth -= 1
            if c == "}" and depth == 0 and pat is not None and body[start:i + 1].lstrip().startswith("{"):
                # an arm whose body is a block needs no trailing comma
                arms.append((pat, body[start:i + 1].strip()))
                pat = None
                j = i + 1
                while j < n and body[j] in " \t\r\n":
                    j += 1
                i = j + 1 if j < n and body[j] == "," else j
                start = i
                continue
        elif depth == 0 and body.startswith("=>", i) and pat is None:
            pat = body[start:i].strip()
            i += 2
            start = i
            continue
        elif depth == 0 and c == "," and pat is not None:
            arms.append((pat, body[start:i].strip()))
            pat = None
            start = i + 1
        i += 1
    if pat is not None and body[start:].strip():
        arms.append((pat, body[start:].strip()))
    if not arms:
        raise Broken("no match arms in %s" % what)
    return arms


def match_body(fn_body, what):
    return block_after(fn_body, r"\bmatch\b[^{]*\{", "match of " + what)


# ------------------------------------------------------------------------------------------------
def tr_mcc():
    src = strip_comments(read("src/unicode/mcc.rs"))
    enum = block_after(src, r"pub enum ModifiedCombiningClass\s*\{", "enum ModifiedCombiningClass")
    disc = {}
    for name, val in re.findall(r"(\w+)\s*=\s*(\d+)\s*,", enum):
        disc[name] = int(val)
    if "NotReordered" not in disc or disc["NotReordered"] != 0:
        raise Broken("ModifiedCombiningClass::NotReordered is not 0")
    consts = dict(disc)
    for name, val in re.findall(r"const\s+(\w+)\s*:\s*ModifiedCombiningClass\s*=\s*ModifiedCombiningClass::(\w+)\s*;", src):
        if val not in disc:
            raise Broken("alias %s of unknown class %s" % (name, val))
        consts[name] = disc[val]
    m = re.search(r"const MODIFIED_COMBINING_CLASS\s*:\s*&'static\s*\[ModifiedCombiningClass;\s*(\d+)\]\s*=\s*&\[(.*?)\];", src, re.S)
    if not m:
        raise Broken("cannot find MODIFIED_COMBINING_CLASS")
    if int(m.group(1)) != 256:
        raise Broken("MODIFIED_COMBINING_CLASS has %s entries, expected 256" % m.group(1))
    entries = [e.strip() for e in m.group(2).split(",") if e.strip()]
    if len(entries) != 256:
        raise Broken("MODIFIED_COMBINING_CLASS lists %d entries" % len(entries))
    table = []
    for e in entries:
        e = e.replace("ModifiedCombiningClass::", "")
        if e not in consts:
            raise Broken("unknown class name %s in MODIFIED_COMBINING_CLASS" % e)
        table.append(consts[e])
    body = block_after(src, r"pub fn modified_combining_class\s*\(", "fn modified_combining_class")
    m = re.search(r"if\s+c\s*<=\s*" + CH + r"\s*\{\s*ModifiedCombiningClass::NotReordered\s*\}\s*else\s*\{\s*"
                  r"MODIFIED_COMBINING_CLASS\[get_canonical_combining_class\(c\) as usize\]\s*\}", body)
    if not m:
        raise Broken("modified_combining_class no longer has the shape `if c <= K { NotReordered } else { TABLE[ccc(c)] }`")
    fast = chval(m.group(1), m.group(2))
    return disc, table, fast


def tr_tags():
    src = strip_comments(read("src/tag.rs"))
    tags = {}
    for name, s in re.findall(r'pub const (\w+)\s*:\s*u32\s*=\s*tag!\(b"((?:[^"\\]|\\.){4})"\)\s*;', src):
        if len(s) != 4:
            continue
        v = 0
        for ch in s:
            v = v * 256 + ord(ch)
        tags[name] = v
    return tags


ACTIONS = [
    (r"arabic::reorder_marks\(cs\)", "ActArabic"),
    (r"sort_by_modified_combining_class\(cs\)", "ActSort"),
    (r"indic::preprocess_indic\(cs,\s*script_tag\)", "ActIndic"),
    (r"khmer::preprocess_khmer\(cs\)", "ActKhmer"),
    (r"\{\s*\}", "ActNone"),
    (r"thai_lao::reorder_marks\(cs\)", "ActThaiLao"),
]


def tr_dispatch(tags):
    src = strip_comments(read("src/scripts/mod.rs"))
    enum = block_after(src, r"pub enum ScriptType\s*\{", "enum ScriptType")
    variants = re.findall(r"\b(\w+)\s*,", enum + ",")
    variants = [v for v in variants if v]
    if not variants:
        raise Broken("enum ScriptType has no variants")
    body = block_after(src, r"impl From<u32> for ScriptType\s*\{", "impl From<u32> for ScriptType")
    fn = block_after(body, r"fn from\s*\(\s*script_tag\s*:\s*u32\s*\)\s*->\s*Self\s*\{", "ScriptType::from")
    arms = match_arms(match_body(fn, "ScriptType::from"), "ScriptType::from")
    table, default = [], None
    for pat, expr in arms:
        m = re.fullmatch(r"ScriptType::(\w+)", expr)
        if not m or m.group(1) not in variants:
            raise Broken("ScriptType::from arm %s => %s" % (pat, expr))
        if pat == "_":
            default = m.group(1)
            continue
        if default is not None:
            raise Broken("ScriptType::from has arms after the wildcard")
        for p in pat.split("|"):
            mt = re.fullmatch(r"\s*tag::(\w+)\s*", p)
            if not mt or mt.group(1) not in tags:
                raise Broken("ScriptType::from pattern %s" % p)
            table.append((mt.group(1), tags[mt.group(1)], m.group(1)))
    if default is None:
        raise Broken("ScriptType::from has no wildcard arm")
    fn = block_after(src, r"pub fn preprocess_text\s*\(\s*cs\s*:\s*&mut Vec<char>\s*,\s*script_tag\s*:\s*u32\s*\)\s*\{", "fn preprocess_text")
    if not re.match(r"\s*match ScriptType::from\(script_tag\)\s*\{", fn):
        raise Broken("preprocess_text no longer dispatches on ScriptType::from(script_tag)")
    arms = match_arms(match_body(fn, "preprocess_text"), "preprocess_text")
    actions = {}
    for pat, expr in arms:
        m = re.fullmatch(r"ScriptType::(\w+)", pat)
        if not m or m.group(1) not in variants:
            raise Broken("preprocess_text pattern %s" % pat)
        for rx, act in ACTIONS:
            if re.fullmatch(rx, expr):
                actions[m.group(1)] = act
                break
        else:
            raise Broken("preprocess_text arm %s => %s is not a known action" % (pat, expr))
    for v in variants:
        if v not in actions:
            raise Broken("preprocess_text has no arm for ScriptType::%s" % v)
    return variants, table, default, actions


def tr_arabic(disc):
    src = strip_comments(read("src/scripts/arabic.rs"))
    body = block_after(src, r"fn is_modifier_combining_mark\s*\(\s*ch\s*:\s*char\s*\)\s*->\s*bool\s*\{", "is_modifier_combining_mark")
    arms = match_arms(match_body(body, "is_modifier_combining_mark"), "is_modifier_combining_mark")
    if len(arms) != 2 or arms[0][1] != "true" or arms[1] != ("_", "false"):
        raise Broken("is_modifier_combining_mark is no longer `chars => true, _ => false`")
    mcm = [one_char(p, "is_modifier_combining_mark") for p in arms[0][0].split("|") if p.strip()]
    body = block_after(src, r"fn reorder_marks_shadda\s*\(", "reorder_marks_shadda")
    m = re.search(r"ModifiedCombiningClass::(\w+)", body)
    if not m or m.group(1) not in disc:
        raise Broken("reorder_marks_shadda: class of the shadda not found")
    shadda = disc[m.group(1)]
    body = block_after(src, r"pub\(super\) fn reorder_marks\s*\(", "arabic::reorder_marks")
    steps = re.findall(r"reorder_marks_other_combining\(css,\s*ModifiedCombiningClass::(\w+)\)", body)
    if not steps or any(s not in disc for s in steps):
        raise Broken("arabic::reorder_marks: reorder_marks_other_combining calls not found")
    return mcm, shadda, [disc[s] for s in steps]


def tr_thai():
    src = strip_comments(read("src/scripts/thai_lao.rs"))
    body = block_after(src, r"fn split_am_vowel\s*\(", "split_am_vowel")
    am = []
    for pat, expr in match_arms(match_body(body, "split_am_vowel"), "split_am_vowel"):
        if pat == "_":
            if expr != "None":
                raise Broken("split_am_vowel wildcard arm")
            continue
        m = re.fullmatch(r"Some\(\(\s*(%s)\s*,\s*(%s)\s*\)\)" % (CHP, CHP), expr)
        if not m:
            raise Broken("split_am_vowel arm %s => %s" % (pat, expr))
        am.append((one_char(pat, "split_am_vowel"), one_char(m.group(1), "split_am_vowel"), one_char(m.group(2), "split_am_vowel")))
    body = block_after(src, r"fn is_abovebase_mark\s*\(", "is_abovebase_mark")
    ranges = []
    for pat, expr in match_arms(match_body(body, "is_abovebase_mark"), "is_abovebase_mark"):
        if pat == "_":
            if expr != "false":
                raise Broken("is_abovebase_mark wildcard arm")
            continue
        if expr != "true":
            raise Broken("is_abovebase_mark arm %s => %s" % (pat, expr))
        for p in pat.split("|"):
            if "..=" in p:
                lo, hi = p.split("..=")
                ranges.append((one_char(lo, "is_abovebase_mark"), one_char(hi, "is_abovebase_mark")))
            else:
                v = one_char(p, "is_abovebase_mark")
                ranges.append((v, v))
    return am, ranges


def tr_indic(tags):
    src = strip_comments(read("src/scripts/indic.rs"))
    body = block_after(src, r"fn vowel_constraint\s*\(", "vowel_constraint")
    vc = []
    chp = CHP
    for pat, expr in match_arms(match_body(body, "vowel_constraint"), "vowel_constraint"):
        if pat == "_":
            if expr != "InsertConstraint::None":
                raise Broken("vowel_constraint wildcard arm")
            continue
        m = re.fullmatch(r"\(\s*(%s)\s*,\s*(%s)\s*\)" % (chp, chp), pat)
        if not m:
            raise Broken("vowel_constraint pattern %s" % pat)
        c1, c2 = one_char(m.group(1), "vowel_constraint"), one_char(m.group(2), "vowel_constraint")
        if expr == "InsertConstraint::Between":
            vc.append((c1, c2, "ICBetween"))
        else:
            m2 = re.fullmatch(r"InsertConstraint::MaybeAfter\(\s*(%s)\s*\)" % chp, expr)
            if not m2:
                raise Broken("vowel_constraint arm %s => %s" % (pat, expr))
            vc.append((c1, c2, "(ICMaybeAfter %d)" % one_char(m2.group(1), "vowel_constraint")))
    body = block_after(src, r"fn split_matra\s*\(", "split_matra")
    sm = []
    for pat, expr in match_arms(match_body(body, "split_matra"), "split_matra"):
        if pat == "_":
            if expr != "MatraSplit::None":
                raise Broken("split_matra wildcard arm")
            continue
        m = re.fullmatch(r"MatraSplit::(Two|Three)\((.*)\)", expr, re.S)
        if not m:
            raise Broken("split_matra arm %s => %s" % (pat, expr))
        parts = [one_char(x, "split_matra") for x in m.group(2).split(",") if x.strip()]
        if len(parts) != (2 if m.group(1) == "Two" else 3):
            raise Broken("split_matra arm %s has %d parts" % (pat, len(parts)))
        sm.append((one_char(pat, "split_matra"), parts))
    enum = block_after(src, r"\benum Script\s*\{", "enum Script")
    scripts = [v for v in re.findall(r"\b(\w+)\s*,", enum + ",") if v]
    body = block_after(src, r"fn script\s*\(\s*indic1_tag\s*:\s*u32\s*\)\s*->\s*Script\s*\{", "fn script")
    st = []
    for pat, expr in match_arms(match_body(body, "fn script"), "fn script"):
        if pat == "_":
            if not expr.startswith("panic!"):
                raise Broken("fn script wildcard arm is no longer a panic")
            continue
        mt = re.fullmatch(r"tag::(\w+)", pat)
        me = re.fullmatch(r"Script::(\w+)", expr)
        if not mt or not me or mt.group(1) not in tags or me.group(1) not in scripts:
            raise Broken("fn script arm %s => %s" % (pat, expr))
        st.append((mt.group(1), tags[mt.group(1)], me.group(1)))
    body = block_after(src, r"fn recompose_bengali_ya_nukta\s*\(", "recompose_bengali_ya_nukta")
    m = re.search(r"if cs\[i\] == (%s) && cs\[i \+ 1\] == (%s)\s*\{\s*cs\[i\] = (%s);\s*cs\.remove\(i \+ 1\);\s*\}" % (chp, chp, chp), body)
    if not m:
        raise Broken("recompose_bengali_ya_nukta no longer has the shape `if cs[i]==A && cs[i+1]==B { cs[i]=C; cs.remove(i+1) }`")
    ya = [one_char(m.group(k), "recompose_bengali_ya_nukta") for k in (1, 2, 3)]
    body = block_after(src, r"fn reorder_kannada_ra_halant_zwj\s*\(", "reorder_kannada_ra_halant_zwj")
    m = re.search(r"if cs\.starts_with\(&\[\s*(%s)\s*,\s*(%s)\s*,\s*(%s)\s*\]\)\s*\{\s*cs\.swap\((\d+),\s*(\d+)\);\s*\}" % (chp, chp, chp), body)
    if not m:
        raise Broken("reorder_kannada_ra_halant_zwj no longer has the shape `if cs.starts_with(&[A,B,C]) { cs.swap(i,j) }`")
    kn = [one_char(m.group(k), "reorder_kannada_ra_halant_zwj") for k in (1, 2, 3)]
    swap = (int(m.group(4)), int(m.group(5)))
    body = block_after(src, r"pub\(super\) fn preprocess_indic\s*\(", "preprocess_indic")
    m = re.search(r"if script == Script::(\w+)\s*\{\s*recompose_bengali_ya_nukta\(cs\);\s*\}\s*else if script == Script::(\w+)\s*\{\s*"
                  r"reorder_kannada_ra_halant_zwj\(cs\);\s*\}", body)
    if not m or m.group(1) not in scripts or m.group(2) not in scripts:
        raise Broken("preprocess_indic: script-specific steps not found")
    return vc, sm, scripts, st, ya, kn, swap, (m.group(1), m.group(2))


def tr_khmer():
    src = strip_comments(read("src/scripts/khmer.rs"))
    body = block_after(src, r"fn decompose_matra\s*\(", "khmer::decompose_matra")
    arms = match_arms(match_body(body, "khmer::decompose_matra"), "khmer::decompose_matra")
    chp = CHP
    if len(arms) != 2 or arms[1][0] != "_":
        raise Broken("khmer::decompose_matra is no longer `chars => {insert}, _ => i += 1`")
    chars = [one_char(p, "khmer::decompose_matra") for p in arms[0][0].split("|") if p.strip()]
    m = re.fullmatch(r"\{\s*cs\.insert\(i,\s*(%s)\);\s*i \+= 2;\s*\}" % chp, arms[0][1])
    if not m:
        raise Broken("khmer::decompose_matra arm body %s" % arms[0][1])
    return chars, one_char(m.group(1), "khmer::decompose_matra")


def tr_dotted():
    src = strip_comments(read("src/lib.rs"))
    m = re.search(r"pub const DOTTED_CIRCLE\s*:\s*char\s*=\s*" + CH + r"\s*;", src)
    if not m:
        raise Broken("DOTTED_CIRCLE not found")
    return chval(m.group(1), m.group(2))


def zl(xs, per=16):
    rows = ["; ".join(str(x) for x in xs[i:i + per]) for i in range(0, len(xs), per)]
    return "[" + ";\n   ".join(rows) + "]"


def main():
    disc, table, fast = tr_mcc()
    tags = tr_tags()
    variants, stable, sdefault, actions = tr_dispatch(tags)
    mcm, shadda, steps = tr_arabic(disc)
    am, above = tr_thai()
    vc, sm, scripts, st, ya, kn, swap, (s_beng, s_knda) = tr_indic(tags)
    kchars, kpre = tr_khmer()
    dc = tr_dotted()
    o = []
    o.append("(* GENERATED by translators/tr_tables.py from the allsorts sources - do not edit.\n"
             "   Tables and constants of the text-preprocessing code (property C17). *)")
    o.append("From AV Require Import Base.Prelude.\n")
    o.append("(* src/unicode/mcc.rs: MODIFIED_COMBINING_CLASS, indexed by canonical combining class *)")
    o.append("Definition MCC_TABLE : list Z :=\n  %s.\n" % zl(table))
    o.append("(* modified_combining_class: code points <= this bound are NotReordered without a table lookup *)")
    o.append("Definition MCC_FAST_PATH_MAX : Z := %d.\n" % fast)
    o.append("(* the discriminants of enum ModifiedCombiningClass *)")
    o.append("Definition MCC_VALUES : list Z :=\n  %s.\n" % zl(sorted(disc.values())))
    o.append("(* src/scripts/mod.rs *)")
    o.append("Inductive script_type : Type :=\n%s." % "\n".join("| ST%s" % v for v in variants))
    o.append("Inductive action : Type := ActArabic | ActSort | ActIndic | ActKhmer | ActNone | ActThaiLao.\n")
    o.append("(* impl From<u32> for ScriptType: the arms in source order; anything else is the default *)")
    o.append("Definition SCRIPT_TYPE_TABLE : list (Z * script_type) :=\n  [%s].\n" % ";\n   ".join(
        "(%d, ST%s) (* %s *)" % (v, s, n) for n, v, s in stable))
    o.append("Definition SCRIPT_TYPE_DEFAULT : script_type := ST%s.\n" % sdefault)
    o.append("(* preprocess_text: what is run for each script type *)")
    o.append("Definition action_of (t : script_type) : action :=\n  match t with\n%s\n  end.\n" % "\n".join(
        "  | ST%s => %s" % (v, actions[v]) for v in variants))
    o.append("(* src/scripts/arabic.rs *)")
    o.append("Definition MCM_CHARS : list Z :=\n  %s.\n" % zl(mcm))
    o.append("Definition SHADDA_CLASS : Z := %d.\n" % shadda)
    o.append("(* classes passed to reorder_marks_other_combining, in call order *)")
    o.append("Definition ARABIC_OTHER_STEPS : list Z := %s.\n" % zl(steps))
    o.append("(* src/scripts/thai_lao.rs: split_am_vowel (c, (c1, c2)); is_abovebase_mark as inclusive ranges *)")
    o.append("Definition AM_SPLITS : list (Z * (Z * Z)) :=\n  [%s].\n" % "; ".join("(%d, (%d, %d))" % t for t in am))
    o.append("Definition ABOVEBASE_RANGES : list (Z * Z) :=\n  [%s].\n" % "; ".join("(%d, %d)" % t for t in above))
    o.append("(* src/scripts/indic.rs *)")
    o.append("Inductive insert_constraint : Type := ICBetween | ICMaybeAfter (c : Z) | ICNone.\n")
    o.append("Definition VOWEL_CONSTRAINTS : list (Z * Z * insert_constraint) :=\n  [%s].\n" % ";\n   ".join(
        "(%d, %d, %s)" % t for t in vc))
    o.append("Definition MATRA_SPLITS : list (Z * list Z) :=\n  [%s].\n" % ";\n   ".join(
        "(%d, %s)" % (c, zl(p)) for c, p in sm))
    o.append("Inductive indic_script : Type :=\n%s.\n" % "\n".join("| IS%s" % v for v in scripts))
    o.append("(* fn script: the arms in source order; any other tag panics *)")
    o.append("Definition INDIC_SCRIPT_TABLE : list (Z * indic_script) :=\n  [%s].\n" % ";\n   ".join(
        "(%d, IS%s) (* %s *)" % (v, s, n) for n, v, s in st))
    o.append("(* preprocess_indic: the script whose text gets recompose_bengali_ya_nukta / reorder_kannada_ra_halant_zwj *)")
    o.append("Definition is_ya_nukta_script (s : indic_script) : bool := match s with IS%s => true | _ => false end." % s_beng)
    o.append("Definition is_ra_halant_script (s : indic_script) : bool := match s with IS%s => true | _ => false end.\n" % s_knda)
    o.append("Definition YA : Z := %d.\nDefinition NUKTA : Z := %d.\nDefinition YYA : Z := %d.\n" % tuple(ya))
    o.append("Definition KANNADA_PREFIX : list Z := %s.\nDefinition KANNADA_SWAP : nat * nat := (%d%%nat, %d%%nat).\n" % (zl(kn), swap[0], swap[1]))
    o.append("(* src/scripts/khmer.rs *)")
    o.append("Definition KHMER_SPLIT_VOWELS : list Z := %s.\nDefinition KHMER_PREBASE_PART : Z := %d.\n" % (zl(kchars), kpre))
    o.append("(* src/lib.rs *)")
    o.append("Definition DOTTED_CIRCLE : Z := %d." % dc)
    txt = "\n".join(o) + "\n"
    out = os.path.normpath(OUT)
    old = open(out).read() if os.path.exists(out) else None
    if old != txt:
        os.makedirs(os.path.dirname(out), exist_ok=True)
        with open(out, "w") as f:
            f.write(txt)
    print("tr_tables: ok (%d mcc entries, %d tags, %d mcm, %d am, %d above ranges, %d vowel constraints, %d matra splits, %d khmer vowels)"
          % (len(table), len(stable), len(mcm), len(am), len(above), len(vc), len(sm), len(kchars)))


if __name__ == "__main__":
    try:
        main()
    except Broken as e:
        print("tr_tables: BROKEN: %s" % e)
        sys.exit(2)
