#!/usr/bin/env python3
"""Translate the data and check the shape of the CFF DICT reader/writer of allsorts (src/cff.rs,
src/cff/cff2.rs) into Gallina (coq/Gen/CffDictTables.v), for property C15.

Regenerated on every run from the Rust text:

  * `enum Operator`: the discriminants (`op2(n)` = 12 * 256 + n), in source order;
  * `impl TryFrom<u16> for Operator`: every accepted u16 value with the discriminant of the variant
    it yields (both halves of the `if (value & 0xFF00) == (12 << 8)` split);
  * the operand constants (`const X: [Operand; N]`, `lazy_static!` ones incl. `let` bound reals) and
    the six `impl DictDefault for ...` tables (cff: Top, Font, Private; cff2: Top, Font, Private) as
    association lists operator -> default operand list, in arm order;
  * `integer_to_offset`: the guarded Encoding arm (operator, bound), the single-operand operator set,
    the two-operand operator set;
  * MAX_OPERANDS (cff and cff2), END_OF_FLOAT_FLAG, the operator width threshold of `Operator::write`,
    the `Operand::Real` prefix byte of `Operand::write`.

Everything that is modelled by hand in coq/Model/CffDict.v is compared, whitespace-insensitively,
against the text the model was written after: `Dict::read_dep`, `Dict::write_dep`, `Operator::write`,
`DictDelta::get`, `op2`, `ok_real`, the `Operand` / `Real` type definitions (derived PartialEq is the
equality the default elision uses) and `ReadCtxt::read_until_nibble` / `bytes_available`.

Exit 0 = parsed; 2 = an anchor no longer has the expected shape (prints `tr_cffdict: BROKEN: why`).
"""
import os, re, sys

HERE = os.path.dirname(os.path.abspath(__file__))
REPO = os.environ.get("VERIF_REPO", "/repo")
OUT = sys.argv[1] if len(sys.argv) > 1 else os.path.join(HERE, "..", "coq", "Gen", "CffDictTables.v")


class Broken(Exception):
    pass


def strip_comments(s):
    s = re.sub(r"//[^\n]*", "", s)
    return re.sub(r"/\*.*?\*/", "", s, flags=re.S)


def block_at(src, i):
    depth, j = 0, i
    while True:
        if src[j] == "{":
            depth += 1
        elif src[j] == "}":
            depth -= 1
            if depth == 0:
                return src[i + 1:j], j + 1
        j += 1
        if j >= len(src):
            raise Broken("unbalanced braces")


def body_of(src, header_re, fn=None):
    m = re.search(header_re, src)
    if not m:
        raise Broken("cannot find `%s`" % header_re)
    i = src.index("{", m.end() - 1)
    body, _ = block_at(src, i)
    if fn:
        mm = re.search(r"fn %s\b[^{]*" % fn, body)
        if not mm:
            raise Broken("fn %s in `%s`" % (fn, header_re))
        body, _ = block_at(body, body.index("{", mm.end() - 1))
    return body


def squash(s):
    return "".join(s.split())


def intlit(s):
    s = s.strip().replace("_", "")
    m = re.fullmatch(r"(-?)(0x[0-9a-fA-F]+|\d+)(u8|i8|u16|i16|u32|i32|u64|i64|usize)?", s)
    if not m:
        raise Broken("integer literal `%s`" % s)
    v = int(m.group(2), 16) if m.group(2).startswith("0x") else int(m.group(2))
    return -v if m.group(1) else v


def expect_shape(what, got, want):
    if squash(got) != squash(want):
        raise Broken("%s no longer has the shape the model was written after: `%s`" % (what, " ".join(got.split())[:400]))


# ------------------------------------------------------------------------------------------------
READ_DEP = """
        let mut dict = Vec::new();
        let mut operands = Vec::new();

        while ctxt.bytes_available() {
            match Op::read(ctxt)? {
                Op::Operator(operator) => {
                    integer_to_offset(operator, &mut operands);
                    dict.push((operator, operands.clone()));
                    operands.clear();
                }
                Op::Operand(operand) => {
                    operands.push(operand);
                    if operands.len() > max_operands {
                        return Err(ParseError::LimitExceeded);
                    }
                }
            }
        }

        Ok(Dict {
            dict,
            default: PhantomData,
        })
"""

WRITE_DEP = """
        let offset = ctxt.bytes_written();

        for (operator, operands) in dict.iter() {
            let mut operands = operands.as_slice();

            if let Some(delta_operands) = delta.get(*operator) {
                operands = delta_operands;
            } else if T::default(*operator)
                .map(|defaults| defaults == operands)
                .unwrap_or(false)
            {
                continue;
            }

            for operand in operands {
                Operand::write(ctxt, operand)?;
            }
            Operator::write(ctxt, *operator)?;
        }

        Ok(ctxt.bytes_written() - offset)
"""

OPERATOR_WRITE = """
        let value = op as u16;
        if value > %s {
            U16Be::write(ctxt, value)?;
        } else {
            U8::write(ctxt, value as u8)?;
        }

        Ok(())
"""

DELTA_GET = """
        self.dict
            .iter()
            .filter_map(|(op, args)| {
                if *op == key {
                    Some(args.as_slice())
                } else {
                    None
                }
            })
            .next()
"""

DICT_ITER = "self.dict.iter()"

READ_UNTIL_NIBBLE = """
        let end = self.scope.data[self.offset..]
            .iter()
            .position(|&b| (b >> 4) == nibble || (b & 0xF) == nibble)
            .ok_or(ReadEof {})?;
        self.read_slice(end + 1)
"""


def parse_operand(expr, lets):
    e = squash(expr)
    m = re.fullmatch(r"Operand::Integer\((-?\d+)\)", e)
    if m:
        return "OInt (%s)" % m.group(1)
    m = re.fullmatch(r"Operand::Offset\((-?\d+)\)", e)
    if m:
        return "OOff (%s)" % m.group(1)
    m = re.fullmatch(r"Operand::Real\(Real\(tiny_vec!\[([0-9a-fA-Fx,]*)\]\)\)", e)
    if m:
        bs = [intlit(x) for x in m.group(1).split(",") if x]
        if not all(0 <= b < 256 for b in bs):
            raise Broken("real byte out of range in `%s`" % expr)
        return "OReal [%s]" % "; ".join(str(b) for b in bs)
    m = re.fullmatch(r"(\w+)(\.clone\(\))?", e)
    if m and m.group(1) in lets:
        return lets[m.group(1)]
    raise Broken("operand expression `%s`" % expr.strip())


def split_top(s):
    """split at top-level commas"""
    out, depth, cur = [], 0, ""
    for ch in s:
        if ch in "([{":
            depth += 1
        elif ch in ")]}":
            depth -= 1
        if ch == "," and depth == 0:
            out.append(cur)
            cur = ""
        else:
            cur += ch
    if cur.strip():
        out.append(cur)
    return [x for x in out if x.strip()]


def parse_array(expr, n, lets, name):
    e = expr.strip()
    if not (e.startswith("[") and e.endswith("]")):
        raise Broken("operand array %s: `%s`" % (name, e[:80]))
    items = [parse_operand(x, lets) for x in split_top(e[1:-1])]
    if len(items) != n:
        raise Broken("operand array %s: %d items, declared %d" % (name, len(items), n))
    return items


def operand_consts(cff):
    consts = {}
    for m in re.finditer(r"\bconst (\w+): \[Operand; (\d+)\] =\s*(\[.*?\]);", cff, re.S):
        consts[m.group(1)] = parse_array(m.group(3), int(m.group(2)), {}, m.group(1))
    for lm in re.finditer(r"lazy_static!\s*\{", cff):
        body, _ = block_at(cff, lm.end() - 1)
        for m in re.finditer(r"static ref (\w+): \[Operand; (\d+)\] =\s*", body):
            name, n = m.group(1), int(m.group(2))
            j = m.end()
            if body[j] == "{":
                inner, _ = block_at(body, j)
                lets = {}
                last = None
                stmts = []
                depth, cur = 0, ""
                for ch in inner:
                    if ch in "([{":
                        depth += 1
                    elif ch in ")]}":
                        depth -= 1
                    if ch == ";" and depth == 0:
                        stmts.append(cur)
                        cur = ""
                    else:
                        cur += ch
                last = cur
                for st in stmts:
                    mm = re.fullmatch(r"\s*let (\w+) = (.*)", st, re.S)
                    if not mm:
                        raise Broken("lazy_static %s: statement `%s`" % (name, st.strip()[:80]))
                    lets[mm.group(1)] = parse_operand(mm.group(2), lets)
                consts[name] = parse_array(last, n, lets, name)
            else:
                k = body.index(";", j)
                consts[name] = parse_array(body[j:k], n, {}, name)
    return consts


def default_table(src, header_re, consts, ops, what):
    body = body_of(src, header_re, "default")
    mm = re.fullmatch(r"\s*None\s*", body)
    if mm:
        return []
    m = re.fullmatch(r"\s*match op \{(.*)\}\s*", body, re.S)
    if not m:
        raise Broken("%s::default is not a `match op`" % what)
    arms = [a.strip() for a in split_top(m.group(1))]
    if not arms or squash(arms[-1]) != "_=>None":
        raise Broken("%s::default: last arm is not `_ => None`" % what)
    out = []
    for a in arms[:-1]:
        mm = re.fullmatch(r"Operator::(\w+) => Some\((?:&(\w+)|(\w+)\.as_ref\(\))\)", a)
        if not mm:
            raise Broken("%s::default arm `%s`" % (what, a))
        name = mm.group(2) or mm.group(3)
        if mm.group(1) not in ops:
            raise Broken("%s::default: unknown operator %s" % (what, mm.group(1)))
        if name not in consts:
            raise Broken("%s::default: unknown operand constant %s" % (what, name))
        out.append((ops[mm.group(1)], mm.group(1), consts[name]))
    return out


def main():
    def rd(p):
        return strip_comments(open(os.path.join(REPO, p)).read())
    cff, cff2, rdr = rd("src/cff.rs"), rd("src/cff/cff2.rs"), rd("src/binary/read.rs")

    # ---- op2 and the operator enum
    expect_shape("op2", body_of(cff, r"const fn op2\(value: u8\) -> u16 "), "(12 << 8) | (value as u16)")
    eb = body_of(cff, r"#\[repr\(u16\)\]\s*#\[derive\(Debug, PartialEq, Copy, Clone\)\]\s*pub enum Operator ")
    ops, order = {}, []
    for item in split_top(eb):
        m = re.fullmatch(r"\s*(\w+) = (?:(\d+)|op2\((\d+)\))\s*", item)
        if not m:
            raise Broken("enum Operator item `%s`" % item.strip())
        v = int(m.group(2)) if m.group(2) is not None else 12 * 256 + int(m.group(3))
        if m.group(3) is not None and not 0 <= int(m.group(3)) < 256:
            raise Broken("op2 argument out of range: %s" % item.strip())
        ops[m.group(1)] = v
        order.append(m.group(1))

    # ---- TryFrom<u16>
    tb = body_of(cff, r"impl TryFrom<u16> for Operator ", "try_from")
    m = re.fullmatch(r"\s*if \(value & 0xFF00\) == \(12 << 8\) \{\s*match value as u8 \{(.*?)\}\s*\} else \{\s*match value \{(.*?)\}\s*\}\s*", tb, re.S)
    if not m:
        raise Broken("Operator::try_from split on the 12 prefix")
    tryfrom = []
    for which, txt in ((True, m.group(1)), (False, m.group(2))):
        arms = [a.strip() for a in split_top(txt)]
        if squash(arms[-1]) != "_=>Err(ParseError::BadValue)":
            raise Broken("Operator::try_from: last arm `%s`" % arms[-1])
        for a in arms[:-1]:
            mm = re.fullmatch(r"(\d+) => Ok\(Operator::(\w+)\)", a)
            if not mm or mm.group(2) not in ops:
                raise Broken("Operator::try_from arm `%s`" % a)
            k = int(mm.group(1))
            if which and not 0 <= k < 256:
                raise Broken("Operator::try_from: `value as u8` arm %d" % k)
            tryfrom.append((12 * 256 + k if which else k, ops[mm.group(2)], mm.group(2)))

    # ---- Operand / Real types (derived equality), ok_real
    if not re.search(r"#\[derive\(Debug, PartialEq, Clone\)\]\s*pub enum Operand \{\s*Integer\(i32\),\s*Offset\(i32\),\s*Real\(Real\),\s*\}", cff):
        raise Broken("enum Operand (variants or derived PartialEq)")
    if not re.search(r"#\[derive\(Debug, PartialEq, Clone\)\]\s*pub struct Real\(TinyVec<\[u8; 7\]>\);", cff):
        raise Broken("struct Real (representation or derived PartialEq)")
    expect_shape("ok_real", body_of(cff, r"fn ok_real\(slice: &\[u8\]\) -> Result<Op, ParseError> "),
                 "Ok(Op::Operand(Operand::Real(Real(TinyVec::from(slice)))))")

    # ---- hand-modelled functions: shape
    expect_shape("Dict::read_dep", body_of(cff, r"impl<T> ReadBinaryDep for Dict<T>\s*where\s*T: DictDefault,\s*", "read_dep"), READ_DEP)
    expect_shape("Dict::write_dep", body_of(cff, r"impl<T> WriteBinaryDep<&Self> for Dict<T>\s*where\s*T: DictDefault,\s*", "write_dep"), WRITE_DEP)
    ow = body_of(cff, r"impl WriteBinary<Self> for Operator ", "write")
    m = re.search(r"if value > (0x[0-9A-Fa-f]+|\d+) \{", ow)
    if not m:
        raise Broken("Operator::write width test")
    expect_shape("Operator::write", ow, OPERATOR_WRITE % m.group(1))
    op_wide_above = intlit(m.group(1))
    expect_shape("DictDelta::get", body_of(cff, r"impl DictDelta ", "get"), DELTA_GET)
    expect_shape("Dict::iter", body_of(cff, r"impl<'a, T> Dict<T>\s*where\s*T: DictDefault,\s*", "iter"), DICT_ITER)
    expect_shape("ReadCtxt::read_until_nibble", body_of(rdr, r"impl<'a> ReadCtxt<'a> ", "read_until_nibble"), READ_UNTIL_NIBBLE)
    expect_shape("ReadCtxt::bytes_available", body_of(rdr, r"impl<'a> ReadCtxt<'a> ", "bytes_available"),
                 "self.offset < self.scope.data.len()")
    m = re.search(r"Operand::Real\(Real\(val\)\) => \{\s*U8::write\(ctxt, (\d+)\)\?;\s*ctxt\.write_bytes\(val\)\?;\s*\}", cff)
    if not m:
        raise Broken("Operand::write real arm")
    real_b0 = int(m.group(1))

    # ---- constants
    m = re.search(r"pub const MAX_OPERANDS: usize = (\d+);", cff)
    m2 = re.search(r"pub const MAX_OPERANDS: usize = (\d+);", cff2)
    mf = re.search(r"const END_OF_FLOAT_FLAG: u8 = (0x[0-9a-fA-F]+|\d+);", cff)
    if not (m and m2 and mf):
        raise Broken("MAX_OPERANDS / END_OF_FLOAT_FLAG")
    max_cff, max_cff2, eof_flag = int(m.group(1)), int(m2.group(1)), intlit(mf.group(1))

    # ---- integer_to_offset
    ib = body_of(cff, r"fn integer_to_offset\(operator: Operator, operands: &mut \[Operand\]\) ")
    m = re.fullmatch(r"\s*match \(operator, &operands\) \{(.*)\}\s*", ib, re.S)
    if not m:
        raise Broken("integer_to_offset is not `match (operator, &operands)`")
    arms = re.split(r"(?<=\})\s*(?=\(Operator::|_ =>)", m.group(1).strip())
    if len(arms) != 4 or squash(arms[3]) != "_=>{}":
        raise Broken("integer_to_offset: expected guarded arm, single-operand arm, pair arm, `_ => {}`: %d arms" % len(arms))
    mg = re.fullmatch(r"\(Operator::(\w+), \[Operand::Integer\(offset\)\]\) if \*offset > (\d+) => \{\s*operands\[0\] = Operand::Offset\(\*offset\);\s*\}", arms[0].strip())
    if not mg or mg.group(1) not in ops:
        raise Broken("integer_to_offset guarded arm `%s`" % " ".join(arms[0].split()))
    ito_guard_op, ito_guard_min = ops[mg.group(1)], int(mg.group(2))
    ms = re.fullmatch(r"((?:\|?\s*\(Operator::\w+, \[Operand::Integer\(offset\)\]\)\s*)+)=> \{\s*operands\[0\] = Operand::Offset\(\*offset\);\s*\}", arms[1].strip())
    if not ms:
        raise Broken("integer_to_offset single-operand arm `%s`" % " ".join(arms[1].split()))
    singles = re.findall(r"Operator::(\w+)", ms.group(1))
    mp = re.fullmatch(r"((?:\|?\s*\(Operator::\w+, \[Operand::Integer\(length\), Operand::Integer\(offset\)\]\)\s*)+)=> \{\s*let offset = \*offset;\s*operands\[0\] = Operand::Offset\(\*length\);\s*operands\[1\] = Operand::Offset\(offset\);\s*\}", arms[2].strip())
    if not mp:
        raise Broken("integer_to_offset pair arm `%s`" % " ".join(arms[2].split()))
    pairs = re.findall(r"Operator::(\w+)", mp.group(1))
    for n_ in singles + pairs:
        if n_ not in ops:
            raise Broken("integer_to_offset: unknown operator %s" % n_)

    # ---- defaults
    consts = operand_consts(cff)
    tables = [
        ("top_dict_default", default_table(cff, r"impl DictDefault for TopDictDefault ", consts, ops, "cff TopDictDefault")),
        ("font_dict_default", default_table(cff, r"impl DictDefault for FontDictDefault ", consts, ops, "cff FontDictDefault")),
        ("private_dict_default", default_table(cff, r"impl DictDefault for PrivateDictDefault ", consts, ops, "cff PrivateDictDefault")),
        ("cff2_top_dict_default", default_table(cff2, r"impl DictDefault for TopDictDefault ", consts, ops, "cff2 TopDictDefault")),
        ("cff2_font_dict_default", default_table(cff2, r"impl DictDefault for FontDictDefault ", consts, ops, "cff2 FontDictDefault")),
        ("cff2_private_dict_default", default_table(cff2, r"impl DictDefault for PrivateDictDefault ", consts, ops, "cff2 PrivateDictDefault")),
    ]
    for nm in ("DEFAULT_BLUE_FUZZ", "DEFAULT_BLUE_SCALE", "DEFAULT_BLUE_SHIFT", "DEFAULT_EXPANSION_FACTOR",
               "DEFAULT_FONT_MATRIX", "OPERAND_ZERO"):
        if re.search(r"\b(const|static ref) %s\b" % nm, cff2):
            raise Broken("cff2.rs defines its own %s" % nm)

    # ---- output
    t = "(* GENERATED by translators/tr_cffdict.py from src/cff.rs, src/cff/cff2.rs — do not edit *)\n"
    t += "From AV Require Import Base.Prelude Model.Cff.\nOpen Scope Z_scope.\n\n"
    t += "(* enum Operator: discriminants in source order (op2(n) = 12 * 256 + n) *)\n"
    t += "Definition operator_enum : list Z :=\n  [%s].\n" % "; ".join(str(ops[n]) for n in order)
    t += "(* %s *)\n\n" % ", ".join("%s=%d" % (n, ops[n]) for n in order)
    t += "(* impl TryFrom<u16> for Operator: accepted value, discriminant of the variant returned *)\n"
    t += "Definition operator_try_from_table : list (Z * Z) :=\n  [%s].\n\n" % "; ".join("(%d, %d)" % (v, d) for v, d, _ in tryfrom)
    t += "(* Operator::write: codes above this are written as two bytes *)\nDefinition operator_wide_above : Z := %d.\n" % op_wide_above
    t += "(* Operand::write, Real arm: prefix byte *)\nDefinition cffw_real_b0 : Z := %d.\n" % real_b0
    t += "Definition cff_max_operands : Z := %d.\nDefinition cff2_max_operands : Z := %d.\n" % (max_cff, max_cff2)
    t += "Definition end_of_float_flag : Z := %d.\n\n" % eof_flag
    t += "(* integer_to_offset: `(%s, [Integer(offset)]) if *offset > %d`, then the single-operand arm, then the pair arm *)\n" % (mg.group(1), ito_guard_min)
    t += "Definition ito_guard_op : Z := %d.\nDefinition ito_guard_min : Z := %d.\n" % (ito_guard_op, ito_guard_min)
    t += "Definition ito_single_ops : list Z := [%s].   (* %s *)\n" % ("; ".join(str(ops[n]) for n in singles), ", ".join(singles))
    t += "Definition ito_pair_ops : list Z := [%s].   (* %s *)\n\n" % ("; ".join(str(ops[n]) for n in pairs), ", ".join(pairs))
    for name, tab in tables:
        t += "Definition %s : list (Z * list operand) :=\n  [%s].\n" % (
            name, ";\n   ".join("(%d, [%s])   (* %s *)" % (code, "; ".join(items), on) for code, on, items in tab))
        # comments inside a list literal are fine in Coq
    out = os.path.normpath(OUT)
    if not (os.path.exists(out) and open(out).read() == t):
        open(out, "w").write(t)
    print("tr_cffdict: ok (%d operators, %d try_from arms, %s default entries)" % (
        len(order), len(tryfrom), "/".join(str(len(tab)) for _, tab in tables)))


if __name__ == "__main__":
    try:
        main()
    except Broken as e:
        print("tr_cffdict: BROKEN:", e)
        sys.exit(2)
