#!/usr/bin/env python3
"""Translate every `impl ReadFixedSizeDep for X { fn size(args) -> usize { EXPR } }` of the crate into a typed
expression tree in Gallina (coq/Gen/DepSizes.v).

`size(args)` is the stride ReadCtxt::read_array_dep multiplies by the length to take the window of a dependent
array and that ReadArray::read_item uses to cut the scope of one item, so it is part of the reader's length
arithmetic although the impls live outside src/binary/read.rs.  The translator keeps the *type in which every
`+` / `*` is evaluated* (the type of its non-literal operand; `T::from(e)` widens, `e as T` truncates), so a
multiplication done in u16 before widening is visible to the model as a u16 multiplication (overflow = panic with
overflow checks, wrap without).  `X::SIZE` / `size::X` constants are resolved to numbers (through `impl ReadFrom`
/ `impl ReadUnchecked` / src/size.rs), `Other::size(args)` is inlined, `vf.size()` on a ValueFormat argument stays
symbolic (SVfSize).  The census is closed: an impl whose body does not parse, or an impl that is not in the list
the model has a specification for, breaks the build of the Coq development (missing / extra constructor).

Exit status 0 = parsed; 2 = an anchor no longer parses.
"""
import re, sys, os, glob

REPO = os.environ.get("VERIF_REPO", "/repo")
OUT = sys.argv[1] if len(sys.argv) > 1 else os.path.join(os.path.dirname(os.path.abspath(__file__)), "..", "coq", "Gen", "DepSizes.v")

INT_TYPES = {"u8": "TU8", "u16": "TU16", "u32": "TU32", "u64": "TU64", "usize": "TUsize"}
PRIM_SIZES = {"U8": 1, "I8": 1, "U16Be": 2, "I16Be": 2, "U24Be": 3, "U32Be": 4, "I32Be": 4, "U64Be": 8, "I64Be": 8}


class Broken(Exception):
    pass


def strip_comments(s):
    return re.sub(r"//[^\n]*", "", s)


def block_at(src, i):
    """src[i] == '{' -> (body, index after the closing brace)"""
    depth, j = 0, i
    while True:
        if src[j] == "{":
            depth += 1
        elif src[j] == "}":
            depth -= 1
            if depth == 0:
                return src[i + 1:j], j + 1
        j += 1


def split_top(s, sep=","):
    out, depth, cur = [], 0, ""
    for ch in s:
        if ch in "(<[":
            depth += 1
        elif ch in ")>]":
            depth -= 1
        if ch == sep and depth == 0:
            out.append(cur.strip())
            cur = ""
        else:
            cur += ch
    if cur.strip():
        out.append(cur.strip())
    return out


class Crate:
    def __init__(self):
        self.files = {}
        for f in sorted(glob.glob(os.path.join(REPO, "src", "**", "*.rs"), recursive=True)):
            self.files[os.path.relpath(f, REPO)] = strip_comments(open(f).read())
        self.all = "\n".join(self.files.values())
        self.size_consts = {}
        for m in re.finditer(r"pub const (\w+): usize = ([^;]+);", self.files["src/size.rs"]):
            rhs = m.group(2).strip()
            mm = re.fullmatch(r"mem::size_of::<([iu])(\d+)>\(\)", rhs)
            if mm:
                self.size_consts[m.group(1)] = int(mm.group(2)) // 8
            elif rhs.isdigit():
                self.size_consts[m.group(1)] = int(rhs)
            else:
                raise Broken("size.rs: " + rhs)
        self.impls = {}  # name -> (file, params, body)
        self.memo = {}

    def type_size(self, name, depth=0):
        """X::SIZE for a ReadUnchecked type (primitive, ReadFrom newtype/struct, tuple)"""
        if depth > 8:
            raise Broken("SIZE recursion at " + name)
        name = name.strip()
        if name.startswith("("):
            return sum(self.type_size(x, depth + 1) for x in split_top(name[1:-1]))
        if name in PRIM_SIZES:
            m = re.search(r"impl ReadUnchecked for %s \{\s*type HostType = \w+;\s*const SIZE: usize = size::(\w+);" % name,
                          self.files["src/binary/read.rs"])
            if not m:
                raise Broken("ReadUnchecked for " + name)
            return self.size_consts[m.group(1)]
        ms = re.findall(r"impl(?:<[^>]*>)? ReadFrom for %s(?:<[^>]*>)? \{\s*type ReadType = ([^;]+);" % re.escape(name), self.all)
        if len(ms) == 1:
            return self.type_size(ms[0], depth + 1)
        raise Broken("cannot resolve %s::SIZE (%d ReadFrom impls)" % (name, len(ms)))


# ---------------------------------------------------------------- expression parser
# AST: ("lit", n) | ("const", n) [usize constant] | ("arg", i) | ("vf", i) | ("from", T, e) | ("as", T, e)
#      | ("add"|"mul", a, b)

def tokenize(s):
    toks = re.findall(r"[A-Za-z_][A-Za-z_0-9]*(?:::[A-Za-z_][A-Za-z_0-9]*)*|0x[0-9a-fA-F_]+|\d[\d_]*(?:usize|u8|u16|u32|u64)?|\S", s)
    return toks


class Parser:
    def __init__(self, crate, toks, env, who):
        self.c, self.t, self.i, self.env, self.who = crate, toks, 0, env, who

    def peek(self):
        return self.t[self.i] if self.i < len(self.t) else None

    def eat(self, x=None):
        tok = self.peek()
        if tok is None or (x is not None and tok != x):
            raise Broken("%s: expected %r, found %r in size()" % (self.who, x, tok))
        self.i += 1
        return tok

    def expr(self):
        e = self.term()
        while self.peek() in ("+",):
            self.eat()
            e = ("add", e, self.term())
        return e

    def term(self):
        e = self.cast()
        while self.peek() in ("*",):
            self.eat()
            e = ("mul", e, self.cast())
        return e

    def cast(self):
        e = self.atom()
        while self.peek() == "as":
            self.eat()
            ty = self.eat()
            if ty not in INT_TYPES:
                raise Broken("%s: cast to %s" % (self.who, ty))
            e = ("as", ty, e)
        return e

    def call_args(self):
        """'(' already eaten; returns list of argument ASTs of a call `X::size(ARGS)`: () or a tuple of idents"""
        args = []
        if self.peek() == "(":
            self.eat("(")
            while self.peek() != ")":
                args.append(self.expr())
                if self.peek() == ",":
                    self.eat()
            self.eat(")")
        else:
            args.append(self.expr())
        self.eat(")")
        return args

    def atom(self):
        tok = self.eat()
        if tok == "(":
            e = self.expr()
            self.eat(")")
            return e
        m = re.fullmatch(r"(0x[0-9a-fA-F_]+|\d[\d_]*)(usize|u8|u16|u32|u64)?", tok)
        if m:
            n = int(m.group(1).replace("_", ""), 0)
            return ("const", n) if m.group(2) == "usize" else ("lit", n) if not m.group(2) else ("as", m.group(2), ("lit", n))
        if tok.startswith("size::"):
            name = tok[6:]
            if name not in self.c.size_consts:
                raise Broken("%s: unknown %s" % (self.who, tok))
            return ("const", self.c.size_consts[name])
        if tok.endswith("::SIZE"):
            return ("const", self.c.type_size(tok[:-6]))
        if tok.endswith("::from") and tok[:-6] in INT_TYPES:
            self.eat("(")
            e = self.expr()
            self.eat(")")
            return ("from", tok[:-6], e)
        if tok.endswith("::size"):
            self.eat("(")
            args = self.call_args()
            callee = tok[:-6]
            params, ast = self.c_size_ast(callee)
            # the scope argument is opaque (("scope",)): drop it on both sides
            if len(args) != len(params):
                raise Broken("%s: %s::size called with %d args, takes %d" % (self.who, callee, len(args), len(params)))
            actual = [a for a, p in zip(args, params) if p[1] != "scope"]
            return subst(ast, actual)
        if re.fullmatch(r"[a-z_][a-z_0-9]*", tok):
            if tok not in self.env:
                raise Broken("%s: unknown identifier %s in size()" % (self.who, tok))
            idx, ty = self.env[tok]
            if self.peek() == ".":
                self.eat(".")
                meth = self.eat()
                self.eat("(")
                self.eat(")")
                if meth == "size" and ty == "vf":
                    return ("vf", idx)
                raise Broken("%s: method %s on %s" % (self.who, meth, ty))
            if ty == "scope":
                return ("scope",)
            if ty == "vf":
                return ("vfval", idx)
            if ty not in INT_TYPES:
                raise Broken("%s: argument %s of type %s used as a number" % (self.who, tok, ty))
            return ("arg", idx, ty)
        raise Broken("%s: token %r in size()" % (self.who, tok))

    def c_size_ast(self, callee):
        return size_ast(self.c, callee)


def subst(ast, actual):
    k = ast[0]
    if k == "arg":
        return actual[ast[1]]
    if k == "vf":
        a = actual[ast[1]]
        if a[0] == "vfval":
            return ("vf", a[1])
        raise Broken("ValueFormat argument is not a plain argument")
    if k in ("from", "as"):
        return (k, ast[1], subst(ast[2], actual))
    if k in ("add", "mul"):
        return (k, subst(ast[1], actual), subst(ast[2], actual))
    return ast


def arg_types(crate, name, file):
    src = crate.files[file]
    m = re.search(r"impl(?:<[^>]*>)? ReadBinaryDep for %s(?:<[^>]*>)? \{\s*type Args<'a> = ([^;]+);" % re.escape(name), src)
    if m:
        t = m.group(1).strip()
    elif re.search(r"impl(?:<[^>]*>)? ReadBinary for %s(?:<[^>]*>)? \{" % re.escape(name), src):
        t = "()"   # blanket impl ReadBinaryDep for T: ReadBinary has Args = ()
    else:
        raise Broken("no ReadBinaryDep/ReadBinary impl for " + name)
    comps = split_top(t[1:-1]) if t.startswith("(") else [t]
    out = []
    for ct in comps:
        if ct.startswith("ReadScope"):
            out.append("scope")
        elif ct == "ValueFormat":
            out.append("vf")
        elif ct in INT_TYPES:
            out.append(ct)
        else:
            raise Broken("%s: argument type %s" % (name, ct))
    return out


def size_ast(crate, name):
    """-> (params [(name, type)], AST with ("arg", index among non-scope params, type))"""
    if name in crate.memo:
        return crate.memo[name]
    if name not in crate.impls:
        raise Broken("no ReadFixedSizeDep impl for " + name)
    file, pat, pty, body = crate.impls[name]
    tys = arg_types(crate, name, file)
    if pty not in ("Self::Args<'_>", "()") and not (len(tys) == 1 and pty == tys[0]):
        raise Broken("%s: size parameter type %s, Args is %s" % (name, pty, tys))
    pat = pat.strip()
    names = split_top(pat[1:-1]) if pat.startswith("(") else [pat]
    if pat == "()" or (tys == [] and re.fullmatch(r"_\w*", pat)):
        names = []
    elif len(names) == 1 and len(tys) > 1:
        if not re.fullmatch(r"_\w*", names[0]):
            raise Broken("%s: tuple argument bound to one name" % name)
        names = ["_"] * len(tys)
    if len(names) != len(tys):
        raise Broken("%s: pattern %s against %s" % (name, pat, tys))
    params, env, k = [], {}, 0
    for n, t in zip(names, tys):
        params.append((n, t))
        if t == "scope":
            env[n] = (None, "scope")
        else:
            env[n] = (k, t)
            k += 1
    env.pop("_", None)
    p = Parser(crate, tokenize(body), env, name)
    ast = p.expr()
    if p.peek() is not None:
        raise Broken("%s: trailing %r in size()" % (name, p.peek()))
    # when inlined, ValueFormat arguments of the callee are passed as ("vfval", i)
    ast = mark_vf(ast)
    crate.memo[name] = (params, ast)
    return crate.memo[name]


def mark_vf(ast):
    return ast


def infer(ast, who):
    """-> (coq term, type or None for an untyped literal)"""
    k = ast[0]
    if k == "lit":
        return "SLit %d" % ast[1], None
    if k == "const":
        return "SLit %d" % ast[1], "usize"
    if k == "arg":
        return "SArg %d" % ast[1], ast[2]
    if k == "vfval":
        raise Broken("%s: ValueFormat used as a number" % who)
    if k == "vf":
        return "SVfSize %d" % ast[1], "usize"
    if k == "scope":
        raise Broken("%s: scope used as a number" % who)
    if k == "from":
        t, ty = infer(ast[2], who)
        if ty is None:
            ty = ast[1]
        return "SFrom %s (%s)" % (INT_TYPES[ast[1]], t), ast[1]
    if k == "as":
        t, ty = infer(ast[2], who)
        return "SAs %s (%s)" % (INT_TYPES[ast[1]], t), ast[1]
    a, ta = infer(ast[1], who)
    b, tb = infer(ast[2], who)
    if ta is not None and tb is not None and ta != tb:
        raise Broken("%s: operands of types %s and %s" % (who, ta, tb))
    t = ta or tb
    return "%s %s (%s) (%s)" % ("SAdd" if k == "add" else "SMul", INT_TYPES[t] if t else "TLit", a, b), t


def main():
    crate = Crate()
    blanket = 0
    for file, src in crate.files.items():
        for m in re.finditer(r"impl(<[^>]*>)? ReadFixedSizeDep for (\w+)(?:<[^>]*>)?\s*(where[^{]*)?\{", src):
            name = m.group(2)
            body, _ = block_at(src, m.end() - 1)
            if file == "src/binary/read.rs" and name == "T":
                if not re.fullmatch(r"\s*fn size\(\(\): \(\)\) -> usize \{\s*T::SIZE\s*\}\s*", body) or \
                        not re.fullmatch(r"where\s+T: ReadUnchecked,\s*", m.group(3) or ""):
                    raise Broken("blanket impl ReadFixedSizeDep for T: ReadUnchecked changed: " + body.strip())
                blanket += 1
                continue
            fm = re.fullmatch(r"\s*fn size\((.*?): (Self::Args<'_>|\(\)|\w+)\) -> usize \{(.*)\}\s*", body, re.S)
            if not fm:
                raise Broken("%s: impl ReadFixedSizeDep for %s is not a single `fn size(args) -> usize { expr }`" % (file, name))
            if re.search(r"[;{}]|\blet\b|\bif\b|\bmatch\b|wrapping_|saturating_|checked_", fm.group(3)):
                raise Broken("%s: size() of %s is not a plain expression: %s" % (file, name, " ".join(fm.group(3).split())))
            if name in crate.impls:
                raise Broken("two ReadFixedSizeDep impls named " + name)
            crate.impls[name] = (file, fm.group(1), fm.group(2).strip(), fm.group(3))
    if blanket != 1:
        raise Broken("blanket impl ReadFixedSizeDep for T: ReadUnchecked not found")
    # inlining needs ValueFormat arguments to survive substitution: wrap them at the call site
    names = sorted(crate.impls)
    rows = []
    for n in names:
        params, ast = size_ast_top(crate, n)
        term, ty = infer(ast, n)
        if ty not in (None, "usize"):
            raise Broken("%s: size() has type %s" % (n, ty))
        term = term.replace("TLit", "TUsize")
        atys = [t for (_, t) in params if t != "scope"]
        rows.append((n, term, atys))
    aty = {"u8": "AU8", "u16": "AU16", "u32": "AU32", "u64": "AU64", "usize": "AUsize", "vf": "AVf"}
    with open(OUT + ".tmp", "w") as o:
        o.write("(* GENERATED by translators/tr_depsize.py from every `impl ReadFixedSizeDep for` of the crate — do not edit *)\n")
        o.write("From Coq Require Import ZArith List.\nFrom AV Require Import Base.Prelude Model.DepSizeExpr.\nImport ListNotations.\nOpen Scope Z_scope.\n\n")
        o.write("Inductive librec : Type :=\n" + "".join("  | L_%s\n" % n for n, _, _ in rows) + ".\n\n")
        o.write("Definition lib_all : list librec := [" + "; ".join("L_" + n for n, _, _ in rows) + "].\n\n")
        o.write("(* the body of size(args), with the type every operation is evaluated in *)\n")
        o.write("Definition lib_size_expr (r : librec) : sexpr :=\n  match r with\n")
        for n, t, _ in rows:
            o.write("  | L_%s => %s\n" % (n, t))
        o.write("  end.\n\n(* the types of the numeric components of Args (the ReadScope component is not a number) *)\n")
        o.write("Definition lib_arg_tys (r : librec) : list aty :=\n  match r with\n")
        for n, _, a in rows:
            o.write("  | L_%s => [%s]\n" % (n, "; ".join(aty[x] for x in a)))
        o.write("  end.\n\nDefinition lib_blanket_impls : Z := %d.\n" % blanket)
    if os.path.exists(OUT) and open(OUT).read() == open(OUT + ".tmp").read():
        os.remove(OUT + ".tmp")
    else:
        os.replace(OUT + ".tmp", OUT)
    print("tr_depsize: ok impls=%d (+1 blanket)" % len(rows))


def size_ast_top(crate, name):
    return size_ast(crate, name)


if __name__ == "__main__":
    try:
        main()
    except Broken as e:
        print("tr_depsize: BROKEN:", e)
        sys.exit(2)
