#!/bin/sh
# usage: goal.sh File.v LINE  — show the goals after line LINE (dev helper, not part of checks)
f=$1; n=$2
d=$(mktemp -d /tmp/goalXXXX)
head -n $n $f > $d/T.v
echo "Show. Abort." >> $d/T.v
cd "$(dirname "$0")" && coqc -Q . AV $d/T.v 2>&1 | tail -${3:-40}
rm -rf $d
