(* Extract/ExtractC17.v — extraction of the text-preprocessing model (property C17) to OCaml for the
   correspondence check.  ExtrOcamlBasic only; Z, positive, nat stay Coq's inductives. *)
From AV Require Import Base.Prelude Gen.PreprocessTables Model.Preprocess Model.PreprocessRef.
Require Import ExtrOcamlBasic.
Extraction Language OCaml.

Definition z_add := Z.add.
Definition z_mul := Z.mul.
Definition z_opp := Z.opp.
Definition z_div_eucl := Z.div_eucl.
Definition z_ltb := Z.ltb.
Definition z_eqb := Z.eqb.

Extraction "../ocaml/c17/model.ml"
  z_add z_mul z_opp z_div_eucl z_ltb z_eqb
  preprocess_text modified_combining_class_of script_type_of action_of
  split_am_vowel split_matra is_abovebase_mark is_modifier_combining_mark vowel_constraint
  KHMER_SPLIT_VOWELS KHMER_PREBASE_PART DOTTED_CIRCLE YA NUKTA YYA KANNADA_PREFIX SHADDA_CLASS
  ref_action ref_mcc ref_expand_am ref_expand_matra ref_expand_khmer ref_vowel_constraint ref_is_mcm
  ref_is_abovebase REF_DOTTED_CIRCLE REF_YA REF_NUKTA REF_YYA REF_KANNADA_PREFIX REF_SHADDA_CLASS
  REF_BENGALI_TAG REF_KANNADA_TAG.
