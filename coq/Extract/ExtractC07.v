(* extraction of the C07 model (see ExtractC14.v for the conventions) *)
From AV Require Import Base.Prelude Gen.SubsetConsts Model.GlyfSubset Model.CffSubset.
Require Import ExtrOcamlBasic.
Extraction Language OCaml.
Definition z_add := Z.add.
Definition z_mul := Z.mul.
Definition z_opp := Z.opp.
Definition z_div_eucl := Z.div_eucl.
Definition z_ltb := Z.ltb.
Definition z_eqb := Z.eqb.
Extraction "../ocaml/c07/model.ml" z_add z_mul z_opp z_div_eucl z_ltb z_eqb
  glyf_subset sg_new_id sg_table create_hmtx hmtx_metric hmtx_advance glyf_outline
  cff_subset resolve.
