(* Extract/ExtractC11.v — extraction of the WOFF2 model for the correspondence check.
   Depends on Model/Gen only. *)
From AV Require Import Base.Prelude Gen.Woff2Lut Model.Woff2.
Require Import ExtrOcamlBasic.
Extraction Language OCaml.

Definition z_add := Z.add.
Definition z_mul := Z.mul.
Definition z_opp := Z.opp.
Definition z_div_eucl := Z.div_eucl.
Definition z_ltb := Z.ltb.
Definition z_eqb := Z.eqb.

Extraction "../ocaml/c11/model.ml"
  z_add z_mul z_opp z_div_eucl z_ltb z_eqb
  read_packed_u16 read_base128 read_woff2_glyf read_plain_glyf read_loca
  read_woff2_hmtx read_font_prefix woff2_tables.
