(* Extract/ExtractC05.v — extraction of the GPOS / glyph position model for the correspondence check. *)
From AV Require Import Base.Prelude Gen.LayoutConsts Gen.GposConsts Model.Layout Model.LayoutSpec Model.Gpos Model.Position.
Require Import ExtrOcamlBasic.
Extraction Language OCaml.

Definition z_add := Z.add.
Definition z_mul := Z.mul.
Definition z_opp := Z.opp.
Definition z_div_eucl := Z.div_eucl.
Definition z_ltb := Z.ltb.
Definition z_eqb := Z.eqb.

Extraction "../ocaml/c05/model.ml"
  z_add z_mul z_opp z_div_eucl z_ltb z_eqb
  gpos_apply apply_fallback playout_parse init_info glyph_positions gdef_is_mark skip_spec.
