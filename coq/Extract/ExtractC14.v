(* Extract/Extract.v — extraction of the executable models to OCaml for the correspondence
   checks.  ExtrOcamlBasic only: bool/option/unit/list/prod/sumbool map to OCaml's own;
   Z, N, positive, nat stay Coq's inductives.  No Extract Constant. *)
From AV Require Import Base.Prelude Gen.ReaderPrims Model.Reader Model.ReaderExt Model.ReaderObs
  Model.DepSizeExpr Gen.DepSizes Model.DepSize.
Require Import ExtrOcamlBasic.
Extraction Language OCaml.

Definition z_add := Z.add.
Definition z_mul := Z.mul.
Definition z_opp := Z.opp.
Definition z_div_eucl := Z.div_eucl.
Definition z_ltb := Z.ltb.
Definition z_eqb := Z.eqb.

Extraction "../ocaml/c14/model.ml"
  z_add z_mul z_opp z_div_eucl z_ltb z_eqb
  rrun rinit xrun xinit
  lib_all lib_arg_tys lib_spec_size lib_read_array_dep lib_item_fits args_ok.
