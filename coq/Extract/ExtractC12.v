(* extraction of the C12 model (see ExtractC14.v for the conventions) *)
From AV Require Import Base.Prelude Gen.VariationConsts Model.Variation.
(* the CFF2 part (Model/Cff2Instance.v on top of the charstring interpreter of Model/Type2.v) is
   referred to by qualified names: both models have a `region_scalar` *)
From AV Require Model.Type2 Model.Cff2Instance.
From Coq Require Import QArith.
Require Import ExtrOcamlBasic.
Extraction Language OCaml.
Definition z_add := Z.add.
Definition z_mul := Z.mul.
Definition z_opp := Z.opp.
Definition z_div_eucl := Z.div_eucl.
Definition z_ltb := Z.ltb.
Definition z_eqb := Z.eqb.
Definition q_red := Qred.
Extraction "../ocaml/c12/model.ml" z_add z_mul z_opp z_div_eucl z_ltb z_eqb q_red
  calculate_scalar region_scalar read_count read_packed_point_numbers read_packed_deltas
  do_infer region_deltas_simple delta_set read_dsim dsim_entry adjustment is_var_table
  add_round_i16 add_round_u16 glyph_deltas phantom_x apply_variations instance_glyphs
  advance_delta lsb_delta mvar_target mvar_apply process_mvar output_tags round_half_away
  BUILT_TAGS MVAR_TABLE
  Cff2Instance.cff2_scalars Cff2Instance.cff2_env Cff2Instance.glyph_cmds
  Cff2Instance.sv_from Cff2Instance.sv_value Cff2Instance.enc_sv Type2.UNIT.
