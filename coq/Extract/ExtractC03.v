(* extraction of the C03 model (see ExtractC14.v for the conventions) *)
From AV Require Import Base.Prelude Gen.CacheSites Model.Cache Model.GlyfTableMemo.
Require Import ExtrOcamlBasic.
Extraction Language OCaml.
Definition z_add := Z.add.
Definition z_mul := Z.mul.
Definition z_opp := Z.opp.
Definition z_div_eucl := Z.div_eucl.
Definition z_ltb := Z.ltb.
Definition z_eqb := Z.eqb.
Extraction "../ocaml/c03/model.ml" z_add z_mul z_opp z_div_eucl z_ltb z_eqb
  l_run l_spec new_lcache g_run g_spec_run font_new DEFAULT_IMAGE_FILTER
  t_run t_spec.
