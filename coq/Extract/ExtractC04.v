(* Extract/ExtractC04.v — extraction of the GSUB model to OCaml for the correspondence check.
   ExtrOcamlBasic only; Z, positive, nat stay Coq's inductives.  Depends on Model/Gen only. *)
From AV Require Import Base.Prelude Gen.LayoutConsts Model.Reader Model.Layout Model.LayoutSpec Model.Gsub Model.FeatureVariations.
Require Import ExtrOcamlBasic.
Extraction Language OCaml.

Definition z_add := Z.add.
Definition z_mul := Z.mul.
Definition z_opp := Z.opp.
Definition z_div_eucl := Z.div_eucl.
Definition z_ltb := Z.ltb.
Definition z_eqb := Z.eqb.

Extraction "../ocaml/c04/model.ml"
  z_add z_mul z_opp z_div_eucl z_ltb z_eqb
  gsub_apply_custom gsub_apply_default gsub_apply_lookup layout_parse match_glyph from_lookup_flag
  coverage_value class_value skip_spec flag_combines_attach_and_set singlesubst
  layout_read_fv feature_variations gsub_apply_custom_v gsub_apply_default_v gsub_apply_default_t.
