(* Extract/ExtractC16.v — extraction of the glyf outline model for the C16 correspondence.
   ExtrOcamlBasic only; Z, positive, nat, Q stay Coq's inductives.  Depends on Model/Gen only. *)
From AV Require Import Base.Prelude Gen.GlyfConsts Gen.LocaConsts Model.GlyfSpec Model.GlyfOutline Model.GlyfLoca.
From Coq Require Import QArith.
Require Import ExtrOcamlBasic.
Extraction Language OCaml.

Definition z_add := Z.add.
Definition z_mul := Z.mul.
Definition z_opp := Z.opp.
Definition z_div_eucl := Z.div_eucl.
Definition z_ltb := Z.ltb.
Definition z_eqb := Z.eqb.

Extraction "../ocaml/c16/model.ml"
  z_add z_mul z_opp z_div_eucl z_ltb z_eqb
  visit visit_insts visit_bounds render comp_xform x_apply half get_parsed_glyph table_load
  contours expand contour_paths path_of_rotation rotl
  encode_points encoding_legal spec_transform spec_xform supported x_abs
  glyf_table visit_glyf loca_offsets.
