(* Extract/ExtractC06.v — extraction of the cmap model (and the executable part of the
   specification used by the judge: spec_find_good) to OCaml.  ExtrOcamlBasic only; Z/positive/nat stay Coq's inductives. *)
From AV Require Import Base.Prelude Gen.MacRomanTables Gen.CmapPrefs Model.MacRoman Model.MacRomanRef Model.Cmap Model.CmapSpec.
Require Import ExtrOcamlBasic.
Extraction Language OCaml.

Definition z_add := Z.add.
Definition z_mul := Z.mul.
Definition z_opp := Z.opp.
Definition z_div_eucl := Z.div_eucl.
Definition z_ltb := Z.ltb.
Definition z_eqb := Z.eqb.

Extraction "../ocaml/c06/model.ml"
  z_add z_mul z_opp z_div_eucl z_ltb z_eqb
  parse map_glyph owned_map_glyph mappings
  parse_cmap find_good_cmap_subtable charmap_info font_lookup
  char_to_macroman macroman_to_char
  spec_find_good macroman_ref.
