(* extraction of the C13 model (see ExtractC14.v for the conventions) *)
From AV Require Import Base.Prelude Model.Normalize Model.FvarTable.
Require Import ExtrOcamlBasic.
Extraction Language OCaml.
Definition z_add := Z.add.
Definition z_mul := Z.mul.
Definition z_opp := Z.opp.
Definition z_div_eucl := Z.div_eucl.
Definition z_ltb := Z.ltb.
Definition z_eqb := Z.eqb.
Extraction "../ocaml/c13/model.ml" z_add z_mul z_opp z_div_eucl z_ltb z_eqb fvar_normalize default_normalize
  avar_normalize case_normalize case_instance case_owned_tuple case_named inst_coords.
