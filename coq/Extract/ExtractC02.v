(* C02's driver only judges outcomes: extract the helpers zconv.ml needs *)
From AV Require Import Base.Prelude.
Require Import ExtrOcamlBasic.
Extraction Language OCaml.
Definition z_add := Z.add.
Definition z_mul := Z.mul.
Definition z_opp := Z.opp.
Definition z_div_eucl := Z.div_eucl.
Definition z_ltb := Z.ltb.
Definition z_eqb := Z.eqb.
Definition outcome_of_err (e : err) : outcome Z := Err e.
Extraction "../ocaml/c02/model.ml" z_add z_mul z_opp z_div_eucl z_ltb z_eqb outcome_of_err.
