(* Extract/ExtractC18.v — extraction of the Type 2 charstring model for the C18 correspondence. *)
From AV Require Import Base.Prelude Gen.Type2Consts Model.Type2.
Require Import ExtrOcamlBasic.
Extraction Language OCaml.

Definition z_add := Z.add.
Definition z_mul := Z.mul.
Definition z_opp := Z.opp.
Definition z_div_eucl := Z.div_eucl.
Definition z_ltb := Z.ltb.
Definition z_eqb := Z.eqb.
Definition unit_z := UNIT.
(* ocaml/zconv.ml mentions the shared outcome type *)
Definition outcome_probe : outcome Z -> bool := is_ok.

Extraction "../ocaml/c18/model.ml"
  z_add z_mul z_opp z_div_eucl z_ltb z_eqb unit_z outcome_probe
  interp_glyph run_glyph bbox_ok ivd_scalars index_read_object out charset_sid_to_gid.
