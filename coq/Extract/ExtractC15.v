(* Extract/ExtractC15.v — extraction of the C15 models (table layouts, sfnt tables, CFF operands
   and INDEX) for the correspondence check.  ExtrOcamlBasic only. *)
From AV Require Import Base.Prelude Gen.ReaderPrims Model.Reader Model.ReaderExt Model.TableLayout
  Gen.TableLayouts Model.Tables Model.Cff Gen.CffDictTables Model.CffDict
  Gen.GlyfConsts Model.Composite Model.Cmap Model.CmapSubset Model.CmapWrite Model.CffSets.
Require Import ExtrOcamlBasic.
Extraction Language OCaml.

Definition z_add := Z.add.
Definition z_mul := Z.mul.
Definition z_opp := Z.opp.
Definition z_div_eucl := Z.div_eucl.
Definition z_ltb := Z.ltb.
Definition z_eqb := Z.eqb.

Extraction "../ocaml/c15/model.ml"
  z_add z_mul z_opp z_div_eucl z_ltb z_eqb
  table_ctxt read_items write_items readback wire vals_okb asserts_hold compat strip_asserts wcount
  layout_read layout_write
  head_read head_write hhea_read hhea_write maxp_v1_read maxp_v1_write post_header_read post_header_write
  long_hor_metric_read long_hor_metric_write name_record_read name_record_write
  langtag_record_read langtag_record_write table_record_read table_record_write
  bounding_box_read bounding_box_write
  maxp_read maxp_write hmtx_read hmtx_write loca_read loca_write
  name_read name_write name_to_owned name_owned_write
  os2_read os2_write os2_write_version pascal_write write_u24
  simple_glyph_write glyph_read
  operand_int_write operand_offset_write op_read serialise_offset_array
  index_write index_read index_objects index_write_borrowed
  dict_read dict_write dict_write_dep dict_written integer_to_offset operator_try_from is_default
  kind_defaults kind_max_operands operand_write operator_write
  cglyph_read cglyph_write glyph_read_full glyph_write_full has_instructions
  parse parse_cmap sub_write to_owned cmap_write cmap_read_all owned_records
  cvt_read cvt_write charset_read charset_write charset_id_for_glyph charset_sid_to_gid fdselect_read fdselect_write encoding_read encoding_write.
