(* Extract/ExtractC08.v — extraction of the cmap subsetting model and of the C06 reader model that
   the judge uses to read the implementation's output. *)
From AV Require Import Base.Prelude Gen.MacRomanTables Gen.CmapPrefs Model.MacRoman Model.Cmap Model.CmapSubset.
Require Import ExtrOcamlBasic.
Extraction Language OCaml.

Definition z_add := Z.add.
Definition z_mul := Z.mul.
Definition z_opp := Z.opp.
Definition z_div_eucl := Z.div_eucl.
Definition z_ltb := Z.ltb.
Definition z_eqb := Z.eqb.

Extraction "../ocaml/c08/model.ml"
  z_add z_mul z_opp z_div_eucl z_ltb z_eqb
  build_cmap mappings_to_keep_new subset_cmap update_to_new_ids new_id
  parse_cmap find_good_cmap_subtable parse map_glyph mappings
  char_to_macroman macroman_to_char is_macroman legacy_symbol_char_code is_char.
