#!/bin/sh
# regenerate _CoqProject from the .v files present (so adding a file needs no shared edit)
cd "$(dirname "$0")"
{ echo "-Q . AV"; find Base Gen Model Proofs Props Extract -name '*.v' | sort; } > _CoqProject.new
if ! cmp -s _CoqProject.new _CoqProject; then mv _CoqProject.new _CoqProject; coq_makefile -f _CoqProject -o Makefile >/dev/null; else rm _CoqProject.new; fi
[ -f Makefile ] || coq_makefile -f _CoqProject -o Makefile >/dev/null
