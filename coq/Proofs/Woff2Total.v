(* Proofs/Woff2Total.v — the transformed glyf decoder on ARBITRARY bytes: what the four repaired
   operations of src/woff2.rs do on malformed input (they return the error, in every build), and
   that the decoder as a whole never panics (in particular BoundingBox::from_points is never
   reached with an empty point list).
     - TransformedGlyphTable::read: bbox_stream_size.checked_sub(bbox_bitmap_length) -> BadEof
     - compute_end_pts_of_contours: n_points.checked_add(..) / checked_sub(1) -> BadValue
     - decode_simple_glyph: prev.wrapping_add(delta), total *)
From AV Require Import Base.Prelude Base.Lemmas Gen.Woff2Lut Model.Woff2
  Proofs.Woff2Spec Proofs.Woff2Ints Proofs.Woff2Triplet Proofs.Woff2Glyf.
From Coq Require Import ZifyBool.
Ltac Zify.zify_post_hook ::= Z.div_mod_to_equations.
Open Scope Z_scope.

(* ------------------------------------------------------------------ outcomes *)
(* the operation returned a value or an error: it did not panic and made no unchecked access *)
Definition no_panic {A} (o : outcome A) : Prop :=
  match o with Ok _ | Err _ => True | Panic | OOB => False end.
(* ... and the only error is Eof *)
Definition only_eof {A} (o : outcome A) : Prop :=
  match o with Ok _ | Err Eof => True | _ => False end.

Lemma no_panic_bind {A B} (o : outcome A) (f : A -> outcome B) :
  no_panic o -> (forall a, o = Ok a -> no_panic (f a)) -> no_panic (bind o f).
Proof. intros Ho Hf. destruct o; cbn [bind no_panic] in *; auto. Qed.

Lemma only_eof_bind {A B} (o : outcome A) (f : A -> outcome B) :
  only_eof o -> (forall a, o = Ok a -> only_eof (f a)) -> only_eof (bind o f).
Proof. intros Ho Hf. destruct o; cbn [bind only_eof] in *; auto. Qed.

Lemma only_eof_no_panic {A} (o : outcome A) : only_eof o -> no_panic o.
Proof. destruct o as [a|e| |]; cbn [only_eof no_panic]; auto. Qed.

(* r is what remains of s after a read *)
Definition sfx (r s : stream) : Prop := exists p, s = p ++ r.
Lemma sfx_refl : forall s, sfx s s.
Proof. intros s. exists []. reflexivity. Qed.
Lemma sfx_trans : forall a b c, sfx a b -> sfx b c -> sfx a c.
Proof. intros a b c [p ->] [q ->]. exists (q ++ p). apply app_assoc. Qed.
Lemma sfx_cons : forall b s, sfx s (b :: s).
Proof. intros b s. exists [b]. reflexivity. Qed.
Lemma sfx_bytes_ok : forall r s, sfx r s -> bytes_ok s = true -> bytes_ok r = true.
Proof. intros r s [p ->] H. rewrite bytes_ok_app in H. apply andb_true_iff in H. apply H. Qed.
Lemma sfx_length : forall r s, sfx r s -> (length r <= length s)%nat.
Proof. intros r s [p ->]. rewrite app_length. lia. Qed.

(* ------------------------------------------------------------------ primitive reads *)
Lemma rd_u8_inv : forall s v r, rd_u8 s = Ok (v, r) -> s = v :: r.
Proof. intros [|b s] v r H; cbn [rd_u8] in H; [discriminate|]. injection H as <- <-. reflexivity. Qed.
Lemma rd_u16_inv : forall s v r, rd_u16 s = Ok (v, r) -> exists a b, s = a :: b :: r /\ v = a * 256 + b.
Proof.
  intros [|a [|b s]] v r H; cbn [rd_u16] in H; try discriminate.
  injection H as <- <-. exists a, b. split; reflexivity.
Qed.
Lemma rd_i16_inv : forall s v r, rd_i16 s = Ok (v, r) -> exists a b, s = a :: b :: r.
Proof.
  intros [|a [|b s]] v r H; cbn [rd_i16] in H; try discriminate.
  injection H as _ <-. exists a, b. reflexivity.
Qed.
Lemma rd_u32_inv : forall s v r, rd_u32 s = Ok (v, r) ->
  exists a b c d, s = a :: b :: c :: d :: r /\ v = ((a * 256 + b) * 256 + c) * 256 + d.
Proof.
  intros [|a [|b [|c [|d s]]]] v r H; cbn [rd_u32] in H; try discriminate.
  injection H as <- <-. exists a, b, c, d. split; reflexivity.
Qed.

Lemma only_eof_rd_u8 : forall s, only_eof (rd_u8 s).
Proof. intros [|? ?]; exact I. Qed.
Lemma only_eof_rd_i8 : forall s, only_eof (rd_i8 s).
Proof. intros [|? ?]; exact I. Qed.
Lemma only_eof_rd_u16 : forall s, only_eof (rd_u16 s).
Proof. intros [|? [|? ?]]; exact I. Qed.
Lemma only_eof_rd_i16 : forall s, only_eof (rd_i16 s).
Proof. intros [|? [|? ?]]; exact I. Qed.
Lemma only_eof_rd_u32 : forall s, only_eof (rd_u32 s).
Proof. intros [|? [|? [|? [|? ?]]]]; exact I. Qed.
Lemma only_eof_rd_slice : forall n s, only_eof (rd_slice n s).
Proof. intros n s. unfold rd_slice. destruct (split_at s n); exact I. Qed.
Lemma only_eof_read_bbox : forall s, only_eof (read_bbox s).
Proof. intros [|? [|? [|? [|? [|? [|? [|? [|? ?]]]]]]]]; exact I. Qed.

Lemma split_at_inv : forall s n a r, split_at s n = Some (a, r) -> s = a ++ r /\ len a = Z.max 0 n.
Proof.
  induction s as [|b s IH]; intros n a r H; cbn [split_at] in H.
  - destruct (n <=? 0) eqn:E; [|discriminate]. injection H as <- <-. split; [reflexivity|]. rewrite len_nil. lia.
  - destruct (n <=? 0) eqn:E.
    + injection H as <- <-. split; [reflexivity|]. rewrite len_nil. lia.
    + destruct (split_at s (n - 1)) as [[a' t]|] eqn:E2; [|discriminate]. injection H as <- <-.
      destruct (IH _ _ _ E2) as (-> & Hl). split; [reflexivity|]. rewrite len_cons. lia.
Qed.
Lemma rd_slice_inv : forall n s a r, rd_slice n s = Ok (a, r) -> s = a ++ r /\ len a = Z.max 0 n.
Proof.
  intros n s a r H. unfold rd_slice in H. destruct (split_at s n) as [[a' r']|] eqn:E; [|discriminate].
  injection H as <- <-. apply (split_at_inv _ _ _ _ E).
Qed.

Lemma bytes_ok_app_l : forall a b, bytes_ok (a ++ b) = true -> bytes_ok a = true.
Proof. intros a b H. rewrite bytes_ok_app in H. apply andb_true_iff in H. apply H. Qed.
Lemma bytes_ok_app_r : forall a b, bytes_ok (a ++ b) = true -> bytes_ok b = true.
Proof. intros a b H. rewrite bytes_ok_app in H. apply andb_true_iff in H. apply H. Qed.
Lemma bytes_ok_cons_inv : forall b l, bytes_ok (b :: l) = true -> 0 <= b < 256 /\ bytes_ok l = true.
Proof.
  intros b l H. cbn [bytes_ok forallb] in H. apply andb_true_iff in H. unfold byte_ok in H.
  split; [lia|apply H].
Qed.

(* ------------------------------------------------------------------ TransformedGlyphTable::read *)
(* on any bytes the reader returns a table or BadEof: nothing else, and no panic *)
Lemma read_tglyf_only_eof : forall s, only_eof (read_tglyf s).
Proof.
  intros s. unfold read_tglyf.
  repeat (apply only_eof_bind;
          [first [apply only_eof_rd_u32|apply only_eof_rd_u16|apply only_eof_rd_slice]
          |intros [? ?] _; cbv beta iota]).
  apply only_eof_bind.
  - match goal with |- only_eof (if ?c then _ else _) => destruct c end; exact I.
  - intros rest _.
    repeat (apply only_eof_bind; [apply only_eof_rd_slice|intros [? ?] _; cbv beta iota]).
    exact I.
Qed.

(* what an accepted table is made of: numGlyphs is the u16 at offset 4, bboxStreamSize the u32 at
   offset 28; the bbox stream consists of the bitmap, 4 * floor((numGlyphs + 31) / 32) bytes, and
   the bounding boxes, together exactly bboxStreamSize bytes; every stream is a piece of the input *)
Lemma read_tglyf_sound : forall s t, bytes_ok s = true -> read_tglyf s = Ok t ->
  exists r1 r2,
    rd_u16 (drop 4 s) = Ok (tg_num_glyphs t, r1) /\
    rd_u32 (drop 28 s) = Ok (len (tg_bitmap t) + len (tg_bbox t), r2) /\
    len (tg_bitmap t) = 4 * ((tg_num_glyphs t + 31) / 32) /\
    exists hdr tail,
      s = hdr ++ tg_ncontour t ++ tg_npoints t ++ tg_flags t ++ tg_glyphs t ++ tg_composite t
              ++ tg_bitmap t ++ tg_bbox t ++ tg_instr t ++ tail.
Proof.
  intros s t Hb H. unfold read_tglyf in H.
  repeat match type of H with
         | bind (rd_u32 ?x) _ = Ok _ =>
             let E := fresh "E" in
             destruct (rd_u32 x) as [[? ?]|?| |] eqn:E; cbn [bind] in H; try discriminate H;
             apply rd_u32_inv in E; destruct E as (? & ? & ? & ? & -> & ->)
         | bind (rd_u16 ?x) _ = Ok _ =>
             let E := fresh "E" in
             destruct (rd_u16 x) as [[? ?]|?| |] eqn:E; cbn [bind] in H; try discriminate H;
             apply rd_u16_inv in E; destruct E as (? & ? & -> & ->)
         end.
  repeat match type of H with
         | bind (rd_slice ?n ?x) _ = Ok _ =>
             let E := fresh "E" in
             destruct (rd_slice n x) as [[? ?]|?| |] eqn:E; cbn [bind] in H; try discriminate H;
             apply rd_slice_inv in E; destruct E as (-> & ?)
         end.
  match type of H with
  | bind (if ?c then _ else _) _ = _ => destruct c eqn:Ec; cbn [bind] in H; [|discriminate H]
  end.
  repeat match type of H with
         | bind (rd_slice ?n ?x) _ = Ok _ =>
             let E := fresh "E" in
             destruct (rd_slice n x) as [[? ?]|?| |] eqn:E; cbn [bind] in H; try discriminate H;
             apply rd_slice_inv in E; destruct E as (-> & ?)
         end.
  injection H as <-.
  repeat (apply bytes_ok_cons_inv in Hb; destruct Hb as [? Hb]).
  cbn [tg_num_glyphs tg_bitmap tg_bbox tg_ncontour tg_npoints tg_flags tg_glyphs tg_composite tg_instr].
  unfold drop. change (Z.to_nat 4) with 4%nat. change (Z.to_nat 28) with 28%nat. cbn [skipn app rd_u16 rd_u32].
  eexists; eexists. split; [reflexivity|]. split; [f_equal; f_equal; lia|]. split; [lia|].
  match goal with
  | |- exists hdr tail, ?a :: ?b :: ?c :: ?d :: ?e :: ?f :: ?g :: ?h :: ?rest = _ => idtac
  end.
  eexists (_ :: _ :: _ :: _ :: _ :: _ :: _ :: _ :: _ :: _ :: _ :: _ :: _ :: _ :: _ :: _ :: _ :: _
           :: _ :: _ :: _ :: _ :: _ :: _ :: _ :: _ :: _ :: _ :: _ :: _ :: _ :: _ :: _ :: _ :: _ :: _ :: []).
  eexists. cbn [app]. reflexivity.
Qed.

(* D3 repaired: a bboxStreamSize smaller than the bitmap is refused with BadEof in every build *)
Theorem tglyf_bbox_stream_checked : forall s num_glyphs bbox_stream_size r1 r2,
  bytes_ok s = true ->
  rd_u16 (drop 4 s) = Ok (num_glyphs, r1) -> rd_u32 (drop 28 s) = Ok (bbox_stream_size, r2) ->
  bbox_stream_size < 4 * ((num_glyphs + 31) / 32) ->
  read_tglyf s = Err Eof.
Proof.
  intros s ng bb r1 r2 Hb H1 H2 Hlt.
  pose proof (read_tglyf_only_eof s) as Ho.
  destruct (read_tglyf s) as [t|e| |] eqn:E; cbn [only_eof] in Ho; try contradiction.
  - exfalso. destruct (read_tglyf_sound s t Hb E) as (q1 & q2 & G1 & G2 & G3 & _).
    rewrite H1 in G1. rewrite H2 in G2. injection G1 as -> _. injection G2 as -> _.
    pose proof (len_nonneg (tg_bbox t)). lia.
  - destruct e; try contradiction. reflexivity.
Qed.

(* ------------------------------------------------------------------ compute_end_pts_of_contours *)
Lemma encodes_255_range : forall bytes v, encodes_255 bytes v -> 0 <= v < 65536.
Proof. intros bytes v H. destruct H; lia. Qed.

Lemma sum_nonneg : forall l, Forall (fun c => 0 <= c) l -> 0 <= sum l.
Proof.
  intros l H. induction H as [|x l Hx _ IH]; cbn [sum fold_right]; [lia|]. fold (sum l). lia.
Qed.

Lemma Forall2_counts_nonneg : forall encs counts,
  Forall2 encodes_255 encs counts -> Forall (fun c => 0 <= c) counts.
Proof.
  intros encs counts H. induction H as [|e c encs counts He _ IH]; constructor; [|exact IH].
  apply encodes_255_range in He. lia.
Qed.

(* D2 and D4 repaired.  For ANY contour sizes (each in any of its 255UInt16 forms): the loop
   succeeds exactly when the running total stays within 1..65535 - with non-negative sizes: the
   first contour is not empty and the sizes add up to at most 65535 points - and returns
   BadValue otherwise.  No arithmetic mode: debug and release builds agree. *)
Lemma end_pts_loop_exact : forall counts encs acc rest,
  Forall2 encodes_255 encs counts -> 0 <= acc ->
  end_pts_loop (length counts) (concat encs ++ rest) acc =
    match counts with
    | [] => Ok ([], acc, rest)
    | c :: _ =>
        if (1 <=? acc + c) && (acc + sum counts <=? 65535)
        then Ok (running acc counts, acc + sum counts, rest) else Err BadValue
    end.
Proof.
  intros counts encs acc rest H. revert acc rest.
  induction H as [|e c encs counts He Hrest IH]; intros acc rest Hacc.
  - reflexivity.
  - pose proof (encodes_255_range _ _ He) as Hc.
    pose proof (sum_nonneg _ (Forall2_counts_nonneg _ _ Hrest)) as Hs.
    cbn [length end_pts_loop concat]. rewrite <- app_assoc.
    rewrite (packed_u16_all_encodings _ _ _ He). cbn [bind].
    cbn [sum fold_right]. fold (sum counts).
    destruct (acc + c <=? 65535) eqn:E1; cbn [bind].
    2:{ replace (acc + (c + sum counts) <=? 65535) with false by lia. rewrite andb_false_r. reflexivity. }
    destruct (1 <=? acc + c) eqn:E2; cbn [bind andb]; [|reflexivity].
    rewrite IH by lia.
    destruct counts as [|c2 counts'].
    + cbn [bind sum fold_right running]. replace (acc + (c + 0) <=? 65535) with true by lia.
      f_equal. f_equal. f_equal. lia.
    + inversion Hrest as [|? ? ? ? He2 _]; subst. pose proof (encodes_255_range _ _ He2) as Hc2.
      replace (1 <=? acc + c + c2) with true by lia. cbn [andb].
      replace (acc + c + sum (c2 :: counts') <=? 65535)
        with (acc + (c + sum (c2 :: counts')) <=? 65535) by (f_equal; lia).
      destruct (acc + (c + sum (c2 :: counts')) <=? 65535); cbn [bind]; [|reflexivity].
      cbn [running]. f_equal. f_equal. f_equal. lia.
Qed.

Theorem compute_end_pts_exact : forall counts encs rest,
  counts <> [] -> Forall2 encodes_255 encs counts ->
  compute_end_pts (concat encs ++ rest) (len counts) =
    if (1 <=? hd 0 counts) && (sum counts <=? 65535)
    then Ok (running 0 counts, sum counts, rest) else Err BadValue.
Proof.
  intros counts encs rest Hne H. unfold compute_end_pts.
  replace (Z.to_nat (len counts)) with (length counts) by (unfold len; lia).
  rewrite (end_pts_loop_exact counts encs 0 rest H) by lia.
  destruct counts as [|c counts]; [congruence|]. cbn [hd]. reflexivity.
Qed.

(* the two refusals, spelled out *)
Corollary end_pts_rejects_overflow : forall counts encs rest,
  Forall2 encodes_255 encs counts -> 65535 < sum counts ->
  compute_end_pts (concat encs ++ rest) (len counts) = Err BadValue.
Proof.
  intros counts encs rest H Hs.
  assert (counts <> []) as Hne by (intros ->; cbn [sum fold_right] in Hs; lia).
  rewrite (compute_end_pts_exact counts encs rest Hne H).
  replace (sum counts <=? 65535) with false by lia. rewrite andb_false_r. reflexivity.
Qed.

Corollary end_pts_rejects_empty_first_contour : forall counts encs rest,
  Forall2 encodes_255 encs (0 :: counts) ->
  compute_end_pts (concat encs ++ rest) (len (0 :: counts)) = Err BadValue.
Proof.
  intros counts encs rest H.
  rewrite (compute_end_pts_exact (0 :: counts) encs rest ltac:(congruence) H). reflexivity.
Qed.

(* on ANY bytes: no panic; a success for at least one contour reports between 1 and 65535 points,
   one end point per contour, each below the point count *)
Lemma no_panic_read_packed_u16 : forall s, only_eof (read_packed_u16 s).
Proof.
  intros s. unfold read_packed_u16. apply only_eof_bind; [apply only_eof_rd_u8|].
  intros [code s1] _. cbv beta iota.
  destruct (code =? 253); [apply only_eof_rd_u16|].
  destruct (code =? 254); [apply only_eof_bind; [apply only_eof_rd_u8|intros [? ?] _; exact I]|].
  destruct (code =? 255); [apply only_eof_bind; [apply only_eof_rd_u8|intros [? ?] _; exact I]|].
  exact I.
Qed.

Lemma read_packed_u16_sfx : forall s v r, bytes_ok s = true -> read_packed_u16 s = Ok (v, r) ->
  sfx r s /\ 0 <= v < 65536.
Proof.
  intros s v r Hb H. destruct (packed_u16_sound s v r Hb H) as (bytes & -> & _ & Hv).
  split; [exists bytes; reflexivity|exact Hv].
Qed.

Lemma end_pts_loop_total : forall n np acc,
  bytes_ok np = true -> 0 <= acc <= 65535 ->
  no_panic (end_pts_loop n np acc) /\
  forall eps tot rest, end_pts_loop n np acc = Ok (eps, tot, rest) ->
    sfx rest np /\ acc <= tot <= 65535 /\ ((0 < n)%nat -> 1 <= tot) /\
    length eps = n /\ Forall (fun e => 0 <= e < tot) eps.
Proof.
  induction n as [|n IH]; intros np acc Hb Hacc.
  - split; [exact I|]. intros eps tot rest H. cbn [end_pts_loop] in H. injection H as <- <- <-.
    split; [apply sfx_refl|]. split; [lia|]. split; [lia|]. split; [reflexivity|constructor].
  - cbn [end_pts_loop].
    pose proof (no_panic_read_packed_u16 np) as Hp.
    destruct (read_packed_u16 np) as [[c np1]|e| |] eqn:Er; cbn [only_eof] in Hp; try contradiction;
      cbn [bind]; [|split; [exact I|discriminate]].
    destruct (read_packed_u16_sfx np c np1 Hb Er) as (Hs1 & Hc).
    destruct (acc + c <=? 65535) eqn:E1; cbn [bind]; [|split; [exact I|discriminate]].
    destruct (1 <=? acc + c) eqn:E2; cbn [bind]; [|split; [exact I|discriminate]].
    destruct (IH np1 (acc + c) (sfx_bytes_ok _ _ Hs1 Hb) ltac:(lia)) as (Hnp & Hok).
    destruct (end_pts_loop n np1 (acc + c)) as [[[eps' tot'] rest']|e| |]; cbn [no_panic] in Hnp;
      try contradiction; cbn [bind]; [|split; [exact I|discriminate]].
    split; [exact I|]. intros eps tot rest H. injection H as <- <- <-.
    destruct (Hok _ _ _ eq_refl) as (Hs2 & Ht & _ & Hl & Hf).
    split; [apply (sfx_trans _ _ _ Hs2 Hs1)|]. split; [lia|]. split; [lia|].
    split; [cbn [length]; lia|]. constructor; [lia|exact Hf].
Qed.

(* ------------------------------------------------------------------ decode_simple_glyph *)
(* D1 repaired: the point loop has no arithmetic that can fail.  On any flag bytes and any data
   bytes it returns one point per flag, with int16 coordinates, or Eof. *)
Lemma decode_points_total : forall m flags gl px py,
  bytes_ok flags = true -> bytes_ok gl = true ->
  only_eof (decode_points m flags gl px py) /\
  forall pts rest, decode_points m flags gl px py = Ok (pts, rest) ->
    sfx rest gl /\ length pts = length flags /\ Forall point_ok pts.
Proof.
  intros m flags. induction flags as [|f fs IH]; intros gl px py Hf Hg.
  - split; [exact I|]. intros pts rest H. cbn [decode_points] in H. injection H as <- <-.
    split; [apply sfx_refl|]. split; [reflexivity|constructor].
  - apply bytes_ok_cons_inv in Hf. destruct Hf as (Hf0 & Hfs).
    cbn [decode_points]. unfold xy_triplet.
    assert (0 <= Z.land f 127 < 128) as Hi by (rewrite land_127 by lia; lia).
    rewrite lut_nth by exact Hi. cbn [bind].
    pose proof (spec_row_wf _ Hi) as Hwf. pose proof Hwf as (Hbc & _).
    pose proof (only_eof_rd_slice (byte_count (spec_row (Z.land f 127))) gl) as Hp.
    destruct (rd_slice (byte_count (spec_row (Z.land f 127))) gl) as [[bytes gl1]|e| |] eqn:Es;
      cbn [only_eof] in Hp; try contradiction; cbn [bind];
      [|split; [destruct e; try contradiction; exact I|discriminate]].
    destruct (rd_slice_inv _ _ _ _ Es) as (-> & Hlen).
    pose proof (decode_is_reference m (Z.land f 127) bytes Hi (bytes_ok_app_l _ _ Hg) ltac:(lia)) as Hdec.
    unfold decode_triplet in Hdec.
    destruct (xy_dx m (spec_row (Z.land f 127)) (coord_data bytes)) as [dx| | |]; cbn [bind] in Hdec; try discriminate.
    destruct (xy_dy m (spec_row (Z.land f 127)) (coord_data bytes)) as [dy| | |]; cbn [bind] in Hdec; try discriminate.
    cbn [bind].
    destruct (IH gl1 (to_signed 16 (px + dx)) (to_signed 16 (py + dy)) Hfs (bytes_ok_app_r _ _ Hg)) as (Hnp & Hok).
    destruct (decode_points m fs gl1 (to_signed 16 (px + dx)) (to_signed 16 (py + dy))) as [[pts' rest']|e| |];
      cbn [only_eof] in Hnp; try contradiction; cbn [bind];
      [|split; [destruct e; try contradiction; exact I|discriminate]].
    split; [exact I|]. intros pts rest H. injection H as <- <-.
    destruct (Hok _ _ eq_refl) as (Hs & Hl & Hpt).
    split; [apply (sfx_trans _ gl1); [exact Hs|exists bytes; reflexivity]|].
    split; [cbn [length]; lia|]. constructor; [|exact Hpt].
    unfold point_ok, i16_ok. cbn [p_x p_y]. unfold to_signed.
    change (2 ^ 16) with 65536. change (2 ^ (16 - 1)) with 32768.
    split; match goal with |- context [if ?c then _ else _] => destruct c eqn:? end; lia.
Qed.

(* the cursors: every stream consists of bytes *)
Definition st_ok (st : gstreams) : Prop :=
  bytes_ok (s_nc st) = true /\ bytes_ok (s_np st) = true /\ bytes_ok (s_fl st) = true /\
  bytes_ok (s_gl st) = true /\ bytes_ok (s_comp st) = true /\ bytes_ok (s_bbox st) = true /\
  bytes_ok (s_ins st) = true.

(* a successfully decoded simple glyph has at least one point: BoundingBox::from_points is never
   handed an empty list (D4 repaired) *)
Lemma decode_simple_glyph_total : forall m st nc,
  st_ok st -> 0 < nc ->
  no_panic (decode_simple_glyph m st nc) /\
  forall eps ins pts st', decode_simple_glyph m st nc = Ok (eps, ins, pts, st') ->
    st_ok st' /\ pts <> [] /\ len pts <= 65535 /\ len eps = nc /\
    Forall (fun e => 0 <= e < len pts) eps /\ Forall point_ok pts.
Proof.
  intros m st nc (H1 & H2 & H3 & H4 & H5 & H6 & H7) Hnc. unfold decode_simple_glyph, compute_end_pts.
  destruct (end_pts_loop_total (Z.to_nat nc) (s_np st) 0 H2 ltac:(lia)) as (Hnp & Hok).
  destruct (end_pts_loop (Z.to_nat nc) (s_np st) 0) as [[[eps n_points] np]|e| |]; cbn [no_panic] in Hnp;
    try contradiction; cbn [bind]; [|split; [exact I|discriminate]].
  destruct (Hok _ _ _ eq_refl) as (Hs1 & Ht & Hpos & Hl & Hf). specialize (Hpos ltac:(lia)).
  pose proof (only_eof_rd_slice n_points (s_fl st)) as Hp.
  destruct (rd_slice n_points (s_fl st)) as [[flags fl]|e| |] eqn:Es; cbn [only_eof] in Hp; try contradiction;
    cbn [bind]; [|split; [exact I|discriminate]].
  destruct (rd_slice_inv _ _ _ _ Es) as (Efl & Hlen). rewrite Efl in H3.
  destruct (decode_points_total m flags (s_gl st) 0 0 (bytes_ok_app_l _ _ H3) H4) as (Hnp2 & Hok2).
  destruct (decode_points m flags (s_gl st) 0 0) as [[pts gl]|e| |]; cbn [only_eof] in Hnp2; try contradiction;
    cbn [bind]; [|split; [exact I|discriminate]].
  destruct (Hok2 _ _ eq_refl) as (Hs2 & Hl2 & Hpt).
  pose proof (no_panic_read_packed_u16 gl) as Hp3.
  destruct (read_packed_u16 gl) as [[ilen gl']|e| |] eqn:Er; cbn [only_eof] in Hp3; try contradiction;
    cbn [bind]; [|split; [exact I|discriminate]].
  destruct (read_packed_u16_sfx gl ilen gl' (sfx_bytes_ok _ _ Hs2 H4) Er) as (Hs3 & _).
  pose proof (only_eof_rd_slice ilen (s_ins st)) as Hp4.
  destruct (rd_slice ilen (s_ins st)) as [[instr ins]|e| |] eqn:Es2; cbn [only_eof] in Hp4; try contradiction;
    cbn [bind]; [|split; [exact I|discriminate]].
  destruct (rd_slice_inv _ _ _ _ Es2) as (Eins & _). rewrite Eins in H7.
  split; [exact I|]. intros eps0 ins0 pts0 st' H. injection H as <- <- <- <-.
  assert (len pts = n_points) as Hlp by (unfold len in *; lia).
  split.
  - unfold st_ok. cbn [s_nc s_np s_fl s_gl s_comp s_bbox s_ins].
    repeat split; try assumption.
    + apply (sfx_bytes_ok _ _ Hs1 H2).
    + apply (bytes_ok_app_r _ _ H3).
    + apply (sfx_bytes_ok _ _ (sfx_trans _ _ _ Hs3 Hs2) H4).
    + apply (bytes_ok_app_r _ _ H7).
  - split; [intros ->; rewrite len_nil in Hlp; lia|]. split; [lia|]. split; [unfold len; lia|].
    split; [rewrite Hlp; exact Hf|exact Hpt].
Qed.

(* ------------------------------------------------------------------ composite glyphs *)
Lemma rd_u8_sfx : forall s v r, rd_u8 s = Ok (v, r) -> sfx r s /\ (length r < length s)%nat.
Proof. intros s v r H. apply rd_u8_inv in H. subst. split; [apply sfx_cons|cbn [length]; lia]. Qed.
Lemma rd_i8_sfx : forall s v r, rd_i8 s = Ok (v, r) -> sfx r s.
Proof. intros [|b s] v r H; cbn [rd_i8] in H; [discriminate|]. injection H as _ <-. apply sfx_cons. Qed.
Lemma rd_u16_sfx : forall s v r, rd_u16 s = Ok (v, r) -> sfx r s /\ (length r < length s)%nat.
Proof.
  intros s v r H. apply rd_u16_inv in H. destruct H as (a & b & -> & _).
  split; [exists [a; b]; reflexivity|cbn [length]; lia].
Qed.
Lemma rd_i16_sfx : forall s v r, rd_i16 s = Ok (v, r) -> sfx r s.
Proof. intros s v r H. apply rd_i16_inv in H. destruct H as (a & b & ->). exists [a; b]. reflexivity. Qed.
Lemma read_bbox_sfx : forall s v r, read_bbox s = Ok (v, r) -> sfx r s.
Proof.
  intros [|a [|b [|c [|d [|e [|f [|g [|h s]]]]]]]] v r H; cbn [read_bbox] in H; try discriminate.
  injection H as _ <-. exists [a; b; c; d; e; f; g; h]. reflexivity.
Qed.

Lemma rd_items_i16_total : forall n s,
  only_eof (rd_items rd_i16 n s) /\ forall v r, rd_items rd_i16 n s = Ok (v, r) -> sfx r s.
Proof.
  induction n as [|n IH]; intros s; cbn [rd_items].
  - split; [exact I|]. intros v r H. injection H as _ <-. apply sfx_refl.
  - pose proof (only_eof_rd_i16 s) as Hp.
    destruct (rd_i16 s) as [[x s1]|e| |] eqn:E; cbn [only_eof] in Hp; try contradiction; cbn [bind];
      [|split; [destruct e; try contradiction; exact I|discriminate]].
    destruct (IH s1) as (Hp2 & Hok).
    destruct (rd_items rd_i16 n s1) as [[xs s2]|e| |]; cbn [only_eof] in Hp2; try contradiction; cbn [bind];
      [|split; [destruct e; try contradiction; exact I|discriminate]].
    split; [exact I|]. intros v r H. injection H as _ <-.
    apply (sfx_trans _ s1); [apply (Hok _ _ eq_refl)|apply (rd_i16_sfx _ _ _ E)].
Qed.

Lemma read_comp_arg_total : forall flags s,
  only_eof (read_comp_arg flags s) /\ forall v r, read_comp_arg flags s = Ok (v, r) -> sfx r s.
Proof.
  intros flags s. unfold read_comp_arg.
  destruct (negb (Z.land flags 1 =? 0)), (negb (Z.land flags 2 =? 0)).
  - split; [apply only_eof_rd_i16|apply rd_i16_sfx].
  - split; [apply only_eof_rd_u16|intros v r H; apply (rd_u16_sfx _ _ _ H)].
  - split; [apply only_eof_rd_i8|apply rd_i8_sfx].
  - split; [apply only_eof_rd_u8|intros v r H; apply (rd_u8_sfx _ _ _ H)].
Qed.

Lemma read_component_total : forall flags s,
  only_eof (read_component flags s) /\
  forall c r, read_component flags s = Ok (c, r) -> sfx r s /\ (length r < length s)%nat.
Proof.
  intros flags s. unfold read_component.
  pose proof (only_eof_rd_u16 s) as Hp.
  destruct (rd_u16 s) as [[gid s1]|e| |] eqn:E1; cbn [only_eof] in Hp; try contradiction; cbn [bind];
    [|split; [destruct e; try contradiction; exact I|discriminate]].
  destruct (rd_u16_sfx _ _ _ E1) as (S1 & L1).
  destruct (read_comp_arg_total flags s1) as (Hp2 & Hok2).
  destruct (read_comp_arg flags s1) as [[a1 s2]|e| |]; cbn [only_eof] in Hp2; try contradiction; cbn [bind];
    [|split; [destruct e; try contradiction; exact I|discriminate]].
  pose proof (Hok2 _ _ eq_refl) as S2.
  destruct (read_comp_arg_total flags s2) as (Hp3 & Hok3).
  destruct (read_comp_arg flags s2) as [[a2 s3]|e| |]; cbn [only_eof] in Hp3; try contradiction; cbn [bind];
    [|split; [destruct e; try contradiction; exact I|discriminate]].
  pose proof (Hok3 _ _ eq_refl) as S3.
  assert (only_eof (if negb (Z.land flags 8 =? 0) then rd_items rd_i16 1 s3
                    else if negb (Z.land flags 64 =? 0) then rd_items rd_i16 2 s3
                    else if negb (Z.land flags 128 =? 0) then rd_items rd_i16 4 s3 else Ok ([], s3)) /\
          forall v r, (if negb (Z.land flags 8 =? 0) then rd_items rd_i16 1 s3
                       else if negb (Z.land flags 64 =? 0) then rd_items rd_i16 2 s3
                       else if negb (Z.land flags 128 =? 0) then rd_items rd_i16 4 s3 else Ok ([], s3)) = Ok (v, r) ->
                      sfx r s3) as (Hp4 & Hok4).
  { destruct (negb (Z.land flags 8 =? 0)); [apply rd_items_i16_total|].
    destruct (negb (Z.land flags 64 =? 0)); [apply rd_items_i16_total|].
    destruct (negb (Z.land flags 128 =? 0)); [apply rd_items_i16_total|].
    split; [exact I|]. intros v r H. injection H as _ <-. apply sfx_refl. }
  match goal with |- only_eof (bind ?o _) /\ _ => destruct o as [[scale s4]|e| |] end;
    cbn [only_eof] in Hp4; try contradiction; cbn [bind];
    [|split; [destruct e; try contradiction; exact I|discriminate]].
  pose proof (Hok4 _ _ eq_refl) as S4.
  split; [exact I|]. intros c r H. injection H as _ <-.
  pose proof (sfx_trans _ _ _ S4 (sfx_trans _ _ _ S3 S2)) as S5.
  split; [apply (sfx_trans _ _ _ S5 S1)|]. pose proof (sfx_length _ _ S5). lia.
Qed.

(* CompositeGlyphs::read: every iteration consumes bytes, the fuel of the model (remaining length
   + 1) is never exhausted: the loop ends with a value or Eof *)
Lemma read_components_total : forall fuel s hi, (length s < fuel)%nat ->
  only_eof (read_components fuel s hi) /\
  forall cs hi' r, read_components fuel s hi = Ok (cs, hi', r) -> sfx r s.
Proof.
  induction fuel as [|fuel IH]; intros s hi Hf; [lia|]. cbn [read_components].
  pose proof (only_eof_rd_u16 s) as Hp.
  destruct (rd_u16 s) as [[raw s1]|e| |] eqn:E1; cbn [only_eof] in Hp; try contradiction; cbn [bind];
    [|split; [destruct e; try contradiction; exact I|discriminate]].
  destruct (rd_u16_sfx _ _ _ E1) as (S1 & L1).
  destruct (read_component_total (Z.land raw comp_flag_mask) s1) as (Hp2 & Hok2).
  destruct (read_component (Z.land raw comp_flag_mask) s1) as [[c s2]|e| |]; cbn [only_eof] in Hp2;
    try contradiction; cbn [bind]; [|split; [destruct e; try contradiction; exact I|discriminate]].
  destruct (Hok2 _ _ eq_refl) as (S2 & L2).
  destruct (negb (Z.land (Z.land raw comp_flag_mask) 32 =? 0)).
  - destruct (IH s2 (hi || negb (Z.land (Z.land raw comp_flag_mask) 256 =? 0)) ltac:(lia)) as (Hp3 & Hok3).
    destruct (read_components fuel s2 (hi || negb (Z.land (Z.land raw comp_flag_mask) 256 =? 0)))
      as [[[cs hi'] s3]|e| |]; cbn [only_eof] in Hp3; try contradiction; cbn [bind];
      [|split; [destruct e; try contradiction; exact I|discriminate]].
    split; [exact I|]. intros cs0 hi0 r H. injection H as _ _ <-.
    apply (sfx_trans _ _ _ (Hok3 _ _ _ eq_refl) (sfx_trans _ _ _ S2 S1)).
  - split; [exact I|]. intros cs0 hi0 r H. injection H as _ _ <-. apply (sfx_trans _ _ _ S2 S1).
Qed.

Lemma read_composite_glyphs_total : forall s,
  only_eof (read_composite_glyphs s) /\
  forall cs hi r, read_composite_glyphs s = Ok (cs, hi, r) -> sfx r s.
Proof. intros s. unfold read_composite_glyphs. apply read_components_total. lia. Qed.

(* ------------------------------------------------------------------ one glyph, all glyphs *)
Lemma bbox_from_points_nonempty : forall pts, pts <> [] -> exists bb, bbox_from_points pts = Ok bb.
Proof. intros [|p pts] H; [congruence|]. eexists. reflexivity. Qed.

Lemma decode_glyph_total : forall m bitmap i st,
  st_ok st ->
  no_panic (decode_glyph m bitmap i st) /\
  forall g st', decode_glyph m bitmap i st = Ok (g, st') -> st_ok st'.
Proof.
  intros m bitmap i st Hst. pose proof Hst as (H1 & H2 & H3 & H4 & H5 & H6 & H7).
  unfold decode_glyph.
  pose proof (only_eof_rd_i16 (s_nc st)) as Hp.
  destruct (rd_i16 (s_nc st)) as [[nc ncs]|e| |] eqn:E1; cbn [only_eof] in Hp; try contradiction; cbn [bind];
    [|split; [exact I|discriminate]].
  pose proof (sfx_bytes_ok _ _ (rd_i16_sfx _ _ _ E1) H1) as H1'.
  cbn [s_nc s_np s_fl s_gl s_comp s_bbox s_ins].
  destruct (nc =? 0) eqn:Ez.
  { split; [exact I|]. intros g st' H. injection H as _ <-. unfold st_ok.
    cbn [s_nc s_np s_fl s_gl s_comp s_bbox s_ins]. repeat split; assumption. }
  destruct (nc =? -1) eqn:Em.
  { destruct (read_composite_glyphs_total (s_comp st)) as (Hp2 & Hok2).
    destruct (read_composite_glyphs (s_comp st)) as [[[comps hi] comp]|e| |]; cbn [only_eof] in Hp2;
      try contradiction; cbn [bind]; [|split; [exact I|discriminate]].
    pose proof (sfx_bytes_ok _ _ (Hok2 _ _ _ eq_refl) H5) as H5'.
    assert (only_eof (if hi then read_packed_u16 (s_gl st) else Ok (0, s_gl st)) /\
            forall v r, (if hi then read_packed_u16 (s_gl st) else Ok (0, s_gl st)) = Ok (v, r) ->
                        bytes_ok r = true) as (Hp3 & Hok3).
    { destruct hi.
      - split; [apply no_panic_read_packed_u16|]. intros v r H.
        apply (sfx_bytes_ok _ _ (proj1 (read_packed_u16_sfx _ _ _ H4 H)) H4).
      - split; [exact I|]. intros v r H. injection H as _ <-. exact H4. }
    match goal with |- no_panic (bind ?o _) /\ _ => destruct o as [[ilen gl]|e| |] end;
      cbn [only_eof] in Hp3; try contradiction; cbn [bind]; [|split; [exact I|discriminate]].
    pose proof (Hok3 _ _ eq_refl) as H4'.
    pose proof (only_eof_rd_slice ilen (s_ins st)) as Hp4.
    destruct (rd_slice ilen (s_ins st)) as [[instr ins]|e| |] eqn:Es; cbn [only_eof] in Hp4; try contradiction;
      cbn [bind]; [|split; [exact I|discriminate]].
    destruct (rd_slice_inv _ _ _ _ Es) as (Eins & _). rewrite Eins in H7.
    destruct (bit_get bitmap i) as [[|]|]; try (split; [exact I|discriminate]).
    pose proof (only_eof_read_bbox (s_bbox st)) as Hp5.
    destruct (read_bbox (s_bbox st)) as [[bb bbs]|e| |] eqn:Eb; cbn [only_eof] in Hp5; try contradiction;
      cbn [bind]; [|split; [exact I|discriminate]].
    split; [exact I|]. intros g st' H. injection H as _ <-. unfold st_ok.
    cbn [s_nc s_np s_fl s_gl s_comp s_bbox s_ins]. repeat split; try assumption.
    - apply (sfx_bytes_ok _ _ (read_bbox_sfx _ _ _ Eb) H6).
    - apply (bytes_ok_app_r _ _ H7). }
  destruct (0 <? nc) eqn:Ep; [|split; [exact I|discriminate]].
  destruct (decode_simple_glyph_total m
              {| s_nc := ncs; s_np := s_np st; s_fl := s_fl st; s_gl := s_gl st;
                 s_comp := s_comp st; s_bbox := s_bbox st; s_ins := s_ins st |} nc) as (Hp2 & Hok2).
  { unfold st_ok. cbn [s_nc s_np s_fl s_gl s_comp s_bbox s_ins]. repeat split; assumption. }
  { lia. }
  match goal with |- no_panic (bind ?o _) /\ _ => destruct o as [[[[eps instr] pts] st1]|e| |] end;
    cbn [no_panic] in Hp2; try contradiction; cbn [bind]; [|split; [exact I|discriminate]].
  destruct (Hok2 _ _ _ _ eq_refl) as (Hst1 & Hne & _).
  pose proof Hst1 as (G1 & G2 & G3 & G4 & G5 & G6 & G7).
  destruct (bit_get bitmap i) as [[|]|]; try (split; [exact I|discriminate]).
  - pose proof (only_eof_read_bbox (s_bbox st1)) as Hp5.
    destruct (read_bbox (s_bbox st1)) as [[bb bbs]|e| |] eqn:Eb; cbn [only_eof] in Hp5; try contradiction;
      cbn [bind]; [|split; [exact I|discriminate]].
    split; [exact I|]. intros g st' H. injection H as _ <-. unfold st_ok.
    cbn [s_nc s_np s_fl s_gl s_comp s_bbox s_ins]. repeat split; try assumption.
    apply (sfx_bytes_ok _ _ (read_bbox_sfx _ _ _ Eb) G6).
  - (* the bounding box is computed from the points: there is at least one *)
    destruct (bbox_from_points_nonempty pts Hne) as (bb & ->). cbn [bind].
    split; [exact I|]. intros g st' H. injection H as _ <-. exact Hst1.
Qed.

Lemma decode_glyphs_total : forall m bitmap n i st,
  st_ok st -> no_panic (decode_glyphs m bitmap n i st).
Proof.
  intros m bitmap n. induction n as [|n IH]; intros i st Hst; cbn [decode_glyphs]; [exact I|].
  destruct (decode_glyph_total m bitmap i st Hst) as (Hp & Hok).
  destruct (decode_glyph m bitmap i st) as [[g st1]|e| |]; cbn [no_panic] in Hp; try contradiction;
    cbn [bind]; [|exact I].
  specialize (IH (i + 1) st1 (Hok _ _ eq_refl)).
  destruct (decode_glyphs m bitmap n (i + 1) st1); cbn [no_panic] in IH; try contradiction; exact I.
Qed.

(* The transformed glyf decoder is total: on ANY byte string, in debug and release arithmetic,
   Woff2GlyfTable::read_dep returns a glyph list or a ParseError.  No overflow check fires, no
   index is out of range, BoundingBox::from_points is never asked for the box of no points. *)
Theorem read_woff2_glyf_total : forall m s, bytes_ok s = true -> no_panic (read_woff2_glyf m s).
Proof.
  intros m s Hb. unfold read_woff2_glyf.
  pose proof (read_tglyf_only_eof s) as Hp.
  destruct (read_tglyf s) as [t|e| |] eqn:E; cbn [only_eof] in Hp; try contradiction; cbn [bind]; [|exact I].
  destruct (read_tglyf_sound s t Hb E) as (_ & _ & _ & _ & _ & hdr & tail & Es).
  apply decode_glyphs_total. rewrite Es in Hb.
  repeat match type of Hb with
         | bytes_ok (_ ++ _) = true =>
             let Hl := fresh "Hl" in
             pose proof (bytes_ok_app_l _ _ Hb) as Hl; apply bytes_ok_app_r in Hb
         end.
  unfold st_ok. cbn [s_nc s_np s_fl s_gl s_comp s_bbox s_ins]. repeat split; assumption.
Qed.

(* and when a simple glyph comes out, it is well formed: between 1 and 65535 points with int16
   coordinates, one end point per contour, every end point the index of a point *)
Theorem decoded_simple_glyph_wf : forall m st nc eps ins pts st',
  st_ok st -> 0 < nc -> decode_simple_glyph m st nc = Ok (eps, ins, pts, st') ->
  pts <> [] /\ len pts <= 65535 /\ len eps = nc /\
  Forall (fun e => 0 <= e < len pts) eps /\ Forall point_ok pts.
Proof.
  intros m st nc eps ins pts st' Hst Hnc H.
  destruct (decode_simple_glyph_total m st nc Hst Hnc) as (_ & Hok).
  destruct (Hok _ _ _ _ H) as (_ & G). exact G.
Qed.
