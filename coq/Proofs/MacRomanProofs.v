(* Proofs/MacRomanProofs.v — char_to_macroman and macroman_to_char (tables regenerated from
   src/macroman.rs) are mutual inverses; comparison with Apple's published table.
   The domains are finite (256 bytes; the ASCII range and the keys of the match arms), the bounds
   are part of the statements, so the sweeps by vm_compute are proofs. *)
From AV Require Import Base.Prelude Base.Lemmas Gen.MacRomanTables Model.MacRoman Model.MacRomanRef.
Open Scope Z_scope.

Definition opt_is (o : option Z) (v : Z) : bool := match o with Some x => x =? v | None => false end.

Lemma opt_is_eq o v : opt_is o v = true -> o = Some v.
Proof. destruct o as [x|]; cbn [opt_is]; intros H; [f_equal; lia | discriminate]. Qed.

(* byte -> char -> byte *)
Definition check_byte (b : Z) : bool :=
  match macroman_to_char b with
  | Some c => opt_is (char_to_macroman c) b && is_char c
  | None => true
  end.

Lemma bytes_sweep : forallb check_byte (range 0 256) = true.
Proof. vm_compute. reflexivity. Qed.

Theorem macroman_bytes_roundtrip b c :
  0 <= b < 256 -> macroman_to_char b = Some c -> char_to_macroman c = Some b /\ is_char c = true.
Proof.
  intros Hb H. pose proof bytes_sweep as S. rewrite forallb_forall in S.
  assert (Hin : In b (range 0 256)) by (apply range_In; lia).
  specialize (S b Hin). unfold check_byte in S. rewrite H in S.
  apply andb_prop in S. destruct S as [S1 S2]. split; [apply opt_is_eq; exact S1 | exact S2].
Qed.

(* char -> byte -> char *)
Definition check_char (c : Z) : bool :=
  match char_to_macroman c with
  | Some b => opt_is (macroman_to_char b) c && (0 <=? b) && (b <? 256)
  | None => true
  end.

Lemma ascii_sweep : forallb check_char (range 0 (Z.to_nat c2m_bound)) = true.
Proof. vm_compute. reflexivity. Qed.

Lemma arms_sweep : forallb (fun p => check_char (fst p)) c2m_arms = true.
Proof. vm_compute. reflexivity. Qed.

Lemma bound_nonneg : 0 <= c2m_bound.
Proof. vm_compute. discriminate. Qed.

Lemma assoc_key k l v : assoc k l = Some v -> exists v', In (k, v') l.
Proof.
  induction l as [|[a b] t IH]; cbn [assoc]; intros H; [discriminate|].
  destruct (a =? k) eqn:E.
  - exists b. left. f_equal. lia.
  - destruct (IH H) as [v' Hv]. exists v'. right. exact Hv.
Qed.

Theorem macroman_chars_roundtrip c b :
  0 <= c -> char_to_macroman c = Some b -> macroman_to_char b = Some c /\ 0 <= b < 256.
Proof.
  intros Hc H.
  assert (Hchk : check_char c = true).
  { unfold char_to_macroman in H. destruct (c <? c2m_bound) eqn:E.
    - pose proof ascii_sweep as S. rewrite forallb_forall in S. apply S.
      apply range_In. pose proof bound_nonneg. lia.
    - destruct (assoc_key _ _ _ H) as [v' Hin].
      pose proof arms_sweep as S. rewrite forallb_forall in S. exact (S _ Hin). }
  unfold check_char in Hchk. rewrite H in Hchk.
  apply andb_prop in Hchk. destruct Hchk as [Hchk H3]. apply andb_prop in Hchk. destruct Hchk as [H1 H2].
  split; [apply opt_is_eq; exact H1 | lia].
Qed.

(* is_macroman c <-> c is the image of some byte *)
Theorem is_macroman_iff c :
  0 <= c -> (is_macroman c = true <-> exists b, 0 <= b < 256 /\ macroman_to_char b = Some c).
Proof.
  intros Hc. unfold is_macroman. split.
  - destruct (char_to_macroman c) as [b|] eqn:E; [|discriminate]. intros _.
    destruct (macroman_chars_roundtrip c b Hc E) as [H1 H2]. exists b. split; assumption.
  - intros (b & Hb & H). destruct (macroman_bytes_roundtrip b c Hb H) as [H1 _]. rewrite H1. reflexivity.
Qed.

(* every byte the implementation decodes agrees with Apple's table, except that 0xDB is the
   pre-Mac OS 8.5 CURRENCY SIGN rather than the EURO SIGN *)
Definition check_ref (b : Z) : bool :=
  match macroman_to_char b with
  | Some c => (c =? macroman_ref b) || ((b =? 219) && (c =? 164))
  | None => true
  end.

Lemma ref_sweep : forallb check_ref (range 0 256) = true.
Proof. vm_compute. reflexivity. Qed.

Theorem macroman_matches_apple_table b c :
  0 <= b < 256 -> macroman_to_char b = Some c -> c = macroman_ref b \/ (b = 219 /\ c = 164).
Proof.
  intros Hb H. pose proof ref_sweep as S. rewrite forallb_forall in S.
  assert (Hin : In b (range 0 256)) by (apply range_In; lia).
  specialize (S b Hin). unfold check_ref in S. rewrite H in S. lia.
Qed.

(* which bytes have no character in the implementation's table *)
Definition undecoded : list Z :=
  filter (fun b => match macroman_to_char b with None => true | Some _ => false end) (range 0 256).

(* the bytes without a character: exactly the 15 codes that PDF's MacRomanEncoding leaves out of
   Mac OS Roman (known finding C06-macroman-coverage) *)
Definition undecoded_bytes : list Z := [173; 176; 178; 179; 182; 183; 184; 185; 186; 189; 195; 197; 198; 215; 240].

Definition check_undecoded (b : Z) : bool :=
  match macroman_to_char b with
  | None => existsb (Z.eqb b) undecoded_bytes
  | Some _ => negb (existsb (Z.eqb b) undecoded_bytes)
  end.

Lemma undecoded_sweep : forallb check_undecoded (range 0 256) = true.
Proof. vm_compute. reflexivity. Qed.

Theorem macroman_undecoded b :
  0 <= b < 256 -> (macroman_to_char b = None <-> In b undecoded_bytes).
Proof.
  intros Hb. pose proof undecoded_sweep as S. rewrite forallb_forall in S.
  assert (Hin : In b (range 0 256)) by (apply range_In; lia).
  specialize (S b Hin). unfold check_undecoded in S.
  assert (E : existsb (Z.eqb b) undecoded_bytes = true <-> In b undecoded_bytes).
  { rewrite existsb_exists. split.
    - intros (x & Hx & Hbx). assert (b = x) by lia. subst. exact Hx.
    - intros H. exists b. split; [exact H | lia]. }
  destruct (macroman_to_char b) as [c|].
  - split; [discriminate|]. intros H. apply E in H. rewrite H in S. discriminate.
  - split; [intros _; apply E; exact S | reflexivity].
Qed.
