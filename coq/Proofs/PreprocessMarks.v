(* Proofs/PreprocessMarks.v — sort_by_modified_combining_class and the Arabic mark reordering
   (arabic::reorder_marks) of Model/Preprocess.v against their specifications. *)
From AV Require Import Base.Prelude Gen.PreprocessTables Model.Preprocess
  Proofs.PreprocessSort Proofs.PreprocessRuns.
From Coq Require Import Permutation Sorted.
Open Scope Z_scope.

(* ---- generic list facts ---- *)
Lemma position_some p cs n : position p cs = Some n ->
  exists a c rest, cs = a ++ c :: rest /\ length a = n /\ Forall (fun x => p x = false) a /\ p c = true.
Proof.
  revert n. induction cs as [|x t IH]; intros n H; cbn [position] in H; [discriminate|].
  destruct (p x) eqn:Ex.
  - inversion H; subst. exists [], x, t. repeat split; [constructor|exact Ex].
  - destruct (position p t) as [k|] eqn:Ek; [|discriminate]. inversion H; subst.
    destruct (IH k eq_refl) as (a & c & rest & -> & Hlen & Hall & Hc).
    exists (x :: a), c, rest. repeat split; [cbn [length]; lia|constructor; assumption|exact Hc].
Qed.

Lemma position_none p cs : position p cs = None -> Forall (fun x => p x = false) cs.
Proof.
  induction cs as [|x t IH]; intro H; cbn [position] in H; [constructor|].
  destruct (p x) eqn:Ex; [discriminate|]. destruct (position p t); [discriminate|].
  constructor; [exact Ex|apply IH; reflexivity].
Qed.

Lemma take_while_spec q l : exists rest,
  l = take_while q l ++ rest /\ Forall (fun x => q x = true) (take_while q l) /\
  (rest = [] \/ exists h t, rest = h :: t /\ q h = false).
Proof.
  induction l as [|x t IH]; cbn [take_while].
  - exists []. repeat split; [constructor|left; reflexivity].
  - destruct (q x) eqn:Ex.
    + destruct IH as (rest & Hl & Hall & Hr). exists rest. repeat split.
      * cbn [app]. f_equal. exact Hl.
      * constructor; assumption.
      * exact Hr.
    + exists (x :: t). repeat split; [constructor|]. right. exists x, t. split; [reflexivity|exact Ex].
Qed.

Lemma firstn_app_exact {A} (a b : list A) : firstn (length a) (a ++ b) = a.
Proof. rewrite firstn_app, Nat.sub_diag, firstn_O, app_nil_r. apply firstn_all. Qed.
Lemma skipn_app_exact {A} (a b : list A) : skipn (length a) (a ++ b) = b.
Proof. rewrite skipn_app, Nat.sub_diag, skipn_all. reflexivity. Qed.

Section Marks.
Variable class : Z -> Z.

(* ================= sort_by_modified_combining_class ================= *)
Definition sort_p (cs : list Z) : list Z := on_runs_p class (sort_by_key class) [] cs.

Lemma sort_ok cs : sort_by_modified_combining_class class cs = Ok (sort_p cs).
Proof. unfold sort_by_modified_combining_class, sort_p. apply on_runs_pure. reflexivity. Qed.

Lemma sort_p_perm cs : Permutation cs (sort_p cs).
Proof. exact (on_runs_p_perm class _ (sort_by_key_perm class) cs []). Qed.

Lemma sort_p_length cs : length (sort_p cs) = length cs.
Proof. unfold sort_p. rewrite on_runs_p_length by (apply sort_by_key_length). reflexivity. Qed.

Lemma sort_p_base_fixed cs i z : nth_error cs i = Some z -> class z = 0 -> nth_error (sort_p cs) i = Some z.
Proof. apply on_runs_p_base_fixed. apply sort_by_key_length. Qed.

Lemma sort_p_mark_positions cs :
  map (fun c => class c =? 0) (sort_p cs) = map (fun c => class c =? 0) cs.
Proof.
  unfold sort_p. rewrite on_runs_p_mark_positions; [reflexivity|apply sort_by_key_length|
    apply sort_by_key_perm|constructor].
Qed.

Lemma sort_p_local x r y : ends_with_base class x -> marks class r -> starts_with_base class y ->
  sort_p (x ++ r ++ y) = sort_p x ++ sort_by_key class r ++ sort_p y.
Proof. apply on_runs_p_local. reflexivity. Qed.

Lemma sort_p_marks r : marks class r -> sort_p r = sort_by_key class r.
Proof. intro H. unfold sort_p. rewrite on_runs_p_marks by exact H. reflexivity. Qed.

(* ================= Arabic ================= *)
Definition is_shadda (c : Z) : bool := class c =? SHADDA_CLASS.
Definition shadda_first (r : list Z) : list Z := filter is_shadda r ++ filter (fun c => negb (is_shadda c)) r.

Lemma reorder_marks_shadda_spec r : reorder_marks_shadda class r = shadda_first r.
Proof. unfold reorder_marks_shadda, shadda_first. exact (sort_by_bool_key is_shadda r). Qed.

Lemma shadda_first_perm r : Permutation r (shadda_first r).
Proof. rewrite <- reorder_marks_shadda_spec. apply sort_by_key_perm. Qed.

(* reorder_marks_other_combining without the bounds checks *)
Definition rot_p (m : Z) (cs : list Z) : list Z :=
  match position (fun c => class c =? m) cs with
  | None => cs
  | Some first =>
    let count := length (take_while is_modifier_combining_mark (skipn first cs)) in
    firstn count (skipn first cs) ++ firstn first cs ++ skipn (first + count) cs
  end.

(* the decomposition both the code and its specification are about *)
Lemma rot_decomp m cs first : position (fun c => class c =? m) cs = Some first ->
  exists a p b, cs = a ++ p ++ b /\ first = length a /\
     p = take_while is_modifier_combining_mark (skipn first cs) /\
     Forall (fun c => class c <> m) a /\
     (exists h t, p ++ b = h :: t /\ class h = m) /\
     Forall (fun c => is_modifier_combining_mark c = true) p /\
     (b = [] \/ exists h t, b = h :: t /\ is_modifier_combining_mark h = false).
Proof.
  intro Ep. destruct (position_some _ _ _ Ep) as (a & c & rest & Hcs & Hlen & Hall & Hc).
  assert (Hsk : skipn first cs = c :: rest).
  { subst cs first. apply skipn_app_exact. }
  destruct (take_while_spec is_modifier_combining_mark (c :: rest)) as (b & Hl & Hmcm & Hb).
  exists a, (take_while is_modifier_combining_mark (c :: rest)), b.
  split; [rewrite <- Hl; exact Hcs|].
  split; [symmetry; exact Hlen|].
  split; [rewrite Hsk; reflexivity|].
  split.
  { rewrite Forall_forall in *. intros x Hx. specialize (Hall x Hx). cbn beta in Hall. lia. }
  split.
  { exists c, rest. split; [symmetry; exact Hl|]. cbn beta in Hc. lia. }
  split; [exact Hmcm|exact Hb].
Qed.

Lemma v_rotate_right_prefix (a p b : list Z) :
  v_rotate_right (a ++ p ++ b) 0 (length a + length p) (length p) = Ok (p ++ a ++ b).
Proof.
  unfold v_rotate_right.
  replace ((0 <=? length a + length p)%nat) with true by (symmetry; apply Nat.leb_le; lia).
  replace ((length a + length p <=? length (a ++ p ++ b))%nat) with true
    by (symmetry; apply Nat.leb_le; rewrite !app_length; lia).
  replace ((length p <=? length a + length p - 0)%nat) with true by (symmetry; apply Nat.leb_le; lia).
  cbn [andb]. f_equal. cbn [firstn skipn app].
  replace (length a + length p - 0 - length p)%nat with (length a) by lia.
  replace (length a + length p - 0)%nat with (length (a ++ p)) by (rewrite app_length; lia).
  rewrite <- (app_length a p).
  rewrite (app_assoc a p b). rewrite firstn_app_exact, skipn_app_exact.
  rewrite firstn_app_exact, skipn_app_exact. reflexivity.
Qed.

Lemma rot_p_decomp (a p b : list Z) :
  firstn (length p) (skipn (length a) (a ++ p ++ b)) ++ firstn (length a) (a ++ p ++ b)
    ++ skipn (length a + length p) (a ++ p ++ b) = p ++ a ++ b.
Proof.
  rewrite skipn_app_exact, !firstn_app_exact.
  rewrite <- app_length, (app_assoc a p b), skipn_app_exact. reflexivity.
Qed.

Lemma rot_ok m cs : reorder_marks_other_combining class cs m = Ok (rot_p m cs).
Proof.
  unfold reorder_marks_other_combining, rot_p.
  destruct (position (fun c => class c =? m) cs) as [first|] eqn:Ep; [|reflexivity].
  destruct (rot_decomp m cs first Ep) as (a & p & b & Hcs & Hf & Hp & _).
  rewrite <- Hp. subst first. rewrite Hcs.
  rewrite v_rotate_right_prefix, rot_p_decomp. reflexivity.
Qed.

(* the shape of one step: the modifier combining marks that start the first group of class m move to the front *)
Lemma rot_spec m cs :
  (Forall (fun c => class c <> m) cs /\ rot_p m cs = cs) \/
  (exists a p b, cs = a ++ p ++ b /\
     Forall (fun c => class c <> m) a /\
     (exists h t, p ++ b = h :: t /\ class h = m) /\
     Forall (fun c => is_modifier_combining_mark c = true) p /\
     (b = [] \/ exists h t, b = h :: t /\ is_modifier_combining_mark h = false) /\
     rot_p m cs = p ++ a ++ b).
Proof.
  unfold rot_p. destruct (position (fun c => class c =? m) cs) as [first|] eqn:Ep.
  - right. destruct (rot_decomp m cs first Ep) as (a & p & b & Hcs & Hf & Hp & Ha & Hh & Hm & Hb).
    exists a, p, b. repeat split; try assumption.
    rewrite <- Hp. subst first. rewrite Hcs. apply rot_p_decomp.
  - left. split; [|reflexivity]. apply position_none in Ep.
    rewrite Forall_forall in *. intros x Hx. specialize (Ep x Hx). cbn beta in Ep. lia.
Qed.

Lemma rot_p_perm m cs : Permutation cs (rot_p m cs).
Proof.
  destruct (rot_spec m cs) as [(_ & ->)|(a & p & b & -> & _ & _ & _ & _ & ->)].
  - apply Permutation_refl.
  - rewrite !app_assoc. apply Permutation_app_tail. apply Permutation_app_comm.
Qed.

(* a run without modifier combining marks is not touched by the step *)
Lemma rot_p_no_mcm m cs : Forall (fun c => is_modifier_combining_mark c = false) cs -> rot_p m cs = cs.
Proof.
  intro Hn. destruct (rot_spec m cs) as [(_ & H)|(a & p & b & Hcs & _ & (h & t & Hpb & _) & Hp & _ & Hr)]; [exact H|].
  assert (p = []) as ->.
  { destruct p as [|x p']; [reflexivity|exfalso]. inversion Hp as [|? ? Hx _]; subst.
    rewrite Forall_forall in Hn. rewrite (Hn x) in Hx; [discriminate|].
    apply in_or_app. right. left. reflexivity. }
  rewrite Hr, Hcs. reflexivity.
Qed.

Definition rots_p (steps : list Z) (cs : list Z) : list Z := fold_left (fun l m => rot_p m l) steps cs.

Lemma arabic_other_steps_ok steps : forall cs, arabic_other_steps class steps cs = Ok (rots_p steps cs).
Proof.
  induction steps as [|m rest IH]; intro cs; cbn [arabic_other_steps]; [reflexivity|].
  rewrite rot_ok. cbn [bind]. rewrite IH. reflexivity.
Qed.

Lemma rots_p_perm steps : forall cs, Permutation cs (rots_p steps cs).
Proof.
  induction steps as [|m rest IH]; intro cs; [apply Permutation_refl|].
  unfold rots_p. cbn [fold_left]. eapply perm_trans; [apply rot_p_perm|]. apply IH.
Qed.

Definition arabic_run_p (r : list Z) : list Z := rots_p ARABIC_OTHER_STEPS (shadda_first r).

Lemma arabic_run_ok r : arabic_run class r = Ok (arabic_run_p r).
Proof. unfold arabic_run, arabic_run_p. rewrite reorder_marks_shadda_spec. apply arabic_other_steps_ok. Qed.

Lemma arabic_run_p_perm r : Permutation r (arabic_run_p r).
Proof. eapply perm_trans; [apply shadda_first_perm|apply rots_p_perm]. Qed.

Lemma arabic_run_p_nil : arabic_run_p [] = [].
Proof. apply Permutation_nil. apply arabic_run_p_perm. Qed.

(* what a run of marks becomes: sorted stably by class, then the AMTRA steps *)
Definition arabic_run_spec (r : list Z) : list Z := arabic_run_p (sort_by_key class r).
Definition arabic_p (cs : list Z) : list Z := on_runs_p class arabic_run_spec [] cs.

Lemma arabic_ok cs : arabic_reorder_marks class cs = Ok (arabic_p cs).
Proof.
  unfold arabic_reorder_marks. rewrite sort_ok. cbn [bind].
  rewrite (on_runs_pure class _ arabic_run_p arabic_run_ok).
  f_equal. unfold sort_p, arabic_p, arabic_run_spec.
  apply (on_runs_p_compose class (sort_by_key class) arabic_run_p).
  - reflexivity.
  - intros r Hr. apply (perm_marks class r); [apply sort_by_key_perm|exact Hr].
  - constructor.
Qed.

Lemma arabic_run_spec_perm r : Permutation r (arabic_run_spec r).
Proof. eapply perm_trans; [apply sort_by_key_perm|apply arabic_run_p_perm]. Qed.

Lemma arabic_run_spec_length r : length (arabic_run_spec r) = length r.
Proof. symmetry. apply Permutation_length, arabic_run_spec_perm. Qed.

Lemma arabic_run_spec_nil : arabic_run_spec [] = [].
Proof. apply Permutation_nil, arabic_run_spec_perm. Qed.

Lemma arabic_p_perm cs : Permutation cs (arabic_p cs).
Proof. exact (on_runs_p_perm class _ arabic_run_spec_perm cs []). Qed.

Lemma arabic_p_length cs : length (arabic_p cs) = length cs.
Proof. unfold arabic_p. rewrite on_runs_p_length by (apply arabic_run_spec_length). reflexivity. Qed.

Lemma arabic_p_base_fixed cs i z : nth_error cs i = Some z -> class z = 0 -> nth_error (arabic_p cs) i = Some z.
Proof. apply on_runs_p_base_fixed. apply arabic_run_spec_length. Qed.

Lemma arabic_p_local x r y : ends_with_base class x -> marks class r -> starts_with_base class y ->
  arabic_p (x ++ r ++ y) = arabic_p x ++ arabic_run_spec r ++ arabic_p y.
Proof. apply on_runs_p_local. apply arabic_run_spec_nil. Qed.

(* without modifier combining marks the run is: shaddas, then everything else stably by class *)
Lemma arabic_run_spec_no_mcm r : Forall (fun c => is_modifier_combining_mark c = false) r ->
  arabic_run_spec r = shadda_first (sort_by_key class r).
Proof.
  intro Hn. unfold arabic_run_spec, arabic_run_p.
  assert (H : forall steps l, Forall (fun c => is_modifier_combining_mark c = false) l -> rots_p steps l = l).
  { induction steps as [|m rest IH]; intros l Hl; [reflexivity|].
    unfold rots_p. cbn [fold_left]. rewrite rot_p_no_mcm by exact Hl. apply IH. exact Hl. }
  apply H. rewrite Forall_forall in *. intros x Hx. apply Hn.
  apply (Permutation_in x (Permutation_sym (sort_by_key_perm class r))).
  apply (Permutation_in x (Permutation_sym (shadda_first_perm _))). exact Hx.
Qed.

End Marks.
