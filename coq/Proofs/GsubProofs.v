(* Proofs/GsubProofs.v — lemmas about Model/Gsub.v: first matching subtable wins; the per-type application
   loops of gsub_apply_lookup compute the declarative scans of Model/GsubSpec.v; window/length bookkeeping;
   lookup ordering. *)
From AV Require Import Base.Prelude Base.Lemmas Gen.LayoutConsts Model.Layout Model.LayoutSpec Model.Gsub Model.GsubSpec
  Proofs.LayoutProofs.
From Coq Require Import ZifyBool.
Open Scope Z_scope.

(* ------------------------------------------------------------------ first matching subtable wins *)
Lemma first_subtable_some {S A} (f : S -> outcome (option A)) subs a :
  first_subtable f subs = Ok (Some a) <->
  exists pre s post, subs = pre ++ s :: post /\ Forall (fun s' => f s' = Ok None) pre /\ f s = Ok (Some a).
Proof.
  induction subs as [|s subs IH]; cbn [first_subtable].
  - split; [discriminate|]. intros (pre & s & post & H & _). destruct pre; discriminate.
  - split.
    + destruct (f s) as [[a'|]| | |] eqn:E; cbn [bind]; try discriminate.
      * intros H; inversion H; subst a'. exists [], s, subs. repeat split; [constructor|assumption].
      * intros H. apply IH in H. destruct H as (pre & s' & post & -> & Hp & Hs).
        exists (s :: pre), s', post. repeat split; [constructor; assumption|assumption].
    + intros (pre & s' & post & Heq & Hp & Hs). destruct pre as [|p pre]; cbn [app] in Heq; inversion Heq; subst.
      * rewrite Hs. reflexivity.
      * inversion Hp; subst. rewrite H1. cbn [bind]. apply IH. exists pre, s', post. repeat split; assumption.
Qed.

Lemma first_subtable_none {S A} (f : S -> outcome (option A)) subs :
  first_subtable f subs = Ok None <-> Forall (fun s => f s = Ok None) subs.
Proof.
  induction subs as [|s subs IH]; cbn [first_subtable].
  - split; [constructor|reflexivity].
  - split.
    + destruct (f s) as [[a'|]| | |] eqn:E; cbn [bind]; try discriminate.
      intros H. constructor; [assumption|apply IH; assumption].
    + intros H; inversion H; subst. rewrite H2. cbn [bind]. apply IH; assumption.
Qed.

(* ------------------------------------------------------------------ windows *)
Lemma map_window_spec f l l' : map_window f l = Ok l' -> Forall2 (fun g g' => f g = Ok g') l l'.
Proof.
  revert l'; induction l as [|g l IH]; intros l' H; cbn [map_window] in H.
  - inversion H; constructor.
  - destruct (f g) as [g'| | |] eqn:E; cbn [bind] in H; try discriminate.
    destruct (map_window f l) as [t| | |] eqn:Et; cbn [bind] in H; try discriminate.
    inversion H; subst. constructor; [assumption|apply IH; reflexivity].
Qed.

Lemma map_window_complete f l l' : Forall2 (fun g g' => f g = Ok g') l l' -> map_window f l = Ok l'.
Proof.
  induction 1; cbn [map_window]; [reflexivity|]. rewrite H, IHForall2. reflexivity.
Qed.

Lemma uadd_small m a b : 0 <= a -> 0 <= b -> a + b < USIZE -> uadd m a b = Ok (a + b).
Proof. intros. unfold uadd. replace (a + b <? USIZE) with true by lia. reflexivity. Qed.

Lemma usub_small m a b : 0 <= b <= a -> usub m a b = Ok (a - b).
Proof. intros. unfold usub. replace (b <=? a) with true by lia. reflexivity. Qed.

(* a window that lies inside the vector: the three segments *)
Lemma window_inside m (gs : list glyph) start length :
  0 <= start -> 0 <= length -> start + length <= len gs -> len gs < USIZE ->
  window m gs start length = Ok (take start gs, take length (drop start gs), drop (start + length) gs).
Proof.
  intros H1 H2 H3 H4. unfold window. rewrite uadd_small by lia. cbn [bind].
  replace ((start <=? start + length) && (start + length <=? len gs)) with true by lia.
  replace (start + length - start) with length by lia. reflexivity.
Qed.

Lemma segments (gs : list glyph) start length :
  0 <= start -> 0 <= length -> start + length <= len gs ->
  gs = take start gs ++ take length (drop start gs) ++ drop (start + length) gs.
Proof.
  intros. unfold take, drop.
  replace (Z.to_nat (start + length)) with (Z.to_nat length + Z.to_nat start)%nat by lia.
  rewrite <- skipn_skipn'. rewrite !firstn_skipn. reflexivity.
Qed.

(* ------------------------------------------------------------------ type 1 and type 3 *)
Theorem single_lookup_spec : forall m lks gd li tag alt gs start length lk subs,
  get_lookup lks li = Ok lk -> lk_body lk = LSingle subs ->
  0 <= start -> 0 <= length -> start + length <= len gs -> len gs < USIZE ->
  let mt := from_lookup_flag (lk_flag lk) (lk_mfs lk) in
  forall gs' l', gsub_apply_lookup m (Some lks) gd li tag alt gs start length = Ok (gs', l') <->
  exists w', Forall2 (fun g g' => single_spec mt gd subs tag g = Ok g') (take length (drop start gs)) w' /\
             gs' = take start gs ++ w' ++ drop (start + length) gs /\ l' = length.
Proof.
  intros m lks gd li tag alt gs start length lk subs Hlk Hb H1 H2 H3 H4 mt gs' l'.
  unfold gsub_apply_lookup. rewrite Hlk. cbn [bind]. rewrite Hb.
  unfold on_window. rewrite window_inside by assumption. cbn [bind]. fold mt.
  change (fun g : glyph => if match_glyph mt gd (g_id g) then singlesubst subs tag g else Ok g)
    with (single_spec mt gd subs tag).
  split.
  - destruct (map_window (single_spec mt gd subs tag) (take length (drop start gs))) as [w'| | |] eqn:E;
      cbn [bind]; try discriminate.
    intros H; inversion H; subst. exists w'. split; [apply map_window_spec; assumption|split; reflexivity].
  - intros (w' & Hf & -> & ->). rewrite (map_window_complete _ _ _ Hf). reflexivity.
Qed.

Theorem alternate_lookup_spec : forall m lks gd li tag alt gs start length lk subs,
  get_lookup lks li = Ok lk -> lk_body lk = LAlternate subs ->
  0 <= start -> 0 <= length -> start + length <= len gs -> len gs < USIZE ->
  let mt := from_lookup_flag (lk_flag lk) (lk_mfs lk) in
  let a := match alt with Some a => a | None => 0 end in
  forall gs' l', gsub_apply_lookup m (Some lks) gd li tag alt gs start length = Ok (gs', l') <->
  exists w', Forall2 (fun g g' => alternate_spec mt gd subs a g = Ok g') (take length (drop start gs)) w' /\
             gs' = take start gs ++ w' ++ drop (start + length) gs /\ l' = length.
Proof.
  intros m lks gd li tag alt gs start length lk subs Hlk Hb H1 H2 H3 H4 mt a gs' l'.
  unfold gsub_apply_lookup. rewrite Hlk. cbn [bind]. rewrite Hb.
  unfold on_window. rewrite window_inside by assumption. cbn [bind]. fold mt. fold a.
  change (fun g : glyph => if match_glyph mt gd (g_id g) then alternatesubst subs a g else Ok g)
    with (alternate_spec mt gd subs a).
  split.
  - destruct (map_window (alternate_spec mt gd subs a) (take length (drop start gs))) as [w'| | |] eqn:E;
      cbn [bind]; try discriminate.
    intros H; inversion H; subst. exists w'. split; [apply map_window_spec; assumption|split; reflexivity].
  - intros (w' & Hf & -> & ->). rewrite (map_window_complete _ _ _ Hf). reflexivity.
Qed.

(* what singlesubst does to one glyph, stated through "first matching subtable wins" *)
Theorem singlesubst_first_match : forall subs tag g g',
  singlesubst subs tag g = Ok g' <->
  (exists pre s post out,
      subs = pre ++ s :: post /\ Forall (fun s' => single_apply_glyph s' (g_id g) = Ok None) pre /\
      single_apply_glyph s (g_id g) = Ok (Some out) /\
      g' = (if (tag =? TAG_VERT_ALT_1) || (tag =? TAG_VERT_ALT_2) then set_vert (set_id g out) else set_id g out))
  \/ (Forall (fun s => single_apply_glyph s (g_id g) = Ok None) subs /\ g' = g).
Proof.
  intros subs tag g g'. unfold singlesubst, singlesubst_would_apply.
  destruct (first_subtable (fun s => single_apply_glyph s (g_id g)) subs) as [[out|]| | |] eqn:E; cbn [bind].
  - apply first_subtable_some in E. destruct E as (pre & s & post & Hs & Hp & Hf). split.
    + intros H; inversion H; subst g'. left. exists pre, s, post, out. repeat split; assumption.
    + intros [(pre' & s' & post' & out' & Hs' & Hp' & Hf' & ->)|[Hn _]].
      * assert (E2 : first_subtable (fun s => single_apply_glyph s (g_id g)) subs = Ok (Some out')).
        { apply first_subtable_some. exists pre', s', post'. repeat split; assumption. }
        assert (E1 : first_subtable (fun s => single_apply_glyph s (g_id g)) subs = Ok (Some out)).
        { apply first_subtable_some. exists pre, s, post. repeat split; assumption. }
        rewrite E1 in E2. inversion E2; subst. reflexivity.
      * apply first_subtable_none in Hn.
        assert (E1 : first_subtable (fun s => single_apply_glyph s (g_id g)) subs = Ok (Some out)).
        { apply first_subtable_some. exists pre, s, post. repeat split; assumption. }
        rewrite E1 in Hn. discriminate.
  - apply first_subtable_none in E. split.
    + intros H; inversion H; subst. right. split; [assumption|reflexivity].
    + intros [(pre' & s' & post' & out' & Hs' & Hp' & Hf' & ->)|[_ ->]]; [|reflexivity].
      assert (E2 : first_subtable (fun s => single_apply_glyph s (g_id g)) subs = Ok (Some out')).
      { apply first_subtable_some. exists pre', s', post'. repeat split; assumption. }
      apply first_subtable_none in E. rewrite E in E2. discriminate.
  - split; [discriminate|]. intros [(pre' & s' & post' & out' & Hs' & Hp' & Hf' & ->)|[Hn _]].
    + assert (E2 : first_subtable (fun s => single_apply_glyph s (g_id g)) subs = Ok (Some out')).
      { apply first_subtable_some. exists pre', s', post'. repeat split; assumption. }
      rewrite E in E2; discriminate.
    + apply first_subtable_none in Hn. rewrite E in Hn; discriminate.
  - split; [discriminate|]. intros [(pre' & s' & post' & out' & Hs' & Hp' & Hf' & ->)|[Hn _]].
    + assert (E2 : first_subtable (fun s => single_apply_glyph s (g_id g)) subs = Ok (Some out')).
      { apply first_subtable_some. exists pre', s', post'. repeat split; assumption. }
      rewrite E in E2; discriminate.
    + apply first_subtable_none in Hn. rewrite E in Hn; discriminate.
  - split; [discriminate|]. intros [(pre' & s' & post' & out' & Hs' & Hp' & Hf' & ->)|[Hn _]].
    + assert (E2 : first_subtable (fun s => single_apply_glyph s (g_id g)) subs = Ok (Some out')).
      { apply first_subtable_some. exists pre', s', post'. repeat split; assumption. }
      rewrite E in E2; discriminate.
    + apply first_subtable_none in Hn. rewrite E in Hn; discriminate.
Qed.

(* format 1 adds the delta modulo 65536, format 2 indexes the substitute array by coverage index *)
Theorem single_format1_delta : forall cov d g,
  covers cov g = true -> single_apply_glyph (SingleF1 cov d) g = Ok (Some ((g + d) mod 65536)).
Proof. intros cov d g H. cbn [single_apply_glyph]. rewrite H. reflexivity. Qed.

Theorem single_format2_array : forall cov subst g ci out,
  coverage_value cov g = Some ci -> nth_opt subst ci = Some out ->
  single_apply_glyph (SingleF2 cov subst) g = Ok (Some out).
Proof. intros cov subst g ci out H1 H2. cbn [single_apply_glyph]. rewrite H1. unfold checked_nth. rewrite H2. reflexivity. Qed.

(* ------------------------------------------------------------------ list surgery at the boundary of a prefix *)
Lemma take_app_len {A} (a b : list A) : take (len a) (a ++ b) = a.
Proof. unfold take, len. rewrite Nat2Z.id, firstn_app, Nat.sub_diag, firstn_all. cbn [firstn]. apply app_nil_r. Qed.

Lemma nth_opt_mid {A} (a : list A) x b : nth_opt (a ++ x :: b) (len a) = Some x.
Proof.
  unfold nth_opt. pose proof (len_nonneg a). replace (len a <? 0) with false by lia.
  unfold len. rewrite Nat2Z.id, nth_error_app2, Nat.sub_diag by lia. reflexivity.
Qed.

Lemma nth_opt_end {A} (a : list A) : nth_opt a (len a) = None.
Proof.
  unfold nth_opt. pose proof (len_nonneg a). replace (len a <? 0) with false by lia.
  unfold len. rewrite Nat2Z.id. apply nth_error_None. lia.
Qed.

Lemma gget_mid a g b : gget (a ++ g :: b) (len a) = Ok g.
Proof. unfold gget. rewrite nth_opt_mid. reflexivity. Qed.

Lemma gset_mid a g b g' : gset (a ++ g :: b) (len a) g' = a ++ g' :: b.
Proof. unfold gset. rewrite take_app_len, drop_app_len. reflexivity. Qed.

Lemma gremove_mid a g b : gremove (a ++ g :: b) (len a) = a ++ b.
Proof. unfold gremove. rewrite take_app_len, drop_app_len. reflexivity. Qed.

Lemma ginsert_mid a b g : ginsert (a ++ b) (len a) g = a ++ g :: b.
Proof. unfold ginsert. rewrite take_app_len, drop_app_len. reflexivity. Qed.

Lemma insert_dups_spec a g0 rest : forall l acc,
  insert_dups (a ++ g0 :: acc ++ rest) g0 (len a + 1 + len acc) l = a ++ g0 :: acc ++ map (dup_glyph g0) l ++ rest.
Proof.
  induction l as [|id l IH]; intros acc; cbn [insert_dups map app]; [reflexivity|].
  replace (a ++ g0 :: acc ++ rest) with ((a ++ g0 :: acc) ++ rest) by (rewrite <- app_assoc; reflexivity).
  replace (len a + 1 + len acc) with (len (a ++ g0 :: acc)) by (rewrite len_app, len_cons; lia).
  rewrite ginsert_mid.
  replace ((a ++ g0 :: acc) ++ dup_glyph g0 id :: rest) with (a ++ g0 :: (acc ++ [dup_glyph g0 id]) ++ rest)
    by (rewrite <- !app_assoc; reflexivity).
  replace (len (a ++ g0 :: acc) + 1) with (len a + 1 + len (acc ++ [dup_glyph g0 id]))
    by (rewrite !len_app, !len_cons, len_nil; lia).
  rewrite IH. rewrite <- !app_assoc. reflexivity.
Qed.

(* ------------------------------------------------------------------ type 2 *)
Lemma multiplesubst_mid subs a g b :
  multiplesubst subs (len a) (a ++ g :: b) =
  match first_subtable (fun s => cov_indexed (ms_cov s) (ms_seqs s) (g_id g)) subs with
  | Ok (Some (first :: rest)) =>
    Ok (Some (len (first :: rest)), a ++ set_id g first :: map (dup_glyph (set_id g first)) rest ++ b)
  | Ok (Some []) => Ok (Some 0, a ++ b)
  | Ok None => Ok (None, a ++ g :: b)
  | Err e => Err e | Panic => Panic | OOB => OOB
  end.
Proof.
  unfold multiplesubst, multiplesubst_would_apply. rewrite gget_mid. cbn [bind].
  destruct (first_subtable _ subs) as [[[|first rest]|]| | |]; cbn [bind]; try reflexivity.
  - rewrite gremove_mid. reflexivity.
  - rewrite gset_mid. f_equal. f_equal.
    pose proof (insert_dups_spec a (set_id g first) b rest []) as H. cbn [app] in H.
    rewrite len_nil in H. replace (len a + 1 + 0) with (len a + 1) in H by lia. exact H.
Qed.

Definition seqs_small (subs : list multiple_subst) : Prop :=
  forall s seq, In s subs -> In seq (ms_seqs s) -> len seq < 65536.

Lemma checked_nth_In {A} (l : list A) i x : checked_nth l i = Ok x -> In x l.
Proof.
  unfold checked_nth, nth_opt. destruct (i <? 0); [discriminate|].
  destruct (nth_error l (Z.to_nat i)) eqn:E; [|discriminate]. intros H; inversion H; subst.
  eapply nth_error_In; eassumption.
Qed.

Lemma first_seq_small subs g seq : seqs_small subs ->
  first_subtable (fun s => cov_indexed (ms_cov s) (ms_seqs s) g) subs = Ok (Some seq) -> len seq < 65536.
Proof.
  intros Hs H. apply first_subtable_some in H. destruct H as (pre & s & post & -> & _ & Hf).
  unfold cov_indexed in Hf. destruct (coverage_value (ms_cov s) g); [|discriminate].
  destruct (checked_nth (ms_seqs s) z) eqn:E; cbn [bind] in Hf; try discriminate.
  inversion Hf; subst. apply (Hs s seq); [apply in_or_app; right; left; reflexivity|].
  eapply checked_nth_In; eassumption.
Qed.

Lemma multiple_loop_spec m mt gd subs : seqs_small subs ->
  forall todo done post fuel start wlen,
  (List.length todo < fuel)%nat -> 0 <= start <= len done -> start + wlen = len done + len todo ->
  len done + len todo + len post + 65536 * len todo < USIZE ->
  multiple_loop fuel m mt gd subs (done ++ todo ++ post) start (len done) wlen =
  (r <- flat_map_out (multiple_spec mt gd subs) todo ;; Ok (done ++ r ++ post, wlen + len r - len todo)).
Proof.
  intros Hsmall. induction todo as [|g rest IH]; intros done post fuel start wlen Hfuel Hstart Hwin Hb;
    (destruct fuel as [|fuel]; [cbn in Hfuel; lia|]); cbn [multiple_loop flat_map_out].
  - rewrite len_nil in *. pose proof (len_nonneg done). pose proof (len_nonneg post).
    rewrite uadd_small by lia. cbn [bind]. replace (len done <? start + wlen) with false by lia.
    cbn [bind]. rewrite len_nil. f_equal. f_equal. lia.
  - rewrite len_cons in *. pose proof (len_nonneg done). pose proof (len_nonneg post). pose proof (len_nonneg rest).
    rewrite uadd_small by lia. cbn [bind]. replace (len done <? start + wlen) with true by lia.
    cbn [app]. rewrite gget_mid. cbn [bind]. unfold multiple_spec at 1.
    assert (Hnone : forall l, (l = wlen) ->
              (i' <- uadd m (len done) 1 ;; multiple_loop fuel m mt gd subs (done ++ g :: rest ++ post) start i' l) =
              (r <- (b <- flat_map_out (multiple_spec mt gd subs) rest ;; Ok ([g] ++ b)) ;;
               Ok (done ++ r ++ post, wlen + len r - (1 + len rest)))).
    { intros l ->. rewrite uadd_small by lia. cbn [bind].
      replace (done ++ g :: rest ++ post) with ((done ++ [g]) ++ rest ++ post) by (rewrite <- app_assoc; reflexivity).
      assert (Hdg : len (done ++ [g]) = len done + 1) by (rewrite len_app; unfold len; cbn [List.length]; lia).
      rewrite <- Hdg.
      rewrite IH; [|cbn in Hfuel; lia|lia|lia|lia].
      destruct (flat_map_out (multiple_spec mt gd subs) rest) as [b| | |]; cbn [bind]; try reflexivity.
      rewrite <- !app_assoc. cbn [app]. f_equal. f_equal. rewrite len_cons. lia. }
    destruct (match_glyph mt gd (g_id g)) eqn:EP; [|cbn [bind]; apply Hnone; reflexivity].
    rewrite multiplesubst_mid. unfold multi_expand.
    destruct (first_subtable (fun s => cov_indexed (ms_cov s) (ms_seqs s) (g_id g)) subs) as [[[|first sq]|]| | |] eqn:Ef;
      cbn [bind]; try reflexivity.
    + (* deletion *)
      rewrite uadd_small by lia. cbn [bind]. rewrite uadd_small by lia. cbn [bind].
      rewrite usub_small by lia. cbn [bind].
      replace (len done + 0) with (len done) by lia.
      rewrite IH; [|cbn in Hfuel; lia|lia|lia|lia].
      destruct (flat_map_out (multiple_spec mt gd subs) rest) as [b| | |]; cbn [bind app]; try reflexivity.
      f_equal. f_equal. lia.
    + (* expansion *)
      pose proof (first_seq_small subs (g_id g) _ Hsmall Ef) as Hsq. rewrite len_cons in Hsq.
      pose proof (len_nonneg sq).
      rewrite len_cons. rewrite uadd_small by lia. cbn [bind]. rewrite uadd_small by lia. cbn [bind].
      rewrite usub_small by lia. cbn [bind].
      set (g0 := set_id g first). set (dups := map (dup_glyph g0) sq).
      replace (done ++ g0 :: dups ++ rest ++ post) with ((done ++ g0 :: dups) ++ rest ++ post)
        by (rewrite <- app_assoc; reflexivity).
      assert (Hld : len (done ++ g0 :: dups) = len done + (1 + len sq)).
      { rewrite len_app, len_cons. unfold dups, len. rewrite map_length. lia. }
      rewrite <- Hld.
      rewrite IH; [|cbn in Hfuel; lia|lia|lia|lia].
      destruct (flat_map_out (multiple_spec mt gd subs) rest) as [b| | |]; cbn [bind]; try reflexivity.
      rewrite <- !app_assoc. cbn [app]. f_equal. f_equal.
      rewrite len_cons, len_app. unfold dups, len. rewrite map_length. lia.
    + (* no subtable covers the glyph *)
      apply Hnone. reflexivity.
Qed.

(* type 2 over a window that lies inside the run: every glyph of the window is replaced by its expansion *)
Theorem multiple_lookup_spec : forall m lks gd li tag alt gs start length lk subs,
  get_lookup lks li = Ok lk -> lk_body lk = LMultiple subs -> seqs_small subs ->
  0 <= start -> 0 <= length -> start + length <= len gs -> 65537 * (len gs + 1) < USIZE ->
  let mt := from_lookup_flag (lk_flag lk) (lk_mfs lk) in
  gsub_apply_lookup m (Some lks) gd li tag alt gs start length =
  (r <- flat_map_out (multiple_spec mt gd subs) (take length (drop start gs)) ;;
   Ok (take start gs ++ r ++ drop (start + length) gs, len r)).
Proof.
  intros m lks gd li tag alt gs start length lk subs Hlk Hb Hsm H1 H2 H3 H4 mt.
  unfold gsub_apply_lookup. rewrite Hlk. cbn [bind]. rewrite Hb. fold mt.
  pose proof (segments gs start length H1 H2 H3) as Hgs.
  assert (Hs : len (take start gs) = start) by (apply len_take; lia).
  assert (Hw : len (take length (drop start gs)) = length) by (apply len_take; rewrite len_drop; lia).
  assert (Hp : len (drop (start + length) gs) = len gs - (start + length)) by (apply len_drop; lia).
  set (a := take start gs) in *. set (w := take length (drop start gs)) in *. set (p := drop (start + length) gs) in *.
  assert (Hfuel : (List.length w < loop_fuel gs)%nat).
  { unfold loop_fuel. rewrite Hgs, !app_length. lia. }
  transitivity (multiple_loop (loop_fuel gs) m mt gd subs (a ++ w ++ p) start (len a) length).
  { rewrite <- Hgs, Hs. reflexivity. }
  rewrite multiple_loop_spec; try assumption; try lia.
  destruct (flat_map_out _ _) as [r| | |]; cbn [bind]; try reflexivity. f_equal. f_equal. lia.
Qed.

(* every glyph a multiple substitution produces carries the characters of the glyph it replaces *)
Theorem multiple_replicates_characters : forall subs g out,
  multi_expand subs g = Ok out -> Forall (fun o => g_chars o = g_chars g) out.
Proof.
  intros subs g out. unfold multi_expand.
  destruct (first_subtable _ subs) as [[[|first rest]|]| | |]; cbn [bind]; intros H; inversion H; subst.
  - constructor.
  - constructor; [reflexivity|]. apply Forall_forall. intros o Ho. apply in_map_iff in Ho.
    destruct Ho as (id & <- & _). reflexivity.
  - constructor; [reflexivity|constructor].
Qed.

(* ------------------------------------------------------------------ (d) lookup ordering *)
Definition keys (mp : list (Z * Z)) : list Z := map fst mp.

Lemma bt_insert_keys_in k v mp x : In x (keys (bt_insert k v mp)) <-> x = k \/ In x (keys mp).
Proof.
  unfold keys. induction mp as [|[k' v'] mp IH]; cbn [bt_insert map In fst].
  - intuition congruence.
  - destruct (k <? k') eqn:E1; [cbn [map In fst]; intuition congruence|].
    destruct (k =? k') eqn:E2; cbn [map In fst].
    + assert (k = k') by lia. subst. intuition congruence.
    + rewrite IH. intuition congruence.
Qed.

Lemma strictly_sorted_cons_lt x l : strictly_sorted l -> (forall y, In y l -> x < y) -> strictly_sorted (x :: l).
Proof.
  intros Hs Hlt. destruct l as [|y l]; cbn; [tauto|]. split; [apply Hlt; left; reflexivity|exact Hs].
Qed.

Lemma strictly_sorted_tail x l : strictly_sorted (x :: l) -> strictly_sorted l.
Proof. cbn. tauto. Qed.

Lemma bt_insert_sorted k v mp : strictly_sorted (keys mp) -> strictly_sorted (keys (bt_insert k v mp)).
Proof.
  unfold keys. induction mp as [|[k' v'] mp IH]; intros Hs; cbn [bt_insert map fst].
  - cbn. tauto.
  - destruct (k <? k') eqn:E1.
    + cbn [map fst]. apply strictly_sorted_cons_lt; [exact Hs|].
      intros y [<-|Hy]; [lia|]. pose proof (strictly_sorted_lt k' _ Hs y Hy). lia.
    + destruct (k =? k') eqn:E2.
      * assert (k = k') by lia. subst. exact Hs.
      * cbn [map fst]. apply strictly_sorted_cons_lt.
        -- apply IH. exact (strictly_sorted_tail _ _ Hs).
        -- intros y Hy. apply (bt_insert_keys_in k v mp y) in Hy. destruct Hy as [->|Hy]; [lia|].
           exact (strictly_sorted_lt k' _ Hs y Hy).
Qed.

Lemma bt_extend_sorted ks v mp : strictly_sorted (keys mp) -> strictly_sorted (keys (bt_extend ks v mp)).
Proof.
  unfold bt_extend. revert mp; induction ks as [|k ks IH]; intros mp Hs; cbn [fold_left]; [exact Hs|].
  apply IH. apply bt_insert_sorted. exact Hs.
Qed.

Lemma bt_extend_keys_in ks v mp x : In x (keys (bt_extend ks v mp)) <-> In x ks \/ In x (keys mp).
Proof.
  unfold bt_extend. revert mp; induction ks as [|k ks IH]; intros mp; cbn [fold_left In]; [tauto|].
  rewrite IH, bt_insert_keys_in. intuition.
Qed.

(* tags recorded in the map are tags of enabled features *)
Lemma bt_insert_vals k v mp x : In x (map snd (bt_insert k v mp)) -> x = v \/ In x (map snd mp).
Proof.
  induction mp as [|[k' v'] mp IH]; cbn [bt_insert map In snd]; [intuition congruence|].
  destruct (k <? k'); [cbn [map In snd]; intuition congruence|]. destruct (k =? k'); cbn [map In snd]; [intuition congruence|].
  intros [H|H]; [intuition congruence|]. apply IH in H. intuition congruence.
Qed.

Lemma bt_extend_vals ks v mp x : In x (map snd (bt_extend ks v mp)) -> x = v \/ In x (map snd mp).
Proof.
  unfold bt_extend. revert mp; induction ks as [|k ks IH]; intros mp; cbn [fold_left]; [tauto|].
  intros H. apply IH in H. destruct H as [H|H]; [tauto|]. apply bt_insert_vals in H. tauto.
Qed.

(* the lookups an enabled (non-rvrn) feature contributes *)
Definition contributes (t : layout_table) (ls : langsys) (feature_tags : list (Z * option Z)) (k : Z) : Prop :=
  exists tag alt idx, In (tag, alt) feature_tags /\ tag <> TAG_EARLY /\
                      find_langsys_feature t ls tag = Ok (Some idx) /\ In k idx.

Lemma build_lookups_custom_spec t ls : forall feature_tags rvrn mp rvrn' mp',
  build_lookups_custom t ls feature_tags rvrn mp = Ok (rvrn', mp') ->
  strictly_sorted (keys mp) ->
  strictly_sorted (keys mp') /\
  (forall k, In k (keys mp') <-> In k (keys mp) \/ contributes t ls feature_tags k) /\
  (forall tg, In tg (map snd mp') -> In tg (map snd mp) \/ In tg (map fst feature_tags)).
Proof.
  induction feature_tags as [|[tag alt] rest IH]; intros rvrn mp rvrn' mp' H Hs; cbn [build_lookups_custom] in H.
  - inversion H; subst. split; [exact Hs|]. split; [|tauto].
    intros k. split; [tauto|]. intros [Hk|(tag & alt & idx & [] & _)]. exact Hk.
  - destruct (find_langsys_feature t ls tag) as [[idx|]| | |] eqn:Ef; cbn [bind] in H; try discriminate.
    + destruct (tag =? TAG_EARLY) eqn:Et.
      * destruct (IH _ _ _ _ H Hs) as (S1 & S2 & S3). split; [exact S1|]. split.
        -- intros k. rewrite S2. split; intros [Hk|Hk]; try tauto.
           ++ right. destruct Hk as (tg & al & ix & Hin & Hne & Hf & Hk). exists tg, al, ix. repeat split; try assumption. right; exact Hin.
           ++ destruct Hk as (tg & al & ix & [Heq|Hin] & Hne & Hf & Hk).
              ** inversion Heq; subst. lia.
              ** right. exists tg, al, ix. repeat split; assumption.
        -- intros tg Htg. apply S3 in Htg. cbn [map fst In]. tauto.
      * pose proof (bt_extend_sorted idx tag mp Hs) as Hs2.
        destruct (IH _ _ _ _ H Hs2) as (S1 & S2 & S3). split; [exact S1|]. split.
        -- intros k. rewrite S2, bt_extend_keys_in. split.
           ++ intros [[Hk|Hk]|Hk]; try tauto.
              ** right. exists tag, alt, idx. repeat split; try assumption; [left; reflexivity|lia].
              ** right. destruct Hk as (tg & al & ix & Hin & Hne & Hf & Hk). exists tg, al, ix. repeat split; try assumption. right; exact Hin.
           ++ intros [Hk|(tg & al & ix & [Heq|Hin] & Hne & Hf & Hk)]; try tauto.
              ** inversion Heq; subst. rewrite Ef in Hf. inversion Hf; subst. tauto.
              ** right. exists tg, al, ix. repeat split; assumption.
        -- intros tg Htg. apply S3 in Htg. cbn [map fst In]. destruct Htg as [Htg|Htg]; [|tauto].
           apply bt_extend_vals in Htg. intuition congruence.
    + destruct (IH _ _ _ _ H Hs) as (S1 & S2 & S3). split; [exact S1|]. split.
      * intros k. rewrite S2. split; intros [Hk|Hk]; try tauto.
        -- right. destruct Hk as (tg & al & ix & Hin & Hne & Hf & Hk). exists tg, al, ix. repeat split; try assumption. right; exact Hin.
        -- destruct Hk as (tg & al & ix & [Heq|Hin] & Hne & Hf & Hk).
           ++ inversion Heq; subst. rewrite Ef in Hf. discriminate.
           ++ right. exists tg, al, ix. repeat split; assumption.
      * intros tg Htg. apply S3 in Htg. cbn [map fst In]. tauto.
Qed.

(* Enabled features' lookups are applied in ascending lookup-list index, each once: the list handed to
   apply_lookups_custom (which walks it front to back) is strictly increasing in the lookup index and holds
   exactly the indices contributed by the enabled features found in the language system. *)
Theorem lookups_applied_in_list_order : forall t ls feature_tags rvrn lks,
  build_lookups_custom t ls feature_tags None [] = Ok (rvrn, lks) ->
  strictly_sorted (map fst lks) /\
  (forall k, In k (map fst lks) <-> contributes t ls feature_tags k) /\
  (forall tg, In tg (map snd lks) -> In tg (map fst feature_tags)).
Proof.
  intros t ls feature_tags rvrn lks H.
  destruct (build_lookups_custom_spec t ls feature_tags None [] rvrn lks H) as (S1 & S2 & S3); [cbn; tauto|].
  split; [exact S1|]. split.
  - intros k. rewrite (S2 k). cbn. tauto.
  - intros tg Htg. apply S3 in Htg. cbn in Htg. tauto.
Qed.

Lemma strictly_sorted_NoDup l : strictly_sorted l -> NoDup l.
Proof.
  induction l as [|x l IH]; intros Hs; constructor.
  - intros Hin. pose proof (strictly_sorted_lt x l Hs x Hin). lia.
  - apply IH. exact (strictly_sorted_tail _ _ Hs).
Qed.

(* ------------------------------------------------------------------ (d) Features::Mask path *)
(* the lookups a mask bit contributes: the feature of its tag, or — for vrt2 — the vert feature when the
   language system has no vrt2 *)
Definition contributes_mask (t : layout_table) (ls : langsys) (mask : Z) (tbl : list (Z * Z)) (k : Z) : Prop :=
  exists bit tag idx, In (bit, tag) tbl /\ Z.testbit mask bit = true /\ In k idx /\
    (find_langsys_feature t ls tag = Ok (Some idx) \/
     (find_langsys_feature t ls tag = Ok None /\ tag = TAG_MASK_FALLBACK_FROM /\
      find_langsys_feature t ls TAG_MASK_FALLBACK_TO = Ok (Some idx))).

Lemma build_lookups_default_spec t ls mask : forall tbl mp mp',
  build_lookups_default t ls mask tbl mp = Ok mp' -> strictly_sorted (keys mp) ->
  strictly_sorted (keys mp') /\
  (forall k, In k (keys mp') <-> In k (keys mp) \/ contributes_mask t ls mask tbl k).
Proof.
  induction tbl as [|[bit tag] tbl IH]; intros mp mp' H Hs; cbn [build_lookups_default] in H.
  - inversion H; subst. split; [exact Hs|]. intros k. split; [tauto|].
    intros [Hk|(b & tg & idx & [] & _)]. exact Hk.
  - assert (Hskip : forall mp1, build_lookups_default t ls mask tbl mp1 = Ok mp' -> strictly_sorted (keys mp1) ->
              (forall k, In k (keys mp1) <-> In k (keys mp) \/
                 (exists idx, In k idx /\ Z.testbit mask bit = true /\
                    (find_langsys_feature t ls tag = Ok (Some idx) \/
                     (find_langsys_feature t ls tag = Ok None /\ tag = TAG_MASK_FALLBACK_FROM /\
                      find_langsys_feature t ls TAG_MASK_FALLBACK_TO = Ok (Some idx))))) ->
              strictly_sorted (keys mp') /\
              (forall k, In k (keys mp') <-> In k (keys mp) \/ contributes_mask t ls mask ((bit, tag) :: tbl) k)).
    { intros mp1 Hb Hs1 Hk1. destruct (IH mp1 mp' Hb Hs1) as [S1 S2]. split; [exact S1|].
      intros k. rewrite S2, Hk1. split.
      - intros [[Hk|(idx & Hin & Hbit & Hf)]|(b & tg & idx & Hin & Hbit & Hki & Hf)].
        + left; exact Hk.
        + right. exists bit, tag, idx. repeat split; try assumption. left; reflexivity.
        + right. exists b, tg, idx. repeat split; try assumption. right; exact Hin.
      - intros [Hk|(b & tg & idx & [Heq|Hin] & Hbit & Hki & Hf)].
        + left; left; exact Hk.
        + inversion Heq; subst b tg. left; right. exists idx. repeat split; assumption.
        + right. exists b, tg, idx. repeat split; assumption. }
    destruct (Z.testbit mask bit) eqn:Eb.
    + destruct (find_langsys_feature t ls tag) as [[idx|]|e| |] eqn:Ef; cbn [bind] in H; try discriminate.
      * apply (Hskip (bt_extend idx tag mp) H (bt_extend_sorted idx tag mp Hs)).
        intros k. rewrite bt_extend_keys_in. split.
        -- intros [Hk|Hk]; [right; exists idx; repeat split; try assumption; left; reflexivity|left; exact Hk].
        -- intros [Hk|(idx' & Hin & _ & [Hf|(Hf & _)])]; [right; exact Hk| |congruence].
           inversion Hf; subst idx'. left; exact Hin.
      * destruct (tag =? TAG_MASK_FALLBACK_FROM) eqn:Et.
        -- destruct (find_langsys_feature t ls TAG_MASK_FALLBACK_TO) as [[idx|]|e| |] eqn:Ef2; cbn [bind] in H; try discriminate.
           ++ apply (Hskip (bt_extend idx TAG_MASK_FALLBACK_TO mp) H (bt_extend_sorted idx _ mp Hs)).
              intros k. rewrite bt_extend_keys_in. split.
              ** intros [Hk|Hk]; [|left; exact Hk]. right. exists idx. repeat split; try assumption.
                 right. repeat split; lia.
              ** intros [Hk|(idx' & Hin & _ & [Hf|(_ & _ & Hf)])]; [right; exact Hk|congruence|].
                 inversion Hf; subst idx'. left; exact Hin.
           ++ apply (Hskip mp H Hs). intros k. split; [tauto|].
              intros [Hk|(idx' & _ & _ & [Hf|(_ & _ & Hf)])]; [exact Hk|congruence|congruence].
        -- apply (Hskip mp H Hs). intros k. split; [tauto|].
           intros [Hk|(idx' & _ & _ & [Hf|(_ & Ht & _)])]; [exact Hk|congruence|lia].
    + apply (Hskip mp H Hs). intros k. split; [tauto|].
      intros [Hk|(idx' & _ & Hbit & _)]; [exact Hk|discriminate].
Qed.

(* Features::Mask: the list gsub_apply_default walks is strictly increasing in the lookup index (each lookup once,
   however many enabled features list it) and holds exactly the lookups of the enabled features the language
   system resolves *)
Theorem mask_lookups_applied_in_list_order : forall t script lang mask lks,
  lookups_for_mask t script lang mask = Ok lks ->
  strictly_sorted (map fst lks) /\
  (forall s ls, find_script_or_default t script = Some s -> find_langsys_or_default s lang = Some ls ->
     forall k, In k (map fst lks) <-> contributes_mask t ls mask FEATURE_MASKS k).
Proof.
  intros t script lang mask lks H. unfold lookups_for_mask in H.
  destruct (find_script_or_default t script) as [s|]; [|inversion H; subst; split; [exact I|intros s0 ls0 Hs; discriminate Hs]].
  destruct (find_langsys_or_default s lang) as [ls|] eqn:El;
    [|inversion H; subst; split; [exact I|intros s0 ls0 Hs Hl; inversion Hs; subst s0; rewrite El in Hl; discriminate Hl]].
  destruct (build_lookups_default_spec t ls mask FEATURE_MASKS [] lks H I) as [S1 S2].
  split; [exact S1|]. intros s0 ls0 Hs Hl k. inversion Hs; subst s0. rewrite El in Hl. inversion Hl; subst ls0. rewrite (S2 k). cbn [keys map In]. tauto.
Qed.
