(* Proofs/FvarTableProofs.v — lemmas behind the byte-level part of Props/C13.v: FvarTable::read on a
   table laid out with any axesArrayOffset >= 16, any axisSize >= 20, instance records and trailing
   bytes finds exactly the axis records that were written (the strided ReadArray steps by axisSize),
   so FvarTable::normalize / variations::instance on the bytes is the arithmetic model on the axes. *)
From AV Require Import Base.Prelude Base.Lemmas Gen.ReaderPrims Model.Reader Model.ReaderExt
  Model.Normalize Model.FvarTable Proofs.ReaderProofs Proofs.EncodeProofs Proofs.NormalizeProofs.
From Coq Require Import ZifyBool ZifyNat.
Ltac Zify.zify_post_hook ::= Z.div_mod_to_equations.
Open Scope Z_scope.

(* ---------- the pieces of the layout *)
Lemma len_map {A B} (f : A -> B) l : len (map f l) = len l.
Proof. unfold len. rewrite map_length. reflexivity. Qed.

Lemma len_pad k n : len (pad k n) = Z.max 0 n.
Proof. unfold pad. rewrite len_map. unfold len. rewrite range_length. lia. Qed.

Lemma pad_ok k n : bytes_ok (pad k n) = true.
Proof.
  unfold pad, bytes_ok. rewrite forallb_forall. intros x Hx. rewrite in_map_iff in Hx.
  destruct Hx as [i [<- _]]. unfold byte_ok. lia.
Qed.

Lemma u16b_enc v : u16b v = enc_prim PU16 (v mod 65536).
Proof. reflexivity. Qed.
Lemma u32b_enc v : u32b v = enc_prim PU32 (v mod 4294967296).
Proof. reflexivity. Qed.
Lemma len_u16b v : len (u16b v) = 2.
Proof. unfold u16b. rewrite len_be_bytes. reflexivity. Qed.
Lemma len_u32b v : len (u32b v) = 4.
Proof. unfold u32b. rewrite len_be_bytes. reflexivity. Qed.
Lemma u16b_ok v : bytes_ok (u16b v) = true.
Proof. apply be_bytes_ok. Qed.
Lemma u32b_ok v : bytes_ok (u32b v) = true.
Proof. apply be_bytes_ok. Qed.

Lemma u16_val_ok v : prim_val_ok PU16 (v mod 65536).
Proof. split; [reflexivity|]. change (256 ^ spec_size PU16) with 65536. lia. Qed.

(* decoding one field off the front *)
Lemma decode_ty_cons p t x rest : len x = spec_size p ->
  decode_ty (p :: t) (x ++ rest) = decode_prim p x :: decode_ty t rest.
Proof.
  intros H. cbn [decode_ty]. rewrite <- H. rewrite take_app_exact, drop_app_exact. reflexivity.
Qed.

Lemma decode_u32b v : 0 <= v < 4294967296 -> decode_prim PU32 (u32b v) = v.
Proof.
  intros H. unfold decode_prim, u32b. cbn [prim_signed]. rewrite be_val_be_bytes_mod.
  change (256 ^ Z.of_nat 4) with 4294967296. lia.
Qed.
Lemma decode_i32b v : -2147483648 <= v <= 2147483647 -> decode_prim PI32 (u32b v) = v.
Proof.
  intros H. unfold decode_prim, u32b. cbn [prim_signed spec_size]. rewrite be_val_be_bytes_mod.
  change (256 ^ Z.of_nat 4) with 4294967296. change (8 * 4) with 32.
  unfold to_signed. change (2 ^ 32) with 4294967296. change (2 ^ (32 - 1)) with 2147483648.
  rewrite !Z.mod_mod by lia.
  destruct (Z.ltb_spec (v mod 4294967296) 2147483648); lia.
Qed.
Lemma decode_u16b v : decode_prim PU16 (u16b v) = v mod 65536.
Proof.
  unfold decode_prim, u16b. cbn [prim_signed]. rewrite be_val_be_bytes_mod.
  change (256 ^ Z.of_nat 2) with 65536. lia.
Qed.

(* ---------- the axis records *)
Definition axis4_ok (a : axis4) : Prop :=
  let '(tg, mn, df, mx) := a in 0 <= tg < 4294967296 /\ i32_ok mn /\ i32_ok df /\ i32_ok mx.

Lemma len_enc_axis asz i a : 20 <= asz -> len (enc_axis asz i a) = asz.
Proof.
  intros H. destruct a as [[[tg mn] df] mx]. unfold enc_axis.
  rewrite !len_app, !len_u32b, !len_u16b, len_pad. lia.
Qed.

Lemma enc_axis_ok asz i a : bytes_ok (enc_axis asz i a) = true.
Proof.
  destruct a as [[[tg mn] df] mx]. unfold enc_axis.
  rewrite !bytes_ok_app, !u32b_ok, !u16b_ok, pad_ok. reflexivity.
Qed.

Lemma len_enc_axes asz : 20 <= asz -> forall axes i, len (enc_axes asz i axes) = len axes * asz.
Proof.
  intros H. induction axes as [|a r IH]; intros i; [reflexivity|].
  cbn [enc_axes]. rewrite len_app, len_enc_axis, IH, len_cons by assumption. lia.
Qed.

Lemma enc_axes_ok asz : forall axes i, bytes_ok (enc_axes asz i axes) = true.
Proof.
  induction axes as [|a r IH]; intros i; [reflexivity|].
  cbn [enc_axes]. rewrite bytes_ok_app, enc_axis_ok, IH. reflexivity.
Qed.

(* the first 20 bytes of a cell decode to the record that was written *)
Lemma decode_enc_axis asz i a rest : 20 <= asz -> axis4_ok a ->
  decode_ty axis_ty (take 20 (enc_axis asz i a ++ rest)) =
  let '(tg, mn, df, mx) := a in [tg; mn; df; mx; 0; (256 + i) mod 65536].
Proof.
  intros Hs Ha. destruct a as [[[tg mn] df] mx]. destruct Ha as [Ht [Hmn [Hdf Hmx]]].
  unfold i32_ok in *. unfold enc_axis. rewrite <- !app_assoc.
  set (tail := pad i (asz - 20) ++ rest).
  replace (take 20 (u32b tg ++ u32b mn ++ u32b df ++ u32b mx ++ u16b 0 ++ u16b (256 + i) ++ tail))
    with (u32b tg ++ u32b mn ++ u32b df ++ u32b mx ++ u16b 0 ++ u16b (256 + i)).
  - unfold axis_ty.
    rewrite decode_ty_cons by apply len_u32b. rewrite decode_u32b by lia.
    rewrite decode_ty_cons by apply len_u32b. rewrite decode_i32b by lia.
    rewrite decode_ty_cons by apply len_u32b. rewrite decode_i32b by lia.
    rewrite decode_ty_cons by apply len_u32b. rewrite decode_i32b by lia.
    rewrite decode_ty_cons by apply len_u16b. rewrite decode_u16b.
    rewrite <- (app_nil_r (u16b (256 + i))).
    rewrite decode_ty_cons by apply len_u16b. rewrite decode_u16b. reflexivity.
  - set (x := u32b tg ++ u32b mn ++ u32b df ++ u32b mx ++ u16b 0 ++ u16b (256 + i)).
    assert (len x = 20) as Hl by (unfold x; rewrite !len_app, !len_u32b, !len_u16b; reflexivity).
    replace (u32b tg ++ u32b mn ++ u32b df ++ u32b mx ++ u16b 0 ++ u16b (256 + i) ++ tail) with (x ++ tail)
      by (unfold x; rewrite <- !app_assoc; reflexivity).
    rewrite <- Hl. symmetry. apply take_app_exact.
Qed.

(* cell k of the records array *)
Lemma drop_enc_axes asz : 20 <= asz -> forall axes (k : nat) i rest, (k < length axes)%nat ->
  exists rest', drop (Z.of_nat k * asz) (enc_axes asz i axes ++ rest) =
                enc_axis asz (i + Z.of_nat k) (nth k axes (0, 0, 0, 0)) ++ rest'.
Proof.
  intros Hs. induction axes as [|a r IH]; intros k i rest Hk; cbn [length] in Hk; [lia|].
  cbn [enc_axes]. rewrite <- app_assoc. destruct k as [|k].
  - cbn [nth]. rewrite Z.mul_0_l, drop_0, Z.add_0_r. eauto.
  - cbn [nth]. replace (Z.of_nat (S k) * asz) with (Z.of_nat k * asz + asz) by lia.
    rewrite <- drop_drop by lia.
    assert (forall x y : list Z, len x = asz -> drop asz (x ++ y) = y) as Hd
      by (intros x y <-; apply drop_app_exact).
    rewrite Hd by (apply len_enc_axis; assumption).
    destruct (IH k (i + 1) rest ltac:(lia)) as [rest' Hr]. exists rest'. rewrite Hr.
    replace (i + 1 + Z.of_nat k) with (i + Z.of_nat (S k)) by lia. reflexivity.
Qed.

(* ---------- FvarTable::read on the layout: header, gap, records, instance records, trailing bytes *)
Definition hdr (major ao count asz icnt isz : Z) : list Z :=
  u16b major ++ u16b 0 ++ u16b ao ++ u16b 2 ++ u16b count ++ u16b asz ++ u16b icnt ++ u16b isz.

Definition hdr_ty : ty := [PU16; PU16; PU16; PU16; PU16; PU16; PU16].

Lemma hdr_enc ao n asz icnt isz :
  0 <= ao < 65536 -> 0 <= n < 65536 -> 0 <= asz < 65536 -> 0 <= icnt < 65536 -> 0 <= isz < 65536 ->
  hdr 1 ao n asz icnt isz = enc_prim PU16 1 ++ enc_seq hdr_ty [0; ao; 2; n; asz; icnt; isz].
Proof.
  intros. unfold hdr, u16b, hdr_ty. rewrite !Z.mod_small by lia. cbn [enc_seq]. rewrite app_nil_r. reflexivity.
Qed.

Lemma hdr_seq_ok ao n asz icnt isz :
  0 <= ao < 65536 -> 0 <= n < 65536 -> 0 <= asz < 65536 -> 0 <= icnt < 65536 -> 0 <= isz < 65536 ->
  seq_ok hdr_ty [0; ao; 2; n; asz; icnt; isz].
Proof.
  intros. unfold hdr_ty. cbn [seq_ok]. unfold prim_val_ok. change (256 ^ spec_size PU16) with 65536.
  cbn [prim_signed]. repeat split; lia.
Qed.

Lemma len_hdr major ao n asz icnt isz : len (hdr major ao n asz icnt isz) = 16.
Proof. unfold hdr. rewrite !len_app, !len_u16b. reflexivity. Qed.

Lemma hdr_ok major ao n asz icnt isz : bytes_ok (hdr major ao n asz icnt isz) = true.
Proof. unfold hdr. rewrite !bytes_ok_app, !u16b_ok. reflexivity. Qed.

Lemma take_len_app (x y : list Z) n : len x = n -> take n (x ++ y) = x.
Proof. intros <-. apply take_app_exact. Qed.
Lemma drop_len_app (x y : list Z) n : len x = n -> drop n (x ++ y) = y.
Proof. intros <-. apply drop_app_exact. Qed.

Lemma fvar_read_layout m ao n asz icnt isz gap recs inst trail :
  0 <= n < 65536 -> 20 <= asz < 65536 -> 0 <= icnt < 65536 -> 0 <= isz < 65536 ->
  ao = 16 + len gap -> ao < 65536 ->
  len recs = n * asz -> len inst = icnt * isz -> len trail < 4294967296 ->
  bytes_ok gap = true -> bytes_ok recs = true -> bytes_ok inst = true -> bytes_ok trail = true ->
  fvar_read m (hdr 1 ao n asz icnt isz ++ gap ++ recs ++ inst ++ trail) =
  Ok {| f_axes := {| a_sc := {| base := ao; data := recs |}; a_len := n; a_stride := asz; a_ty := axis_ty |};
        f_icount := icnt; f_isize := isz; f_inst := inst |}.
Proof.
  intros Hn Hasz Hicnt Hisz Hoff Hoff2 Hlr Hli Hlt Bg Br Bi Bt.
  pose proof (len_nonneg gap) as Hg0. pose proof (len_nonneg trail) as Ht0.
  set (b := hdr 1 ao n asz icnt isz ++ gap ++ recs ++ inst ++ trail).
  assert (len b = ao + n * asz + icnt * isz + len trail) as Hlb.
  { unfold b. rewrite !len_app, len_hdr. lia. }
  assert (bytes_ok b = true) as Bb.
  { unfold b. rewrite !bytes_ok_app, hdr_ok, Bg, Br, Bi, Bt. reflexivity. }
  assert (0 <= n * asz) as Hna by nia. assert (0 <= icnt * isz) as Hii by nia.
  assert (n * asz < 4294967296) as Hna2 by nia. assert (icnt * isz < 4294967296) as Hii2 by nia.
  assert (len b < USIZE) as Hlb2 by (unfold USIZE; lia).
  unfold fvar_read.
  set (s := scope_new b). set (c0 := ctxt_new s).
  assert (cinv c0) as Hc0 by (unfold cinv, sinv, c0, s, ctxt_new, scope_new, dlen; cbn [off sc data]; lia).
  (* major version *)
  assert (drop (off c0) (data (sc c0)) =
          enc_prim PU16 1 ++ (enc_seq hdr_ty [0; ao; 2; n; asz; icnt; isz] ++ gap ++ recs ++ inst ++ trail)) as Hd0.
  { unfold c0, s, ctxt_new, scope_new; cbn [off sc data]. rewrite drop_0. unfold b.
    rewrite hdr_enc by lia. rewrite <- app_assoc. reflexivity. }
  destruct (read_prim_chain PU16 c0 1 _ Hc0 Bb ltac:(split; [reflexivity|cbv; split; congruence]) Hd0)
    as [c1 [R1 [Hc1 [Hs1 Hd1]]]].
  rewrite R1. cbn [bind]. cbv beta iota. change (negb (1 =? 1)) with false. cbv iota.
  (* the other seven header fields *)
  assert (bytes_ok (data (sc c1)) = true) as Bb1 by (rewrite Hs1; exact Bb).
  destruct (read_seq_chain hdr_ty c1 [0; ao; 2; n; asz; icnt; isz] _ Hc1 Bb1
              ltac:(apply hdr_seq_ok; lia) Hd1) as [c2 [R2 _]].
  fold hdr_ty. rewrite R2. cbn [bind]. cbv beta iota.
  change (nthZ [0; ao; 2; n; asz; icnt; isz] 1) with ao.
  change (nthZ [0; ao; 2; n; asz; icnt; isz] 3) with n.
  change (nthZ [0; ao; 2; n; asz; icnt; isz] 4) with asz.
  change (nthZ [0; ao; 2; n; asz; icnt; isz] 5) with icnt.
  change (nthZ [0; ao; 2; n; asz; icnt; isz] 6) with isz.
  unfold umul. replace (icnt * isz <? USIZE) with true by (unfold USIZE; lia). cbn [bind].
  (* scope.offset(axesArrayOffset) *)
  assert (drop ao b = recs ++ inst ++ trail) as Hdb.
  { unfold b. rewrite (app_assoc (hdr 1 ao n asz icnt isz) gap). apply drop_len_app.
    rewrite len_app, len_hdr. lia. }
  unfold scope_offset, wadd. cbn [bind]. unfold s at 1 2, scope_new. cbn [base data].
  rewrite slice_from_drop by lia. rewrite Hdb. rewrite Z.mod_small by (unfold USIZE; lia).
  rewrite Z.add_0_l.
  (* read_array_stride(axisCount, axisSize) *)
  unfold read_array_stride. change (ty_size axis_ty) with 20.
  replace (asz <? 20) with false by lia.
  unfold cmul. replace (n * asz <? USIZE) with true by (unfold USIZE; lia). cbn [bind].
  set (s' := {| base := ao; data := recs ++ inst ++ trail |}).
  assert (dlen s' = n * asz + icnt * isz + len trail) as Hds'
    by (unfold dlen, s'; cbn [data]; rewrite !len_app; lia).
  assert (base s' = ao) as Hbs' by reflexivity.
  change (ctxt_new s') with {| sc := s'; off := 0 |}.
  unfold read_scope at 1. cbn [sc off].
  rewrite offset_length_complete by (rewrite ?Hbs'; unfold USIZE; lia).
  unfold uadd. replace (0 + n * asz <? USIZE) with true by (unfold USIZE; lia). cbn [bind]. cbv beta iota.
  (* read_slice(instanceCount * instanceSize) *)
  unfold read_slice, read_scope. cbn [sc off].
  rewrite offset_length_complete by (rewrite ?Hbs'; unfold USIZE; lia).
  unfold uadd. replace (0 + n * asz + icnt * isz <? USIZE) with true by (unfold USIZE; lia). cbn [bind]. cbv beta iota.
  cbn [data]. rewrite Hbs'. change (data s') with (recs ++ inst ++ trail).
  rewrite drop_0, Z.add_0_r. rewrite (take_len_app recs (inst ++ trail) (n * asz) Hlr).
  rewrite Z.add_0_l. rewrite (drop_len_app recs (inst ++ trail) (n * asz) Hlr).
  rewrite (take_len_app inst trail (icnt * isz) Hli).
  reflexivity.
Qed.

(* ---------- FvarTable::axes() over the strided array: the records that were written, in order *)
Definition axes_array (ao asz : Z) (axes : list axis4) : rarray :=
  {| a_sc := {| base := ao; data := enc_axes asz 0 axes |}; a_len := len axes; a_stride := asz; a_ty := axis_ty |}.

Lemma axes_array_items m ao asz axes :
  0 <= ao < 65536 -> 20 <= asz < 65536 -> len axes < 65536 -> Forall axis4_ok axes ->
  v <- arr_to_vec m (axes_array ao asz axes) ;; Ok (map axis_triple v) = Ok (map axis4_triple axes).
Proof.
  intros Hao Hasz Hn Hok. pose proof (len_nonneg axes) as Hn0.
  assert (len (enc_axes asz 0 axes) = len axes * asz) as Hl by (apply len_enc_axes; lia).
  assert (window_ok (axes_array ao asz axes)) as Hw.
  { unfold window_ok, axes_array, dlen. cbn [a_sc a_len a_stride a_ty base data].
    change (ty_size axis_ty) with 20. rewrite Hl, enc_axes_ok. unfold USIZE. repeat split; try lia; nia. }
  rewrite (arr_to_vec_exact m _ Hw). cbn [bind]. f_equal. rewrite map_map.
  unfold axes_array at 2. cbn [a_len]. unfold len. rewrite Nat2Z.id.
  rewrite <- (map_length axis4_triple axes).
  apply (map_range_nth (axis4_triple (0, 0, 0, 0))). rewrite map_length. intros i Hi.
  rewrite map_nth. rewrite Z.add_0_l. unfold item, axes_array. cbn [a_ty a_stride a_sc data].
  change (ty_size axis_ty) with 20.
  destruct (drop_enc_axes asz ltac:(lia) axes i 0 [] Hi) as [rest' Hd]. rewrite app_nil_r in Hd.
  rewrite Hd. rewrite Z.add_0_l.
  assert (axis4_ok (nth i axes (0, 0, 0, 0))) as Ha.
  { rewrite Forall_forall in Hok. apply Hok. apply nth_In. exact Hi. }
  rewrite decode_enc_axis by (assumption || lia).
  destruct (nth i axes (0, 0, 0, 0)) as [[[tg mn] df] mx]. reflexivity.
Qed.

(* ---------- the instance records *)
Lemma len_concat_u32b cs : len (concat (map u32b cs)) = 4 * len cs.
Proof.
  induction cs as [|c r IH]; [reflexivity|]. cbn [map concat]. rewrite len_app, len_u32b, IH, len_cons. lia.
Qed.
Lemma concat_u32b_ok cs : bytes_ok (concat (map u32b cs)) = true.
Proof.
  induction cs as [|c r IH]; [reflexivity|]. cbn [map concat]. rewrite bytes_ok_app, u32b_ok, IH. reflexivity.
Qed.
Lemma len_inst_coords i : forall axes j, len (inst_coords i j axes) = len axes.
Proof. induction axes as [|a r IH]; intros j; [reflexivity|]. cbn [inst_coords]. rewrite !len_cons, IH. reflexivity. Qed.

Definition inst_body (isz : Z) (axes : list axis4) (i : Z) : list Z :=
  u16b (300 + i) ++ u16b 0 ++ concat (map u32b (inst_coords i 0 axes)) ++ pad i (isz - 4 - 4 * len axes).

Lemma len_inst_body isz axes i : len (inst_body isz axes i) = 4 + 4 * len axes + Z.max 0 (isz - 4 - 4 * len axes).
Proof.
  unfold inst_body. rewrite !len_app, !len_u16b, len_concat_u32b, len_inst_coords, len_pad. lia.
Qed.
Lemma inst_body_ok isz axes i : bytes_ok (inst_body isz axes i) = true.
Proof. unfold inst_body. rewrite !bytes_ok_app, !u16b_ok, concat_u32b_ok, pad_ok. reflexivity. Qed.

Lemma len_enc_inst isz axes i : 0 <= isz -> len (enc_inst isz axes i) = isz.
Proof.
  intros H. unfold enc_inst. fold (inst_body isz axes i). apply len_take.
  rewrite len_inst_body. pose proof (len_nonneg axes). lia.
Qed.
Lemma enc_inst_ok isz axes i : bytes_ok (enc_inst isz axes i) = true.
Proof. unfold enc_inst. fold (inst_body isz axes i). apply bytes_ok_take, inst_body_ok. Qed.
(* a record that holds all its coordinates is not cut *)
Lemma enc_inst_full isz axes i : 4 + 4 * len axes <= isz -> enc_inst isz axes i = inst_body isz axes i.
Proof.
  intros H. unfold enc_inst. fold (inst_body isz axes i). apply take_all. rewrite len_inst_body. lia.
Qed.

(* cells of equal size laid end to end *)
Lemma len_cells (f : Z -> list Z) sz : (forall i, len (f i) = sz) ->
  forall n s, len (concat (map f (range s n))) = Z.of_nat n * sz.
Proof.
  intros Hf. induction n as [|n IH]; intros s; [reflexivity|].
  cbn [range map concat]. rewrite len_app, Hf, IH. lia.
Qed.
Lemma cells_ok (f : Z -> list Z) : (forall i, bytes_ok (f i) = true) ->
  forall n s, bytes_ok (concat (map f (range s n))) = true.
Proof.
  intros Hf. induction n as [|n IH]; intros s; [reflexivity|].
  cbn [range map concat]. rewrite bytes_ok_app, Hf, IH. reflexivity.
Qed.
Lemma cell_at (f : Z -> list Z) sz : 0 <= sz -> (forall i, len (f i) = sz) ->
  forall n s k, (k < n)%nat ->
  take sz (drop (Z.of_nat k * sz) (concat (map f (range s n)))) = f (s + Z.of_nat k).
Proof.
  intros Hsz Hf. induction n as [|n IH]; intros s k Hk; [lia|].
  cbn [range map concat]. destruct k as [|k].
  - rewrite Z.mul_0_l, drop_0, Z.add_0_r. apply take_len_app, Hf.
  - replace (Z.of_nat (S k) * sz) with (Z.of_nat k * sz + sz) by lia.
    rewrite <- drop_drop by lia. rewrite (drop_len_app (f s) _ sz (Hf s)).
    rewrite IH by lia. f_equal. lia.
Qed.

Lemma len_enc_insts icnt isz axes : 0 <= icnt -> 0 <= isz -> len (enc_insts icnt isz axes) = icnt * isz.
Proof.
  intros Hc Hs. unfold enc_insts. rewrite (len_cells _ isz) by (intros; apply len_enc_inst; assumption). lia.
Qed.
Lemma enc_insts_ok icnt isz axes : bytes_ok (enc_insts icnt isz axes) = true.
Proof. unfold enc_insts. apply cells_ok. intros. apply enc_inst_ok. Qed.

(* ---------- the table the harness lays out *)
Definition shape_legal (sh : shape) : Prop :=
  sh_major sh = 1 /\ 16 <= sh_off sh < 65536 /\ 20 <= sh_asz sh < 65536 /\ sh_dcount sh = 0 /\
  0 <= sh_icnt sh < 65536 /\ 0 <= sh_isz sh < 65536 /\ 0 <= sh_trail sh < 4294967296.

Lemma fvar_read_encode m sh axes :
  shape_legal sh -> len axes < 65536 ->
  fvar_read m (fvar_encode sh axes) =
  Ok {| f_axes := axes_array (sh_off sh) (sh_asz sh) axes; f_icount := sh_icnt sh; f_isize := sh_isz sh;
        f_inst := enc_insts (sh_icnt sh) (sh_isz sh) axes |}.
Proof.
  intros [Hmaj [Hoff [Hasz [Hdc [Hic [His Htr]]]]]] Hn. pose proof (len_nonneg axes) as Hn0.
  unfold fvar_encode. replace (0 <=? sh_trail sh) with true by lia.
  rewrite Hmaj, Hdc, Z.add_0_r.
  transitivity (fvar_read m (hdr 1 (sh_off sh) (len axes) (sh_asz sh) (sh_icnt sh) (sh_isz sh) ++
                             pad 0 (sh_off sh - 16) ++ enc_axes (sh_asz sh) 0 axes ++
                             enc_insts (sh_icnt sh) (sh_isz sh) axes ++ pad 3 (sh_trail sh))).
  { f_equal. unfold hdr. rewrite <- !app_assoc. reflexivity. }
  unfold axes_array.
  apply fvar_read_layout; try lia.
  - rewrite len_pad. lia.
  - apply len_enc_axes. lia.
  - apply len_enc_insts; lia.
  - rewrite len_pad. lia.
  - apply pad_ok.
  - apply enc_axes_ok.
  - apply enc_insts_ok.
  - apply pad_ok.
Qed.

(* FvarTable::normalize on the bytes = the arithmetic model on the axes that were written *)
Lemma normalize_tbl_encode m ao asz icnt isz inst axes coords avar :
  0 <= ao < 65536 -> 20 <= asz < 65536 -> len axes < 65536 -> Forall axis4_ok axes ->
  fvar_normalize_tbl m {| f_axes := axes_array ao asz axes; f_icount := icnt; f_isize := isz; f_inst := inst |}
                     coords avar
  = fvar_normalize (map axis4_triple axes) coords avar.
Proof.
  intros Hao Hasz Hn Hok.
  unfold fvar_normalize_tbl, fvar_normalize, fvar_axis_count, fvar_axes. cbn [f_axes].
  change (a_len (axes_array ao asz axes)) with (len axes). rewrite len_map.
  destruct (negb (len coords =? len axes)); [reflexivity|].
  rewrite axes_array_items by assumption. reflexivity.
Qed.

Lemma case_normalize_encode m sh axes coords avar :
  shape_legal sh -> len axes < 65536 -> Forall axis4_ok axes ->
  case_normalize m sh axes coords avar = fvar_normalize (map axis4_triple axes) coords avar.
Proof.
  intros Hsh Hn Hok. unfold case_normalize. rewrite fvar_read_encode by assumption. cbn [bind].
  destruct Hsh as [_ [Hoff [Hasz _]]]. apply normalize_tbl_encode; assumption || lia.
Qed.

Lemma case_instance_encode m sh axes coords avar :
  shape_legal sh -> len axes < 65536 -> Forall axis4_ok axes ->
  case_instance m sh axes coords avar = fvar_normalize (map axis4_triple axes) coords avar.
Proof. exact (case_normalize_encode m sh axes coords avar). Qed.

(* the axes an fvar table of this layout yields, and their number *)
Lemma fvar_axes_encode m sh axes :
  shape_legal sh -> len axes < 65536 -> Forall axis4_ok axes ->
  exists f, fvar_read m (fvar_encode sh axes) = Ok f /\ fvar_axis_count f = len axes /\
            fvar_axes m f = Ok (map axis4_triple axes).
Proof.
  intros Hsh Hn Hok. eexists. split; [apply fvar_read_encode; assumption|]. split; [reflexivity|].
  unfold fvar_axes. cbn [f_axes]. destruct Hsh as [_ [Hoff [Hasz _]]].
  apply axes_array_items; assumption || lia.
Qed.

(* ---------- FvarTable::instances(): the coordinates of a named instance *)
Lemma cell_u32b : forall cs (k : nat), (k < length cs)%nat ->
  take 4 (drop (Z.of_nat k * 4) (concat (map u32b cs))) = u32b (nth k cs 0).
Proof.
  induction cs as [|c r IH]; intros k Hk; cbn [length] in Hk; [lia|].
  cbn [map concat]. destruct k as [|k].
  - rewrite Z.mul_0_l, drop_0. cbn [nth]. apply take_len_app, len_u32b.
  - replace (Z.of_nat (S k) * 4) with (Z.of_nat k * 4 + 4) by lia.
    rewrite <- drop_drop by lia. rewrite (drop_len_app (u32b c) _ 4 (len_u32b c)).
    cbn [nth]. apply IH. lia.
Qed.

Lemma coords_array_items m b0 cs :
  0 <= b0 < 4294967296 -> len cs < 65536 -> Forall i32_ok cs ->
  exists v, arr_to_vec m {| a_sc := {| base := b0; data := concat (map u32b cs) |};
                            a_len := len cs; a_stride := 4; a_ty := coord_ty |} = Ok v /\
            map (fun r => nthZ r 0) v = cs.
Proof.
  intros Hb Hn Hok. pose proof (len_nonneg cs) as Hn0.
  set (a := {| a_sc := {| base := b0; data := concat (map u32b cs) |}; a_len := len cs; a_stride := 4; a_ty := coord_ty |}).
  assert (window_ok a) as Hw.
  { unfold window_ok, a, dlen. cbn [a_sc a_len a_stride a_ty base data].
    change (ty_size coord_ty) with 4. rewrite len_concat_u32b, concat_u32b_ok. unfold USIZE. repeat split; lia. }
  eexists. split; [apply (arr_to_vec_exact m a Hw)|]. rewrite map_map.
  unfold a at 2. cbn [a_len]. unfold len. rewrite Nat2Z.id.
  apply (map_range_nth 0). intros i Hi. rewrite Z.add_0_l.
  unfold item, a. cbn [a_ty a_stride a_sc data]. change (ty_size coord_ty) with 4.
  rewrite cell_u32b by assumption. unfold coord_ty.
  rewrite <- (app_nil_r (u32b (nth i cs 0))). rewrite decode_ty_cons by apply len_u32b.
  rewrite decode_i32b; [reflexivity|].
  rewrite Forall_forall in Hok. apply Hok. apply nth_In. exact Hi.
Qed.

Lemma inst_coord_ok i j a : axis4_ok a -> i32_ok (inst_coord i j a).
Proof.
  destruct a as [[[tg mn] df] mx]. intros [_ [Hmn [Hdf Hmx]]]. unfold inst_coord, i32_ok in *.
  destruct ((i + j) mod 4 =? 0); [lia|]. destruct ((i + j) mod 4 =? 1); [lia|].
  destruct ((i + j) mod 4 =? 2); lia.
Qed.
Lemma inst_coords_ok i : forall axes j, Forall axis4_ok axes -> Forall i32_ok (inst_coords i j axes).
Proof.
  induction axes as [|a r IH]; intros j H; [constructor|]. inversion H; subst.
  cbn [inst_coords]. constructor; [apply inst_coord_ok; assumption|apply IH; assumption].
Qed.

Lemma instance_coords_encode m ao asz icnt isz axes k :
  len axes < 65536 -> Forall axis4_ok axes -> 0 <= icnt < 65536 -> 0 <= k < icnt -> isz < 65536 ->
  isz = 4 + 4 * len axes \/ 6 + 4 * len axes <= isz ->
  fvar_instance_coords m {| f_axes := axes_array ao asz axes; f_icount := icnt; f_isize := isz;
                            f_inst := enc_insts icnt isz axes |} k
  = Ok (Some (inst_coords k 0 axes)).
Proof.
  intros Hn Hok Hic Hk Hisz2 Hisz. pose proof (len_nonneg axes) as Hn0.
  set (n := len axes) in *.
  assert (0 <= isz) as Hisz0 by lia.
  unfold fvar_instance_coords, fvar_axis_count. cbn [f_axes f_icount f_isize f_inst].
  change (a_len (axes_array ao asz axes)) with n.
  replace ((0 <=? k) && (k <? icnt)) with true by lia.
  assert (0 <= k * isz) as Hki by nia. assert (k * isz + isz <= icnt * isz) as Hke by nia.
  assert (icnt * isz < 4294967296) as Hii by nia.
  unfold umul. replace (k * isz <? USIZE) with true by (unfold USIZE; lia). cbn [bind].
  unfold uadd. replace (k * isz + isz <? USIZE) with true by (unfold USIZE; lia). cbn [bind].
  rewrite len_enc_insts by lia. replace (k * isz + isz <=? icnt * isz) with true by lia.
  (* the k-th cell, in full *)
  assert (take isz (drop (k * isz) (enc_insts icnt isz axes)) = inst_body isz axes k) as Hcell.
  { unfold enc_insts. rewrite <- (Z2Nat.id k) at 1 by lia.
    rewrite (cell_at (enc_inst isz axes) isz Hisz0 (fun i => len_enc_inst isz axes i Hisz0)) by lia.
    rewrite Z.add_0_l, Z2Nat.id by lia. apply enc_inst_full. fold n. lia. }
  rewrite Hcell.
  set (cs := inst_coords k 0 axes).
  assert (len cs = n) as Hlcs by apply len_inst_coords.
  set (tailpad := pad k (isz - 4 - 4 * n)).
  set (d := inst_body isz axes k).
  assert (d = u16b (300 + k) ++ u16b 0 ++ concat (map u32b cs) ++ tailpad) as Hd by reflexivity.
  assert (len d = isz) as Hld by (unfold d; rewrite len_inst_body; fold n; lia).
  assert (bytes_ok d = true) as Bd by apply inst_body_ok.
  set (c0 := ctxt_new (scope_new d)).
  assert (cinv c0) as Hc0
    by (unfold cinv, sinv, c0, ctxt_new, scope_new, dlen; cbn [off sc data]; unfold USIZE; lia).
  assert (drop (off c0) (data (sc c0)) =
          enc_prim PU16 ((300 + k) mod 65536) ++ (u16b 0 ++ concat (map u32b cs) ++ tailpad)) as Hd0.
  { unfold c0, ctxt_new, scope_new; cbn [off sc data]. rewrite drop_0. exact Hd. }
  destruct (read_prim_chain PU16 c0 _ _ Hc0 Bd (u16_val_ok _) Hd0) as [c1 [R1 [Hc1 [Hs1 Hd1]]]].
  rewrite R1. cbn [bind]. cbv beta iota.
  assert (bytes_ok (data (sc c1)) = true) as Bd1 by (rewrite Hs1; exact Bd).
  destruct (read_prim_chain PU16 c1 (0 mod 65536) _ Hc1 Bd1 (u16_val_ok _) Hd1) as [c2 [R2 [Hc2 [Hs2 Hd2]]]].
  rewrite R2. cbn [bind]. cbv beta iota.
  (* where the cursor is now: 4 bytes in *)
  assert (sc c2 = scope_new d) as Hsc2 by (rewrite Hs2, Hs1; reflexivity).
  assert (off c2 = 4) as Hoff2.
  { destruct Hc2 as [Ho _]. rewrite Hsc2 in Ho, Hd2. unfold dlen, scope_new in Ho; cbn [data] in Ho, Hd2.
    assert (len (drop (off c2) d) = len d - off c2) as Hl by (apply len_drop; lia).
    change (data (scope_new d)) with d in Hd2. rewrite Hd2 in Hl. rewrite len_app, len_concat_u32b, Hlcs in Hl. unfold tailpad in Hl. rewrite len_pad in Hl. lia. }
  clear Hs2 R2. destruct c2 as [sc2 off2]. cbn [sc off] in *. subst sc2 off2.
  cbn [data scope_new] in Hd2.
  (* read_array::<Fixed>(axis_count) *)
  unfold read_array. change (ty_size coord_ty) with 4.
  unfold cmul. replace (n * 4 <? USIZE) with true by (unfold USIZE; lia). cbn [bind].
  unfold read_scope. cbn [sc off].
  rewrite offset_length_complete
    by (unfold dlen, scope_new; cbn [data base]; unfold USIZE; try rewrite Hld; lia).
  unfold uadd. replace (4 + n * 4 <? USIZE) with true by (unfold USIZE; lia). cbn [bind]. cbv beta iota.
  cbn [scope_new data base]. rewrite Hd2.
  rewrite (take_len_app (concat (map u32b cs)) tailpad (n * 4)) by (rewrite len_concat_u32b; lia).
  (* postScriptNameID when the record is larger *)
  assert ((if n * 4 + 4 <? isz
           then '(ps, _) <- read_prim PU16 {| sc := {| base := 0; data := d |}; off := 4 + n * 4 |} ;; Ok ps
           else Ok 0) = Ok (if n * 4 + 4 <? isz
                            then decode_prim PU16 (take 2 (drop (4 + n * 4) d)) else 0)) as Hps.
  { destruct (n * 4 + 4 <? isz) eqn:E; [|reflexivity].
    destruct (read_prim_exact PU16 {| sc := {| base := 0; data := d |}; off := 4 + n * 4 |}) as [[_ H]|[H _]].
    - exact Bd.
    - unfold cinv, sinv, dlen; cbn [sc off data]. unfold USIZE. lia.
    - rewrite H. reflexivity.
    - unfold dlen in H; cbn [sc off data] in H. change (spec_size PU16) with 2 in H. lia. }
  change (scope_new d) with {| base := 0; data := d |}. rewrite Hps. cbn [bind].
  replace (0 + 4) with 4 by lia.
  rewrite <- Hlcs.
  destruct (coords_array_items m 4 cs ltac:(lia) ltac:(lia) (inst_coords_ok k axes 0 Hok)) as [v [Hv Hm]].
  rewrite Hv. cbn [bind]. rewrite Hm. reflexivity.
Qed.

(* the user tuple taken from named instance k of the table itself *)
Lemma case_named_encode m sh axes k avar :
  shape_legal sh -> len axes < 65536 -> Forall axis4_ok axes -> 0 <= k < sh_icnt sh ->
  sh_isz sh = 4 + 4 * len axes \/ 6 + 4 * len axes <= sh_isz sh ->
  case_named m sh axes k avar = fvar_normalize (map axis4_triple axes) (inst_coords k 0 axes) avar.
Proof.
  intros Hsh Hn Hok Hk Hisz. unfold case_named. rewrite fvar_read_encode by assumption. cbn [bind].
  destruct Hsh as [_ [Hoff [Hasz [_ [Hic [His _]]]]]].
  rewrite instance_coords_encode by (assumption || lia). cbn [bind].
  apply normalize_tbl_encode; assumption || lia.
Qed.

(* a tuple whose length is not the table's axis count is rejected: at FvarTable::normalize, at
   variations::instance (for ANY table bytes that parse), and by owned_tuple *)
Lemma fvar_normalize_tbl_len m f coords avar :
  len coords <> fvar_axis_count f -> fvar_normalize_tbl m f coords avar = Err BadValue.
Proof.
  intros H. unfold fvar_normalize_tbl. replace (len coords =? fvar_axis_count f) with false by lia. reflexivity.
Qed.

Lemma instance_tuple_len m b f coords avar :
  fvar_read m b = Ok f -> len coords <> fvar_axis_count f -> instance_tuple m b coords avar = Err BadValue.
Proof.
  intros Hr H. unfold instance_tuple. rewrite Hr. cbn [bind]. apply fvar_normalize_tbl_len. exact H.
Qed.

Lemma owned_tuple_len f vals v : fvar_owned_tuple f vals = Some v -> len vals = fvar_axis_count f /\ v = vals.
Proof.
  unfold fvar_owned_tuple. destruct (len vals =? fvar_axis_count f) eqn:E; [|discriminate].
  intros [= <-]. split; [lia|reflexivity].
Qed.
