(* Proofs/Woff2Triplet.v — the coordinate triplet table of src/woff2/lut.rs is the table of
   WOFF2 section 5.2, and XYTriplet::dx / dy (as translated from the source) extract the two
   packed fields of every row exactly: decode (pack fx fy) = (+-(fx + deltaX), +-(fy + deltaY))
   for every row and every field value of the row's width. *)
From AV Require Import Base.Prelude Base.Lemmas Gen.Woff2Lut Model.Woff2 Proofs.Woff2Spec Proofs.Woff2Ints.
From Coq Require Import ZifyBool.
Ltac Zify.zify_post_hook ::= Z.div_mod_to_equations.
Open Scope Z_scope.

(* ------------------------------------------------------------------ the table *)
Lemma lut_is_spec_lut : coord_lut = spec_lut.
Proof. vm_compute. reflexivity. Qed.

Lemma lut_length : length coord_lut = 128%nat.
Proof. vm_compute. reflexivity. Qed.

Lemma lut_nth : forall i, 0 <= i < 128 -> nth_error coord_lut (Z.to_nat i) = Some (spec_row i).
Proof.
  intros i Hi. rewrite lut_is_spec_lut. unfold spec_lut.
  rewrite nth_error_map.
  assert (nth_error (range 0 128) (Z.to_nat i) = Some i) as Hn.
  { assert (forall n s k, (k < n)%nat -> nth_error (range s n) k = Some (s + Z.of_nat k)) as G.
    { induction n as [|n IH]; intros s k Hk; [lia|]. destruct k as [|k]; cbn [range nth_error].
      - f_equal. lia.
      - rewrite IH by lia. f_equal. lia. }
    rewrite G by lia. f_equal. lia. }
  rewrite Hn. reflexivity.
Qed.

(* what the proofs need of a row: the two fields fill the bytes exactly and are at most 16 bits *)
Definition row_wf (t : xytriplet) : Prop :=
  1 <= byte_count t <= 4 /\ 0 <= x_bits t <= 16 /\ 0 <= y_bits t <= 16 /\
  x_bits t + y_bits t = 8 * byte_count t /\
  0 <= delta_x t < 65536 /\ 0 <= delta_y t < 65536.
Definition row_wfb (t : xytriplet) : bool :=
  (1 <=? byte_count t) && (byte_count t <=? 4) && (0 <=? x_bits t) && (x_bits t <=? 16)
  && (0 <=? y_bits t) && (y_bits t <=? 16) && (x_bits t + y_bits t =? 8 * byte_count t)
  && (0 <=? delta_x t) && (delta_x t <? 65536) && (0 <=? delta_y t) && (delta_y t <? 65536).

Lemma lut_rows_wf : forallb row_wfb coord_lut = true.
Proof. vm_compute. reflexivity. Qed.

Lemma spec_row_wf : forall i, 0 <= i < 128 -> row_wf (spec_row i).
Proof.
  intros i Hi. pose proof lut_rows_wf as H. rewrite forallb_forall in H.
  specialize (H (spec_row i)).
  assert (In (spec_row i) coord_lut) as Hin by (eapply nth_error_In, lut_nth; exact Hi).
  specialize (H Hin). unfold row_wfb in H. unfold row_wf. lia.
Qed.

(* ------------------------------------------------------------------ the typed operations *)
Lemma m_ck_in : forall m t v, ity_min t <= v <= ity_max t -> m_ck m t v = Ok v.
Proof.
  intros m t v H. unfold m_ck.
  replace ((ity_min t <=? v) && (v <=? ity_max t)) with true by lia. reflexivity.
Qed.

Lemma pow2_le : forall a b, 0 <= a <= b -> 2 ^ a <= 2 ^ b.
Proof. intros; apply Z.pow_le_mono_r; lia. Qed.
Lemma pow2_pos : forall a, 0 <= a -> 0 < 2 ^ a.
Proof. intros; apply Z.pow_pos_nonneg; lia. Qed.

Definition sgn (neg : bool) (v : Z) : Z := if neg then - v else v.

Lemma to_signed_neg : forall v, to_signed 16 (- to_signed 16 v) = to_signed 16 (- v).
Proof.
  intros v.
  assert (forall a b, a mod 65536 = b mod 65536 -> to_signed 16 a = to_signed 16 b) as Hm.
  { intros a b E. unfold to_signed. change (2 ^ 16) with 65536. rewrite E. reflexivity. }
  apply Hm. unfold to_signed. change (2 ^ 16) with 65536. change (2 ^ (16 - 1)) with 32768.
  destruct (v mod 65536 <? 32768); lia.
Qed.

(* XYTriplet::dx on a well-formed row: the x field sits above the y field *)
Lemma xy_dx_eval : forall m t data,
  row_wf t -> 0 <= data < 4294967296 ->
  xy_dx m t data =
    Ok (to_signed 16 (sgn (x_is_negative t)
          ((data / 2 ^ (8 * byte_count t - x_bits t)) mod 2 ^ x_bits t + delta_x t))).
Proof.
  intros m t data (Hbc & Hx & Hy & Hsum & Hdx & Hdy) Hd. unfold xy_dx.
  pose proof (pow2_pos (x_bits t) ltac:(lia)) as Hp.
  pose proof (pow2_le (x_bits t) 16 ltac:(lia)) as Hle. change (2 ^ 16) with 65536 in Hle.
  (* 1u32 << x_bits *)
  unfold m_shl at 1. cbn [ity_bits].
  replace ((0 <=? x_bits t) && (x_bits t <? 32)) with true by lia.
  unfold m_cast at 1. cbn [ity_signed ity_bits]. change (2 ^ 32) with 4294967296.
  rewrite Z.mul_1_l. rewrite (Z.mod_small (2 ^ x_bits t)) by lia. cbn [bind].
  (* - 1 *)
  unfold m_sub at 1. rewrite m_ck_in by (cbn [ity_min ity_max ity_signed ity_bits]; change (2 ^ 32) with 4294967296; lia).
  cbn [bind].
  (* byte_count * 8 - x_bits *)
  unfold m_mul at 1. rewrite m_ck_in by (cbn [ity_min ity_max ity_signed ity_bits]; change (2 ^ 8) with 256; lia).
  cbn [bind].
  unfold m_sub at 1. rewrite m_ck_in by (cbn [ity_min ity_max ity_signed ity_bits]; change (2 ^ 8) with 256; lia).
  cbn [bind].
  (* data >> shift *)
  unfold m_shr at 1. cbn [ity_bits].
  replace ((0 <=? byte_count t * 8 - x_bits t) && (byte_count t * 8 - x_bits t <? 32)) with true by lia.
  cbn [bind].
  (* & mask, + delta *)
  replace (2 ^ x_bits t - 1) with (Z.ones (x_bits t)) by (rewrite Z.ones_equiv; lia).
  rewrite Z.land_ones by lia.
  replace (byte_count t * 8 - x_bits t) with (8 * byte_count t - x_bits t) by lia.
  set (fx := (data / 2 ^ (8 * byte_count t - x_bits t)) mod 2 ^ x_bits t).
  assert (0 <= fx < 2 ^ x_bits t) as Hfx by (subst fx; apply Z.mod_pos_bound; lia).
  unfold m_add at 1. rewrite m_ck_in by (cbn [ity_min ity_max ity_signed ity_bits]; change (2 ^ 32) with 4294967296; lia).
  cbn [bind].
  unfold m_cast. cbn [ity_signed ity_bits]. unfold sgn.
  destruct (x_is_negative t); [rewrite to_signed_neg|]; reflexivity.
Qed.

(* XYTriplet::dy: the y field is the low y_bits bits *)
Lemma xy_dy_eval : forall m t data,
  row_wf t -> 0 <= data < 4294967296 ->
  xy_dy m t data =
    Ok (to_signed 16 (sgn (y_is_negative t) (data mod 2 ^ y_bits t + delta_y t))).
Proof.
  intros m t data (Hbc & Hx & Hy & Hsum & Hdx & Hdy) Hd. unfold xy_dy.
  pose proof (pow2_pos (y_bits t) ltac:(lia)) as Hp.
  pose proof (pow2_le (y_bits t) 16 ltac:(lia)) as Hle. change (2 ^ 16) with 65536 in Hle.
  unfold m_shl at 1. cbn [ity_bits].
  replace ((0 <=? y_bits t) && (y_bits t <? 32)) with true by lia.
  unfold m_cast at 1. cbn [ity_signed ity_bits]. change (2 ^ 32) with 4294967296.
  rewrite Z.mul_1_l. rewrite (Z.mod_small (2 ^ y_bits t)) by lia. cbn [bind].
  unfold m_sub at 1. rewrite m_ck_in by (cbn [ity_min ity_max ity_signed ity_bits]; change (2 ^ 32) with 4294967296; lia).
  cbn [bind].
  unfold m_mul at 1. rewrite m_ck_in by (cbn [ity_min ity_max ity_signed ity_bits]; change (2 ^ 8) with 256; lia).
  cbn [bind].
  unfold m_sub at 1. rewrite m_ck_in by (cbn [ity_min ity_max ity_signed ity_bits]; change (2 ^ 8) with 256; lia).
  cbn [bind].
  unfold m_sub at 1. rewrite m_ck_in by (cbn [ity_min ity_max ity_signed ity_bits]; change (2 ^ 8) with 256; lia).
  cbn [bind].
  unfold m_shr at 1. cbn [ity_bits].
  replace (byte_count t * 8 - x_bits t - y_bits t) with 0 by lia.
  cbn [Z.leb Z.ltb Z.compare andb bind]. change (2 ^ 0) with 1. rewrite Z.div_1_r.
  replace (2 ^ y_bits t - 1) with (Z.ones (y_bits t)) by (rewrite Z.ones_equiv; lia).
  rewrite Z.land_ones by lia.
  set (fy := data mod 2 ^ y_bits t).
  assert (0 <= fy < 2 ^ y_bits t) as Hfy by (subst fy; apply Z.mod_pos_bound; lia).
  unfold m_add at 1. rewrite m_ck_in by (cbn [ity_min ity_max ity_signed ity_bits]; change (2 ^ 32) with 4294967296; lia).
  cbn [bind].
  unfold m_cast. cbn [ity_signed ity_bits]. unfold sgn.
  destruct (y_is_negative t); [rewrite to_signed_neg|]; reflexivity.
Qed.

(* ------------------------------------------------------------------ bit packing *)
(* the fold of decode_coordinates is the big-endian value for up to four bytes *)
Lemma coord_data_be : forall bytes,
  bytes_ok bytes = true -> len bytes <= 4 -> coord_data bytes = be_val bytes /\ 0 <= be_val bytes < 256 ^ len bytes.
Proof.
  intros bytes Hb Hl.
  assert (forall b l, bytes_ok (b :: l) = true -> 0 <= b < 256 /\ bytes_ok l = true) as Hcons.
  { intros b l Hx. cbn [bytes_ok forallb] in Hx. apply andb_true_iff in Hx. unfold byte_ok in Hx.
    split; [lia|apply Hx]. }
  unfold coord_data, be_val.
  destruct bytes as [|b0 [|b1 [|b2 [|b3 [|b4 r]]]]]; cbn [fold_left];
    repeat match goal with
           | H : bytes_ok (_ :: _) = true |- _ => apply Hcons in H; destruct H
           end.
  - split; [reflexivity|]. vm_compute. split; [discriminate|reflexivity].
  - change ((0 * 256) mod 2 ^ 32) with 0. change (0 * 256 + b0) with b0.
    rewrite Z.lor_0_l. rewrite !len_cons. change (len (@nil Z)) with 0. change (256 ^ (1 + 0)) with 256. lia.
  - change ((0 * 256) mod 2 ^ 32) with 0. change (0 * 256 + b0) with b0.
    rewrite Z.lor_0_l. change (2 ^ 32) with 4294967296.
    rewrite (Z.mod_small (b0 * 256)) by lia.
    rewrite (lor_disjoint_add (b0 * 256) b1 8) by (change (2 ^ 8) with 256; lia).
    rewrite !len_cons. change (len (@nil Z)) with 0. change (256 ^ (1 + (1 + 0))) with 65536. lia.
  - change ((0 * 256) mod 2 ^ 32) with 0. change (0 * 256 + b0) with b0.
    rewrite Z.lor_0_l. change (2 ^ 32) with 4294967296.
    rewrite (Z.mod_small (b0 * 256)) by lia.
    rewrite (lor_disjoint_add (b0 * 256) b1 8) by (change (2 ^ 8) with 256; lia).
    rewrite (Z.mod_small ((b0 * 256 + b1) * 256)) by lia.
    rewrite (lor_disjoint_add ((b0 * 256 + b1) * 256) b2 8) by (change (2 ^ 8) with 256; lia).
    rewrite !len_cons. change (len (@nil Z)) with 0. change (256 ^ (1 + (1 + (1 + 0)))) with 16777216. lia.
  - change ((0 * 256) mod 2 ^ 32) with 0. change (0 * 256 + b0) with b0.
    rewrite Z.lor_0_l. change (2 ^ 32) with 4294967296.
    rewrite (Z.mod_small (b0 * 256)) by lia.
    rewrite (lor_disjoint_add (b0 * 256) b1 8) by (change (2 ^ 8) with 256; lia).
    rewrite (Z.mod_small ((b0 * 256 + b1) * 256)) by lia.
    rewrite (lor_disjoint_add ((b0 * 256 + b1) * 256) b2 8) by (change (2 ^ 8) with 256; lia).
    rewrite (Z.mod_small (((b0 * 256 + b1) * 256 + b2) * 256)) by lia.
    rewrite (lor_disjoint_add (((b0 * 256 + b1) * 256 + b2) * 256) b3 8) by (change (2 ^ 8) with 256; lia).
    rewrite !len_cons. change (len (@nil Z)) with 0. change (256 ^ (1 + (1 + (1 + (1 + 0))))) with 4294967296. lia.
  - rewrite !len_cons in Hl. pose proof (len_nonneg r). lia.
Qed.

Lemma be_bytes_length : forall n v, length (be_bytes n v) = n.
Proof. induction n; intros; cbn [be_bytes length]; auto. Qed.

Lemma be_bytes_ok : forall n v, bytes_ok (be_bytes n v) = true.
Proof.
  induction n as [|n IH]; intros v; cbn [be_bytes bytes_ok forallb]; [reflexivity|].
  apply andb_true_iff. split; [unfold byte_ok; lia|apply IH].
Qed.

Lemma be_val_app1 : forall l b, be_val (l ++ [b]) = be_val l * 256 + b.
Proof. intros. unfold be_val. rewrite fold_left_app. reflexivity. Qed.

Lemma be_val_cons : forall l b, be_val (b :: l) = b * 256 ^ len l + be_val l.
Proof.
  intros l. induction l as [|x l IH] using rev_ind; intros b.
  - cbn. lia.
  - change (b :: l ++ [x]) with ((b :: l) ++ [x]). rewrite !be_val_app1. rewrite IH.
    rewrite len_app, len_cons, len_nil. pose proof (len_nonneg l).
    replace (len l + (1 + 0)) with (Z.succ (len l)) by lia. rewrite Z.pow_succ_r by lia. lia.
Qed.

Lemma be_bytes_mod : forall n k v, (n <= k)%nat ->
  be_bytes n (v mod 256 ^ Z.of_nat k) = be_bytes n v.
Proof.
  induction n as [|n IH]; intros k v Hk; [reflexivity|]. cbn [be_bytes]. f_equal.
  - set (M := 256 ^ Z.of_nat n). set (R := 256 ^ (Z.of_nat k - Z.of_nat n - 1)).
    assert (0 < M) as HM by (apply Z.pow_pos_nonneg; lia).
    assert (0 < R) as HR by (apply Z.pow_pos_nonneg; lia).
    assert (256 ^ Z.of_nat k = M * (256 * R)) as Hd.
    { subst M R. replace (Z.of_nat k) with (Z.of_nat n + (1 + (Z.of_nat k - Z.of_nat n - 1))) at 1 by lia.
      rewrite Z.pow_add_r by lia. rewrite Z.pow_add_r by lia. reflexivity. }
    rewrite Hd. rewrite Z.rem_mul_r by lia.
    rewrite (Z.mul_comm M). rewrite Z.div_add by lia.
    rewrite (Z.div_small (v mod M)) by (apply Z.mod_pos_bound; lia). rewrite Z.add_0_l.
    rewrite Z.rem_mul_r by lia. rewrite (Z.mul_comm 256). rewrite Z.mod_add by lia.
    apply Z.mod_mod. lia.
  - apply IH. lia.
Qed.

Lemma be_val_be_bytes : forall n v, 0 <= v < 256 ^ Z.of_nat n -> be_val (be_bytes n v) = v.
Proof.
  induction n as [|n IH]; intros v Hv.
  - cbn in *. lia.
  - cbn [be_bytes]. rewrite be_val_cons. unfold len. rewrite be_bytes_length.
    assert (0 < 256 ^ Z.of_nat n) as Hp by (apply Z.pow_pos_nonneg; lia).
    rewrite Nat2Z.inj_succ, Z.pow_succ_r in Hv by lia.
    rewrite <- (be_bytes_mod n n v) by lia.
    rewrite IH by (apply Z.mod_pos_bound; lia).
    rewrite (Z.mod_small (v / 256 ^ Z.of_nat n)).
    + pose proof (Z.div_mod v (256 ^ Z.of_nat n) ltac:(lia)). lia.
    + split; [apply Z.div_pos; lia|]. apply Z.div_lt_upper_bound; lia.
Qed.

(* a row's two fields, packed and read back *)
Lemma unpack_fields : forall t fx fy,
  row_wf t -> 0 <= fx < 2 ^ x_bits t -> 0 <= fy < 2 ^ y_bits t ->
  let v := fx * 2 ^ (8 * byte_count t - x_bits t) + fy * 2 ^ (8 * byte_count t - x_bits t - y_bits t) in
  0 <= v < 256 ^ byte_count t /\
  (v / 2 ^ (8 * byte_count t - x_bits t)) mod 2 ^ x_bits t = fx /\ v mod 2 ^ y_bits t = fy.
Proof.
  intros t fx fy (Hbc & Hx & Hy & Hsum & Hdx & Hdy) Hfx Hfy v. subst v.
  replace (8 * byte_count t - x_bits t - y_bits t) with 0 by lia. change (2 ^ 0) with 1. rewrite Z.mul_1_r.
  replace (8 * byte_count t - x_bits t) with (y_bits t) by lia.
  pose proof (pow2_pos (x_bits t) ltac:(lia)). pose proof (pow2_pos (y_bits t) ltac:(lia)).
  split; [|split].
  - replace (256 ^ byte_count t) with (2 ^ x_bits t * 2 ^ y_bits t).
    + nia.
    + rewrite <- Z.pow_add_r by lia. rewrite Hsum. change 256 with (2 ^ 8).
      rewrite <- Z.pow_mul_r by lia. reflexivity.
  - rewrite Z.div_add_l by lia. rewrite (Z.div_small fy) by lia. rewrite Z.add_0_r.
    apply Z.mod_small. lia.
  - rewrite Z.add_comm. rewrite Z.mod_add by lia. apply Z.mod_small. lia.
Qed.

(* decoding of one point's data with the row selected by the flag, as decode_points does *)
Definition decode_triplet (m : mode) (t : xytriplet) (bytes : list Z) : outcome (Z * Z) :=
  dx <- xy_dx m t (coord_data bytes) ;; dy <- xy_dy m t (coord_data bytes) ;; Ok (dx, dy).

Lemma triplet_roundtrip : forall m i fx fy,
  0 <= i < 128 ->
  0 <= fx < 2 ^ x_bits (spec_row i) -> 0 <= fy < 2 ^ y_bits (spec_row i) ->
  decode_triplet m (spec_row i) (pack_fields (spec_row i) fx fy) =
    Ok (to_signed 16 (sgn (x_is_negative (spec_row i)) (fx + delta_x (spec_row i))),
        to_signed 16 (sgn (y_is_negative (spec_row i)) (fy + delta_y (spec_row i)))).
Proof.
  intros m i fx fy Hi Hfx Hfy. pose proof (spec_row_wf i Hi) as Hwf.
  pose proof (unpack_fields _ fx fy Hwf Hfx Hfy) as (Hv & Hux & Huy).
  unfold decode_triplet, pack_fields.
  set (v := fx * 2 ^ (8 * byte_count (spec_row i) - x_bits (spec_row i))
            + fy * 2 ^ (8 * byte_count (spec_row i) - x_bits (spec_row i) - y_bits (spec_row i))) in *.
  pose proof Hwf as (Hbc & Hx & Hy & Hsum & Hdx & Hdy).
  assert (Z.of_nat (Z.to_nat (byte_count (spec_row i))) = byte_count (spec_row i)) as Hn by lia.
  pose proof (coord_data_be (be_bytes (Z.to_nat (byte_count (spec_row i))) v)
                (be_bytes_ok _ _) ltac:(unfold len; rewrite be_bytes_length; lia)) as (Hcd & _).
  rewrite Hcd. rewrite be_val_be_bytes by (rewrite Hn; exact Hv).
  assert (0 <= v < 4294967296) as Hv32.
  { split; [lia|]. eapply Z.lt_le_trans; [apply Hv|]. change 4294967296 with (256 ^ 4).
    apply Z.pow_le_mono_r; lia. }
  rewrite xy_dx_eval by assumption. rewrite xy_dy_eval by assumption.
  cbn [bind]. rewrite Hux, Huy. reflexivity.
Qed.

(* ------------------------------------------------------------------ against the reference text *)
(* for every flag and every data bytes of the row's length the table-driven decoder returns what
   the specification's reference procedure returns *)
Lemma field_of_sound : forall bits delta neg d f,
  0 <= bits -> 0 <= delta -> field_of bits delta neg d = Some f ->
  0 <= f < 2 ^ bits /\ sgn neg (f + delta) = d \/ (bits = 0 /\ f = 0 /\ d = 0).
Proof.
  intros bits delta neg d f Hb Hdl H. unfold field_of in H.
  destruct (bits =? 0) eqn:E0.
  - destruct (d =? 0) eqn:Ed; [|discriminate]. injection H as <-. right. lia.
  - destruct (negb (d =? 0) && negb (Bool.eqb (d <? 0) neg)) eqn:Es; [discriminate|].
    destruct ((delta <=? Z.abs d) && (Z.abs d - delta <? 2 ^ bits)) eqn:Er; [|discriminate].
    injection H as <-. left. split; [lia|]. unfold sgn.
    destruct neg; destruct (d <? 0) eqn:Ed; cbn in Es; try lia.
Qed.

(* every representable delta pair decodes to itself (as i16) under every row that fits it *)
Lemma triplet_encodes_decodes : forall m i bytes dx dy,
  triplet_encodes i bytes dx dy ->
  decode_triplet m (spec_row i) bytes = Ok (to_signed 16 dx, to_signed 16 dy) /\
  len bytes = byte_count (spec_row i) /\ bytes_ok bytes = true.
Proof.
  intros m i bytes dx dy (Hi & fx & fy & Hfx & Hfy & ->).
  pose proof (spec_row_wf i Hi) as Hwf. pose proof Hwf as (Hbc & Hx & Hy & Hsum & Hdx & Hdy).
  split; [|split; [unfold pack_fields, len; rewrite be_bytes_length; lia|apply be_bytes_ok]].
  apply field_of_sound in Hfx; [|lia|lia]. apply field_of_sound in Hfy; [|lia|lia].
  assert (0 <= fx < 2 ^ x_bits (spec_row i)) as Bx.
  { destruct Hfx as [[? _]|(E & -> & _)]; [assumption|]. rewrite E. cbn. lia. }
  assert (0 <= fy < 2 ^ y_bits (spec_row i)) as By.
  { destruct Hfy as [[? _]|(E & -> & _)]; [assumption|]. rewrite E. cbn. lia. }
  rewrite triplet_roundtrip by assumption. f_equal. f_equal.
  - destruct Hfx as [[_ <-]|(E & -> & ->)]; [reflexivity|].
    (* a zero-width field: the row's delta is zero, checked on the table *)
    f_equal. assert (delta_x (spec_row i) = 0) as D.
    { assert (forallb (fun t => negb (x_bits t =? 0) || (delta_x t =? 0)) coord_lut = true) as Hz by (vm_compute; reflexivity).
      rewrite forallb_forall in Hz. specialize (Hz (spec_row i) ltac:(eapply nth_error_In, lut_nth; exact Hi)). lia. }
    rewrite D. unfold sgn. destruct (x_is_negative (spec_row i)); reflexivity.
  - destruct Hfy as [[_ <-]|(E & -> & ->)]; [reflexivity|].
    f_equal. assert (delta_y (spec_row i) = 0) as D.
    { assert (forallb (fun t => negb (y_bits t =? 0) || (delta_y t =? 0)) coord_lut = true) as Hz by (vm_compute; reflexivity).
      rewrite forallb_forall in Hz. specialize (Hz (spec_row i) ltac:(eapply nth_error_In, lut_nth; exact Hi)). lia. }
    rewrite D. unfold sgn. destruct (y_is_negative (spec_row i)); reflexivity.
Qed.

(* every delta pair of 16-bit magnitude has at least one encoding (the 16/16-bit rows) *)
Lemma triplet_total : forall dx dy, -65535 <= dx <= 65535 -> -65535 <= dy <= 65535 ->
  exists i bytes, triplet_encodes i bytes dx dy.
Proof.
  intros dx dy Hx Hy.
  exists (124 + (if dx <? 0 then 0 else 1) + (if dy <? 0 then 0 else 2)).
  eexists. unfold triplet_encodes. split; [destruct (dx <? 0), (dy <? 0); lia|].
  exists (Z.abs dx), (Z.abs dy).
  destruct (dx <? 0) eqn:Ex, (dy <? 0) eqn:Ey; cbn [Z.add Pos.add Pos.succ];
    (split; [|split; [|reflexivity]]); unfold spec_row, field_of;
    cbn [Z.ltb Z.compare Pos.compare Pos.compare_cont x_bits y_bits delta_x delta_y x_is_negative y_is_negative Z.eqb];
    cbn; rewrite ?Ex, ?Ey; cbn;
    repeat match goal with
           | |- context [if ?c then _ else _] => destruct c eqn:?; try lia
           end; f_equal; lia.
Qed.

(* ------------------------------------------------------------------ against the reference text *)
(* For every flag and every data bytes of the row's length, the table-driven decoder returns
   what the decoding procedure written out in the specification returns (as int16). *)
Lemma decode_is_reference : forall m flag bytes,
  0 <= flag < 128 -> bytes_ok bytes = true -> len bytes = byte_count (spec_row flag) ->
  decode_triplet m (spec_row flag) bytes =
    Ok (to_signed 16 (fst (spec_triplet flag bytes)), to_signed 16 (snd (spec_triplet flag bytes))).
Proof.
  intros m flag bytes Hf Hb Hl.
  pose proof (spec_row_wf flag Hf) as Hwf. pose proof Hwf as (Hbc & Hx & Hy & Hsum & Hdx & Hdy).
  pose proof (coord_data_be bytes Hb ltac:(lia)) as (Hcd & Hrange).
  assert (0 <= be_val bytes < 4294967296) as H32.
  { split; [lia|]. eapply Z.lt_le_trans; [apply Hrange|]. change 4294967296 with (256 ^ 4).
    apply Z.pow_le_mono_r; lia. }
  unfold decode_triplet. rewrite Hcd. rewrite xy_dx_eval by assumption. rewrite xy_dy_eval by assumption.
  cbn [bind]. clear Hwf Hbc Hx Hy Hsum Hdx Hdy Hcd Hrange H32.
  assert (forall b l, bytes_ok (b :: l) = true -> 0 <= b < 256 /\ bytes_ok l = true) as Hcons.
  { intros b l Hx. cbn [bytes_ok forallb] in Hx. apply andb_true_iff in Hx. unfold byte_ok in Hx.
    split; [lia|apply Hx]. }
  unfold spec_triplet, spec_row in *.
  destruct (flag <? 10) eqn:E1; [|destruct (flag <? 20) eqn:E2; [|destruct (flag <? 84) eqn:E3;
    [|destruct (flag <? 120) eqn:E4; [|destruct (flag <? 124) eqn:E5]]]];
    cbn [byte_count x_bits y_bits delta_x delta_y x_is_negative y_is_negative fst snd] in *;
    destruct bytes as [|b0 [|b1 [|b2 [|b3 [|b4 r]]]]];
    rewrite ?len_cons in Hl; change (len (@nil Z)) with 0 in Hl;
    try (pose proof (len_nonneg r)); try lia;
    repeat match goal with
           | H : bytes_ok (_ :: _) = true |- _ => apply Hcons in H; destruct H
           end;
    unfold be_val; cbn [fold_left]; unfold nthZ;
    change (Z.to_nat 0) with 0%nat; change (Z.to_nat 1) with 1%nat;
    change (Z.to_nat 2) with 2%nat; change (Z.to_nat 3) with 3%nat; cbn [nth];
    repeat match goal with
           | |- context [2 ^ ?e] => let v := eval vm_compute in (2 ^ e) in change (2 ^ e) with v
           end;
    unfold sgn, with_sign; f_equal; f_equal; f_equal;
    repeat match goal with
           | |- context [if ?c then _ else _] => destruct c eqn:?
           end;
    try lia.
Qed.
