(* Proofs/RecordProofs.v — arrays of fixed-size records whose fields may be signed
   (ReadArray<T> with T a ReadFrom tuple): reading the written records back.  Same development as
   Proofs/EncodeProofs.v (which covers unsigned fields only), over Layout.write_prim. *)
From AV Require Import Base.Prelude Base.Lemmas Gen.ReaderPrims Model.Reader Model.ReaderExt
  Proofs.ReaderProofs Proofs.EncodeProofs Model.TableLayout Proofs.TableLayoutProofs.
From Coq Require Import ZifyBool ZifyNat.
Ltac Zify.zify_post_hook ::= Z.div_mod_to_equations.
Open Scope Z_scope.

Fixpoint enc_rec (t : ty) (vs : list Z) : list Z :=
  match t, vs with
  | p :: t', v :: vs' => write_prim p v ++ enc_rec t' vs'
  | _, _ => []
  end.
Fixpoint rec_ok (t : ty) (vs : list Z) : Prop :=
  match t, vs with
  | [], [] => True
  | p :: t', v :: vs' => prim_in_range p v = true /\ rec_ok t' vs'
  | _, _ => False
  end.

Lemma len_enc_rec t : forall vs, rec_ok t vs -> len (enc_rec t vs) = ty_size t.
Proof.
  induction t as [|p t IH]; intros [|v vs] H; cbn [rec_ok] in H; try contradiction; [reflexivity|].
  cbn [enc_rec]. change (ty_size (p :: t)) with (prim_size p + ty_size t).
  rewrite len_app, len_write_prim, (prim_size_spec p), IH by tauto. reflexivity.
Qed.

Lemma enc_rec_bytes_ok t : forall vs, bytes_ok (enc_rec t vs) = true.
Proof.
  induction t as [|p t IH]; intros [|v vs]; try reflexivity.
  cbn [enc_rec]. rewrite bytes_ok_app, write_prim_ok, IH. reflexivity.
Qed.

Lemma decode_enc_rec t : forall vs rest, rec_ok t vs -> decode_ty t (enc_rec t vs ++ rest) = vs.
Proof.
  induction t as [|p t IH]; intros [|v vs] rest H; cbn [rec_ok] in H; try contradiction; [reflexivity|].
  destruct H as [Hp Hr]. cbn [enc_rec decode_ty]. rewrite <- app_assoc.
  rewrite <- (len_write_prim p v). rewrite take_app_exact, drop_app_exact.
  rewrite decode_write_prim by assumption. rewrite IH by assumption. reflexivity.
Qed.

Definition enc_recs (t : ty) (recs : list (list Z)) : list Z := concat (map (enc_rec t) recs).

Lemma len_enc_recs t recs : Forall (rec_ok t) recs -> len (enc_recs t recs) = len recs * ty_size t.
Proof.
  induction recs as [|r recs IH]; intros H; [reflexivity|].
  inversion H as [|? ? Hr Hrest]; subst. unfold enc_recs in *. cbn [map concat].
  rewrite len_app, len_cons, len_enc_rec by assumption. rewrite IH by assumption. lia.
Qed.

Lemma enc_recs_bytes_ok t recs : bytes_ok (enc_recs t recs) = true.
Proof.
  induction recs as [|r recs IH]; [reflexivity|]. unfold enc_recs in *. cbn [map concat].
  rewrite bytes_ok_app, enc_rec_bytes_ok, IH. reflexivity.
Qed.

Lemma drop_enc_recs t : forall recs (i : nat) rest, Forall (rec_ok t) recs -> (i < length recs)%nat ->
  exists rest', drop (Z.of_nat i * ty_size t) (enc_recs t recs ++ rest) = enc_rec t (nth i recs []) ++ rest'.
Proof.
  induction recs as [|r recs IH]; intros i rest H Hi; cbn [length] in Hi; [lia|].
  inversion H as [|? ? Hr Hrest]; subst. unfold enc_recs in *. cbn [map concat]. rewrite <- app_assoc.
  destruct i as [|i].
  - cbn [nth]. rewrite Z.mul_0_l, drop_0. eauto.
  - cbn [nth]. replace (Z.of_nat (S i) * ty_size t) with (Z.of_nat i * ty_size t + ty_size t) by lia.
    pose proof (ty_size_nonneg t).
    rewrite <- drop_drop by lia. rewrite <- (len_enc_rec t r Hr). rewrite drop_app_exact.
    rewrite (len_enc_rec t r Hr). apply IH; [assumption|lia].
Qed.

Theorem read_records_layout t c recs rest :
  cgood c -> 0 < ty_size t < USIZE -> Forall (rec_ok t) recs ->
  at_bytes c (enc_recs t recs ++ rest) ->
  exists c', read_records t c (len recs) = Ok (recs, c') /\ advanced c c' rest.
Proof.
  intros Hg Ht Hrecs Hd. pose proof Hg as [[Hc1 Hc2] [Hb [Hb0 Hbase]]]. unfold sinv in Hc2. unfold at_bytes in Hd.
  set (n := len recs). set (sz := ty_size t).
  assert (0 <= n) as Hn by apply len_nonneg.
  assert (len (enc_recs t recs) = n * sz) as Hlen by (apply len_enc_recs; assumption).
  destruct (advance_by c _ rest Hg Hd) as [Hle Hadv]. rewrite Hlen in Hle, Hadv.
  assert (0 <= n * sz) as Hnn by nia.
  exists {| sc := sc c; off := off c + n * sz |}. split; [|exact Hadv].
  unfold read_records, read_array. fold sz. unfold cmul. replace (n * sz <? USIZE) with true by lia.
  cbn [bind]. unfold read_scope. rewrite offset_length_complete by lia.
  unfold uadd. replace (off c + n * sz <? USIZE) with true by lia. cbn [bind]; cbv beta iota.
  set (a := {| a_sc := {| base := base (sc c) + off c; data := take (n * sz) (drop (off c) (data (sc c))) |};
               a_len := n; a_stride := sz; a_ty := t |}).
  assert (data (a_sc a) = enc_recs t recs) as Hwin.
  { unfold a; cbn [a_sc data]. rewrite Hd. rewrite <- Hlen. apply take_app_exact. }
  assert (window_ok a) as Hw.
  { unfold a in Hwin; cbn [a_sc data] in Hwin.
    unfold window_ok, a; cbn [a_sc a_len a_stride a_ty base data]. unfold dlen; cbn [data].
    rewrite Hwin. rewrite Hlen. pose proof (enc_recs_bytes_ok t recs).
    repeat split; try lia; assumption. }
  rewrite (arr_to_vec_exact Debug a Hw). cbn [bind]. f_equal. f_equal.
  unfold a at 2; cbn [a_len]. unfold n, len. rewrite Nat2Z.id.
  apply (map_range_nth []). intros i Hi. unfold item. rewrite Hwin. unfold a; cbn [a_ty a_stride]. fold sz.
  rewrite Z.add_0_l.
  destruct (drop_enc_recs t recs i [] Hrecs Hi) as [rest' Hdr]. rewrite app_nil_r in Hdr.
  fold sz in Hdr. rewrite Hdr.
  assert (rec_ok t (nth i recs [])) as Hoki.
  { rewrite Forall_forall in Hrecs. apply Hrecs. apply nth_In. exact Hi. }
  unfold sz. rewrite <- (len_enc_rec t _ Hoki). rewrite take_app_exact.
  rewrite <- (app_nil_r (enc_rec t (nth i recs []))). apply decode_enc_rec. exact Hoki.
Qed.
