(* Proofs/PreprocessRuns.v — `on_runs` (cs.split_mut(class == NotReordered) + a function on every
   piece): pure form, locality, immobility of the class-0 characters, permutation, composition. *)
From AV Require Import Base.Prelude Gen.PreprocessTables Model.Preprocess Proofs.PreprocessSort.
From Coq Require Import Permutation Sorted.
Open Scope Z_scope.

Section Runs.
Variable class : Z -> Z.

Definition is_mark (c : Z) : Prop := class c <> 0.
Definition marks (l : list Z) : Prop := Forall is_mark l.

(* on_runs with a function that cannot fail *)
Fixpoint on_runs_p (g : list Z -> list Z) (acc l : list Z) : list Z :=
  match l with
  | [] => g acc
  | c :: t => if class c =? 0 then g acc ++ c :: on_runs_p g [] t else on_runs_p g (acc ++ [c]) t
  end.

Lemma on_runs_pure f g : (forall r, f r = Ok (g r)) ->
  forall l acc, on_runs class f acc l = Ok (on_runs_p g acc l).
Proof.
  intro Hf. induction l as [|c t IH]; intro acc; cbn [on_runs on_runs_p].
  - apply Hf.
  - destruct (class c =? 0).
    + rewrite Hf. cbn [bind]. rewrite IH. cbn [bind]. reflexivity.
    + apply IH.
Qed.

(* weaker: f is only known on runs of marks *)
Lemma on_runs_pure_marks f g : (forall r, marks r -> f r = Ok (g r)) ->
  forall l acc, marks acc -> on_runs class f acc l = Ok (on_runs_p g acc l).
Proof.
  intro Hf. induction l as [|c t IH]; intros acc Hacc; cbn [on_runs on_runs_p].
  - apply Hf. exact Hacc.
  - destruct (class c =? 0) eqn:E.
    + rewrite Hf by exact Hacc. cbn [bind]. rewrite IH by constructor. cbn [bind]. reflexivity.
    + apply IH. apply Forall_app. split; [exact Hacc|]. constructor; [|constructor].
      unfold is_mark. lia.
Qed.

Lemma on_runs_p_ext g1 g2 : (forall r, marks r -> g1 r = g2 r) ->
  forall l acc, marks acc -> on_runs_p g1 acc l = on_runs_p g2 acc l.
Proof.
  intro H. induction l as [|c t IH]; intros acc Hacc; cbn [on_runs_p].
  - apply H. exact Hacc.
  - destruct (class c =? 0) eqn:E.
    + rewrite H by exact Hacc. rewrite IH by constructor. reflexivity.
    + apply IH. apply Forall_app. split; [exact Hacc|]. constructor; [|constructor]. unfold is_mark. lia.
Qed.

(* a run of marks is handed to g as a whole *)
Lemma on_runs_p_marks g r : forall acc, marks r -> on_runs_p g acc r = g (acc ++ r).
Proof.
  induction r as [|c t IH]; intros acc H; cbn [on_runs_p].
  - rewrite app_nil_r. reflexivity.
  - inversion H as [|? ? Hc Ht]; subst. unfold is_mark in Hc.
    assert (E : (class c =? 0) = false) by lia. rewrite E.
    rewrite IH by exact Ht. rewrite <- app_assoc. reflexivity.
Qed.

(* a class-0 character separates: what is before it and what is after it are treated independently *)
Lemma on_runs_p_split g z : class z = 0 -> forall x acc y,
  on_runs_p g acc (x ++ z :: y) = on_runs_p g acc x ++ z :: on_runs_p g [] y.
Proof.
  intro Hz. induction x as [|c t IH]; intros acc y; cbn [app on_runs_p].
  - assert (E : (class z =? 0) = true) by lia. rewrite E. reflexivity.
  - destruct (class c =? 0).
    + rewrite IH. rewrite <- app_assoc. reflexivity.
    + apply IH.
Qed.

Variable g : list Z -> list Z.
Hypothesis g_nil : g [] = [].

(* run locality: a maximal run of marks r, delimited by class-0 characters (or the ends of the text),
   is replaced by g r; the text before and after is processed on its own *)
Definition ends_with_base (x : list Z) : Prop := x = [] \/ exists x0 z, x = x0 ++ [z] /\ class z = 0.
Definition starts_with_base (y : list Z) : Prop := y = [] \/ exists z y0, y = z :: y0 /\ class z = 0.

Lemma on_runs_p_local x r y : ends_with_base x -> marks r -> starts_with_base y ->
  on_runs_p g [] (x ++ r ++ y) = on_runs_p g [] x ++ g r ++ on_runs_p g [] y.
Proof.
  intros Hx Hr Hy.
  assert (Hry : on_runs_p g [] (r ++ y) = g r ++ on_runs_p g [] y).
  { destruct Hy as [->|(z & y0 & -> & Hz)].
    - rewrite app_nil_r. cbn [on_runs_p]. rewrite g_nil, app_nil_r.
      rewrite on_runs_p_marks by exact Hr. reflexivity.
    - rewrite on_runs_p_split by exact Hz. rewrite on_runs_p_marks by exact Hr. cbn [app].
      cbn [on_runs_p]. assert (E : (class z =? 0) = true) by lia. rewrite E. rewrite g_nil. reflexivity. }
  destruct Hx as [->|(x0 & z & -> & Hz)].
  - cbn [app on_runs_p]. rewrite g_nil. cbn [app]. exact Hry.
  - rewrite <- app_assoc. cbn [app]. rewrite !on_runs_p_split by exact Hz.
    cbn [on_runs_p]. rewrite g_nil. rewrite Hry. rewrite <- app_assoc. reflexivity.
Qed.

Hypothesis g_length : forall r, length (g r) = length r.

Lemma on_runs_p_length : forall l acc, length (on_runs_p g acc l) = (length acc + length l)%nat.
Proof.
  induction l as [|c t IH]; intro acc; cbn [on_runs_p].
  - rewrite g_length. cbn [length]. lia.
  - destruct (class c =? 0).
    + rewrite app_length. cbn [length]. rewrite IH, g_length. cbn [length]. lia.
    + rewrite IH, app_length. cbn [length]. lia.
Qed.

(* a character of class 0 keeps its index *)
Lemma on_runs_p_base_fixed l i z : nth_error l i = Some z -> class z = 0 ->
  nth_error (on_runs_p g [] l) i = Some z.
Proof.
  intros Hn Hz. apply nth_error_split in Hn. destruct Hn as (x & y & -> & Hlen).
  rewrite on_runs_p_split by exact Hz.
  rewrite nth_error_app2; rewrite on_runs_p_length; cbn [length]; [|lia].
  replace (i - (0 + length x))%nat with O by lia. reflexivity.
Qed.

Hypothesis g_perm : forall r, Permutation r (g r).

Lemma on_runs_p_perm : forall l acc, Permutation (acc ++ l) (on_runs_p g acc l).
Proof.
  induction l as [|c t IH]; intro acc; cbn [on_runs_p].
  - rewrite app_nil_r. apply g_perm.
  - destruct (class c =? 0).
    + apply Permutation_app; [apply g_perm|]. apply perm_skip. exact (IH []).
    + eapply perm_trans; [|apply IH]. rewrite <- app_assoc. apply Permutation_refl.
Qed.

(* where the class-0 characters are is unchanged: the output has a mark exactly where the input has one *)
Lemma on_runs_p_mark_positions : forall l acc, marks acc ->
  map (fun c => class c =? 0) (on_runs_p g acc l) = map (fun c => class c =? 0) (acc ++ l).
Proof.
  assert (Hg : forall r, marks r -> map (fun c => class c =? 0) (g r) = map (fun c => class c =? 0) r).
  { intros r Hr.
    assert (Hgr : marks (g r)).
    { unfold marks in *. rewrite Forall_forall in *. intros x Hx. apply Hr.
      apply (Permutation_in x (Permutation_sym (g_perm r))). exact Hx. }
    assert (Hf : forall m, marks m -> map (fun c => class c =? 0) m = repeat false (length m)).
    { induction m as [|x m IHm]; intro Hm; [reflexivity|]. inversion Hm as [|? ? Hx Hm']; subst.
      cbn [map length repeat]. unfold is_mark in Hx. f_equal; [lia|apply IHm; exact Hm']. }
    rewrite (Hf _ Hgr), (Hf _ Hr), g_length. reflexivity. }
  induction l as [|c t IH]; intros acc Hacc; cbn [on_runs_p].
  - rewrite app_nil_r. apply Hg. exact Hacc.
  - destruct (class c =? 0) eqn:E.
    + rewrite !map_app. cbn [map]. rewrite E. rewrite Hg by exact Hacc. f_equal. f_equal.
      exact (IH [] (Forall_nil _)).
    + rewrite IH.
      * rewrite <- app_assoc. reflexivity.
      * apply Forall_app. split; [exact Hacc|]. constructor; [unfold is_mark; lia|constructor].
Qed.

End Runs.

(* two passes over the runs are one pass with the composed function, when the first pass keeps
   marks marks (it does when it permutes) *)
Lemma on_runs_p_compose class g1 g2 :
  g1 [] = [] ->
  (forall r, marks class r -> marks class (g1 r)) ->
  forall l acc, marks class acc ->
  on_runs_p class g2 [] (on_runs_p class g1 acc l) = on_runs_p class (fun r => g2 (g1 r)) acc l.
Proof.
  intros Hnil Hm. induction l as [|c t IH]; intros acc Hacc; cbn [on_runs_p].
  - rewrite on_runs_p_marks by (apply Hm; exact Hacc). reflexivity.
  - destruct (class c =? 0) eqn:E.
    + rewrite on_runs_p_split by lia. rewrite on_runs_p_marks by (apply Hm; exact Hacc).
      cbn [app]. rewrite IH by constructor. reflexivity.
    + apply IH. apply Forall_app. split; [exact Hacc|]. constructor; [unfold is_mark; lia|constructor].
Qed.

Lemma perm_marks class r r' : Permutation r r' -> marks class r -> marks class r'.
Proof.
  intros Hp Hr. unfold marks in *. rewrite Forall_forall in *. intros x Hx. apply Hr.
  apply (Permutation_in x (Permutation_sym Hp)). exact Hx.
Qed.
