(* Proofs/NormalizeProofs.v — lemmas behind Props/C13.v *)
From AV Require Import Base.Prelude Base.Lemmas Model.Normalize.
From Coq Require Import ZifyBool ZifyNat Sorted.
Ltac Zify.zify_post_hook ::= Z.div_mod_to_equations.
Open Scope Z_scope.

Definition i32_ok (x : Z) : Prop := -2147483648 <= x <= 2147483647.
Definition axis_ok (minv def maxv : Z) : Prop :=
  i32_ok minv /\ i32_ok def /\ i32_ok maxv /\ minv <= def <= maxv.

Lemma to_signed_small bits v : 0 < bits -> - 2 ^ (bits - 1) <= v < 2 ^ (bits - 1) -> to_signed bits v = v.
Proof.
  intros Hb Hv. unfold to_signed.
  assert (2 ^ bits = 2 * 2 ^ (bits - 1)) as Hp.
  { replace bits with (1 + (bits - 1)) at 1 by lia. rewrite Z.pow_add_r by lia. reflexivity. }
  assert (0 < 2 ^ (bits - 1)) by (apply Z.pow_pos_nonneg; lia).
  destruct (Z.leb_spec 0 v).
  - rewrite Z.mod_small by lia. replace (v <? 2 ^ (bits - 1)) with true by lia. reflexivity.
  - replace (v mod 2 ^ bits) with (v + 2 ^ bits).
    + replace (v + 2 ^ bits <? 2 ^ (bits - 1)) with false by lia. lia.
    + symmetry. rewrite <- (Z.mod_add v 1 (2 ^ bits)) by lia. rewrite Z.mod_small by lia. lia.
Qed.

Lemma to_signed16_small v : -32768 <= v < 32768 -> to_signed 16 v = v.
Proof. intros. apply to_signed_small; [lia|]. change (2 ^ (16 - 1)) with 32768. lia. Qed.
Lemma to_signed32_small v : -2147483648 <= v < 2147483648 -> to_signed 32 v = v.
Proof. intros. apply to_signed_small; [lia|]. change (2 ^ (32 - 1)) with 2147483648. lia. Qed.

(* ---------- fixed-point conversions: exhaustive statement over all 65536 F2Dot14 values,
   proved for the whole range at once *)
Lemma f2dot14_fixed_roundtrip v : -32768 <= v <= 32767 -> f2dot14_of_fx (fx_of_f2dot14 v) = v.
Proof.
  intros Hv. unfold f2dot14_of_fx, fx_of_f2dot14.
  replace ((v * 4 + 2) / 4) with v by lia. apply to_signed16_small. lia.
Qed.

Lemma f2dot14_of_fx_mono x y : -65536 <= x -> x <= y -> y <= 65536 -> f2dot14_of_fx x <= f2dot14_of_fx y.
Proof.
  intros. unfold f2dot14_of_fx. rewrite !to_signed16_small by lia. lia.
Qed.

Lemma f2dot14_of_fx_range x : -65536 <= x <= 65536 -> -16384 <= f2dot14_of_fx x <= 16384.
Proof. intros. unfold f2dot14_of_fx. rewrite to_signed16_small by lia. lia. Qed.

(* ---------- default normalisation *)
Lemma dn_range minv def maxv c : -65536 <= default_normalize minv def maxv c <= 65536.
Proof. unfold default_normalize, clampZ. lia. Qed.

Lemma quot_pos_mono a b d : 0 < d -> a <= b -> Z.quot a d <= Z.quot b d.
Proof. intros. apply Z.quot_le_mono; lia. Qed.

Lemma quot_bounds_nonneg a d : 0 <= a -> 0 < d -> 0 <= a - Z.quot a d * d < d /\ 0 <= Z.quot a d.
Proof.
  intros Ha Hd. rewrite Z.quot_div_nonneg by lia. split; [|apply Z.div_pos; lia].
  pose proof (Z.div_mod a d ltac:(lia)). pose proof (Z.mod_pos_bound a d Hd). lia.
Qed.

Lemma quot_bounds_nonpos a d : a <= 0 -> 0 < d -> - d < a - Z.quot a d * d <= 0 /\ Z.quot a d <= 0.
Proof.
  intros Ha Hd. replace a with (- (- a)) by lia. rewrite Z.quot_opp_l by lia.
  destruct (quot_bounds_nonneg (- a) d ltac:(lia) Hd) as [H1 H2]. lia.
Qed.

Lemma mul_lower q d k : 0 < d -> k * d <= q * d -> k <= q.
Proof. intros Hd H. destruct (Z.lt_ge_cases q k) as [Hlt|]; [|lia]. exfalso. assert ((q + 1) * d <= k * d) by nia. nia. Qed.
Lemma mul_upper q d k : 0 < d -> q * d <= k * d -> q <= k.
Proof. intros Hd H. destruct (Z.lt_ge_cases k q) as [Hlt|]; [|lia]. exfalso. assert ((k + 1) * d <= q * d) by nia. nia. Qed.

Definition dn_core (minv def maxv c : Z) : Z :=
  let delta := c - def in
  let span := if delta <? 0 then def - minv else maxv - def in
  if (delta =? 0) || (span <=? 0) then 0 else Z.quot (delta * 65536) span.

Lemma dn_unfold minv def maxv coord :
  default_normalize minv def maxv coord =
  clampZ (dn_core minv def maxv (Z.min (Z.max coord minv) maxv)) (-65536) 65536.
Proof. reflexivity. Qed.

Lemma dn_core_below minv def maxv c : c < def -> minv < def ->
  dn_core minv def maxv c = Z.quot ((c - def) * 65536) (def - minv).
Proof.
  intros H1 H2. unfold dn_core.
  destruct (c - def <? 0) eqn:E1; [|lia].
  destruct (c - def =? 0) eqn:E2; [lia|]. destruct (def - minv <=? 0) eqn:E3; [lia|]. reflexivity.
Qed.

Lemma dn_core_above minv def maxv c : def < c -> def < maxv ->
  dn_core minv def maxv c = Z.quot ((c - def) * 65536) (maxv - def).
Proof.
  intros H1 H2. unfold dn_core.
  destruct (c - def <? 0) eqn:E1; [lia|].
  destruct (c - def =? 0) eqn:E2; [lia|]. destruct (maxv - def <=? 0) eqn:E3; [lia|]. reflexivity.
Qed.

Lemma dn_core_at minv def maxv : dn_core minv def maxv def = 0.
Proof. unfold dn_core. replace (def - def =? 0) with true by lia. reflexivity. Qed.

(* for c in [min, max] the core value is already within [-1, 1] and has the sign of c - def *)
Lemma dn_core_sign minv def maxv c : minv <= def <= maxv -> minv <= c <= maxv ->
  (c < def -> -65536 <= dn_core minv def maxv c <= 0) /\
  (c = def -> dn_core minv def maxv c = 0) /\
  (def < c -> 0 <= dn_core minv def maxv c <= 65536).
Proof.
  intros Ha Hc. split; [|split]; intros Hd.
  - rewrite dn_core_below by lia.
    destruct (quot_bounds_nonpos ((c - def) * 65536) (def - minv) ltac:(lia) ltac:(lia)) as [H1 H2].
    split; [|lia]. apply (mul_lower _ (def - minv)); lia.
  - subst c. apply dn_core_at.
  - rewrite dn_core_above by lia.
    destruct (quot_bounds_nonneg ((c - def) * 65536) (maxv - def) ltac:(lia) ltac:(lia)) as [H1 H2].
    split; [lia|]. apply (mul_upper _ (maxv - def)); lia.
Qed.

Lemma dn_core_mono minv def maxv x y : minv <= def <= maxv -> minv <= x -> x <= y -> y <= maxv ->
  dn_core minv def maxv x <= dn_core minv def maxv y.
Proof.
  intros Ha Hx Hxy Hy.
  destruct (dn_core_sign minv def maxv x Ha ltac:(lia)) as [Sx1 [Sx2 Sx3]].
  destruct (dn_core_sign minv def maxv y Ha ltac:(lia)) as [Sy1 [Sy2 Sy3]].
  destruct (Z.lt_trichotomy x def) as [Hxd|[Hxd|Hxd]];
  destruct (Z.lt_trichotomy y def) as [Hyd|[Hyd|Hyd]]; try lia.
  - (* both below the default *)
    rewrite !dn_core_below by lia. apply quot_pos_mono; lia.
  - (* both above *)
    rewrite !dn_core_above by lia. apply quot_pos_mono; lia.
Qed.

Lemma dn_mono minv def maxv x y : minv <= def <= maxv -> x <= y ->
  default_normalize minv def maxv x <= default_normalize minv def maxv y.
Proof.
  intros Ha Hxy. rewrite !dn_unfold. unfold clampZ.
  assert (dn_core minv def maxv (Z.min (Z.max x minv) maxv) <=
          dn_core minv def maxv (Z.min (Z.max y minv) maxv)) by (apply dn_core_mono; lia).
  lia.
Qed.

(* endpoints: min -> -1, default -> 0, max -> +1, exactly *)
Lemma dn_endpoints minv def maxv : minv <= def <= maxv ->
  (minv < def -> default_normalize minv def maxv minv = -65536) /\
  default_normalize minv def maxv def = 0 /\
  (def < maxv -> default_normalize minv def maxv maxv = 65536).
Proof.
  intros Ha. rewrite !dn_unfold. unfold clampZ. split; [|split].
  - intros Hlt. replace (Z.min (Z.max minv minv) maxv) with minv by lia.
    rewrite dn_core_below by lia.
    replace ((minv - def) * 65536) with (- (65536 * (def - minv))) by lia.
    rewrite Z.quot_opp_l by lia. rewrite Z.quot_div_nonneg by lia.
    rewrite Z.div_mul by lia. lia.
  - replace (Z.min (Z.max def minv) maxv) with def by lia. rewrite dn_core_at. lia.
  - intros Hlt. replace (Z.min (Z.max maxv minv) maxv) with maxv by lia.
    rewrite dn_core_above by lia.
    replace ((maxv - def) * 65536) with (65536 * (maxv - def)) by lia.
    rewrite Z.quot_div_nonneg by lia. rewrite Z.div_mul by lia. lia.
Qed.

(* coordinates outside the axis range behave as the nearer end *)
Lemma dn_clamps minv def maxv c : minv <= maxv ->
  (c <= minv -> default_normalize minv def maxv c = default_normalize minv def maxv minv) /\
  (maxv <= c -> default_normalize minv def maxv c = default_normalize minv def maxv maxv).
Proof.
  intros Hm. rewrite !dn_unfold. split; intros Hc.
  - replace (Z.min (Z.max c minv) maxv) with (Z.min (Z.max minv minv) maxv) by lia. reflexivity.
  - replace (Z.min (Z.max c minv) maxv) with (Z.min (Z.max maxv minv) maxv) by lia. reflexivity.
Qed.

(* accuracy: the 2.14 result r satisfies |r - 16384*(c-def)/span| <= 1, i.e.
   |r*span - 16384*(c-def)| <= span, where c is the clamped coordinate and span the side in use *)
Lemma dn_accuracy minv def maxv coord : minv <= def <= maxv ->
  let c := Z.min (Z.max coord minv) maxv in
  let r := f2dot14_of_fx (default_normalize minv def maxv coord) in
  (c < def -> Z.abs (r * (def - minv) - 16384 * (c - def)) <= def - minv) /\
  (c = def -> r = 0) /\
  (def < c -> Z.abs (r * (maxv - def) - 16384 * (c - def)) <= maxv - def).
Proof.
  intros Ha c r. subst r. rewrite dn_unfold. fold c.
  assert (minv <= c <= maxv) as Hc by (unfold c; lia).
  destruct (dn_core_sign minv def maxv c Ha Hc) as [S1 [S2 S3]].
  unfold clampZ, f2dot14_of_fx. split; [|split]; intros Hd.
  - specialize (S1 Hd).
    replace (Z.min (Z.max (dn_core minv def maxv c) (-65536)) 65536) with (dn_core minv def maxv c) by lia.
    rewrite to_signed16_small by lia.
    rewrite dn_core_below in * by lia.
    destruct (quot_bounds_nonpos ((c - def) * 65536) (def - minv) ltac:(lia) ltac:(lia)) as [H1 H2].
    set (q := Z.quot ((c - def) * 65536) (def - minv)) in *.
    assert (4 * ((q + 2) / 4) <= q + 2 < 4 * ((q + 2) / 4) + 4) as Hr by lia.
    set (r := (q + 2) / 4) in *. set (d := def - minv) in *. nia.
  - rewrite (S2 Hd). reflexivity.
  - specialize (S3 Hd).
    replace (Z.min (Z.max (dn_core minv def maxv c) (-65536)) 65536) with (dn_core minv def maxv c) by lia.
    rewrite to_signed16_small by lia.
    rewrite dn_core_above in * by lia.
    destruct (quot_bounds_nonneg ((c - def) * 65536) (maxv - def) ltac:(lia) ltac:(lia)) as [H1 H2].
    set (q := Z.quot ((c - def) * 65536) (maxv - def)) in *.
    assert (4 * ((q + 2) / 4) <= q + 2 < 4 * ((q + 2) / 4) + 4) as Hr by lia.
    set (r := (q + 2) / 4) in *. set (d := maxv - def) in *. nia.
Qed.

(* ---------- avar segment maps *)
Definition i16_pair (e : Z * Z) : Prop := -32768 <= fst e <= 32767 /\ -32768 <= snd e <= 32767.
Definition map_ok (maps : list (Z * Z)) : Prop :=
  StronglySorted (fun a b => fst a < fst b) maps /\ Forall i16_pair maps.

Lemma fx_sub_small a b : -262144 <= a <= 262144 -> -262144 <= b <= 262144 -> fx_sub a b = a - b.
Proof. intros. unfold fx_sub. apply to_signed32_small. lia. Qed.

(* a knot that is the current start of a segment maps to its target through interpolation with ratio 0 *)
Lemma seg_scan_at_start s e rest :
  i16_pair s -> i16_pair e -> fst s < fst e ->
  seg_scan (Some s) (e :: rest) (fx_of_f2dot14 (fst s)) = fx_of_f2dot14 (snd s).
Proof.
  intros [Hs1 Hs2] [He1 He2] Hlt. cbn [seg_scan]. unfold fx_of_f2dot14.
  replace (fst e * 4 =? fst s * 4) with false by lia.
  replace (fst s * 4 <? fst e * 4) with true by lia.
  rewrite !fx_sub_small by lia.
  replace (fst s * 4 - fst s * 4) with 0 by lia.
  unfold fx_div. replace (fst e * 4 - fst s * 4 =? 0) with false by lia.
  rewrite Z.mul_0_l. rewrite Z.quot_0_l by lia.
  change (to_signed 32 0) with 0. unfold fx_mul. rewrite Z.mul_0_l.
  change (0 / 65536) with 0. change (to_signed 32 0) with 0.
  unfold fx_add. rewrite Z.add_0_r. apply to_signed32_small. lia.
Qed.

(* a knot further along the list is found by the `==` test *)
Lemma seg_scan_knot_tail f t : forall maps s,
  StronglySorted (fun a b => fst a < fst b) (s :: maps) -> In (f, t) maps ->
  seg_scan (Some s) maps (fx_of_f2dot14 f) = fx_of_f2dot14 t.
Proof.
  unfold fx_of_f2dot14.
  induction maps as [|e rest IH]; intros s Hs Hin; [contradiction|].
  inversion Hs as [|? ? Hs' Hall]; subst. inversion Hs' as [|? ? Hs'' Hall']; subst.
  cbn [seg_scan]. unfold fx_of_f2dot14.
  destruct Hin as [->|Hin].
  - cbn [fst snd]. rewrite Z.eqb_refl. reflexivity.
  - assert (fst e < f) as Hlt.
    { rewrite Forall_forall in Hall'. specialize (Hall' _ Hin). exact Hall'. }
    replace (fst e * 4 =? f * 4) with false by lia.
    replace (f * 4 <? fst e * 4) with false by lia.
    apply IH; assumption.
Qed.

Lemma seg_scan_none e rest x : seg_scan None (e :: rest) x = seg_scan (Some e) rest x.
Proof. reflexivity. Qed.

Lemma avar_knots maps f t :
  map_ok maps -> (2 <= length maps)%nat -> In (f, t) maps ->
  avar_normalize maps (fx_of_f2dot14 f) = fx_of_f2dot14 t.
Proof.
  intros [Hs Hr] Hlen Hin. unfold avar_normalize.
  destruct maps as [|e0 [|e1 rest]]; cbn [length] in Hlen; try lia.
  rewrite seg_scan_none.
  destruct Hin as [Heq|Hin].
  - subst e0. inversion Hs as [|? ? _ Hall]; subst. inversion Hall as [|? ? Hlt _]; subst.
    inversion Hr as [|? ? H0 Hr']; subst. inversion Hr' as [|? ? H1 _]; subst.
    apply (seg_scan_at_start (f, t) e1 rest); assumption.
  - apply seg_scan_knot_tail; assumption.
Qed.

(* in 2.14 units, after the re-clamp: a knot with target in [-1, 1] comes out as exactly that target *)
Lemma avar_knot_result maps f t :
  map_ok maps -> (2 <= length maps)%nat -> In (f, t) maps -> -16384 <= t <= 16384 ->
  f2dot14_of_fx (clampZ (avar_normalize maps (fx_of_f2dot14 f)) (fx_of_int (-1)) (fx_of_int 1)) = t.
Proof.
  intros Hm Hl Hin Ht. rewrite (avar_knots maps f t Hm Hl Hin).
  change (fx_of_int (-1)) with (-65536). change (fx_of_int 1) with 65536.
  unfold clampZ, fx_of_f2dot14, f2dot14_of_fx.
  replace (Z.min (Z.max (t * 4) (-65536)) 65536) with (t * 4) by lia.
  replace ((t * 4 + 2) / 4) with t by lia. apply to_signed16_small. lia.
Qed.

(* ---------- the whole tuple *)
Lemma normalize_axis_range axis c map : -16384 <= normalize_axis axis c map <= 16384.
Proof.
  destruct axis as [[minv def] maxv]. unfold normalize_axis.
  apply f2dot14_of_fx_range. destruct map as [m|].
  - change (fx_of_int (-1)) with (-65536). change (fx_of_int 1) with 65536. unfold clampZ. lia.
  - apply dn_range.
Qed.

Lemma fvar_normalize_len axes coords avar :
  length coords <> length axes -> fvar_normalize axes coords avar = Err BadValue.
Proof.
  intros H. unfold fvar_normalize, len.
  replace (Z.of_nat (length coords) =? Z.of_nat (length axes)) with false by lia. reflexivity.
Qed.

Lemma normalize_axes_plain : forall axes coords, length coords = length axes ->
  normalize_axes axes coords None = Ok (map (fun ac => normalize_axis (fst ac) (snd ac) None) (combine axes coords)).
Proof.
  induction axes as [|a axes IH]; intros [|c coords] Hl; cbn [length] in Hl; try discriminate; try reflexivity.
  cbn [normalize_axes combine map fst snd]. rewrite IH by lia. reflexivity.
Qed.

Lemma normalize_axes_avar : forall axes coords maps,
  length coords = length axes -> (length axes <= length maps)%nat ->
  normalize_axes axes coords (Some maps) =
  Ok (map (fun acm => normalize_axis (fst (fst acm)) (snd (fst acm)) (Some (snd acm)))
          (combine (combine axes coords) maps)).
Proof.
  induction axes as [|a axes IH]; intros [|c coords] maps Hl Hm; cbn [length] in Hl; try discriminate; try reflexivity.
  destruct maps as [|m maps]; cbn [length] in Hm; [lia|].
  cbn [normalize_axes combine map fst snd]. rewrite IH by lia. reflexivity.
Qed.

Lemma normalize_axes_avar_short : forall axes coords maps,
  length coords = length axes -> (length maps < length axes)%nat ->
  normalize_axes axes coords (Some maps) = Err BadIndex.
Proof.
  induction axes as [|a axes IH]; intros [|c coords] maps Hl Hm; cbn [length] in *; try discriminate; try lia.
  destruct maps as [|m maps]; [reflexivity|]. cbn [length] in Hm.
  cbn [normalize_axes]. rewrite IH by lia. reflexivity.
Qed.

(* monotonicity of the final 2.14 value in the user coordinate (no avar) *)
Lemma normalize_axis_mono minv def maxv x y : minv <= def <= maxv -> x <= y ->
  normalize_axis (minv, def, maxv) x None <= normalize_axis (minv, def, maxv) y None.
Proof.
  intros Ha Hxy. unfold normalize_axis.
  pose proof (dn_range minv def maxv x). pose proof (dn_range minv def maxv y).
  apply f2dot14_of_fx_mono; try lia. apply dn_mono; assumption.
Qed.

Lemma normalize_axis_endpoints minv def maxv : minv <= def <= maxv ->
  (minv < def -> normalize_axis (minv, def, maxv) minv None = -16384) /\
  normalize_axis (minv, def, maxv) def None = 0 /\
  (def < maxv -> normalize_axis (minv, def, maxv) maxv None = 16384).
Proof.
  intros Ha. destruct (dn_endpoints minv def maxv Ha) as [H1 [H2 H3]]. unfold normalize_axis.
  split; [|split]; intros; rewrite ?H1, ?H2, ?H3 by assumption; reflexivity.
Qed.

(* ---------- totality (C01): normalisation returns a tuple or an error for every fvar/avar content *)
Lemma normalize_axes_total : forall axes coords avar,
  (exists v, normalize_axes axes coords avar = Ok v) \/ (exists e, normalize_axes axes coords avar = Err e).
Proof.
  induction axes as [|a axes IH]; intros coords avar; [left; eexists; reflexivity|].
  destruct coords as [|c coords]; [left; eexists; reflexivity|].
  cbn [normalize_axes]. destruct avar as [[|m maps]|].
  - right; eexists; reflexivity.
  - destruct (IH coords (Some maps)) as [[v ->]|[e ->]]; cbn [bind]; [left|right]; eexists; reflexivity.
  - destruct (IH coords None) as [[v ->]|[e ->]]; cbn [bind]; [left|right]; eexists; reflexivity.
Qed.

Lemma fvar_normalize_total axes coords avar :
  (exists v, fvar_normalize axes coords avar = Ok v) \/ (exists e, fvar_normalize axes coords avar = Err e).
Proof.
  unfold fvar_normalize. destruct (negb (len coords =? len axes)); [right; eexists; reflexivity|].
  apply normalize_axes_total.
Qed.

(* ---------- monotonicity through a monotone avar map *)
Definition interp (s e : Z * Z) (x : Z) : Z :=
  let ratio := fx_div (fx_sub x (fx_of_f2dot14 (fst s)))
                      (fx_sub (fx_of_f2dot14 (fst e)) (fx_of_f2dot14 (fst s))) in
  fx_add (fx_of_f2dot14 (snd s)) (fx_mul ratio (fx_sub (fx_of_f2dot14 (snd e)) (fx_of_f2dot14 (snd s)))).

(* inside a segment the interpolated value is ts*4 + floor(q * (te-ts)*4 / 65536) with
   q = floor((x - fs*4) * 65536 / ((fe - fs)*4)) in [0, 65536) *)
Lemma interp_exact s e x : i16_pair s -> i16_pair e -> fst s < fst e -> snd s <= snd e ->
  fst s * 4 <= x < fst e * 4 ->
  let q := (x - fst s * 4) * 65536 / ((fst e - fst s) * 4) in
  0 <= q < 65536 /\ interp s e x = snd s * 4 + q * ((snd e - snd s) * 4) / 65536.
Proof.
  intros [Hs1 Hs2] [He1 He2] Hlt Hle Hx q.
  assert (0 <= q < 65536) as Hq.
  { unfold q. split; [apply Z.div_pos; lia|]. apply Z.div_lt_upper_bound; lia. }
  split; [exact Hq|].
  unfold interp, fx_of_f2dot14. rewrite !fx_sub_small by lia.
  unfold fx_div. replace (fst e * 4 - fst s * 4 =? 0) with false by lia.
  rewrite Z.quot_div_nonneg by lia.
  replace (fst e * 4 - fst s * 4) with ((fst e - fst s) * 4) by lia. fold q.
  rewrite to_signed32_small by lia.
  unfold fx_mul.
  assert (0 <= q * (snd e * 4 - snd s * 4) / 65536 <= snd e * 4 - snd s * 4) as Hm.
  { split; [apply Z.div_pos; nia|]. apply Z.div_le_upper_bound; nia. }
  rewrite to_signed32_small by lia.
  unfold fx_add. rewrite to_signed32_small by lia.
  replace (snd e * 4 - snd s * 4) with ((snd e - snd s) * 4) by lia. reflexivity.
Qed.

Lemma interp_bounds s e x : i16_pair s -> i16_pair e -> fst s < fst e -> snd s <= snd e ->
  fst s * 4 <= x < fst e * 4 -> snd s * 4 <= interp s e x <= snd e * 4.
Proof.
  intros Hs He Hlt Hle Hx. destruct (interp_exact s e x Hs He Hlt Hle Hx) as [Hq ->].
  destruct Hs as [_ Hs2]. destruct He as [_ He2].
  set (q := (x - fst s * 4) * 65536 / ((fst e - fst s) * 4)) in *.
  assert (0 <= q * ((snd e - snd s) * 4) / 65536 <= (snd e - snd s) * 4).
  { split; [apply Z.div_pos; nia|]. apply Z.div_le_upper_bound; nia. }
  lia.
Qed.

Lemma interp_mono s e x y : i16_pair s -> i16_pair e -> fst s < fst e -> snd s <= snd e ->
  fst s * 4 <= x -> x <= y -> y < fst e * 4 -> interp s e x <= interp s e y.
Proof.
  intros Hs He Hlt Hle Hx Hxy Hy.
  destruct (interp_exact s e x Hs He Hlt Hle ltac:(lia)) as [Hqx ->].
  destruct (interp_exact s e y Hs He Hlt Hle ltac:(lia)) as [Hqy ->].
  assert ((x - fst s * 4) * 65536 / ((fst e - fst s) * 4) <= (y - fst s * 4) * 65536 / ((fst e - fst s) * 4)) as Hq
    by (apply Z.div_le_mono; lia).
  apply Z.add_le_mono_l. apply Z.div_le_mono; [lia|]. apply Z.mul_le_mono_nonneg_r; lia.
Qed.

Definition targets_mono (maps : list (Z * Z)) : Prop := StronglySorted (fun a b => snd a <= snd b) maps.

Lemma seg_scan_cons s e rest x :
  seg_scan (Some s) (e :: rest) x =
  if fst e * 4 =? x then snd e * 4
  else if x <? fst e * 4 then interp s e x
  else seg_scan (Some e) rest x.
Proof. reflexivity. Qed.

(* value bounds and monotonicity of the scan from a start knot s, for x between s and the last knot *)
Lemma last_in_tail (r : Z * Z) l d : In (last (r :: l) d) (r :: l).
Proof.
  revert r. induction l as [|a l IH]; intros r; [left; reflexivity|].
  right. change (last (r :: a :: l) d) with (last (a :: l) d). apply IH.
Qed.

Lemma seg_scan_bounds_mono : forall maps s, maps <> [] ->
  map_ok (s :: maps) -> targets_mono (s :: maps) ->
  (forall x, fst s * 4 <= x -> x <= fst (last maps s) * 4 ->
     snd s * 4 <= seg_scan (Some s) maps x <= snd (last maps s) * 4) /\
  (forall x y, fst s * 4 <= x -> x <= y -> y <= fst (last maps s) * 4 ->
     seg_scan (Some s) maps x <= seg_scan (Some s) maps y).
Proof.
  induction maps as [|e rest IH]; intros s Hne [Hsort Hrange] Hmono; [congruence|].
  inversion Hsort as [|? ? Hsort' Hall]; subst. inversion Hrange as [|? ? Hs Hrange']; subst.
  inversion Hmono as [|? ? Hmono' Hmall]; subst.
  inversion Hall as [|? ? Hlt _]; subst. inversion Hmall as [|? ? Hle _]; subst.
  inversion Hrange' as [|? ? He _]; subst.
  assert (map_ok (e :: rest)) as Hok' by (split; assumption).
  destruct rest as [|r rest'].
  - (* e is the last knot *)
    cbn [last]. split.
    + intros x Hx1 Hx2. rewrite seg_scan_cons.
      destruct (fst e * 4 =? x) eqn:E1; [destruct Hs, He; lia|].
      replace (x <? fst e * 4) with true by lia.
      pose proof (interp_bounds s e x Hs He Hlt Hle ltac:(lia)). lia.
    + intros x y Hx Hxy Hy. rewrite !seg_scan_cons.
      destruct (fst e * 4 =? x) eqn:Ex1; destruct (fst e * 4 =? y) eqn:Ey1; try lia.
      * replace (x <? fst e * 4) with true by lia.
        pose proof (interp_bounds s e x Hs He Hlt Hle ltac:(lia)). lia.
      * replace (x <? fst e * 4) with true by lia. replace (y <? fst e * 4) with true by lia.
        apply interp_mono; auto; lia.
  - destruct (IH e ltac:(congruence) Hok' Hmono') as [IHb IHm].
    change (last (e :: r :: rest') s) with (last (r :: rest') s).
    assert (last (r :: rest') s = last (r :: rest') e) as Hlast.
    { clear. revert r. induction rest' as [|a l IHl]; intros r; [reflexivity|].
      change (last (r :: a :: l) s) with (last (a :: l) s). change (last (r :: a :: l) e) with (last (a :: l) e). apply IHl. }
    rewrite Hlast.
    assert (fst e < fst (last (r :: rest') e) /\ snd e <= snd (last (r :: rest') e)) as [Hfl Htl].
    { inversion Hsort' as [|? ? _ Ha]; subst. inversion Hmono' as [|? ? _ Hb]; subst.
      pose proof (last_in_tail r rest' e) as Hin.
      rewrite Forall_forall in Ha, Hb. specialize (Ha _ Hin). specialize (Hb _ Hin). lia. }
    split.
    + intros x Hx1 Hx2. rewrite (seg_scan_cons s e (r :: rest')).
      destruct (fst e * 4 =? x) eqn:E1; [destruct Hs, He; lia|].
      destruct (x <? fst e * 4) eqn:E2.
      * pose proof (interp_bounds s e x Hs He Hlt Hle ltac:(lia)). lia.
      * specialize (IHb x ltac:(lia) Hx2). destruct Hs; lia.
    + intros x y Hx Hxy Hy. rewrite !(seg_scan_cons s e (r :: rest')).
      destruct (fst e * 4 =? x) eqn:Ex1; destruct (fst e * 4 =? y) eqn:Ey1; try lia.
      * replace (y <? fst e * 4) with false by lia.
        specialize (IHb y ltac:(lia) Hy). lia.
      * destruct (x <? fst e * 4) eqn:E2; [|lia].
        pose proof (interp_bounds s e x Hs He Hlt Hle ltac:(lia)). lia.
      * destruct (x <? fst e * 4) eqn:E2; destruct (y <? fst e * 4) eqn:E3; try lia.
        -- apply interp_mono; auto; lia.
        -- pose proof (interp_bounds s e x Hs He Hlt Hle ltac:(lia)).
           specialize (IHb y ltac:(lia) Hy). lia.
        -- apply IHm; lia.
Qed.

(* monotone in the default-normalised value over [-1, 1] for a valid monotone segment map *)
Lemma avar_normalize_mono maps x y :
  map_ok maps -> targets_mono maps -> (1 <= length maps)%nat ->
  fst (hd (0, 0) maps) = -16384 -> fst (last maps (0, 0)) = 16384 ->
  -65536 <= x -> x <= y -> y <= 65536 ->
  avar_normalize maps x <= avar_normalize maps y.
Proof.
  intros Hok Hmono Hlen Hfirst Hlast Hx Hxy Hy. unfold avar_normalize.
  destruct maps as [|e0 rest]; [cbn in Hlen; lia|]. cbn [hd] in Hfirst.
  destruct rest as [|e1 rest]; [cbn [last] in Hlast; lia|].
  rewrite !seg_scan_none.
  destruct (seg_scan_bounds_mono (e1 :: rest) e0 ltac:(congruence) Hok Hmono) as [_ Hm].
  assert (last (e0 :: e1 :: rest) (0, 0) = last (e1 :: rest) e0) as Hl.
  { change (last (e0 :: e1 :: rest) (0, 0)) with (last (e1 :: rest) (0, 0)).
    clear. revert e1. induction rest as [|a l IH]; intros e1; [reflexivity|].
    change (last (e1 :: a :: l) (0, 0)) with (last (a :: l) (0, 0)). change (last (e1 :: a :: l) e0) with (last (a :: l) e0). apply IH. }
  rewrite Hl in Hlast. apply Hm; lia.
Qed.

Lemma normalize_axis_avar_mono minv def maxv maps x y : minv <= def <= maxv -> x <= y ->
  map_ok maps -> targets_mono maps -> (1 <= length maps)%nat ->
  fst (hd (0, 0) maps) = -16384 -> fst (last maps (0, 0)) = 16384 ->
  normalize_axis (minv, def, maxv) x (Some maps) <= normalize_axis (minv, def, maxv) y (Some maps).
Proof.
  intros Ha Hxy Hok Hmono Hlen Hf Hl. unfold normalize_axis.
  pose proof (dn_range minv def maxv x). pose proof (dn_range minv def maxv y).
  pose proof (dn_mono minv def maxv x y Ha Hxy).
  change (fx_of_int (-1)) with (-65536). change (fx_of_int 1) with 65536. unfold clampZ.
  apply f2dot14_of_fx_mono; try lia.
  pose proof (avar_normalize_mono maps _ _ Hok Hmono Hlen Hf Hl (proj1 H) H1 (proj2 H0)). lia.
Qed.
