(* Proofs/PreprocessTop.v — scripts::preprocess_text as a whole: reference tables typed by hand from
   Unicode / UTR #53 / the OpenType script-development documents, the generated tables against them,
   the dispatch, absence of panics, and the per-script statements assembled for Props/C17.v. *)
From AV Require Import Base.Prelude Base.Lemmas Gen.PreprocessTables Model.Preprocess Model.PreprocessRef
  Proofs.PreprocessSort Proofs.PreprocessRuns Proofs.PreprocessMarks Proofs.PreprocessThai
  Proofs.PreprocessIndic.
From Coq Require Import Permutation Sorted.
Open Scope Z_scope.

(* ================= generated tables = reference ================= *)
Definition ic_eqb (a b : insert_constraint) : bool :=
  match a, b with
  | ICBetween, ICBetween => true
  | ICMaybeAfter x, ICMaybeAfter y => x =? y
  | ICNone, ICNone => true
  | _, _ => false
  end.
Definition action_eqb (a b : action) : bool :=
  match a, b with
  | ActArabic, ActArabic | ActSort, ActSort | ActIndic, ActIndic | ActKhmer, ActKhmer
  | ActNone, ActNone | ActThaiLao, ActThaiLao => true
  | _, _ => false
  end.
Definition subset_z (a b : list Z) : bool := forallb (fun x => mem_z x b) a.
Definition same_set_z (a b : list Z) : bool := subset_z a b && subset_z b a.
Definition abovebase_chars : list Z :=
  flat_map (fun r => range (fst r) (Z.to_nat (snd r - fst r + 1))) ABOVEBASE_RANGES.

(* every table the preprocessing consults agrees with the reference, in both directions *)
Definition tables_check : bool :=
  (* combining class remapping *)
  zlist_eqb MCC_TABLE (map ref_mcc (range 0 256)) &&
  (MCC_FAST_PATH_MAX =? 0x02FF) &&
  (* Arabic *)
  same_set_z MCM_CHARS REF_MCM && (SHADDA_CLASS =? REF_SHADDA_CLASS) &&
  zlist_eqb ARABIC_OTHER_STEPS REF_ARABIC_STEPS &&
  (* Thai / Lao *)
  forallb (fun e => match assoc_z (fst e) REF_AM with
                    | Some (a, b) => (a =? fst (snd e)) && (b =? snd (snd e)) | None => false end) AM_SPLITS &&
  forallb (fun e => match split_am_vowel (fst e) with Some _ => true | None => false end) REF_AM &&
  same_set_z abovebase_chars REF_ABOVEBASE &&
  (* Indic *)
  forallb (fun e => match assoc_z (fst e) REF_MATRA with
                    | Some parts => zlist_eqb parts (snd e) | None => false end) MATRA_SPLITS &&
  forallb (fun e => match split_matra (fst e) with Some _ => true | None => false end) REF_MATRA &&
  forallb (fun e => ic_eqb (ref_vowel_constraint (fst (fst e)) (snd (fst e))) (snd e)) VOWEL_CONSTRAINTS &&
  forallb (fun g => forallb (fun c2 => ic_eqb (vowel_constraint (fst g) c2) ICBetween) (snd g)) REF_VOWEL_PAIRS &&
  forallb (fun t => ic_eqb (vowel_constraint (fst (fst t)) (snd (fst t))) (ICMaybeAfter (snd t))) REF_VOWEL_TRIPLES &&
  (YA =? REF_YA) && (NUKTA =? REF_NUKTA) && (YYA =? REF_YYA) &&
  zlist_eqb KANNADA_PREFIX REF_KANNADA_PREFIX &&
  (* Khmer *)
  same_set_z KHMER_SPLIT_VOWELS REF_KHMER_VOWELS && (KHMER_PREBASE_PART =? REF_KHMER_PREBASE) &&
  (DOTTED_CIRCLE =? REF_DOTTED_CIRCLE).

Lemma tables_match_reference : tables_check = true.
Proof. vm_compute. reflexivity. Qed.

(* consequences used below, each read off tables_check *)
Lemma mcc_table_is_reference : MCC_TABLE = map ref_mcc (range 0 256).
Proof. apply zlist_eqb_eq. vm_compute. reflexivity. Qed.

(* the remapping keeps class 0, never fails on a u8, and keeps distinct classes distinct *)
Lemma mcc_table_facts :
  length MCC_TABLE = 256%nat /\ nth 0 MCC_TABLE 1 = 0 /\
  NoDup (filter (fun m => negb (m =? 0)) MCC_TABLE) /\
  (forall c ccc, 0 <= ccc < 256 -> exists m, modified_combining_class_of c ccc = Ok m).
Proof.
  split; [reflexivity|]. split; [reflexivity|]. split.
  - assert (H : forall l : list Z, (fix nodupb (l : list Z) : bool :=
                 match l with [] => true | x :: t => negb (mem_z x t) && nodupb t end) l = true -> NoDup l).
    { induction l as [|x t IH]; intro H; [constructor|].
      apply andb_true_iff in H. destruct H as [Hx Ht]. constructor; [|apply IH; exact Ht].
      intro Hin. unfold mem_z in Hx. apply negb_true_iff in Hx.
      assert (Hex : existsb (Z.eqb x) t = true).
      { apply existsb_exists. exists x. split; [exact Hin|apply Z.eqb_refl]. }
      congruence. }
    apply H. vm_compute. reflexivity.
  - intros c ccc Hc. unfold modified_combining_class_of.
    destruct (c <=? MCC_FAST_PATH_MAX); [eexists; reflexivity|].
    destruct (nth_error MCC_TABLE (Z.to_nat ccc)) as [m|] eqn:E; [eexists; reflexivity|].
    apply nth_error_None in E. change (length MCC_TABLE) with 256%nat in E. lia.
Qed.

(* ================= dispatch ================= *)
Definition dispatch_action (tag : Z) : action := action_of (script_type_of tag).

Lemma assoc_z_map {A B} (f : A -> B) c (l : list (Z * A)) :
  assoc_z c (map (fun e => (fst e, f (snd e))) l) = option_map f (assoc_z c l).
Proof.
  induction l as [|[k v] t IH]; cbn [map assoc_z fst snd]; [reflexivity|].
  destruct (c =? k); [reflexivity|exact IH].
Qed.

Lemma dispatch_reference tag : dispatch_action tag = ref_action tag.
Proof.
  unfold dispatch_action, ref_action, script_type_of.
  assert (H : REF_ACTIONS = map (fun e => (fst e, action_of (snd e))) SCRIPT_TYPE_TABLE)
    by (vm_compute; reflexivity).
  rewrite H, assoc_z_map. destruct (assoc_z tag SCRIPT_TYPE_TABLE); reflexivity.
Qed.

Lemma assoc_z_In_fst {A} c (l : list (Z * A)) v : assoc_z c l = Some v -> In (c, v) l.
Proof. apply assoc_z_In. Qed.

(* fn script never reaches its panic arm: every tag dispatched to the Indic code is one it knows *)
Lemma indic_script_total tag : dispatch_action tag = ActIndic -> exists s, indic_script_of tag = Ok s.
Proof.
  unfold dispatch_action, script_type_of, indic_script_of. intro H.
  destruct (assoc_z tag SCRIPT_TYPE_TABLE) as [t|] eqn:E.
  - apply assoc_z_In in E.
    assert (Hall : forallb (fun e => match action_of (snd e) with
                                     | ActIndic => match assoc_z (fst e) INDIC_SCRIPT_TABLE with Some _ => true | None => false end
                                     | _ => true end) SCRIPT_TYPE_TABLE = true) by (vm_compute; reflexivity).
    rewrite forallb_forall in Hall. specialize (Hall _ E). cbn [fst snd] in Hall. rewrite H in Hall.
    destruct (assoc_z tag INDIC_SCRIPT_TABLE) as [s|]; [exists s; reflexivity|discriminate].
  - vm_compute in H. discriminate.
Qed.

(* which script gets which extra step *)
Lemma indic_script_steps tag s : indic_script_of tag = Ok s ->
  (is_ya_nukta_script s = true <-> tag = REF_BENGALI_TAG) /\
  (is_ra_halant_script s = true <-> tag = REF_KANNADA_TAG).
Proof.
  unfold indic_script_of. intro H.
  destruct (assoc_z tag INDIC_SCRIPT_TABLE) as [s'|] eqn:E; [|discriminate].
  inversion H; subst s'. apply assoc_z_In in E.
  assert (Hall : forallb (fun e => Bool.eqb (is_ya_nukta_script (snd e)) (fst e =? REF_BENGALI_TAG) &&
                                   Bool.eqb (is_ra_halant_script (snd e)) (fst e =? REF_KANNADA_TAG))
                         INDIC_SCRIPT_TABLE = true) by (vm_compute; reflexivity).
  rewrite forallb_forall in Hall. specialize (Hall _ E). cbn [fst snd] in Hall.
  apply andb_true_iff in Hall. destruct Hall as [H1 H2].
  apply Bool.eqb_prop in H1. apply Bool.eqb_prop in H2. rewrite H1, H2. rewrite !Z.eqb_eq. tauto.
Qed.

Section Top.
Variable class : Z -> Z.

(* the specification of preprocess_text: a total function of the text, the tag and the class function *)
Definition preprocess_spec (cs : list Z) (tag : Z) : list Z :=
  match dispatch_action tag with
  | ActArabic => arabic_p class cs
  | ActSort => sort_p class cs
  | ActIndic =>
    match indic_script_of tag with Ok s => indic_p class s cs | _ => cs end
  | ActKhmer => khmer_p class cs
  | ActNone => cs
  | ActThaiLao => thai_p class cs
  end.

Lemma preprocess_text_spec cs tag : preprocess_text class cs tag = Ok (preprocess_spec cs tag).
Proof.
  unfold preprocess_text, preprocess_spec. fold (dispatch_action tag).
  destruct (dispatch_action tag) eqn:Ea.
  - apply arabic_ok.
  - apply sort_ok.
  - destruct (indic_script_total tag Ea) as (s & Hs). rewrite Hs. apply preprocess_indic_ok. exact Hs.
  - apply preprocess_khmer_ok.
  - reflexivity.
  - apply thai_ok.
Qed.

Lemma never_panics cs tag : exists out, preprocess_text class cs tag = Ok out.
Proof. eexists. apply preprocess_text_spec. Qed.

(* the combining-class sort on its own (it is also the last step for Thai/Lao, Indic and Khmer) *)
Lemma sort_p_props l :
  sort_by_modified_combining_class class l = Ok (sort_p class l) /\
  Permutation l (sort_p class l) /\ length (sort_p class l) = length l /\
  (forall i z, nth_error l i = Some z -> class z = 0 -> nth_error (sort_p class l) i = Some z) /\
  map (fun c => class c =? 0) (sort_p class l) = map (fun c => class c =? 0) l /\
  (forall x r y, l = x ++ r ++ y -> ends_with_base class x -> marks class r -> starts_with_base class y ->
     sort_p class l = sort_p class x ++ sort_by_key class r ++ sort_p class y).
Proof.
  split; [apply sort_ok|]. split; [apply sort_p_perm|]. split; [apply sort_p_length|].
  split; [intros i z; apply sort_p_base_fixed|]. split; [apply sort_p_mark_positions|].
  intros x r y -> Hx Hr Hy. apply sort_p_local; assumption.
Qed.

(* ---- default / Syriac path ---- *)
Lemma default_spec cs tag : dispatch_action tag = ActSort -> preprocess_text class cs tag = Ok (sort_p class cs).
Proof. intro H. rewrite preprocess_text_spec. unfold preprocess_spec. rewrite H. reflexivity. Qed.

Lemma default_is_permutation cs tag out : dispatch_action tag = ActSort ->
  preprocess_text class cs tag = Ok out -> Permutation cs out /\ length out = length cs.
Proof.
  intros H Ho. rewrite default_spec in Ho by exact H. inversion Ho; subst.
  split; [apply sort_p_perm|apply sort_p_length].
Qed.

Lemma bases_keep_position cs tag out : (dispatch_action tag = ActSort \/ dispatch_action tag = ActArabic) ->
  preprocess_text class cs tag = Ok out ->
  (forall i z, nth_error cs i = Some z -> class z = 0 -> nth_error out i = Some z) /\
  map (fun c => class c =? 0) out = map (fun c => class c =? 0) cs.
Proof.
  intros H Ho. rewrite preprocess_text_spec in Ho. inversion Ho; subst. unfold preprocess_spec.
  destruct H as [H|H]; rewrite H.
  - split; [intros i z; apply sort_p_base_fixed|apply sort_p_mark_positions].
  - split; [intros i z; apply arabic_p_base_fixed|].
    unfold arabic_p. rewrite on_runs_p_mark_positions; [reflexivity|apply arabic_run_spec_length|
      apply arabic_run_spec_perm|constructor].
Qed.

(* every maximal run of marks is stably sorted, and that determines it *)
Lemma runs_stably_sorted x r y tag out : dispatch_action tag = ActSort ->
  ends_with_base class x -> marks class r -> starts_with_base class y ->
  preprocess_text class (x ++ r ++ y) tag = Ok out ->
  exists x' r' y', out = x' ++ r' ++ y' /\
    preprocess_text class x tag = Ok x' /\ preprocess_text class y tag = Ok y' /\
    length x' = length x /\
    Permutation r r' /\
    StronglySorted (fun a b => class a <= class b) r' /\
    (forall k, filter (fun c => class c =? k) r' = filter (fun c => class c =? k) r) /\
    (forall r'', StronglySorted (fun a b => class a <= class b) r'' ->
                 (forall k, filter (fun c => class c =? k) r'' = filter (fun c => class c =? k) r) -> r'' = r').
Proof.
  intros H Hx Hr Hy Ho. rewrite default_spec in Ho by exact H. inversion Ho; subst.
  exists (sort_p class x), (sort_by_key class r), (sort_p class y).
  split; [apply sort_p_local; assumption|].
  split; [apply default_spec; exact H|]. split; [apply default_spec; exact H|].
  split; [apply sort_p_length|]. split; [apply sort_by_key_perm|].
  split; [apply sort_by_key_sorted|]. split; [intro k; apply (sort_by_key_stable class r k)|].
  intros r'' Hs Hk. apply sort_by_key_unique; assumption.
Qed.

(* ---- Arabic ---- *)
Lemma arabic_spec cs tag : dispatch_action tag = ActArabic -> preprocess_text class cs tag = Ok (arabic_p class cs).
Proof. intro H. rewrite preprocess_text_spec. unfold preprocess_spec. rewrite H. reflexivity. Qed.

Lemma arabic_is_run_local_permutation x r y tag out : dispatch_action tag = ActArabic ->
  ends_with_base class x -> marks class r -> starts_with_base class y ->
  preprocess_text class (x ++ r ++ y) tag = Ok out ->
  Permutation (x ++ r ++ y) out /\
  exists x' y', out = x' ++ arabic_run_spec class r ++ y' /\
    preprocess_text class x tag = Ok x' /\ preprocess_text class y tag = Ok y' /\
    length x' = length x /\ Permutation r (arabic_run_spec class r).
Proof.
  intros H Hx Hr Hy Ho. rewrite arabic_spec in Ho by exact H. inversion Ho; subst.
  split; [apply arabic_p_perm|].
  exists (arabic_p class x), (arabic_p class y).
  split; [apply arabic_p_local; assumption|].
  split; [apply arabic_spec; exact H|]. split; [apply arabic_spec; exact H|].
  split; [apply arabic_p_length|apply arabic_run_spec_perm].
Qed.

(* the shape of an Arabic run: sorted stably by class, shaddas first, then the two MCM steps *)
Lemma arabic_run_shape r :
  arabic_run_spec class r =
  rot_p class 220 (rot_p class 230 (shadda_first class (sort_by_key class r))).
Proof. reflexivity. Qed.

(* ---- Thai / Lao ---- *)
Lemma thai_spec_top cs tag : dispatch_action tag = ActThaiLao ->
  preprocess_text class cs tag = Ok (sort_p class (thai_spec [] cs)).
Proof. intro H. rewrite preprocess_text_spec. unfold preprocess_spec. rewrite H. reflexivity. Qed.

Lemma thai_content cs tag out : dispatch_action tag = ActThaiLao ->
  preprocess_text class cs tag = Ok out -> Permutation (flat_map expand_am cs) out.
Proof.
  intros H Ho. rewrite thai_spec_top in Ho by exact H. inversion Ho; subst.
  eapply perm_trans; [|apply sort_p_perm]. exact (thai_spec_perm cs []).
Qed.

(* ---- Indic ---- *)
Lemma indic_spec_top cs tag : dispatch_action tag = ActIndic ->
  exists s, indic_script_of tag = Ok s /\ preprocess_text class cs tag = Ok (indic_p class s cs).
Proof.
  intro H. destruct (indic_script_total tag H) as (s & Hs). exists s. split; [exact Hs|].
  rewrite preprocess_text_spec. unfold preprocess_spec. rewrite H, Hs. reflexivity.
Qed.

Lemma indic_content_partial cs tag out : dispatch_action tag = ActIndic ->
  preprocess_text class cs tag = Ok out ->
  exists mid, circled cs mid /\ filter not_circle mid = filter not_circle cs /\
    Permutation (flat_map unrecompose (flat_map expand_matra mid)) (flat_map unrecompose out) /\
    (tag <> REF_BENGALI_TAG -> Permutation (flat_map expand_matra mid) out).
Proof.
  intros H Ho. destruct (indic_spec_top cs tag H) as (s & Hs & Hp). rewrite Hp in Ho. inversion Ho; subst.
  exists (cv_spec cs). split; [apply cv_spec_circled|].
  split; [apply circled_strip, cv_spec_circled|]. split; [apply indic_p_content|].
  intro Hne. apply indic_p_perm. destruct (indic_script_steps tag s Hs) as [Hb _].
  destruct (is_ya_nukta_script s); [exfalso; apply Hne; apply Hb; reflexivity|reflexivity].
Qed.

(* scripts without an extra step: the output is the combining-class sort of the expanded text E, so a
   class-0 character of E keeps its index and only the mark runs of E are rearranged *)
Lemma indic_positions cs tag out : dispatch_action tag = ActIndic ->
  tag <> REF_BENGALI_TAG -> tag <> REF_KANNADA_TAG ->
  preprocess_text class cs tag = Ok out ->
  let E := flat_map expand_matra (cv_spec cs) in
  out = sort_p class E /\ length out = length E /\
  (forall i z, nth_error E i = Some z -> class z = 0 -> nth_error out i = Some z).
Proof.
  intros H Hb Hk Ho E. destruct (indic_spec_top cs tag H) as (s & Hs & Hp). rewrite Hp in Ho. inversion Ho; subst.
  destruct (indic_script_steps tag s Hs) as [H1 H2].
  unfold indic_p, indic_tail.
  destruct (is_ya_nukta_script s); [exfalso; apply Hb; apply H1; reflexivity|].
  destruct (is_ra_halant_script s); [exfalso; apply Hk; apply H2; reflexivity|].
  fold E. split; [reflexivity|]. split; [apply sort_p_length|]. intros i z. apply sort_p_base_fixed.
Qed.

(* ---- Khmer ---- *)
Lemma khmer_content cs tag out : dispatch_action tag = ActKhmer ->
  preprocess_text class cs tag = Ok out ->
  out = sort_p class (flat_map expand_khmer cs) /\ Permutation (flat_map expand_khmer cs) out.
Proof.
  intros H Ho. rewrite preprocess_text_spec in Ho. unfold preprocess_spec in Ho. rewrite H in Ho.
  inversion Ho; subst. split; [reflexivity|apply khmer_p_perm].
Qed.

(* ---- Myanmar ---- *)
Lemma myanmar_identity cs tag : dispatch_action tag = ActNone -> preprocess_text class cs tag = Ok cs.
Proof. intro H. rewrite preprocess_text_spec. unfold preprocess_spec. rewrite H. reflexivity. Qed.

End Top.
