(* Proofs/CmapSubsetFormat2.v -- C08, format 2 sources: what MappingsToKeep::new is fed by
   mappings_fn on a format 2 sub-table is what the single lookup gives.

   For EVERY format 2 sub-table whose subHeaderKeys are 256 multiples of 8 with key 0 for byte 0, and
   whose firstCode fields are not negative: every pair (code, glyph) of the enumeration satisfies
   map_glyph code = glyph.  In particular a glyphIndexArray entry 0 is enumerated as glyph 0 (never as
   idDelta), and [keep_step] drops it.  Nothing is assumed about the sub-header contents, offsets,
   idDelta or the glyph arrays; a failing enumeration is covered (the pairs emitted before the error).
   Not proved here: completeness (every proper code that map_glyph maps is enumerated) and the absence
   of duplicates for format 2; the end-to-end judge checks both on every generated case. *)
From AV Require Import Base.Prelude Base.Lemmas Gen.CmapPrefs Model.MacRoman Model.Cmap Model.CmapSpec
  Model.CmapSubset Proofs.CmapProofs.
Require Import ZifyBool Lia List.
Import ListNotations.
Open Scope Z_scope.
Ltac Zify.zify_post_hook ::= Z.div_mod_to_equations.

Lemma emit_then_in (a k : emitted) x : In x (fst (emit_then a k)) -> In x (fst a) \/ In x (fst k).
Proof.
  destruct a as [l r]. destruct r; cbn [emit_then fst]; intros H; try (left; exact H).
  apply in_app_or in H. exact H.
Qed.

Lemma emit_all_in {A} (f : A -> emitted) (l : list A) x :
  In x (fst (emit_all f l)) -> exists a, In a l /\ In x (fst (f a)).
Proof.
  induction l as [|a t IH]; cbn [emit_all]; intros H; [destruct H|].
  apply emit_then_in in H. destruct H as [H | H].
  - exists a. split; [left; reflexivity | exact H].
  - destruct (IH H) as (b & Hb & Hx). exists b. split; [right; exact Hb | exact Hx].
Qed.

(* subHeaderKeys as the format defines them *)
Definition f2_keys_wf (keys : list Z) : Prop :=
  len keys = 256 /\
  (forall i k, get keys i = Some k -> 0 <= k /\ k mod 8 = 0) /\
  get keys 0 = Some 0.

Definition f2_first_codes_nonneg (headers : list sub_header) : Prop :=
  forall i sh, get headers i = Some sh -> 0 <= sh_first sh.

Lemma get_exists_256 (keys : list Z) i : len keys = 256 -> 0 <= i < 256 -> exists k, get keys i = Some k.
Proof.
  intros Hl Hi. unfold get. replace ((0 <=? i) && (i <? len keys)) with true by lia.
  destruct (nth_error keys (Z.to_nat i)) eqn:E; [eauto|].
  apply nth_error_None in E. unfold len in Hl. lia.
Qed.

Theorem f2_mappings_sound l keys headers scope c g :
  forall (Hkeys : f2_keys_wf keys) (Hfirst : f2_first_codes_nonneg headers)
         (Hin : In (c, g) (fst (mappings (F2 l keys headers scope)))),
  map_glyph (F2 l keys headers scope) c = Ok (Some g).
Proof.
  intros (Hlen & Hk8 & Hk0) Hfirst Hin. cbn [mappings] in Hin.
  apply emit_all_in in Hin. destruct Hin as (hb & Hhb & Hin).
  apply range_In in Hhb. change (Z.of_nat 256) with 256 in Hhb.
  unfold f2_high_mappings in Hin.
  destruct (get keys hb) as [k|] eqn:Ek; [|destruct Hin].
  destruct (Hk8 _ _ Ek) as (Hk_nn & Hk_mod).
  destruct (get headers (k / 8)) as [sh|] eqn:Esh; [|destruct Hin].
  pose proof (Hfirst _ _ Esh) as Hf.
  destruct (k / 8 =? 0) eqn:E0.
  - (* sub-header 0: the one byte code hb *)
    destruct (negb (sh_contains sh hb)) eqn:Ec; [destruct Hin|].
    assert (Hc : c = hb).
    { assert (Hm : In c (map fst (fst (emit_list (fun ch => f2_glyph sh (k / 8) scope (ch - sh_first sh)) [hb])))).
      { apply in_map_iff. exists (c, g). split; [reflexivity | exact Hin]. }
      apply emit_list_keys in Hm. destruct Hm as [Hm | []]. symmetry. exact Hm. }
    apply emit_list_values in Hin. subst c.
    assert (Hkz : k = 0) by lia. subst k.
    cbn [map_glyph]. unfold f2_map_glyph.
    replace ((hb / 256) mod 256) with 0 by lia.
    replace (hb mod 256) with hb by lia.
    rewrite Ek. cbn [ok_or bind].
    change ((0 =? 0) && (0 =? 0)) with true. cbv iota.
    rewrite Ek. cbn [ok_or bind]. rewrite Esh. cbn [ok_or bind].
    rewrite Ec. rewrite Hin. reflexivity.
  - (* a lead byte: the two byte codes hb * 256 + low *)
    apply in_map_iff in Hin. destruct Hin as ((low & g') & Heq & Hin).
    cbn [fst snd] in Heq. inversion Heq; subst c g'. clear Heq.
    assert (Hlow : In low (range (sh_first sh) (Z.to_nat (Z.min (sh_count sh) (256 - sh_first sh))))).
    { eapply emit_list_keys. apply in_map_iff. exists (low, g). split; [reflexivity | exact Hin]. }
    apply range_In in Hlow.
    apply emit_list_values in Hin.
    assert (Hhb0 : hb <> 0).
    { intros ->. rewrite Hk0 in Ek. inversion Ek; subst k. change (0 / 8) with 0 in E0. lia. }
    assert (Hlo : 0 <= low < 256) by lia.
    destruct (get_exists_256 keys low Hlen Hlo) as (kl & Ekl).
    cbn [map_glyph]. unfold f2_map_glyph.
    replace (((hb * 256 + low) / 256) mod 256) with hb by lia.
    replace ((hb * 256 + low) mod 256) with low by lia.
    rewrite Ekl. cbn [ok_or bind].
    replace ((hb =? 0) && (kl =? 0)) with false by lia. cbv iota.
    rewrite Ek. cbn [ok_or bind]. rewrite Esh. cbn [ok_or bind].
    replace (negb (sh_contains sh low)) with false by (unfold sh_contains; lia).
    rewrite Hin. reflexivity.
Qed.

(* a glyphIndexArray entry 0 is the missing glyph whatever idDelta is ... *)
Lemma f2_glyph_hole sh key scope idx arr :
  forall (Harr : glyph_index_sub_array sh key scope = Ok arr) (Hzero : get arr idx = Some 0),
  f2_glyph sh key scope idx = Ok 0.
Proof. intros Harr Hzero. unfold f2_glyph. rewrite Harr. cbn [bind]. rewrite Hzero. reflexivity. Qed.

(* ... and MappingsToKeep::new never keeps a pair whose glyph is 0 *)
Lemma keep_step_glyph0 enc sfc ids target st ch : keep_step enc sfc ids target st (ch, 0) = st.
Proof. unfold keep_step. destruct st as [kept plane]. reflexivity. Qed.
