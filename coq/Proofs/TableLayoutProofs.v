(* Proofs/TableLayoutProofs.v — read-after-write for straight-line table layouts (Model/TableLayout.v):
   signed and unsigned primitives, fixed-size byte arrays, and the generic theorem
   `layout_roundtrip` for any reader/writer pair that passes the decidable `compat` test. *)
From AV Require Import Base.Prelude Base.Lemmas Gen.ReaderPrims Model.Reader Model.ReaderExt
  Proofs.ReaderProofs Proofs.EncodeProofs Model.TableLayout.
From Coq Require Import ZifyBool ZifyNat.
Ltac Zify.zify_post_hook ::= Z.div_mod_to_equations.
Open Scope Z_scope.

(* ---------- the writer's primitive sizes agree with the reader's (hand-written spec_size) *)
Lemma wsize_spec p : Z.of_nat (wsize p) = spec_size p.
Proof. destruct p; reflexivity. Qed.
Lemma is_signed_spec p : is_signed p = prim_signed p.
Proof. destruct p; reflexivity. Qed.

Lemma len_write_prim p v : len (write_prim p v) = spec_size p.
Proof. unfold write_prim. rewrite len_be_bytes. apply wsize_spec. Qed.
Lemma write_prim_ok p v : bytes_ok (write_prim p v) = true.
Proof. apply be_bytes_ok. Qed.

(* two's complement: decoding the bytes of an in-range value gives the value, signed or not *)
Lemma decode_write_prim p v : prim_in_range p v = true -> decode_prim p (write_prim p v) = v.
Proof.
  intros H. unfold decode_prim, write_prim. rewrite be_val_be_bytes_mod. rewrite <- is_signed_spec.
  unfold prim_in_range, prim_bits in H. unfold to_signed.
  destruct p; cbn [is_signed wsize spec_size] in *;
    repeat match goal with
           | |- context [256 ^ Z.of_nat ?n] =>
               let x := eval vm_compute in (256 ^ Z.of_nat n) in change (256 ^ Z.of_nat n) with x
           | |- context [2 ^ (8 * ?n - 1)] =>
               let x := eval vm_compute in (2 ^ (8 * n - 1)) in change (2 ^ (8 * n - 1)) with x
           | |- context [2 ^ (8 * ?n)] =>
               let x := eval vm_compute in (2 ^ (8 * n)) in change (2 ^ (8 * n)) with x
           | H : context [2 ^ (8 * Z.of_nat ?n - 1)] |- _ =>
               let x := eval vm_compute in (2 ^ (8 * Z.of_nat n - 1)) in change (2 ^ (8 * Z.of_nat n - 1)) with x in H
           | H : context [2 ^ (8 * Z.of_nat ?n)] |- _ =>
               let x := eval vm_compute in (2 ^ (8 * Z.of_nat n)) in change (2 ^ (8 * Z.of_nat n)) with x in H
           end; try lia; match goal with |- (if ?b then _ else _) = _ => destruct b eqn:E; lia end.
Qed.

(* ---------- cursors positioned on known bytes *)
Definition cgood (c : ctxt) : Prop :=
  cinv c /\ bytes_ok (data (sc c)) = true /\ 0 <= base (sc c) /\ base (sc c) + dlen (sc c) < USIZE.
Definition at_bytes (c : ctxt) (bs : list Z) : Prop := drop (off c) (data (sc c)) = bs.
(* c' is c advanced to the point where `rest` starts *)
Definition advanced (c c' : ctxt) (rest : list Z) : Prop :=
  cgood c' /\ sc c' = sc c /\ at_bytes c' rest.

Lemma table_ctxt_good d : bytes_ok d = true -> len d < USIZE -> cgood (ctxt_new (scope_new d)) /\ at_bytes (ctxt_new (scope_new d)) d.
Proof.
  intros Hb Hl. unfold cgood, cinv, sinv, at_bytes, dlen; cbn [ctxt_new scope_new sc off data base].
  pose proof (len_nonneg d). rewrite drop_0. repeat split; try lia; assumption.
Qed.

Lemma advance_by c x rest :
  cgood c -> at_bytes c (x ++ rest) ->
  off c + len x <= dlen (sc c) /\ advanced c {| sc := sc c; off := off c + len x |} rest.
Proof.
  intros [[Hc Hs] [Hb [Hb0 Hb1]]] Hat. unfold at_bytes in *. unfold dlen in *.
  pose proof (drop_len_le _ _ _ _ Hc Hat) as Hle. pose proof (len_nonneg x).
  split; [exact Hle|]. unfold advanced, cgood, cinv, at_bytes; cbn [sc off].
  repeat split; try assumption; try (unfold dlen; lia).
  apply drop_after; assumption.
Qed.

Lemma read_prim_layout p c v rest :
  cgood c -> prim_in_range p v = true -> at_bytes c (write_prim p v ++ rest) ->
  exists c', read_prim p c = Ok (v, c') /\ advanced c c' rest.
Proof.
  intros Hg Hv Hat. destruct (advance_by c _ rest Hg Hat) as [Hle Hadv].
  rewrite len_write_prim in *. destruct Hg as [Hc [Hb _]].
  destruct (read_prim_exact p c Hb Hc) as [[_ H]|[H _]]; [|lia].
  exists {| sc := sc c; off := off c + spec_size p |}. split; [|exact Hadv].
  rewrite H. unfold at_bytes in Hat. rewrite Hat. rewrite <- (len_write_prim p v). rewrite take_app_exact.
  rewrite decode_write_prim by assumption. reflexivity.
Qed.

Lemma read_slice_layout c (bs rest : list Z) :
  cgood c -> at_bytes c (bs ++ rest) ->
  exists c', read_slice Debug c (len bs) = Ok (bs, c') /\ advanced c c' rest.
Proof.
  intros Hg Hat. destruct (advance_by c _ rest Hg Hat) as [Hle Hadv].
  pose proof Hg as [[Hc Hs] [Hb [Hb0 Hb1]]]. pose proof (len_nonneg bs). unfold sinv in Hs.
  exists {| sc := sc c; off := off c + len bs |}. split; [|exact Hadv].
  unfold read_slice, read_scope. rewrite offset_length_complete by lia.
  unfold uadd. replace (off c + len bs <? USIZE) with true by lia. cbn [bind data].
  unfold at_bytes in Hat. rewrite Hat. rewrite take_app_exact. reflexivity.
Qed.

(* ---------- slots: what a layout puts on / takes from the wire *)
Inductive slot := SPrim (p : prim) | SBytes (k : Z).

Fixpoint rslots (rl : list ritem) : list slot :=
  match rl with
  | [] => []
  | RRead _ p _ :: r => SPrim p :: rslots r
  | RAssert _ _ :: r => rslots r
  | REnum _ p _ :: r => SPrim p :: rslots r
  | RTrunc _ p _ :: r => SPrim p :: rslots r
  | RBytes _ k :: r => SBytes k :: rslots r
  end.
Fixpoint wslots (wl : list witem) : list slot :=
  match wl with
  | [] => []
  | WField _ p :: r => SPrim p :: wslots r
  | WConst p _ :: r => SPrim p :: wslots r
  | WHole _ p :: r => SPrim p :: wslots r
  | WEnum _ p _ :: r => SPrim p :: wslots r
  | WBytes _ k :: r => SBytes k :: wslots r
  end.

Fixpoint enc_slots (sl : list slot) (ws : list Z) : list Z :=
  match sl with
  | [] => []
  | SPrim p :: r => write_prim p (hd 0 ws) ++ enc_slots r (tl ws)
  | SBytes k :: r => firstn (Z.to_nat k) ws ++ enc_slots r (skipn (Z.to_nat k) ws)
  end.
Fixpoint slots_ok (sl : list slot) (ws : list Z) : Prop :=
  match sl with
  | [] => True
  | SPrim p :: r => prim_in_range p (hd 0 ws) = true /\ slots_ok r (tl ws)
  | SBytes k :: r => 0 <= k /\ (Z.to_nat k <= length ws)%nat /\ slots_ok r (skipn (Z.to_nat k) ws)
  end.

(* the reader as a pure function of the wire values (no cursor): what it keeps, or BadValue *)
Fixpoint pure_items (rl : list ritem) (env : list (fname * Z)) (ws : list Z) : outcome (list Z) :=
  match rl with
  | [] => Ok []
  | RRead n p keep :: r =>
      vs <- pure_items r ((n, hd 0 ws) :: env) (tl ws) ;; Ok (if keep then hd 0 ws :: vs else vs)
  | RAssert n k :: r =>
      match lookup n env with
      | Some v => if v =? k then pure_items r env ws else Err BadValue
      | None => Panic
      end
  | REnum n p vals :: r =>
      if mem_z (hd 0 ws) vals then
        vs <- pure_items r ((n, hd 0 ws) :: env) (tl ws) ;; Ok (hd 0 ws :: vs)
      else Err BadValue
  | RTrunc n p mask :: r =>
      vs <- pure_items r ((n, Z.land (hd 0 ws) mask) :: env) (tl ws) ;; Ok (Z.land (hd 0 ws) mask :: vs)
  | RBytes n k :: r =>
      vs <- pure_items r env (skipn (Z.to_nat k) ws) ;; Ok (firstn (Z.to_nat k) ws ++ vs)
  end.

Lemma advanced_trans c c1 c2 r1 r2 : advanced c c1 r1 -> advanced c1 c2 r2 -> advanced c c2 r2.
Proof. intros [_ [H1 _]] [H2 [H3 H4]]. unfold advanced. rewrite <- H1. auto. Qed.

Lemma firstn_len_Z {A} (l : list A) k : 0 <= k -> (Z.to_nat k <= length l)%nat -> len (firstn (Z.to_nat k) l) = k.
Proof. intros. unfold len. rewrite firstn_length. lia. Qed.

(* Theorem A: on bytes produced by `enc_slots`, the reader is its pure part and ends exactly at `rest` *)
Lemma read_items_pure rl : forall env c ws rest,
  cgood c -> slots_ok (rslots rl) ws -> at_bytes c (enc_slots (rslots rl) ws ++ rest) ->
  exists c', advanced c c' rest /\ read_items rl env c = (vs <- pure_items rl env ws ;; Ok (vs, c')).
Proof.
  induction rl as [|it rl IH]; intros env c ws rest Hg Hok Hat.
  - exists c. cbn in *. split; [|reflexivity]. unfold advanced. auto.
  - destruct it as [n p keep|n k|n p vals|n p mask|n k]; cbn [rslots enc_slots slots_ok] in *.
    + destruct Hok as [Hr Hok]. rewrite <- app_assoc in Hat.
      destruct (read_prim_layout p c _ _ Hg Hr Hat) as [c1 [E1 A1]].
      destruct (IH ((n, hd 0 ws) :: env) c1 (tl ws) rest (proj1 A1) Hok (proj2 (proj2 A1))) as [c2 [A2 E2]].
      exists c2. split; [eapply advanced_trans; eassumption|].
      cbn [read_items pure_items]. rewrite E1. cbn [bind]; cbv beta iota. rewrite E2.
      destruct (pure_items rl _ _); reflexivity.
    + destruct (IH env c ws rest Hg Hok Hat) as [c2 [A2 E2]]. exists c2. split; [exact A2|].
      cbn [read_items pure_items]. destruct (lookup n env); [|reflexivity].
      destruct (z =? k); [exact E2|reflexivity].
    + destruct Hok as [Hr Hok]. rewrite <- app_assoc in Hat.
      destruct (read_prim_layout p c _ _ Hg Hr Hat) as [c1 [E1 A1]].
      destruct (IH ((n, hd 0 ws) :: env) c1 (tl ws) rest (proj1 A1) Hok (proj2 (proj2 A1))) as [c2 [A2 E2]].
      exists c2. split; [eapply advanced_trans; eassumption|].
      cbn [read_items pure_items]. rewrite E1. cbn [bind]; cbv beta iota.
      destruct (mem_z (hd 0 ws) vals); [|reflexivity]. rewrite E2.
      destruct (pure_items rl _ _); reflexivity.
    + destruct Hok as [Hr Hok]. rewrite <- app_assoc in Hat.
      destruct (read_prim_layout p c _ _ Hg Hr Hat) as [c1 [E1 A1]].
      destruct (IH ((n, Z.land (hd 0 ws) mask) :: env) c1 (tl ws) rest (proj1 A1) Hok (proj2 (proj2 A1))) as [c2 [A2 E2]].
      exists c2. split; [eapply advanced_trans; eassumption|].
      cbn [read_items pure_items]. rewrite E1. cbn [bind]; cbv beta iota. rewrite E2.
      destruct (pure_items rl _ _); reflexivity.
    + destruct Hok as [Hk [Hl Hok]]. rewrite <- app_assoc in Hat.
      destruct (read_slice_layout c _ _ Hg Hat) as [c1 [E1 A1]].
      rewrite (firstn_len_Z ws k Hk Hl) in E1.
      destruct (IH env c1 (skipn (Z.to_nat k) ws) rest (proj1 A1) Hok (proj2 (proj2 A1))) as [c2 [A2 E2]].
      exists c2. split; [eapply advanced_trans; eassumption|].
      cbn [read_items pure_items]. rewrite E1. cbn [bind]; cbv beta iota. rewrite E2.
      destruct (pure_items rl _ _); reflexivity.
Qed.

(* Theorem B1: when the checks hold, they can be dropped *)
Lemma pure_items_strip rl : forall env ws,
  asserts_hold rl env ws = true -> pure_items rl env ws = pure_items (strip_asserts rl) env ws.
Proof.
  induction rl as [|it rl IH]; intros env ws H; [reflexivity|].
  destruct it as [n p keep|n k|n p vals|n p mask|n k]; cbn [asserts_hold pure_items strip_asserts] in *.
  - rewrite IH by exact H. reflexivity.
  - destruct (lookup n env) as [v|]; [|discriminate]. apply andb_true_iff in H. destruct H as [H1 H2].
    rewrite H1. apply IH. exact H2.
  - rewrite IH by exact H. reflexivity.
  - rewrite IH by exact H. reflexivity.
  - rewrite IH by exact H. reflexivity.
Qed.

Lemma prim_eqb_eq a b : prim_eqb a b = true -> a = b.
Proof. destruct a, b; cbn; congruence. Qed.

Lemma firstn_app_exact {A} (a b : list A) n : length a = n -> firstn n (a ++ b) = a.
Proof. intros <-. rewrite firstn_app, Nat.sub_diag. cbn. rewrite firstn_all, app_nil_r. reflexivity. Qed.
Lemma skipn_app_exact {A} (a b : list A) n : length a = n -> skipn n (a ++ b) = b.
Proof. intros <-. rewrite skipn_app, Nat.sub_diag. cbn. rewrite skipn_all. reflexivity. Qed.

(* Theorem B2: a reader without checks, compatible with the writer, returns the values written *)
Lemma pure_items_compat rl : forall wl env vs fill,
  items_compat rl wl = true -> vals_okb rl vs = true ->
  pure_items rl env (wire fill wl vs) = Ok (readback fill wl vs).
Proof.
  induction rl as [|it rl IH]; intros wl env vs fill Hc Hv; destruct wl as [|w wl]; cbn [items_compat] in Hc; try discriminate.
  - reflexivity.
  - apply andb_true_iff in Hc. destruct Hc as [Hi Hc].
    destruct it as [n p keep|n k|n p vals|n p mask|n k]; destruct w as [m q|q j|m q|m q wv|m j];
      cbn [item_compat] in Hi; try discriminate; try (destruct keep; discriminate).
    + (* RRead / WField *) destruct keep; [|discriminate].
      cbn [vals_okb] in Hv. destruct vs as [|v vs]; [discriminate|]. apply andb_true_iff in Hv. destruct Hv as [_ Hv].
      cbn [wire pure_items readback hd tl]. rewrite (IH wl _ vs fill Hc Hv). reflexivity.
    + (* RRead false / WConst *) destruct keep; [discriminate|].
      cbn [vals_okb] in Hv. cbn [wire pure_items readback hd tl]. rewrite (IH wl _ vs fill Hc Hv). reflexivity.
    + (* RRead / WHole *) destruct keep; [|discriminate].
      cbn [vals_okb] in Hv. destruct vs as [|v vs]; [discriminate|]. apply andb_true_iff in Hv. destruct Hv as [_ Hv].
      cbn [wire pure_items readback hd tl]. rewrite (IH wl _ vs fill Hc Hv). reflexivity.
    + (* REnum / WEnum *)
      cbn [vals_okb] in Hv. destruct vs as [|v vs]; [discriminate|].
      apply andb_true_iff in Hv. destruct Hv as [Hv1 Hv]. apply andb_true_iff in Hv1. destruct Hv1 as [_ Hm].
      cbn [wire pure_items readback hd tl]. rewrite Hm. rewrite (IH wl _ vs fill Hc Hv). reflexivity.
    + (* RTrunc / WField *)
      cbn [vals_okb] in Hv. destruct vs as [|v vs]; [discriminate|].
      apply andb_true_iff in Hv. destruct Hv as [Hv1 Hv]. apply andb_true_iff in Hv1. destruct Hv1 as [_ Hm].
      apply Z.eqb_eq in Hm.
      cbn [wire pure_items readback hd tl]. rewrite Hm. rewrite (IH wl _ vs fill Hc Hv). reflexivity.
    + (* RBytes / WBytes *)
      apply andb_true_iff in Hi. destruct Hi as [Hi Hk0]. apply andb_true_iff in Hi. destruct Hi as [_ Hkj].
      apply Z.eqb_eq in Hkj. subst j.
      cbn [vals_okb] in Hv. apply andb_true_iff in Hv. destruct Hv as [Hv1 Hv]. apply andb_true_iff in Hv1. destruct Hv1 as [Hl _].
      apply Nat.leb_le in Hl.
      cbn [wire pure_items readback].
      assert (length (firstn (Z.to_nat k) vs) = Z.to_nat k) as Hlen by (rewrite firstn_length; lia).
      rewrite (skipn_app_exact _ _ _ Hlen), (firstn_app_exact _ _ _ Hlen).
      rewrite (IH wl _ _ fill Hc Hv). reflexivity.
Qed.

Lemma rslots_strip rl : rslots (strip_asserts rl) = rslots rl.
Proof. induction rl as [|it rl IH]; [reflexivity|]. destruct it; cbn [strip_asserts rslots]; rewrite ?IH; reflexivity. Qed.

Lemma prim_in_range_0 p : prim_in_range p 0 = true.
Proof. destruct p; reflexivity. Qed.

(* the writer in terms of slots, and the wire values are in range *)
Lemma write_items_enc rl : forall wl vs fill,
  items_compat rl wl = true -> vals_okb rl vs = true ->
  rslots rl = wslots wl /\
  write_items fill wl vs = enc_slots (wslots wl) (wire fill wl vs) /\
  slots_ok (wslots wl) (wire fill wl vs).
Proof.
  induction rl as [|it rl IH]; intros wl vs fill Hc Hv; destruct wl as [|w wl]; cbn [items_compat] in Hc; try discriminate.
  - cbn. auto.
  - apply andb_true_iff in Hc. destruct Hc as [Hi Hc].
    destruct it as [n p keep|n k|n p vals|n p mask|n k]; destruct w as [m q|q j|m q|m q wv|m j];
      cbn [item_compat] in Hi; try discriminate; try (destruct keep; discriminate).
    + destruct keep; [|discriminate]. apply andb_true_iff in Hi. destruct Hi as [_ Hp]. apply prim_eqb_eq in Hp. subst q.
      cbn [vals_okb] in Hv. destruct vs as [|v vs]; [discriminate|]. apply andb_true_iff in Hv. destruct Hv as [Hr Hv].
      destruct (IH wl vs fill Hc Hv) as [H1 [H2 H3]].
      cbn [rslots wslots write_items wire enc_slots slots_ok hd tl]. rewrite H1, H2. auto.
    + destruct keep; [discriminate|]. apply andb_true_iff in Hi. destruct Hi as [Hp Hr]. apply prim_eqb_eq in Hp. subst q.
      cbn [vals_okb] in Hv. destruct (IH wl vs fill Hc Hv) as [H1 [H2 H3]].
      cbn [rslots wslots write_items wire enc_slots slots_ok hd tl]. rewrite H1, H2. auto.
    + destruct keep; [|discriminate]. apply andb_true_iff in Hi. destruct Hi as [_ Hp]. apply prim_eqb_eq in Hp. subst q.
      cbn [vals_okb] in Hv. destruct vs as [|v vs]; [discriminate|]. apply andb_true_iff in Hv. destruct Hv as [Hr Hv].
      destruct (IH wl vs fill Hc Hv) as [H1 [H2 H3]].
      cbn [rslots wslots write_items wire enc_slots slots_ok hd tl]. rewrite H1, H2.
      repeat split; auto. destruct fill; [exact Hr|apply prim_in_range_0].
    + apply andb_true_iff in Hi. destruct Hi as [Hi _]. apply andb_true_iff in Hi. destruct Hi as [_ Hp]. apply prim_eqb_eq in Hp. subst q.
      cbn [vals_okb] in Hv. destruct vs as [|v vs]; [discriminate|].
      apply andb_true_iff in Hv. destruct Hv as [Hv1 Hv]. apply andb_true_iff in Hv1. destruct Hv1 as [Hr _].
      destruct (IH wl vs fill Hc Hv) as [H1 [H2 H3]].
      cbn [rslots wslots write_items wire enc_slots slots_ok hd tl]. rewrite H1, H2. auto.
    + apply andb_true_iff in Hi. destruct Hi as [Hi _]. apply andb_true_iff in Hi. destruct Hi as [Hi _].
      apply andb_true_iff in Hi. destruct Hi as [_ Hp]. apply prim_eqb_eq in Hp. subst q.
      cbn [vals_okb] in Hv. destruct vs as [|v vs]; [discriminate|].
      apply andb_true_iff in Hv. destruct Hv as [Hv1 Hv]. apply andb_true_iff in Hv1. destruct Hv1 as [Hr _].
      destruct (IH wl vs fill Hc Hv) as [H1 [H2 H3]].
      cbn [rslots wslots write_items wire enc_slots slots_ok hd tl]. rewrite H1, H2. auto.
    + apply andb_true_iff in Hi. destruct Hi as [Hi Hk0]. apply andb_true_iff in Hi. destruct Hi as [_ Hkj].
      apply Z.eqb_eq in Hkj. subst j. apply Z.leb_le in Hk0.
      cbn [vals_okb] in Hv. apply andb_true_iff in Hv. destruct Hv as [Hv1 Hv]. apply andb_true_iff in Hv1. destruct Hv1 as [Hl _].
      apply Nat.leb_le in Hl.
      destruct (IH wl _ fill Hc Hv) as [H1 [H2 H3]].
      assert (length (firstn (Z.to_nat k) vs) = Z.to_nat k) as Hlen by (rewrite firstn_length; lia).
      cbn [rslots wslots write_items wire enc_slots slots_ok].
      rewrite (skipn_app_exact _ _ _ Hlen), (firstn_app_exact _ _ _ Hlen). rewrite H1, H2.
      repeat split; auto. rewrite app_length. lia.
Qed.

(* ---------- the generic theorem.  For ANY reader rl and writer wl that pass the decidable
   compatibility test, any field values vs within their host types / enum sets / bitflag masks that
   satisfy the reader's checks, and any trailing bytes: reading what the writer wrote returns
   exactly the values (placeholders as left by the writer) and stops exactly at the trailing bytes. *)
Theorem layout_roundtrip rl wl fill vs rest c :
  compat rl wl = true ->
  vals_okb (strip_asserts rl) vs = true ->
  asserts_hold rl [] (wire fill wl vs) = true ->
  cgood c -> at_bytes c (write_items fill wl vs ++ rest) ->
  exists c', read_items rl [] c = Ok (readback fill wl vs, c') /\ advanced c c' rest.
Proof.
  intros Hc Hv Ha Hg Hat. unfold compat in Hc.
  destruct (write_items_enc _ wl vs fill Hc Hv) as [Hs [He Hok]].
  rewrite rslots_strip in Hs. rewrite He, <- Hs in Hat. rewrite <- Hs in Hok.
  destruct (read_items_pure rl [] c _ rest Hg Hok Hat) as [c' [Hadv Heq]].
  exists c'. split; [|exact Hadv]. rewrite Heq.
  rewrite (pure_items_strip rl [] _ Ha). rewrite (pure_items_compat _ wl [] vs fill Hc Hv). reflexivity.
Qed.

Lemma write_items_bytes_ok rl : forall wl vs fill,
  items_compat rl wl = true -> vals_okb rl vs = true -> bytes_ok (write_items fill wl vs) = true.
Proof.
  induction rl as [|it rl IH]; intros wl vs fill Hc Hv; destruct wl as [|w wl]; cbn [items_compat] in Hc; try discriminate.
  - reflexivity.
  - apply andb_true_iff in Hc. destruct Hc as [Hi Hc].
    destruct it as [n p keep|n k|n p vals|n p mask|n k]; destruct w as [m q|q j|m q|m q wv|m j];
      cbn [item_compat] in Hi; try discriminate; try (destruct keep; discriminate);
      cbn [vals_okb] in Hv; cbn [write_items]; rewrite bytes_ok_app.
    + destruct keep; [|discriminate]. destruct vs as [|v vs]; [discriminate|]. apply andb_true_iff in Hv. destruct Hv as [_ Hv].
      rewrite write_prim_ok. apply (IH wl vs fill Hc Hv).
    + destruct keep; [discriminate|]. rewrite write_prim_ok. apply (IH wl vs fill Hc Hv).
    + destruct keep; [|discriminate]. destruct vs as [|v vs]; [discriminate|]. apply andb_true_iff in Hv. destruct Hv as [_ Hv].
      rewrite write_prim_ok. apply (IH wl vs fill Hc Hv).
    + destruct vs as [|v vs]; [discriminate|]. apply andb_true_iff in Hv. destruct Hv as [_ Hv].
      rewrite write_prim_ok. apply (IH wl vs fill Hc Hv).
    + destruct vs as [|v vs]; [discriminate|]. apply andb_true_iff in Hv. destruct Hv as [_ Hv].
      rewrite write_prim_ok. apply (IH wl vs fill Hc Hv).
    + apply andb_true_iff in Hi. destruct Hi as [Hi _]. apply andb_true_iff in Hi. destruct Hi as [_ Hkj].
      apply Z.eqb_eq in Hkj. subst j.
      apply andb_true_iff in Hv. destruct Hv as [Hv1 Hv]. apply andb_true_iff in Hv1. destruct Hv1 as [_ Hb].
      rewrite Hb. apply (IH wl _ fill Hc Hv).
Qed.

(* whole-buffer form *)
Corollary layout_roundtrip_buffer rl wl fill vs rest :
  compat rl wl = true -> vals_okb (strip_asserts rl) vs = true ->
  asserts_hold rl [] (wire fill wl vs) = true ->
  bytes_ok rest = true -> len (write_items fill wl vs ++ rest) < USIZE ->
  exists c', read_items rl [] (ctxt_new (scope_new (write_items fill wl vs ++ rest))) = Ok (readback fill wl vs, c')
             /\ at_bytes c' rest.
Proof.
  intros Hc Hv Ha Hb Hl.
  assert (bytes_ok (write_items fill wl vs ++ rest) = true) as Hbb.
  { rewrite bytes_ok_app, Hb, andb_true_r. exact (write_items_bytes_ok _ wl vs fill Hc Hv). }
  destruct (table_ctxt_good _ Hbb Hl) as [Hg Hat].
  destruct (layout_roundtrip rl wl fill vs rest _ Hc Hv Ha Hg Hat) as [c' [E [_ [_ A]]]]. eauto.
Qed.

(* ---------- helpers for the per-table instances *)
Fixpoint no_asserts (rl : list ritem) : bool :=
  match rl with
  | [] => true
  | RAssert _ _ :: _ => false
  | _ :: r => no_asserts r
  end.

Lemma asserts_hold_none rl : forall env ws, no_asserts rl = true -> asserts_hold rl env ws = true.
Proof.
  induction rl as [|it rl IH]; intros env ws H; [reflexivity|].
  destruct it; cbn [no_asserts asserts_hold] in *; try discriminate; apply IH; exact H.
Qed.

(* number of values a reader keeps *)
Fixpoint rcount (rl : list ritem) : nat :=
  match rl with
  | [] => O
  | RRead _ _ true :: r => S (rcount r)
  | RRead _ _ false :: r => rcount r
  | RAssert _ _ :: r => rcount r
  | RBytes _ k :: r => (Z.to_nat k + rcount r)%nat
  | _ :: r => S (rcount r)
  end.

Lemma vals_okb_length rl : forall vs, vals_okb rl vs = true -> length vs = rcount rl.
Proof.
  induction rl as [|it rl IH]; intros vs H.
  - destruct vs; [reflexivity|discriminate].
  - destruct it as [n p keep|n k|n p vals|n p mask|n k]; cbn [vals_okb rcount] in *.
    + destruct keep; [|apply IH; exact H]. destruct vs as [|v vs]; [discriminate|].
      apply andb_true_iff in H. destruct H as [_ H]. cbn [length]. rewrite (IH vs H). reflexivity.
    + apply IH; exact H.
    + destruct vs as [|v vs]; [discriminate|]. apply andb_true_iff in H. destruct H as [_ H].
      cbn [length]. rewrite (IH vs H). reflexivity.
    + destruct vs as [|v vs]; [discriminate|]. apply andb_true_iff in H. destruct H as [_ H].
      cbn [length]. rewrite (IH vs H). reflexivity.
    + apply andb_true_iff in H. destruct H as [H1 H]. apply andb_true_iff in H1. destruct H1 as [Hl _].
      apply Nat.leb_le in Hl. specialize (IH _ H). rewrite skipn_length in IH. lia.
Qed.

(* with the placeholders filled, the expected read-back is the value itself *)
Lemma readback_filled rl : forall wl vs,
  items_compat rl wl = true -> vals_okb rl vs = true -> readback true wl vs = vs.
Proof.
  induction rl as [|it rl IH]; intros wl vs Hc Hv; destruct wl as [|w wl]; cbn [items_compat] in Hc; try discriminate.
  - destruct vs; [reflexivity|discriminate].
  - apply andb_true_iff in Hc. destruct Hc as [Hi Hc].
    destruct it as [n p keep|n k|n p vals|n p mask|n k]; destruct w as [m q|q j|m q|m q wv|m j];
      cbn [item_compat] in Hi; try discriminate; try (destruct keep; discriminate);
      cbn [vals_okb] in Hv; cbn [readback].
    + destruct keep; [|discriminate]. destruct vs as [|v vs]; [discriminate|]. apply andb_true_iff in Hv. destruct Hv as [_ Hv].
      cbn [hd tl]. rewrite (IH wl vs Hc Hv). reflexivity.
    + destruct keep; [discriminate|]. apply (IH wl vs Hc Hv).
    + destruct keep; [|discriminate]. destruct vs as [|v vs]; [discriminate|]. apply andb_true_iff in Hv. destruct Hv as [_ Hv].
      cbn [hd tl]. rewrite (IH wl vs Hc Hv). reflexivity.
    + destruct vs as [|v vs]; [discriminate|]. apply andb_true_iff in Hv. destruct Hv as [_ Hv].
      cbn [hd tl]. rewrite (IH wl vs Hc Hv). reflexivity.
    + destruct vs as [|v vs]; [discriminate|]. apply andb_true_iff in Hv. destruct Hv as [_ Hv].
      cbn [hd tl]. rewrite (IH wl vs Hc Hv). reflexivity.
    + apply andb_true_iff in Hi. destruct Hi as [Hi _]. apply andb_true_iff in Hi. destruct Hi as [_ Hkj].
      apply Z.eqb_eq in Hkj. subst j.
      apply andb_true_iff in Hv. destruct Hv as [_ Hv]. rewrite (IH wl _ Hc Hv). apply firstn_skipn.
Qed.

(* an assert-free layout: the simple form *)
Corollary layout_roundtrip_simple rl wl vs rest c :
  compat rl wl = true -> no_asserts rl = true -> vals_okb rl vs = true ->
  cgood c -> at_bytes c (write_items false wl vs ++ rest) ->
  exists c', read_items rl [] c = Ok (readback false wl vs, c') /\ advanced c c' rest.
Proof.
  intros Hc Hn Hv Hg Hat.
  assert (strip_asserts rl = rl) as Hs.
  { clear -Hn. induction rl as [|it rl IH]; [reflexivity|]. destruct it; cbn [no_asserts strip_asserts] in *; try discriminate; rewrite IH by exact Hn; reflexivity. }
  apply layout_roundtrip; try assumption; [rewrite Hs; exact Hv|apply asserts_hold_none; exact Hn].
Qed.

Lemma len_write_items rl : forall wl vs fill,
  items_compat rl wl = true -> vals_okb rl vs = true ->
  len (write_items fill wl vs) = fold_right (fun s a => match s with SPrim p => spec_size p | SBytes k => k end + a) 0 (wslots wl).
Proof.
  induction rl as [|it rl IH]; intros wl vs fill Hc Hv; destruct wl as [|w wl]; cbn [items_compat] in Hc; try discriminate.
  - reflexivity.
  - apply andb_true_iff in Hc. destruct Hc as [Hi Hc].
    destruct it as [n p keep|n k|n p vals|n p mask|n k]; destruct w as [m q|q j|m q|m q wv|m j];
      cbn [item_compat] in Hi; try discriminate; try (destruct keep; discriminate);
      cbn [vals_okb] in Hv; cbn [write_items wslots fold_right]; rewrite len_app.
    + destruct keep; [|discriminate]. destruct vs as [|v vs]; [discriminate|]. apply andb_true_iff in Hv. destruct Hv as [_ Hv].
      rewrite len_write_prim. cbn [tl]. rewrite (IH wl vs fill Hc Hv). reflexivity.
    + destruct keep; [discriminate|]. rewrite len_write_prim. rewrite (IH wl vs fill Hc Hv). reflexivity.
    + destruct keep; [|discriminate]. destruct vs as [|v vs]; [discriminate|]. apply andb_true_iff in Hv. destruct Hv as [_ Hv].
      rewrite len_write_prim. cbn [tl]. rewrite (IH wl vs fill Hc Hv). reflexivity.
    + destruct vs as [|v vs]; [discriminate|]. apply andb_true_iff in Hv. destruct Hv as [_ Hv].
      rewrite len_write_prim. cbn [tl]. rewrite (IH wl vs fill Hc Hv). reflexivity.
    + destruct vs as [|v vs]; [discriminate|]. apply andb_true_iff in Hv. destruct Hv as [_ Hv].
      rewrite len_write_prim. cbn [tl]. rewrite (IH wl vs fill Hc Hv). reflexivity.
    + apply andb_true_iff in Hi. destruct Hi as [Hi Hk0]. apply andb_true_iff in Hi. destruct Hi as [_ Hkj].
      apply Z.eqb_eq in Hkj. subst j. apply Z.leb_le in Hk0.
      apply andb_true_iff in Hv. destruct Hv as [Hv1 Hv]. apply andb_true_iff in Hv1. destruct Hv1 as [Hl _].
      apply Nat.leb_le in Hl. rewrite (firstn_len_Z vs k Hk0 Hl). rewrite (IH wl _ fill Hc Hv). reflexivity.
Qed.

Fixpoint no_holes (wl : list witem) : bool :=
  match wl with
  | [] => true
  | WHole _ _ :: _ => false
  | _ :: r => no_holes r
  end.
Lemma readback_no_holes wl : forall vs, no_holes wl = true -> readback false wl vs = readback true wl vs.
Proof.
  induction wl as [|w wl IH]; intros vs H; [reflexivity|].
  destruct w; cbn [no_holes readback] in *; try discriminate; rewrite IH by exact H; reflexivity.
Qed.
(* a writer without placeholders, compatible with its reader: the read-back is the value *)
Lemma readback_id rl wl vs :
  compat rl wl = true -> no_holes wl = true -> vals_okb (strip_asserts rl) vs = true -> readback false wl vs = vs.
Proof. intros Hc Hh Hv. rewrite readback_no_holes by exact Hh. exact (readback_filled _ wl vs Hc Hv). Qed.
