(* Proofs/Woff2TtProofs.v — what Woff2TableProvider::new writes for glyf and loca, read back with
   the TrueType reader of Proofs/Woff2TtSpec.v, is the glyph list that was decoded. *)
From AV Require Import Base.Prelude Base.Lemmas Gen.Woff2Lut Model.Woff2
  Proofs.Woff2Spec Proofs.Woff2Ints Proofs.Woff2Triplet Proofs.Woff2Glyf Proofs.Woff2Hmtx Proofs.Woff2Dir
  Proofs.Woff2Provider Proofs.Woff2TtSpec.
From Coq Require Import ZifyBool.
Ltac Zify.zify_post_hook ::= Z.div_mod_to_equations.
Open Scope Z_scope.

Definition on_flag (p : point) : Z := if p_on p then 1 else 0.

Lemma tt_flags_written : forall ps fuel r,
  (length ps <= fuel)%nat ->
  tt_flags fuel (len ps) (map on_flag ps ++ r) = Ok (map on_flag ps, r).
Proof.
  induction ps as [|p ps IH]; intros fuel r Hf.
  - destruct fuel; reflexivity.
  - destruct fuel as [|fuel]; [cbn [length] in Hf; lia|].
    rewrite len_cons. pose proof (len_nonneg ps). cbn [tt_flags].
    replace (1 + len ps <=? 0) with false by lia. cbn [map app rd_u8 bind].
    assert (Z.land (on_flag p) 8 = 0) as Hz by (unfold on_flag; destruct (p_on p); reflexivity).
    rewrite Hz. cbn [Z.eqb negb]. replace (1 + len ps - 1) with (len ps) by lia.
    rewrite IH by (cbn [length] in Hf; lia). reflexivity.
Qed.

(* deltas of a coordinate list *)
Fixpoint coord_deltas_ok (prev : Z) (vs : list Z) : Prop :=
  match vs with [] => True | v :: r => i16_ok (v - prev) /\ coord_deltas_ok v r end.

Lemma write_deltas_ok : forall m vs prev,
  coord_deltas_ok prev vs ->
  write_deltas m vs prev = Ok (flat_map wr_i16 (map (fun p => snd p - fst p) (combine (prev :: vs) vs))).
Proof.
  intros m vs. induction vs as [|v vs IH]; intros prev H; [reflexivity|].
  destruct H as [Hd Hr]. cbn [write_deltas].
  replace ((-32768 <=? v - prev) && (v - prev <=? 32767)) with true by (unfold i16_ok in Hd; lia).
  cbn [bind]. rewrite IH by exact Hr. cbn [bind combine map flat_map fst snd]. reflexivity.
Qed.

Lemma tt_coords_written : forall short same m vs flags prev bytes r,
  Forall (fun f => Z.land f short = 0 /\ Z.land f same = 0) flags -> length flags = length vs ->
  coord_deltas_ok prev vs -> write_deltas m vs prev = Ok bytes ->
  tt_coords short same flags prev (bytes ++ r) = Ok (vs, r).
Proof.
  intros short same m vs. induction vs as [|v vs IH]; intros flags prev bytes r Hfl Hlen Hd Hw.
  - destruct flags; [|cbn [length] in Hlen; lia]. cbn [write_deltas] in Hw. injection Hw as <-. reflexivity.
  - destruct flags as [|f flags]; [cbn [length] in Hlen; lia|].
    inversion Hfl as [|? ? [Hs Hm] Hfl']; subst. destruct Hd as [Hd Hr].
    cbn [write_deltas] in Hw.
    replace ((-32768 <=? v - prev) && (v - prev <=? 32767)) with true in Hw by (unfold i16_ok in Hd; lia).
    cbn [bind] in Hw.
    destruct (write_deltas m vs v) as [rest| | |] eqn:Er; cbn [bind] in Hw; try discriminate.
    assert (bytes = wr_i16 (v - prev) ++ rest) as -> by congruence.
    cbn [tt_coords]. rewrite Hs, Hm. cbn [Z.eqb negb].
    rewrite <- app_assoc. rewrite rd_i16_wr by exact Hd. cbn [bind].
    replace (prev + (v - prev)) with v by lia.
    rewrite (IH flags v rest r Hfl' ltac:(cbn [length] in Hlen; lia) Hr Er). reflexivity.
Qed.

Lemma zip3_points : forall ps,
  zip3 (map on_flag ps) (map p_x ps) (map p_y ps) = ps.
Proof.
  induction ps as [|p ps IH]; [reflexivity|]. cbn [map zip3]. rewrite IH. f_equal.
  destruct p as [o x y]. unfold on_flag. cbn [p_on p_x p_y]. destruct o; reflexivity.
Qed.

Lemma deltas_split : forall ps px py,
  deltas_ok px py ps -> coord_deltas_ok px (map p_x ps) /\ coord_deltas_ok py (map p_y ps).
Proof.
  induction ps as [|p ps IH]; intros px py H; [split; exact I|].
  destruct H as (Hx & Hy & Hr). destruct (IH _ _ Hr) as [Ix Iy]. cbn [map coord_deltas_ok]. auto.
Qed.

Lemma rd_items_u16 : forall vs r, Forall u16_ok vs ->
  rd_items rd_u16 (length vs) (flat_map wr_u16 vs ++ r) = Ok (vs, r).
Proof.
  induction vs as [|v vs IH]; intros r H; [reflexivity|]. inversion H as [|? ? Hv Hvs]; subst.
  cbn [length rd_items flat_map]. rewrite <- app_assoc. rewrite rd_u16_wr by exact Hv. cbn [bind].
  rewrite IH by exact Hvs. reflexivity.
Qed.

Lemma increasing_bounds : forall l prev, increasing prev l -> Forall (fun e => prev < e <= last l prev) l.
Proof.
  induction l as [|e l IH]; intros prev H; [constructor|]. destruct H as [H1 H2].
  specialize (IH e H2). rewrite last_cons_default.
  assert (e <= last l e) as Hle.
  { destruct l as [|x l']; [cbn; lia|]. inversion IH as [|? ? Hx _]; subst. lia. }
  constructor; [lia|]. eapply Forall_impl; [|exact IH]. intros a Ha. cbn beta in Ha. lia.
Qed.

(* what the writers need of a decoded glyph: beyond what the WOFF2 encoding can carry, a simple
   glyph must have int16 deltas between consecutive points (the deltas a TrueType glyf table can
   store; SimpleGlyph::write refuses anything else) *)
Definition glyph_deltas_ok (g : glyph) : Prop :=
  match g with GSimple s => deltas_ok 0 0 (sg_points s) | _ => True end.
Definition glyph_tt_ok (g : glyph) : Prop :=
  match g with
  | GEmpty => True
  | GSimple s => simple_ok s /\ deltas_ok 0 0 (sg_points s)
  | GComposite bb cs ins =>
      components_ok cs /\ bbox_ok bb /\ len ins < 65536 /\ (have_instructions cs = false -> ins = [])
  | GPresent _ _ => False
  end.

Lemma encoded_glyph_tt_ok : forall g c, encodes_glyph g c -> glyph_deltas_ok g -> glyph_tt_ok g.
Proof.
  intros g c H Hd. destruct H as [|g np fl gl il ex Hok _ _ _ _|bb cs ins il Hcs Hbb _ Hl Hi]; cbn [glyph_tt_ok].
  - exact I.
  - split; [exact Hok|exact Hd].
  - split; [exact Hcs|split; [exact Hbb|split; [exact Hl|]]]. intros Hf. rewrite Hf in Hi. apply Hi.
Qed.

Lemma len_wr_i16_app : forall v l, (len (wr_i16 v ++ l) =? 0) = false.
Proof.
  intros v l. unfold wr_i16, wr_u16. cbn [app]. rewrite !len_cons. pose proof (len_nonneg l). lia.
Qed.

(* one record, possibly followed by a padding byte *)
Lemma tt_read_written_glyph : forall m g bytes pad,
  glyph_tt_ok g -> write_glyph m g = Ok bytes -> g <> GEmpty ->
  tt_read_glyph (bytes ++ pad) = Ok g.
Proof.
  intros m g bytes pad Hok Hw Hne. destruct g as [|s|bb cs ins|nc raw]; [congruence| | |destruct Hok].
  - (* simple *)
    cbn [glyph_tt_ok] in Hok.
    destruct Hok as ((Hnz & Hinc & Hlast & Hnp & Hncl & Hpts & Hil & Hib & Hbb) & Hdel).
    destruct (deltas_split _ _ _ Hdel) as [Hdx Hdy].
    cbn [write_glyph] in Hw.
    destruct (write_deltas m (map p_x (sg_points s)) 0) as [xs| | |] eqn:Ex; cbn [bind] in Hw; try discriminate.
    destruct (write_deltas m (map p_y (sg_points s)) 0) as [ys| | |] eqn:Ey; cbn [bind] in Hw; try discriminate.
    match type of Hw with Ok ?b = Ok _ => assert (bytes = b) as -> by congruence end. clear Hw.
    pose proof (len_nonneg (sg_end_pts s)) as Hl0.
    assert (0 < len (sg_end_pts s)) as Hpos.
    { destruct (sg_end_pts s); [congruence|]. rewrite len_cons. pose proof (len_nonneg l). lia. }
    rewrite to_signed_small by (unfold i16_ok; lia).
    unfold tt_read_glyph.
    rewrite <- ?app_assoc. rewrite len_wr_i16_app.
    rewrite <- ?app_assoc. rewrite rd_i16_wr by (unfold i16_ok; lia). cbn [bind].
    rewrite read_bbox_wr by exact Hbb. cbn [bind].
    replace (0 <=? len (sg_end_pts s)) with true by lia.
    replace (Z.to_nat (len (sg_end_pts s))) with (length (sg_end_pts s)) by (unfold len; lia).
    assert (Forall u16_ok (sg_end_pts s)) as Hu16.
    { pose proof (increasing_bounds _ _ Hinc) as Hb. eapply Forall_impl; [|exact Hb].
      intros e He. cbn beta in He. unfold u16_ok.
      rewrite (last_nonempty (sg_end_pts s) (-1) 0 Hnz) in He. lia. }
    rewrite rd_items_u16 by exact Hu16. cbn [bind].
    rewrite rd_u16_wr by (unfold u16_ok; pose proof (len_nonneg (sg_instr s)); lia). cbn [bind].
    rewrite rd_slice_app. cbn [bind].
    destruct (sg_end_pts s) as [|e0 el] eqn:Eeps; [congruence|].
    rewrite Hlast.
    change (map (fun p : point => if p_on p then 1 else 0) (sg_points s)) with (map on_flag (sg_points s)).
    rewrite tt_flags_written.
    2:{ rewrite !app_length, map_length. lia. }
    cbn [bind].
    assert (Forall (fun f => Z.land f 2 = 0 /\ Z.land f 16 = 0) (map on_flag (sg_points s))) as Hfx.
    { rewrite Forall_forall. intros f Hf. apply in_map_iff in Hf. destruct Hf as (p & <- & _).
      unfold on_flag. destruct (p_on p); split; reflexivity. }
    assert (Forall (fun f => Z.land f 4 = 0 /\ Z.land f 32 = 0) (map on_flag (sg_points s))) as Hfy.
    { rewrite Forall_forall. intros f Hf. apply in_map_iff in Hf. destruct Hf as (p & <- & _).
      unfold on_flag. destruct (p_on p); split; reflexivity. }
    rewrite (tt_coords_written 2 16 m (map p_x (sg_points s)) _ 0 xs _ Hfx ltac:(rewrite !map_length; reflexivity) Hdx Ex).
    cbn [bind].
    rewrite (tt_coords_written 4 32 m (map p_y (sg_points s)) _ 0 ys _ Hfy ltac:(rewrite !map_length; reflexivity) Hdy Ey).
    cbn [bind]. rewrite zip3_points. rewrite <- Eeps. destruct s; reflexivity.
  - (* composite *)
    cbn [glyph_tt_ok] in Hok. destruct Hok as (Hcs & Hbb & Hil & Hni).
    cbn [write_glyph] in Hw. match type of Hw with Ok ?b = Ok _ => assert (bytes = b) as -> by congruence end. clear Hw.
    unfold tt_read_glyph.
    rewrite <- ?app_assoc. rewrite len_wr_i16_app.
    rewrite <- ?app_assoc. rewrite rd_i16_wr by (unfold i16_ok; lia). cbn [bind].
    rewrite read_bbox_wr by exact Hbb. cbn [bind]. cbn [Z.leb Z.compare].
    rewrite read_composite_glyphs_spec by exact Hcs. cbn [bind].
    fold (have_instructions cs). destruct (have_instructions cs) eqn:Ehi.
    + rewrite <- !app_assoc. rewrite rd_u16_wr by (unfold u16_ok; pose proof (len_nonneg ins); lia).
      cbn [bind]. rewrite rd_slice_app. cbn [bind]. reflexivity.
    + rewrite (Hni eq_refl). cbn [bind app]. reflexivity.
Qed.

(* ------------------------------------------------------------------ the table through loca *)
Lemma write_glyf_hd : forall m short gs pos G offs,
  write_glyf m short gs pos = Ok (G, offs) -> exists tl, offs = pos :: tl.
Proof.
  intros m short gs pos G offs H. destruct gs as [|g gs]; cbn [write_glyf] in H.
  - injection H as _ <-. eexists; reflexivity.
  - destruct (write_glyph m g) as [b| | |]; cbn [bind] in H; try discriminate.
    destruct (write_glyf m short gs _) as [[rest o]| | |]; cbn [bind] in H; try discriminate.
    injection H as _ <-. eexists; reflexivity.
Qed.

Lemma take_drop_middle : forall (a b c : list Z), take (len b) (drop (len a) (a ++ b ++ c)) = b.
Proof. intros. rewrite drop_app_exact. apply take_app_exact. Qed.

Lemma tt_read_glyf_cons : forall d a b r,
  tt_read_glyf d (a :: b :: r) =
  (g <- tt_read_glyph (take (b - a) (drop a d)) ;; gs <- tt_read_glyf d (b :: r) ;; Ok (g :: gs)).
Proof. reflexivity. Qed.

Lemma write_glyf_reads_back : forall m short gs pre post G offs,
  Forall glyph_tt_ok gs -> write_glyf m short gs (len pre) = Ok (G, offs) ->
  tt_read_glyf (pre ++ G ++ post) offs = Ok gs.
Proof.
  intros m short gs. induction gs as [|g gs IH]; intros pre post G offs Hok H.
  - cbn [write_glyf] in H. injection H as <- <-. reflexivity.
  - inversion Hok as [|? ? Hg Hgs]; subst. cbn [write_glyf] in H.
    destruct (write_glyph m g) as [b| | |] eqn:Eb; cbn [bind] in H; try discriminate.
    set (b' := if short && negb (len b mod 2 =? 0) then b ++ [0] else b) in *.
    destruct (write_glyf m short gs (len pre + len b')) as [[rest o]| | |] eqn:Er; cbn [bind] in H; try discriminate.
    injection H as <- <-.
    destruct (write_glyf_hd _ _ _ _ _ _ Er) as (tl & ->).
    rewrite tt_read_glyf_cons.
    replace (len pre + len b' - len pre) with (len b') by lia.
    rewrite <- app_assoc. rewrite take_drop_middle.
    assert (tt_read_glyph b' = Ok g) as Hg'.
    { destruct g as [|s|bb cs ins|nc raw].
      - cbn [write_glyph] in Eb. injection Eb as <-. subst b'.
        change (len (@nil Z) mod 2 =? 0) with true. cbn [negb]. rewrite andb_false_r. reflexivity.
      - subst b'. destruct (short && negb (len b mod 2 =? 0)).
        + apply (tt_read_written_glyph m _ b [0] Hg Eb). discriminate.
        + rewrite <- (app_nil_r b). apply (tt_read_written_glyph m _ b [] Hg Eb). discriminate.
      - subst b'. destruct (short && negb (len b mod 2 =? 0)).
        + apply (tt_read_written_glyph m _ b [0] Hg Eb). discriminate.
        + rewrite <- (app_nil_r b). apply (tt_read_written_glyph m _ b [] Hg Eb). discriminate.
      - destruct Hg. }
    rewrite Hg'. cbn [bind].
    specialize (IH (pre ++ b') post rest (len pre + len b' :: tl) Hgs).
    rewrite len_app in IH. specialize (IH Er). rewrite <- app_assoc in IH. rewrite IH. reflexivity.
Qed.

(* ------------------------------------------------------------------ loca *)
Lemma write_glyf_offsets : forall m short gs pos G offs,
  0 <= pos -> write_glyf m short gs pos = Ok (G, offs) ->
  length offs = S (length gs) /\ Forall (fun o => pos <= o <= last offs 0) offs /\ last offs 0 = pos + len G.
Proof.
  intros m short gs. induction gs as [|g gs IH]; intros pos G offs Hp H.
  - cbn [write_glyf] in H. injection H as <- <-. cbn. split; [reflexivity|]. split; [constructor; [lia|constructor]|lia].
  - cbn [write_glyf] in H.
    destruct (write_glyph m g) as [b| | |] eqn:Eb; cbn [bind] in H; try discriminate.
    set (b' := if short && negb (len b mod 2 =? 0) then b ++ [0] else b) in *.
    destruct (write_glyf m short gs (pos + len b')) as [[rest o]| | |] eqn:Er; cbn [bind] in H; try discriminate.
    injection H as <- <-. pose proof (len_nonneg b').
    destruct (IH (pos + len b') _ _ ltac:(lia) Er) as (Hl & Hf & Hlast).
    destruct (write_glyf_hd _ _ _ _ _ _ Er) as (tl & ->).
    split; [cbn [length] in *; lia|]. rewrite !last_cons_default. rewrite (last_cons_default tl _ 0) in Hf, Hlast.
    rewrite len_app. split; [|lia].
    inversion Hf as [|? ? H1 H2]; subst.
    constructor; [lia|]. constructor; [lia|]. eapply Forall_impl; [|exact H2]. intros a Ha. cbn beta in Ha. lia.
Qed.

Lemma rd_items_u32 : forall vs r, Forall (fun v => 0 <= v < 4294967296) vs ->
  rd_items rd_u32 (length vs) (flat_map wr_u32 vs ++ r) = Ok (vs, r).
Proof.
  induction vs as [|v vs IH]; intros r H; [reflexivity|]. inversion H as [|? ? Hv Hvs]; subst.
  cbn [length rd_items flat_map]. rewrite <- app_assoc. rewrite rd_u32_wr by exact Hv. cbn [bind].
  rewrite IH by exact Hvs. reflexivity.
Qed.

Lemma len_flat_map4 (l : list Z) : len (flat_map wr_u32 l) = 4 * len l.
Proof. induction l as [|x l IH]; [reflexivity|]. cbn [flat_map]. rewrite len_app, len_cons, len_wr_u32, IH. lia. Qed.

(* the loca table that owned::LocaTable::write_dep produces reads back (LocaTable::read_dep +
   LocaOffsets::iter) as the offsets, in either format *)
Lemma write_loca_reads_back : forall short offs L n,
  write_loca short offs = Some L -> length offs = S n ->
  Forall (fun o => 0 <= o <= last offs 0) offs -> last offs 0 < 4294967296 ->
  read_loca L (Z.of_nat n) (negb short) = Ok offs.
Proof.
  intros short offs L n H Hl Hf Hlast. unfold write_loca in H. unfold read_loca.
  destruct short; cbn [negb].
  - destruct (65535 <? last offs 0 / 2) eqn:E1; [discriminate|].
    destruct (existsb (fun o => Z.land o 1 =? 1) offs) eqn:E2; [discriminate|]. injection H as <-.
    assert (Forall (fun o => u16_ok (o / 2) /\ o mod 2 = 0) offs) as Hev.
    { rewrite Forall_forall in *. intros o Ho. specialize (Hf o Ho).
      assert (Z.land o 1 = o mod 2) as Hl1.
      { pose proof (Z.land_ones o 1 ltac:(lia)) as Hx. change (Z.ones 1) with 1 in Hx.
        change (2 ^ 1) with 2 in Hx. exact Hx. }
      assert ((Z.land o 1 =? 1) = false) as Hz.
      { apply not_true_is_false. intros Hc.
        assert (existsb (fun o => Z.land o 1 =? 1) offs = true) as Hc'
          by (apply existsb_exists; exists o; split; assumption). congruence. }
      unfold u16_ok. lia. }
    replace (Z.of_nat n + 1) with (len offs) by (unfold len; lia).
    rewrite <- (app_nil_r (flat_map _ offs)).
    rewrite (rd_array16_gen rd_u16 (fun o => wr_u16 (o / 2)) (fun o => o / 2) (fun o => u16_ok (o / 2))).
    + cbn [bind]. f_equal. rewrite map_map. rewrite <- (map_id offs) at 2. apply map_ext_in.
      intros o Ho. rewrite Forall_forall in Hev. specialize (Hev o Ho). lia.
    + reflexivity.
    + intros x r Hx. apply rd_u16_wr. exact Hx.
    + eapply Forall_impl; [|exact Hev]. intros o Ho. apply Ho.
  - injection H as <-. rewrite len_flat_map4.
    replace ((Z.of_nat n + 1) * 4 <=? 4 * len offs) with true by (unfold len; lia).
    replace (Z.to_nat (Z.of_nat n + 1)) with (length offs) by lia.
    rewrite <- (app_nil_r (flat_map wr_u32 offs)). rewrite rd_items_u32.
    + reflexivity.
    + eapply Forall_impl; [|exact Hf]. intros o Ho. cbn beta in Ho. lia.
Qed.

(* the writers succeed on decoded glyphs *)
Lemma write_glyph_total : forall m g, glyph_tt_ok g -> exists b, write_glyph m g = Ok b.
Proof.
  intros m g H. destruct g as [|s|bb cs ins|nc raw]; cbn [write_glyph]; try (eexists; reflexivity).
  destruct H as (_ & Hdel).
    destruct (deltas_split _ _ _ Hdel) as [Hdx Hdy].
    rewrite (write_deltas_ok m _ 0 Hdx), (write_deltas_ok m _ 0 Hdy). cbn [bind]. eexists; reflexivity.
Qed.

Lemma write_glyf_total : forall m short gs pos, Forall glyph_tt_ok gs ->
  exists G offs, write_glyf m short gs pos = Ok (G, offs).
Proof.
  intros m short gs. induction gs as [|g gs IH]; intros pos H; cbn [write_glyf]; [eexists; eexists; reflexivity|].
  inversion H as [|? ? Hg Hgs]; subst. destruct (write_glyph_total m g Hg) as (b & ->). cbn [bind].
  destruct (IH (pos + len (if short && negb (len b mod 2 =? 0) then b ++ [0] else b)) Hgs) as (G & offs & ->).
  cbn [bind]. eexists; eexists; reflexivity.
Qed.

(* in the short format every record is padded to an even length: all offsets are even *)
Lemma write_glyf_even : forall m gs pos G offs,
  pos mod 2 = 0 -> write_glyf m true gs pos = Ok (G, offs) -> Forall (fun o => o mod 2 = 0) offs.
Proof.
  intros m gs. induction gs as [|g gs IH]; intros pos G offs Hp H; cbn [write_glyf] in H.
  - injection H as _ <-. constructor; [exact Hp|constructor].
  - destruct (write_glyph m g) as [b| | |]; cbn [bind] in H; try discriminate.
    cbn [andb] in H.
    set (b' := if negb (len b mod 2 =? 0) then b ++ [0] else b) in *.
    destruct (write_glyf m true gs (pos + len b')) as [[rest o]| | |] eqn:Er; cbn [bind] in H; try discriminate.
    injection H as _ <-. constructor; [exact Hp|]. apply (IH (pos + len b') rest o); [|exact Er].
    assert (len b' mod 2 = 0) as Hb.
    { subst b'. destruct (len b mod 2 =? 0) eqn:E; cbn [negb]; [lia|]. rewrite len_app. change (len [0]) with 1. lia. }
    lia.
Qed.

Lemma write_loca_total : forall short offs,
  (short = true -> Forall (fun o => 0 <= o /\ o mod 2 = 0) offs /\ last offs 0 / 2 <= 65535) ->
  exists L, write_loca short offs = Some L.
Proof.
  intros short offs H. unfold write_loca. destruct short; [|eexists; reflexivity].
  destruct (H eq_refl) as (He & Hl). replace (65535 <? last offs 0 / 2) with false by lia.
  assert (existsb (fun o => Z.land o 1 =? 1) offs = false) as ->; [|eexists; reflexivity].
  apply not_true_is_false. intros Hc. apply existsb_exists in Hc. destruct Hc as (o & Ho & Hb).
  rewrite Forall_forall in He. destruct (He o Ho) as (H0 & H2).
  pose proof (Z.land_ones o 1 ltac:(lia)) as Hx. change (Z.ones 1) with 1 in Hx. change (2 ^ 1) with 2 in Hx. lia.
Qed.

(* The rebuilt glyf and loca tables describe the decoded glyphs: reading L as a loca table gives
   offsets through which the TrueType reader finds exactly gs in G. *)
Theorem rebuilt_glyf_loca_read_back : forall m pad short gs G offs L,
  Forall glyph_tt_ok gs -> write_glyf m pad gs 0 = Ok (G, offs) -> len G < 4294967296 ->
  write_loca short offs = Some L ->
  read_loca L (len gs) (negb short) = Ok offs /\ tt_read_glyf G offs = Ok gs.
Proof.
  intros m pad short gs G offs L Hok Hw HG Hl.
  destruct (write_glyf_offsets m pad gs 0 G offs ltac:(lia) Hw) as (Hlen & Hf & Hlast).
  split.
  - apply (write_loca_reads_back short offs L (length gs) Hl Hlen Hf). lia.
  - pose proof (write_glyf_reads_back m pad gs [] [] G offs Hok Hw) as H.
    cbn [app] in H. rewrite app_nil_r in H. exact H.
Qed.

(* ------------------------------------------------------------------ end to end *)
(* WOFF2 decoding of a TrueType font stored with the glyf, loca and hmtx transforms, end to end:
   the provider returns an hmtx table that is the plain serialisation of the original metrics h,
   glyf and loca tables through which the TrueType reader finds exactly the original glyphs gs
   (contours, points, on-curve flags, instructions, bounding boxes, components), a head table
   whose indexToLocFormat matches that loca, and every other table byte-identical.
   `Z.land flags 2 = 0`: the hmtx encoder kept the trailing leftSideBearing[] array; the other
   choice is the known finding C11-hmtx-lsb-absent (hmtx_lsb_absent_differs). *)
Theorem transformed_font_roundtrip :
  forall m ts flavor index gs h flags gt lt ht hdt mt hht head long,
  Forall tabspec_ok ts -> NoDup (map t_tag ts) ->
  In gt ts -> t_tag gt = tag_glyf -> t_transformed gt = true -> encodes_glyf_table gs (t_data gt) ->
  Forall glyph_deltas_ok gs ->
  In lt ts -> t_tag lt = tag_loca -> t_transformed lt = true ->
  In ht ts -> t_tag ht = tag_hmtx -> t_transformed ht = true ->
  encodes_hmtx_flags flags gs h (t_data ht) -> Z.land flags 2 = 0 -> hmtx_ok gs h ->
  In hdt ts -> t_tag hdt = tag_head -> t_transformed hdt = false -> read_head (t_data hdt) = Ok (head, long) ->
  In mt ts -> t_tag mt = tag_maxp -> t_transformed mt = false -> read_maxp (t_data mt) = Ok (len gs) ->
  In hht ts -> t_tag hht = tag_hhea -> t_transformed hht = false -> read_hhea (t_data hht) = Ok (len (fst h)) ->
  exists G L long',
    table_provider m {| f_flavor := flavor; f_dir := spec_entries 0 ts; f_coll := None;
                        f_block := block_of ts |} index
    = Ok ([(tag_hmtx, write_hmtx h); (tag_glyf, G); (tag_head, write_head head long'); (tag_loca, L)]
          ++ map (fun t => (t_tag t, t_data t)) (filter (fun t => negb (rebuilt_tag (t_tag t))) ts)) /\
    (len G < 4294967296 ->
     exists offs, read_loca L (len gs) long' = Ok offs /\ tt_read_glyf G offs = Ok gs).
Proof.
  intros m ts flavor index gs h flags gt lt ht hdt mt hht head long Hok Hnd
         Hgt Egt Tgt Hglyf Hdel Hlt Elt Tlt Hht Eht Tht Hhmtx Hbit Hhok Hhd Ehd Thd Rhd Hmt Emt Tmt Rmt Hhh Ehh Thh Rhh.
  pose proof Hglyf as (cs & bm & ifmt & oflags & Hcs & Hrest).
  assert (Forall glyph_tt_ok gs) as Htt.
  { clear - Hcs Hdel. induction Hcs as [|g c gs cs Hg _ IH]; [constructor|].
    inversion Hdel as [|? ? Hd Hdel']; subst. constructor; [|exact (IH Hdel')].
    apply (encoded_glyph_tt_ok g c Hg Hd). }
  destruct (write_glyf_total m (negb long) gs 0 Htt) as (G & offs & Wg).
  destruct (write_glyf_offsets m (negb long) gs 0 G offs ltac:(lia) Wg) as (Hlen & Hf & Hlast).
  set (long' := long || (65535 <? last offs 0 / 2)).
  destruct (write_loca_total (negb long') offs) as (L & Wl).
  { intros Hs. assert (long = false /\ last offs 0 / 2 <= 65535) as (-> & Hle).
    { subst long'. destruct long; cbn [orb negb] in Hs; [discriminate|]. split; [reflexivity|lia]. }
    split; [|exact Hle]. cbn [negb] in Wg.
    pose proof (write_glyf_even m gs 0 G offs ltac:(reflexivity) Wg) as He.
    rewrite Forall_forall in *. intros o Ho. split; [specialize (Hf o Ho); lia|apply He; exact Ho]. }
  exists G, L, long'. split.
  - apply (transformed_font_tables_partial m ts flavor index gs h flags gt lt ht hdt mt hht head long G offs L);
      assumption.
  - intros HG. exists offs.
    destruct (rebuilt_glyf_loca_read_back m (negb long) (negb long') gs G offs L Htt Wg HG Wl) as (R1 & R2).
    rewrite negb_involutive in R1. split; assumption.
Qed.
