(* Proofs/Woff2TtSpec.v — a reader of the plain TrueType glyf/loca formats, written from the
   OpenType specification ("glyf — Glyph Data", "loca — Index to Location"), used to state what
   the tables rebuilt by Woff2TableProvider::new describe.  All simple-glyph flag forms are
   understood (short vectors, same/positive, repeat), coordinates accumulate as integers. *)
From AV Require Import Base.Prelude Base.Lemmas Gen.Woff2Lut Model.Woff2 Proofs.Woff2Spec.
Open Scope Z_scope.

(* flags: ON_CURVE 1, X_SHORT 2, Y_SHORT 4, REPEAT 8, X_SAME_OR_POS 16, Y_SAME_OR_POS 32 *)
Fixpoint tt_flags (fuel : nat) (n : Z) (s : stream) : outcome (list Z * stream) :=
  if n <=? 0 then Ok ([], s)
  else match fuel with
       | O => Err Eof
       | S k =>
           '(f, s) <- rd_u8 s ;;
           if negb (Z.land f 8 =? 0) then
             '(r, s) <- rd_u8 s ;;
             let cnt := Z.min n (r + 1) in
             '(rest, s) <- tt_flags k (n - cnt) s ;;
             Ok (repeat f (Z.to_nat cnt) ++ rest, s)
           else
             '(rest, s) <- tt_flags k (n - 1) s ;; Ok (f :: rest, s)
       end.

(* one coordinate array: short bit / same-or-positive bit select byte, zero or int16 delta *)
Fixpoint tt_coords (short same : Z) (flags : list Z) (prev : Z) (s : stream)
  : outcome (list Z * stream) :=
  match flags with
  | [] => Ok ([], s)
  | f :: fs =>
      '(d, s) <-
         (if negb (Z.land f short =? 0) then
            '(b, s) <- rd_u8 s ;; Ok (if negb (Z.land f same =? 0) then b else - b, s)
          else if negb (Z.land f same =? 0) then Ok (0, s)
          else rd_i16 s) ;;
      '(rest, s) <- tt_coords short same fs (prev + d) s ;;
      Ok (prev + d :: rest, s)
  end.

Fixpoint zip3 (fl xs ys : list Z) : list point :=
  match fl, xs, ys with
  | f :: fl', x :: xs', y :: ys' =>
      {| p_on := negb (Z.land f 1 =? 0); p_x := x; p_y := y |} :: zip3 fl' xs' ys'
  | _, _, _ => []
  end.

(* a glyph record (the bytes between two loca offsets; trailing padding is ignored) *)
Definition tt_read_glyph (s : stream) : outcome glyph :=
  if len s =? 0 then Ok GEmpty
  else
    '(nc, s) <- rd_i16 s ;;
    '(bb, s) <- read_bbox s ;;
    if 0 <=? nc then
      '(end_pts, s) <- rd_items rd_u16 (Z.to_nat nc) s ;;
      '(ilen, s) <- rd_u16 s ;;
      '(instr, s) <- rd_slice ilen s ;;
      let n := match end_pts with [] => 0 | _ => last end_pts 0 + 1 end in
      '(flags, s) <- tt_flags (length s) n s ;;
      '(xs, s) <- tt_coords 2 16 flags 0 s ;;
      '(ys, s) <- tt_coords 4 32 flags 0 s ;;
      Ok (GSimple {| sg_bbox := bb; sg_end_pts := end_pts; sg_instr := instr;
                     sg_points := zip3 flags xs ys |})
    else
      '(comps, have_instr, s) <- read_composite_glyphs s ;;
      '(instr, s) <- (if have_instr then '(ilen, s) <- rd_u16 s ;; rd_slice ilen s else Ok ([], s)) ;;
      Ok (GComposite bb comps instr).

(* the glyf table through the loca offsets *)
Fixpoint tt_read_glyf (d : list Z) (offs : list Z) : outcome (list glyph) :=
  match offs with
  | a :: ((b :: _) as rest) =>
      g <- tt_read_glyph (take (b - a) (drop a d)) ;;
      gs <- tt_read_glyf d rest ;;
      Ok (g :: gs)
  | _ => Ok []
  end.
