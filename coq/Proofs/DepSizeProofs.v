(* Proofs/DepSizeProofs.v — every regenerated `size(args)` formula evaluates, in both arithmetic modes and for
   every argument of the argument's type, to the encoded size of the record: no intermediate overflow. *)
From Coq Require Import ZArith List Lia Bool ZifyBool.
From AV Require Import Base.Prelude Model.DepSizeExpr Gen.DepSizes Model.DepSize.
Import ListNotations.
Open Scope Z_scope.
Ltac Zify.zify_post_hook ::= Z.div_mod_to_equations.

Lemma vf_bit_range : forall f i, 0 <= vf_bit f i <= 1.
Proof. intros f i. unfold vf_bit. pose proof (Z.mod_pos_bound (f / 2 ^ i) 2). lia. Qed.

Lemma vf_size_range : forall f, 0 <= vf_size f <= 16.
Proof.
  intro f. unfold vf_size.
  pose proof (vf_bit_range f 0). pose proof (vf_bit_range f 1). pose proof (vf_bit_range f 2).
  pose proof (vf_bit_range f 3). pose proof (vf_bit_range f 4). pose proof (vf_bit_range f 5).
  pose proof (vf_bit_range f 6). pose proof (vf_bit_range f 7). lia.
Qed.

Lemma arith_fits : forall m t v, 0 <= v < ity_mod t -> arith m t v = Ok v.
Proof. intros m t v Hv. unfold arith. destruct (v <? ity_mod t) eqn:E; [reflexivity | lia]. Qed.

Lemma usize_mod : ity_mod TUsize = USIZE.
Proof. reflexivity. Qed.

Ltac split_args Hok :=
  unfold lib_args_ok in Hok; apply andb_true_iff in Hok; destruct Hok as [Hargs Hfit];
  cbn [lib_arg_tys] in Hargs;
  match type of Hargs with args_ok _ ?a = true =>
    destruct a as [| x0 [| x1 [| x2 [| x3 rest]]]]; cbn [args_ok andb] in Hargs; rewrite ?andb_false_r in Hargs; try discriminate Hargs;
    rewrite ?andb_true_r in Hargs
  end;
  repeat match goal with
         | H : andb _ _ = true |- _ => apply andb_true_iff in H; destruct H
         end.

Lemma arith_usize : forall m v, 0 <= v < USIZE -> arith m TUsize v = Ok v.
Proof. intros m v Hv. apply arith_fits. exact Hv. Qed.

Lemma aty_ok_u16 : forall v, aty_ok AU16 v = true -> 0 <= v < 65536.
Proof. unfold aty_ok. intros. lia. Qed.
Lemma aty_ok_usize : forall v, aty_ok AUsize v = true -> 0 <= v < USIZE.
Proof. unfold aty_ok. intros. lia. Qed.

Theorem lib_size_exact : forall (m : mode) (r : librec) (a : list Z),
    lib_args_ok r a = true ->
    seval m a (lib_size_expr r) = Ok (lib_spec_size r a).
Proof.
  intros m r a Hok.
  destruct r; split_args Hok.
  all: cbn [lib_size_expr lib_spec_size seval bind nth a0 a1 a2] in *;
    unfold a0, a1, a2 in *; cbn [nth] in *;
    repeat match goal with
           | H : aty_ok AU16 _ = true |- _ => apply aty_ok_u16 in H
           | H : aty_ok AUsize _ = true |- _ => apply aty_ok_usize in H
           | H : aty_ok AVf _ = true |- _ => clear H
           end;
    repeat match goal with
           | |- context [vf_size ?f] => let H := fresh "Hvf" in pose proof (vf_size_range f) as H; generalize dependent (vf_size f); intros
           end;
    apply Z.ltb_lt in Hfit; unfold USIZE in *;
    repeat (rewrite arith_usize; cbn [bind]; [| unfold USIZE; lia]);
    try (f_equal; lia); try reflexivity.
Qed.

(* the seeded shape, as a check that the evaluator does see narrow arithmetic: 3 * axis_count in u16 *)
Example narrow_mul_overflows :
  seval Debug [21846] (SMul TUsize (SFrom TUsize (SMul TU16 (SArg 0) (SLit 3))) (SLit 2)) = Panic /\
  seval Release [21846] (SMul TUsize (SFrom TUsize (SMul TU16 (SArg 0) (SLit 3))) (SLit 2)) = Ok 4.
Proof. split; vm_compute; reflexivity. Qed.

Theorem lib_read_array_dep_window : forall (m : mode) (r : librec) (a : list Z) (n avail : Z),
    lib_args_ok r a = true -> 0 <= n < USIZE -> 0 <= avail < USIZE ->
    lib_read_array_dep m r a n avail =
      Ok (lib_spec_size r a,
          if (n * lib_spec_size r a <=? avail) then Ok (n * lib_spec_size r a) else Err Eof)
    /\ lib_item_fits r a (lib_spec_size r a) = true.
Proof.
  intros m r a n avail Hok Hn Hav. split.
  - unfold lib_read_array_dep. rewrite (lib_size_exact m r a Hok). cbn [bind]. f_equal. f_equal.
    unfold cmul. destruct (n * lib_spec_size r a <? USIZE) eqn:E; cbn [bind].
    + reflexivity.
    + destruct (n * lib_spec_size r a <=? avail) eqn:E2; [exfalso; lia | reflexivity].
  - unfold lib_item_fits. lia.
Qed.
