(* Proofs/Woff2Spec.v — the WOFF2 specification side of C11, written from the W3C text
   (https://www.w3.org/TR/WOFF2/) independently of the control flow of src/woff2.rs:
   which byte strings encode which values.  Encoders are relations wherever the specification
   leaves the encoder a choice (255UInt16 forms, triplet row, explicit bounding box, hmtx flags,
   known-tag index or arbitrary tag), so the round-trip theorems quantify over every choice. *)
From AV Require Import Base.Prelude Base.Lemmas Gen.Woff2Lut Model.Woff2.
Open Scope Z_scope.

(* ------------------------------------------------------------------ 3.1 / 3.2 integers *)
(* 255UInt16 (section 3.2): one byte below 253; 253 = a 16-bit word follows; 255 = next byte + 253;
   254 = next byte + 506.  The specification states that several encodings of a value are valid. *)
Inductive encodes_255 : list Z -> Z -> Prop :=
| E255_one : forall v, 0 <= v < 253 -> encodes_255 [v] v
| E255_word : forall v, 0 <= v < 65536 -> encodes_255 [253; v / 256; v mod 256] v
| E255_more1 : forall v, 253 <= v < 253 + 256 -> encodes_255 [255; v - 253] v
| E255_more2 : forall v, 506 <= v < 506 + 256 -> encodes_255 [254; v - 506] v.

(* the shortest form (what a typical encoder writes) *)
Definition enc_255 (v : Z) : list Z :=
  if v <? 253 then [v]
  else if v <? 506 then [255; v - 253]
  else if v <? 762 then [254; v - 506]
  else [253; v / 256; v mod 256].

(* UIntBase128 (section 3.1): big-endian groups of 7 bits, continuation bit on all but the last,
   no leading zero group, at most 5 bytes, value below 2^32 *)
Definition enc_base128 (v : Z) : list Z :=
  if v <? 128 then [v]
  else if v <? 16384 then [128 + v / 128; v mod 128]
  else if v <? 2097152 then [128 + v / 16384; 128 + (v / 128) mod 128; v mod 128]
  else if v <? 268435456 then
    [128 + v / 2097152; 128 + (v / 16384) mod 128; 128 + (v / 128) mod 128; v mod 128]
  else
    [128 + v / 268435456; 128 + (v / 2097152) mod 128; 128 + (v / 16384) mod 128;
     128 + (v / 128) mod 128; v mod 128].

(* ------------------------------------------------------------------ 5.2 triplet encoding *)
(* the table of section 5.2 as a rule: index -> (byte count, x bits, y bits, delta x, delta y,
   x sign, y sign).  Bytes counts exclude the flag byte, as in lut.rs. *)
Definition spec_row (i : Z) : xytriplet :=
  let xneg := (i mod 2 =? 0) in
  let yneg := ((i / 2) mod 2 =? 0) in
  if i <? 10 then
    {| byte_count := 1; x_bits := 0; y_bits := 8; delta_x := 0; delta_y := 256 * (i / 2);
       x_is_negative := false; y_is_negative := (i mod 2 =? 0) |}
  else if i <? 20 then
    {| byte_count := 1; x_bits := 8; y_bits := 0; delta_x := 256 * ((i - 10) / 2); delta_y := 0;
       x_is_negative := xneg; y_is_negative := false |}
  else if i <? 84 then
    let k := i - 20 in
    {| byte_count := 1; x_bits := 4; y_bits := 4;
       delta_x := 1 + 16 * (k / 16); delta_y := 1 + 16 * ((k / 4) mod 4);
       x_is_negative := xneg; y_is_negative := yneg |}
  else if i <? 120 then
    let k := i - 84 in
    {| byte_count := 2; x_bits := 8; y_bits := 8;
       delta_x := 1 + 256 * (k / 12); delta_y := 1 + 256 * ((k / 4) mod 3);
       x_is_negative := xneg; y_is_negative := yneg |}
  else if i <? 124 then
    {| byte_count := 3; x_bits := 12; y_bits := 12; delta_x := 0; delta_y := 0;
       x_is_negative := xneg; y_is_negative := yneg |}
  else
    {| byte_count := 4; x_bits := 16; y_bits := 16; delta_x := 0; delta_y := 0;
       x_is_negative := xneg; y_is_negative := yneg |}.

Definition spec_lut : list xytriplet := map spec_row (range 0 128).

(* the decoding procedure of the specification's reference text, as arithmetic on the flag
   (low 7 bits) and the following bytes; withSign(flag, v) = v if flag is odd, -v otherwise *)
Definition with_sign (flag v : Z) : Z := if flag mod 2 =? 1 then v else - v.
Definition spec_triplet (flag : Z) (b : list Z) : Z * Z :=
  let b0 := nthZ b 0 in let b1 := nthZ b 1 in let b2 := nthZ b 2 in let b3 := nthZ b 3 in
  if flag <? 10 then (0, with_sign flag (256 * (flag / 2) + b0))
  else if flag <? 20 then (with_sign flag (256 * ((flag - 10) / 2) + b0), 0)
  else if flag <? 84 then
    let k := flag - 20 in
    (with_sign flag (1 + 16 * (k / 16) + b0 / 16),
     with_sign (flag / 2) (1 + 16 * ((k / 4) mod 4) + b0 mod 16))
  else if flag <? 120 then
    let k := flag - 84 in
    (with_sign flag (1 + 256 * (k / 12) + b0),
     with_sign (flag / 2) (1 + 256 * ((k / 4) mod 3) + b1))
  else if flag <? 124 then
    (with_sign flag (16 * b0 + b1 / 16), with_sign (flag / 2) (256 * (b1 mod 16) + b2))
  else
    (with_sign flag (256 * b0 + b1), with_sign (flag / 2) (256 * b2 + b3)).

(* generic packing of the two fields of a row into byte_count bytes, x field in the high bits *)
Definition pack_fields (t : xytriplet) (fx fy : Z) : list Z :=
  be_bytes (Z.to_nat (byte_count t))
    (fx * 2 ^ (8 * byte_count t - x_bits t) + fy * 2 ^ (8 * byte_count t - x_bits t - y_bits t)).

(* row t can carry the delta d in a field of `bits` bits offset by `delta` with sign `neg` *)
Definition field_of (bits delta : Z) (neg : bool) (d : Z) : option Z :=
  if bits =? 0 then (if d =? 0 then Some 0 else None)
  else
    let mag := Z.abs d in
    if negb (d =? 0) && negb (Bool.eqb (d <? 0) neg) then None
    else if (delta <=? mag) && (mag - delta <? 2 ^ bits) then Some (mag - delta) else None.

(* (flag-low-7-bits, data bytes) encodes the delta pair (dx, dy): any row that fits *)
Definition triplet_encodes (i : Z) (bytes : list Z) (dx dy : Z) : Prop :=
  0 <= i < 128 /\
  exists fx fy,
    field_of (x_bits (spec_row i)) (delta_x (spec_row i)) (x_is_negative (spec_row i)) dx = Some fx /\
    field_of (y_bits (spec_row i)) (delta_y (spec_row i)) (y_is_negative (spec_row i)) dy = Some fy /\
    bytes = pack_fields (spec_row i) fx fy.

(* ------------------------------------------------------------------ 5.1 transformed glyf *)
Definition i16_ok (v : Z) : Prop := -32768 <= v <= 32767.
Definition u16_ok (v : Z) : Prop := 0 <= v < 65536.
Definition bbox_ok (b : bbox) : Prop :=
  i16_ok (bb_xmin b) /\ i16_ok (bb_ymin b) /\ i16_ok (bb_xmax b) /\ i16_ok (bb_ymax b).

(* number of points of each contour, from endPtsOfContours *)
Fixpoint contour_counts (prev : Z) (eps : list Z) : list Z :=
  match eps with [] => [] | e :: r => (e - prev) :: contour_counts e r end.

(* one glyph's contribution to the seven streams and its bboxBitmap bit *)
Record contrib := {
  k_nc : list Z; k_np : list Z; k_fl : list Z; k_gl : list Z;
  k_comp : list Z; k_bbox : list Z; k_ins : list Z; k_bit : bool }.

(* points are written as deltas against the previous point (first against (0,0)): one flag byte
   (bit 7 clear = on curve, low 7 bits = triplet row) and the row's data bytes *)
Inductive encodes_points : Z -> Z -> list point -> list Z -> list Z -> Prop :=
| EP_nil : forall px py, encodes_points px py [] [] []
| EP_cons : forall px py p ps i bytes fl gl,
    triplet_encodes i bytes (p_x p - px) (p_y p - py) ->
    encodes_points (p_x p) (p_y p) ps fl gl ->
    encodes_points px py (p :: ps) ((i + if p_on p then 0 else 128) :: fl) (bytes ++ gl).

(* a composite component as in the TrueType glyf table (the composite stream holds the records
   unchanged): flags, glyph index, two arguments (words or bytes), optional scale *)
Definition scale_count (flags : Z) : Z :=
  if negb (Z.land flags 8 =? 0) then 1
  else if negb (Z.land flags 64 =? 0) then 2
  else if negb (Z.land flags 128 =? 0) then 4 else 0.
Definition arg_ok (flags v : Z) : Prop :=
  match negb (Z.land flags 1 =? 0), negb (Z.land flags 2 =? 0) with
  | true, true => i16_ok v
  | true, false => u16_ok v
  | false, true => -128 <= v <= 127
  | false, false => 0 <= v < 256
  end.
Definition component_ok (more : bool) (c : component) : Prop :=
  0 <= c_flags c < 65536 /\ Z.land (c_flags c) comp_flag_mask = c_flags c /\
  negb (Z.land (c_flags c) 32 =? 0) = more /\
  u16_ok (c_gid c) /\ arg_ok (c_flags c) (c_arg1 c) /\ arg_ok (c_flags c) (c_arg2 c) /\
  len (c_scale c) = scale_count (c_flags c) /\ Forall i16_ok (c_scale c).
(* MORE_COMPONENTS on every component but the last *)
Fixpoint components_ok (cs : list component) : Prop :=
  match cs with
  | [] => False
  | [c] => component_ok false c
  | c :: r => component_ok true c /\ components_ok r
  end.
Definition have_instructions (cs : list component) : bool :=
  existsb (fun c => negb (Z.land (c_flags c) 256 =? 0)) cs.

Definition point_ok (p : point) : Prop := i16_ok (p_x p) /\ i16_ok (p_y p).
(* the deltas a TrueType glyph can hold are int16.  The WOFF2 decoder does not need this (the
   triplets carry 16-bit magnitudes plus a sign and the accumulation is modulo 2^16); the glyf
   writer does: SimpleGlyph::write refuses wider deltas with a WriteError *)
Fixpoint deltas_ok (px py : Z) (ps : list point) : Prop :=
  match ps with
  | [] => True
  | p :: r => i16_ok (p_x p - px) /\ i16_ok (p_y p - py) /\ deltas_ok (p_x p) (p_y p) r
  end.
Fixpoint increasing (prev : Z) (l : list Z) : Prop :=
  match l with [] => True | e :: r => prev < e /\ increasing e r end.

Definition simple_ok (g : simple_glyph) : Prop :=
  sg_end_pts g <> [] /\ increasing (-1) (sg_end_pts g) /\
  last (sg_end_pts g) 0 + 1 = len (sg_points g) /\ len (sg_points g) < 65536 /\
  len (sg_end_pts g) < 32768 /\
  Forall point_ok (sg_points g) /\
  len (sg_instr g) < 65536 /\ bytes_ok (sg_instr g) = true /\ bbox_ok (sg_bbox g).

Inductive encodes_glyph : glyph -> contrib -> Prop :=
| EG_empty :
    encodes_glyph GEmpty
      {| k_nc := [0; 0]; k_np := []; k_fl := []; k_gl := []; k_comp := []; k_bbox := [];
         k_ins := []; k_bit := false |}
| EG_simple : forall g np_encs fl gl ilen explicit,
    simple_ok g ->
    Forall2 encodes_255 np_encs (contour_counts (-1) (sg_end_pts g)) ->
    encodes_points 0 0 (sg_points g) fl gl ->
    encodes_255 ilen (len (sg_instr g)) ->
    (* the bounding box may be omitted only when it is the one computed from the points *)
    (explicit = false -> bbox_from_points (sg_points g) = Ok (sg_bbox g)) ->
    encodes_glyph (GSimple g)
      {| k_nc := wr_i16 (len (sg_end_pts g)); k_np := concat np_encs; k_fl := fl;
         k_gl := gl ++ ilen; k_comp := []; k_bbox := if explicit then wr_bbox (sg_bbox g) else [];
         k_ins := sg_instr g; k_bit := explicit |}
| EG_composite : forall bb comps instr ilen,
    components_ok comps -> bbox_ok bb -> bytes_ok instr = true -> len instr < 65536 ->
    (if have_instructions comps then encodes_255 ilen (len instr) else ilen = [] /\ instr = []) ->
    encodes_glyph (GComposite bb comps instr)
      {| k_nc := wr_i16 (-1); k_np := []; k_fl := []; k_gl := ilen;
         k_comp := flat_map write_component comps; k_bbox := wr_bbox bb; k_ins := instr;
         k_bit := true |}.

(* bboxBitmap: 4 * floor((n + 31) / 32) bytes; "glyph number 0 corresponds to the most significant
   bit of the first byte, glyph number 7 to the least significant bit of the first byte, glyph
   number 8 to the most significant bit of the second byte, and so on".  Padding bits are free. *)
Definition bitmap_ok (bm : list Z) (bits : list bool) : Prop :=
  len bm = 4 * ((len bits + 31) / 32) /\ bytes_ok bm = true /\
  forall i, 0 <= i < len bits ->
    Z.testbit (nthZ bm (i / 8)) (7 - i mod 8) = nth (Z.to_nat i) bits false.

(* the whole transformed table: header, then the seven streams (the bbox stream starts with the
   bitmap) *)
Definition tglyf_bytes (index_format option_flags : Z) (bm : list Z) (cs : list contrib) : list Z :=
  let nc := flat_map k_nc cs in let np := flat_map k_np cs in let fl := flat_map k_fl cs in
  let gl := flat_map k_gl cs in let comp := flat_map k_comp cs in
  let bb := flat_map k_bbox cs in let ins := flat_map k_ins cs in
  wr_u32 option_flags ++ wr_u16 (len cs) ++ wr_u16 index_format
  ++ wr_u32 (len nc) ++ wr_u32 (len np) ++ wr_u32 (len fl) ++ wr_u32 (len gl)
  ++ wr_u32 (len comp) ++ wr_u32 (len bm + len bb) ++ wr_u32 (len ins)
  ++ nc ++ np ++ fl ++ gl ++ comp ++ bm ++ bb ++ ins.

Definition encodes_glyf_table (gs : list glyph) (bytes : list Z) : Prop :=
  exists cs bm index_format option_flags,
    Forall2 encodes_glyph gs cs /\ len gs < 65536 /\
    bitmap_ok bm (map k_bit cs) /\
    0 <= index_format < 65536 /\ 0 <= option_flags < 4294967296 /\
    len bytes < 4294967296 /\
    bytes = tglyf_bytes index_format option_flags bm cs.

(* ------------------------------------------------------------------ 5.4 transformed hmtx *)
(* original metrics: (advanceWidth, lsb) for glyphs below numberOfHMetrics, lsb for the rest *)
Definition hmtx_ok (glyf : list glyph) (h : list (Z * Z) * list Z) : Prop :=
  len (fst h) + len (snd h) = len glyf /\
  Forall (fun p => u16_ok (fst p) /\ i16_ok (snd p)) (fst h) /\ Forall i16_ok (snd h).
Definition xmin_spec (g : glyph) : Z :=
  match g with
  | GEmpty => 0
  | GSimple s => bb_xmin (sg_bbox s)
  | GComposite bb _ _ => bb_xmin bb
  | GPresent _ raw => to_signed 16 (nthZ raw 2 * 256 + nthZ raw 3)
  end.
(* flags bit 0: the lsb[] array is omitted, bit 1: the leftSideBearing[] array is omitted; either
   may be set only if every omitted value equals the glyph's xMin; bits 2-7 reserved *)
Definition encodes_hmtx_flags (flags : Z) (glyf : list glyph) (h : list (Z * Z) * list Z)
  (bytes : list Z) : Prop :=
  0 <= flags < 256 /\
  (Z.land flags 1 = 1 -> map snd (fst h) = map xmin_spec (firstn (length (fst h)) glyf)) /\
  (Z.land flags 2 = 2 -> snd h = map xmin_spec (skipn (length (fst h)) glyf)) /\
  bytes = [flags] ++ flat_map (fun p => wr_u16 (fst p)) (fst h)
          ++ (if Z.land flags 1 =? 0 then flat_map (fun p => wr_i16 (snd p)) (fst h) else [])
          ++ (if Z.land flags 2 =? 0 then flat_map wr_i16 (snd h) else []).
Definition encodes_hmtx (glyf : list glyph) (h : list (Z * Z) * list Z) (bytes : list Z) : Prop :=
  exists flags, encodes_hmtx_flags flags glyf h bytes.

(* the left side bearing of glyph g as a reader of the hmtx table finds it: in the long metrics
   below numberOfHMetrics, in the trailing array (index g - numberOfHMetrics) from there on *)
Definition hmtx_lsb (h : list (Z * Z) * list Z) (g : Z) : Z :=
  if g <? len (fst h) then snd (nth (Z.to_nat g) (fst h) (0, 0))
  else nth (Z.to_nat (g - len (fst h))) (snd h) 0.

(* ------------------------------------------------------------------ 4.1 table directory *)
From Coq Require String Ascii.
Import String.StringSyntax.
Delimit Scope string_scope with string.

Fixpoint tag_of_chars (s : String.string) (acc : Z) : Z :=
  match s with
  | String.EmptyString => acc
  | String.String c r => tag_of_chars r (acc * 256 + Z.of_nat (Ascii.nat_of_ascii c))
  end.
Definition tag_of_str (s : String.string) : Z := tag_of_chars s 0.

(* "Known Table Tags" of section 4.1, index 0..62, transcribed from the specification *)
Definition spec_known_tags : list Z := map tag_of_str [
  "cmap"; "head"; "hhea"; "hmtx"; "maxp"; "name"; "OS/2"; "post"; "cvt "; "fpgm"; "glyf"; "loca";
  "prep"; "CFF "; "VORG"; "EBDT"; "EBLC"; "gasp"; "hdmx"; "kern"; "LTSH"; "PCLT"; "VDMX"; "vhea";
  "vmtx"; "BASE"; "GDEF"; "GPOS"; "GSUB"; "EBSC"; "JSTF"; "MATH"; "CBDT"; "CBLC"; "COLR"; "CPAL";
  "SVG "; "sbix"; "acnt"; "avar"; "bdat"; "bloc"; "bsln"; "cvar"; "fdsc"; "feat"; "fmtx"; "fvar";
  "gvar"; "hsty"; "just"; "lcar"; "mort"; "morx"; "opbd"; "prop"; "trak"; "Zapf"; "Silf"; "Glat";
  "Gloc"; "Feat"; "Sill"]%string.

Definition spec_tag_glyf : Z := tag_of_str "glyf"%string.
Definition spec_tag_loca : Z := tag_of_str "loca"%string.
Definition spec_tag_hmtx : Z := tag_of_str "hmtx"%string.

(* a table as the directory describes it: tag, length of the original table, and the bytes stored
   in the (decompressed) data block; `t_transformed` = the entry carries a transformLength *)
Record tabspec := { t_tag : Z; t_orig_length : Z; t_transformed : bool; t_data : list Z }.

(* the transformation version an entry must carry (bits 6-7 of the flags byte): glyf and loca are
   transformed with version 0 and stored as is with version 3; hmtx is transformed with version 1;
   every other table (and an untransformed hmtx) has version 0 *)
Definition spec_version (t : tabspec) : Z :=
  if (t_tag t =? spec_tag_glyf) || (t_tag t =? spec_tag_loca) then (if t_transformed t then 0 else 3)
  else if t_transformed t then 1 else 0.

Definition tabspec_ok (t : tabspec) : Prop :=
  0 <= t_tag t < 4294967296 /\ 0 <= t_orig_length t < 4294967296 /\ len (t_data t) < 4294967296 /\
  (* only glyf, loca and hmtx have a transform *)
  (t_transformed t = true ->
     t_tag t = spec_tag_glyf \/ t_tag t = spec_tag_loca \/ t_tag t = spec_tag_hmtx) /\
  (* an untransformed table is stored as is *)
  (t_transformed t = false -> t_orig_length t = len (t_data t)).

(* the tag is written as its index in the known-tag table, or as 63 followed by the four bytes *)
Inductive encodes_tag : Z -> Z -> list Z -> Prop :=
| ET_known : forall idx tag, 0 <= idx < 63 -> nth_error spec_known_tags (Z.to_nat idx) = Some tag ->
    encodes_tag tag idx []
| ET_arbitrary : forall tag, encodes_tag tag 63 (wr_u32 tag).

Definition encodes_dir_entry (t : tabspec) (bytes : list Z) : Prop :=
  exists idx tagbytes,
    encodes_tag (t_tag t) idx tagbytes /\
    bytes = [spec_version t * 64 + idx] ++ tagbytes ++ enc_base128 (t_orig_length t)
            ++ (if t_transformed t then enc_base128 (len (t_data t)) else []).

(* what the decoder must produce: offsets are the running sum of the stored lengths *)
Fixpoint spec_entries (offset : Z) (ts : list tabspec) : list dir_entry :=
  match ts with
  | [] => []
  | t :: r =>
      {| e_tag := t_tag t; e_offset := offset; e_orig_length := t_orig_length t;
         e_transform_length := if t_transformed t then Some (len (t_data t)) else None |}
      :: spec_entries (offset + len (t_data t)) r
  end.

(* collection directory (section 4.2): version, numFonts, then per font numTables, flavor and the
   directory indices, the counts and indices as 255UInt16 *)
Inductive encodes_font_entry : list Z -> list Z -> Prop :=
| EFE : forall idx nenc flavor iencs,
    encodes_255 nenc (len idx) -> 0 <= flavor < 4294967296 -> Forall2 encodes_255 iencs idx ->
    encodes_font_entry idx (nenc ++ wr_u32 flavor ++ concat iencs).
Definition encodes_collection (fonts : list (list Z)) (bytes : list Z) : Prop :=
  exists version nenc fencs,
    0 <= version < 4294967296 /\ encodes_255 nenc (len fonts) /\
    Forall2 encodes_font_entry fonts fencs /\
    bytes = wr_u32 version ++ nenc ++ concat fencs.

(* ------------------------------------------------------------------ 3. WOFF2 header *)
(* the 48-byte header; only flavor and numTables steer the decoder, reserved must be 0 *)
Record header_fields := {
  hf_flavor : Z; hf_length : Z; hf_num_tables : Z; hf_total_sfnt_size : Z;
  hf_total_compressed_size : Z; hf_major : Z; hf_minor : Z; hf_meta_offset : Z;
  hf_meta_length : Z; hf_meta_orig_length : Z; hf_priv_offset : Z; hf_priv_length : Z }.
Definition u32_ok (v : Z) : Prop := 0 <= v < 4294967296.
Definition header_ok (h : header_fields) : Prop :=
  u32_ok (hf_flavor h) /\ u32_ok (hf_length h) /\ u16_ok (hf_num_tables h) /\
  u32_ok (hf_total_sfnt_size h) /\ u32_ok (hf_total_compressed_size h) /\
  u16_ok (hf_major h) /\ u16_ok (hf_minor h) /\ u32_ok (hf_meta_offset h) /\
  u32_ok (hf_meta_length h) /\ u32_ok (hf_meta_orig_length h) /\ u32_ok (hf_priv_offset h) /\
  u32_ok (hf_priv_length h).
Definition spec_magic : Z := tag_of_str "wOF2"%string.
Definition header_bytes (h : header_fields) : list Z :=
  wr_u32 spec_magic ++ wr_u32 (hf_flavor h) ++ wr_u32 (hf_length h)
  ++ wr_u16 (hf_num_tables h) ++ wr_u16 0 ++ wr_u32 (hf_total_sfnt_size h)
  ++ wr_u32 (hf_total_compressed_size h) ++ wr_u16 (hf_major h) ++ wr_u16 (hf_minor h)
  ++ wr_u32 (hf_meta_offset h) ++ wr_u32 (hf_meta_length h) ++ wr_u32 (hf_meta_orig_length h)
  ++ wr_u32 (hf_priv_offset h) ++ wr_u32 (hf_priv_length h).
Definition spec_ttcf : Z := tag_of_str "ttcf"%string.
