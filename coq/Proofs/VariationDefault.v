(* Proofs/VariationDefault.v — property C12: the instance at the default location (all
   normalised coordinates zero) is exactly the default master: no tuple variation applies, the
   deltas are zero, every coordinate, component offset and horizontal metric is unchanged. *)
From AV Require Import Base.Prelude Base.Lemmas Gen.VariationConsts Model.Variation
  Proofs.VariationScalar Proofs.VariationStore.
From Coq Require Import QArith Lia.
Local Open Scope Z_scope.

(* a tuple variation header that cannot apply at the default location: its peak tuple has a
   non-zero coordinate on some axis k (and an intermediate region, when present, is well formed on
   that axis); or its shared-tuple index is out of range, which makes the implementation skip it *)
Definition proper_header (shared : list (list Z)) (n : nat) (h : tvh) : Prop :=
  header_peak shared h = None \/
  exists peak k,
    header_peak shared h = Some peak /\ (k < length peak)%nat /\ (k < n)%nat /\ nth k peak 0 <> 0 /\
    match tvh_inter h with
    | Some (s, e) => (k < length s)%nat /\ (k < length e)%nat /\ region_valid (nth k s 0) (nth k peak 0) (nth k e 0)
    | None => True
    end.

Lemma proper_header_not_applicable shared n h :
  proper_header shared n h -> header_scalar shared (repeat 0 n) h = None.
Proof.
  intros [H | (peak & k & HP & L1 & L2 & P & HI)].
  - unfold header_scalar. rewrite H. reflexivity.
  - exact (header_scalar_default shared h n peak k HP L1 L2 P HI).
Qed.

Lemma accumulate_none g np shared inst sp : forall hs final,
  Forall (fun h => header_scalar shared inst h = None) hs ->
  accumulate_regions g np shared inst sp hs final = Ok final.
Proof.
  induction hs as [|h hs IH]; intros final H; [reflexivity|].
  inversion H as [|? ? Hh Hr]; subst. cbn [accumulate_regions]. rewrite Hh. apply IH. exact Hr.
Qed.

(* no applicable tuple: all deltas are zero *)
Lemma glyph_deltas_default g axis_count shared (n : nat) data st :
  len data <> 0 ->
  read_store axis_count (number_of_points g + 4) data = Ok st ->
  Forall (proper_header shared n) (tvs_headers st) ->
  glyph_deltas g axis_count shared (repeat 0 n) data
  = Ok (Some (repeat (0%Q, 0%Q) (Z.to_nat (number_of_points g + 4)))).
Proof.
  intros Hd Hs Hp. unfold glyph_deltas.
  destruct (len data =? 0) eqn:E; [apply Z.eqb_eq in E; contradiction|].
  rewrite Hs. cbn [bind]. rewrite accumulate_none; [reflexivity|].
  eapply Forall_impl; [|exact Hp]. intros h. apply proper_header_not_applicable.
Qed.

Definition i16 (v : Z) : Prop := -32768 <= v <= 32767.

Definition glyph_in_range (g : glyph) : Prop :=
  match g with
  | GEmpty => True
  | GSimple coords _ => Forall (fun p => i16 (fst p) /\ i16 (snd p)) coords
  | GComposite cs => Forall (fun c => let '(_, _, a1, a2) := c in i16 a1 /\ i16 a2) cs
  end.

Lemma zip_apply_id {A} (f : A -> qpair -> A) (l : list A) : forall ds,
  (forall x d, In x l -> In d ds -> f x d = x) -> zip_apply f l ds = l.
Proof.
  induction l as [|x l IH]; intros ds H; [reflexivity|].
  destruct ds as [|d ds]; [reflexivity|]. cbn [zip_apply].
  rewrite (H x d) by (left; reflexivity). f_equal. apply IH.
  intros y e Hy He. apply H; right; assumption.
Qed.

Lemma apply_point_zero p : i16 (fst p) /\ i16 (snd p) -> apply_point p (0%Q, 0%Q) = p.
Proof.
  intros [A B]. unfold apply_point. cbn [fst snd].
  rewrite !add_round_i16_zero by (try assumption; reflexivity). destruct p; reflexivity.
Qed.

Lemma apply_comp_zero c : (let '(_, _, a1, a2) := c in i16 a1 /\ i16 a2) -> apply_comp c (0%Q, 0%Q) = c.
Proof.
  destruct c as [[[xy gid] a1] a2]. intros [A B]. unfold apply_comp. cbn [fst snd].
  destruct xy; [|reflexivity]. rewrite !add_round_i16_zero by (try assumption; reflexivity). reflexivity.
Qed.

Lemma skipn_repeat {A} (x : A) (a b : nat) : skipn a (repeat x (a + b)) = repeat x b.
Proof. induction a as [|a IH]; [reflexivity|]. cbn [Nat.add repeat skipn]. exact IH. Qed.

(* apply_variations at the default location: the glyph is returned unchanged, the phantom points
   are the ones computed from the source metrics *)
Lemma apply_variations_default m g hdr_xmin aw lsb axis_count shared (n : nat) data pp1 pp2 :
  glyph_in_range g ->
  (len data = 0 \/
   exists st, read_store axis_count (number_of_points g + 4) data = Ok st /\
              Forall (proper_header shared n) (tvs_headers st)) ->
  phantom_x m (match g with GEmpty => 0 | _ => hdr_xmin end) aw lsb = Ok (pp1, pp2) ->
  i16 pp1 -> i16 pp2 ->
  exists v, apply_variations m g hdr_xmin aw lsb axis_count shared (repeat 0 n) data = Ok v /\
            v_glyph v = g /\ v_pp1 v = pp1 /\ v_pp2 v = pp2.
Proof.
  intros Hg Hdata Hph H1 H2. unfold apply_variations.
  destruct (Z.eq_dec (len data) 0) as [E0|E0].
  - unfold glyph_deltas. rewrite E0. cbn [Z.eqb bind]. rewrite Hph. cbn [bind].
    eexists. split; [reflexivity|]. cbn [v_glyph v_pp1 v_pp2]. repeat split; reflexivity.
  - destruct Hdata as [C|(st & Hs & Hp)]; [contradiction|].
    rewrite (glyph_deltas_default g axis_count shared n data st E0 Hs Hp). cbn [bind]. rewrite Hph. cbn [bind].
    pose proof (len_nonneg (match g with GEmpty => [] | GSimple c _ => map fst c | GComposite cs => map (fun _ => 0) cs end)) as _.
    assert (Hn : 0 <= number_of_points g) by (destruct g; cbn [number_of_points]; try lia; apply len_nonneg).
    replace (Z.to_nat (number_of_points g + 4)) with (Z.to_nat (number_of_points g) + 4)%nat by lia.
    rewrite skipn_repeat. cbn [repeat].
    eexists. split; [reflexivity|]. cbn [v_glyph v_pp1 v_pp2 fst].
    split; [|split; apply add_round_i16_zero; try assumption; reflexivity].
    destruct g as [|coords endpts|cs]; [reflexivity| |]; cbn [glyph_in_range] in Hg; f_equal.
    + apply zip_apply_id. intros p d Hp' Hd. apply repeat_spec in Hd. subst d. apply apply_point_zero.
      rewrite Forall_forall in Hg. apply Hg. exact Hp'.
    + apply zip_apply_id. intros c d Hc Hd. apply repeat_spec in Hd. subst d. apply apply_comp_zero.
      rewrite Forall_forall in Hg. apply (Hg c Hc).
Qed.

(* horizontal metrics at the default location: advance width and left side bearing of the source *)
Lemma phantom_x_ok m xmin aw lsb :
  i16 (xmin - lsb) -> 0 <= aw <= 32767 -> i16 (xmin - lsb + aw) ->
  phantom_x m xmin aw lsb = Ok (xmin - lsb, xmin - lsb + aw).
Proof.
  intros H1 H2 H3. unfold phantom_x, i16_op, i16 in *.
  assert (A : (-32768 <=? xmin - lsb) && (xmin - lsb <=? 32767) = true) by (apply andb_true_iff; split; apply Z.leb_le; lia).
  rewrite A. cbn [bind].
  destruct (32767 <? aw) eqn:B; [apply Z.ltb_lt in B; lia|].
  assert (C : (-32768 <=? xmin - lsb + aw) && (xmin - lsb + aw <=? 32767) = true) by (apply andb_true_iff; split; apply Z.leb_le; lia).
  rewrite C. reflexivity.
Qed.

Lemma metric_from_phantom_default m xmin aw lsb v :
  v_pp1 v = xmin - lsb -> v_pp2 v = xmin - lsb + aw -> i16 lsb -> 0 <= aw <= 32767 ->
  metric_from_phantom m xmin v = Ok (aw, lsb).
Proof.
  intros P1 P2 Hl Ha. unfold metric_from_phantom, i16_op, i16 in *. rewrite P1, P2.
  replace (xmin - (xmin - lsb)) with lsb by lia. replace (xmin - lsb + aw - (xmin - lsb)) with aw by lia.
  assert (A : (-32768 <=? lsb) && (lsb <=? 32767) = true) by (apply andb_true_iff; split; apply Z.leb_le; lia).
  cbv zeta. rewrite A.
  replace ((aw <? 0) || (65535 <? aw)) with false; [reflexivity|].
  symmetry. apply orb_false_iff. split; [apply Z.ltb_ge|apply Z.ltb_ge]; lia.
Qed.

(* THE default-instance theorem for one glyph, without HVAR: outline (points or component offsets)
   and horizontal metrics of the instance at the default location equal those of the source,
   provided the glyph header's xMin is the true minimum (as the format requires) *)
Lemma default_instance_glyph m g xmin aw lsb axis_count shared (n : nat) data :
  glyph_in_range g ->
  (len data = 0 \/
   exists st, read_store axis_count (number_of_points g + 4) data = Ok st /\
              Forall (proper_header shared n) (tvs_headers st)) ->
  let x0 := match g with GEmpty => 0 | _ => xmin end in
  i16 (x0 - lsb) -> 0 <= aw <= 32767 -> i16 (x0 - lsb + aw) -> i16 lsb ->
  exists v, apply_variations m g xmin aw lsb axis_count shared (repeat 0 n) data = Ok v /\
            v_glyph v = g /\ metric_from_phantom m x0 v = Ok (aw, lsb).
Proof.
  intros Hg Hd x0 H1 H2 H3 H4.
  destruct (apply_variations_default m g xmin aw lsb axis_count shared n data (x0 - lsb) (x0 - lsb + aw) Hg Hd) as (v & Ev & Gv & P1 & P2);
    [apply phantom_x_ok; assumption|exact H1|exact H3|].
  exists v. split; [exact Ev|]. split; [exact Gv|].
  apply metric_from_phantom_default; assumption.
Qed.

(* with HVAR: zero deltas leave advance and (mapped) left side bearing unchanged *)
Lemma hvar_default_metric aw lsb (da dl : Q) :
  0 <= aw <= 65535 -> i16 lsb -> (da == 0)%Q -> (dl == 0)%Q ->
  add_round_u16 aw da = aw /\ add_round_i16 lsb dl = lsb.
Proof.
  intros Ha Hl Ea El. split; [apply add_round_u16_zero|apply add_round_i16_zero]; assumption.
Qed.

(* MVAR-controlled values at the default location *)
Lemma mvar_default k value (d : Q) :
  (match k with KI16 => i16 value | KU16 => 0 <= value <= 65535 end) -> (d == 0)%Q -> mvar_apply k value d = value.
Proof.
  intros Hv Hd. destruct k; cbn [mvar_apply]; [apply add_round_i16_zero|apply add_round_u16_zero]; assumption.
Qed.
