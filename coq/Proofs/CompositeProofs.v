(* Proofs/CompositeProofs.v — C15 for composite glyphs (Model/Composite.v).
   Part 1: CompositeGlyph::write followed by Glyph::read returns the glyph (instructions dropped when
           no component carries WE_HAVE_INSTRUCTIONS: the writer's normalisation), for every composite
           glyph value a reader can return, consuming exactly the bytes written.
   Part 2: instructions are written iff some component carries the flag; refusal of an instruction
           length beyond 16 bits.
   Part 3: whatever Glyph::read returns for a composite glyph, on any bytes, is such a value: hence
           parse-write-parse for arbitrary parsable bytes.
   Part 4: the reader agrees with the C16 model of composite reading (Model/GlyfOutline.v). *)
From AV Require Import Base.Prelude Base.Lemmas Gen.ReaderPrims Model.Reader Model.ReaderExt
  Proofs.ReaderProofs Proofs.EncodeProofs Model.TableLayout Proofs.TableLayoutProofs Proofs.RecordProofs
  Gen.TableLayouts Model.Tables Model.Cff Proofs.TableProofs Proofs.ArrayTableProofs Proofs.CffProofs
  Proofs.RefusalProofs Proofs.GlyphProofs Gen.CffDictTables Model.CffDict Proofs.CffDictProofs
  Gen.GlyfConsts Model.Composite.
From Coq Require Import ZifyBool ZifyNat.
Ltac Zify.zify_post_hook ::= Z.div_mod_to_equations.
Open Scope Z_scope.

(* ============================================================ the round-trip domain *)
Definition flag_instr (c : ccomp) : bool := cf_has (cc_flags c) cf_we_have_instructions.
Definition any_instr (cs : list ccomp) : bool := existsb flag_instr cs.

(* the argument variant is the one the flags select, the value fits the variant's type *)
Definition arg_ok (flags : Z) (a : carg) : Prop :=
  fst a = arg_kind (cf_has flags cf_arg_1_and_2_are_words) (cf_has flags cf_args_are_xy_values) /\
  prim_in_range (arg_prim (fst a)) (snd a) = true.

Definition f2d14 (v : Z) : Prop := prim_in_range PI16 v = true.

(* the first scale flag that is set, in the reader's order *)
Fixpoint scale_form (tests : list (Z * scalekind)) (flags : Z) : option scalekind :=
  match tests with
  | [] => None
  | (k, kind) :: r => if cf_has flags k then Some kind else scale_form r flags
  end.

Definition scale_ok (flags : Z) (s : option cscale) : Prop :=
  match scale_form scale_tests flags, s with
  | None, None => True
  | Some KScale, Some (CScale a) => f2d14 a
  | Some KXY, Some (CXY a b) => f2d14 a /\ f2d14 b
  | Some KMatrix, Some (CMatrix a b c d) => f2d14 a /\ f2d14 b /\ f2d14 c /\ f2d14 d
  | _, _ => False
  end.

(* a component as a reader returns it: only defined flag bits, u16 glyph index, arguments and scale
   in the form the flags select *)
Definition comp_ok (c : ccomp) : Prop :=
  Z.land (cc_flags c) CF_ALL = cc_flags c /\ 0 <= cc_flags c /\
  prim_in_range PU16 (cc_gid c) = true /\
  arg_ok (cc_flags c) (cc_arg1 c) /\ arg_ok (cc_flags c) (cc_arg2 c) /\
  scale_ok (cc_flags c) (cc_scale c).

(* MORE_COMPONENTS on every component but the last; at least one component *)
Fixpoint more_ok (cs : list ccomp) : Prop :=
  match cs with
  | [] => False
  | c :: r =>
      match r with
      | [] => cf_has (cc_flags c) cf_more_components = false
      | _ => cf_has (cc_flags c) cf_more_components = true /\ more_ok r
      end
  end.

Definition cg_ok (g : cglyph) : Prop :=
  rec_ok [PI16; PI16; PI16; PI16] (cg_bbox g) /\ Forall comp_ok (cg_comps g) /\ more_ok (cg_comps g).

(* the writer's normalisation: instructions exist in the file only when a component says so *)
Definition cg_norm (g : cglyph) : cglyph :=
  {| cg_bbox := cg_bbox g; cg_comps := cg_comps g;
     cg_instr := if any_instr (cg_comps g) then cg_instr g else [] |}.

Lemma fold_or_existsb {A} (f : A -> bool) l : forall a, fold_left (fun acc c => acc || f c) l a = a || existsb f l.
Proof.
  induction l as [|x t IH]; intros a; cbn [fold_left existsb]; [rewrite orb_false_r; reflexivity|].
  rewrite IH. rewrite orb_assoc. reflexivity.
Qed.

(* the `|=` loop of the writer is "some component carries the flag" *)
Lemma has_instructions_any cs : has_instructions cs = any_instr cs.
Proof. unfold has_instructions, any_instr. rewrite fold_or_existsb. reflexivity. Qed.

Lemma advanced_refl c rest : cgood c -> at_bytes c rest -> advanced c c rest.
Proof. intros Hg Ha. unfold advanced. auto. Qed.

(* ============================================================ Part 1: read after write *)
Lemma carg_read_written flags a c0 rest :
  arg_ok flags a -> cgood c0 -> at_bytes c0 (carg_write a ++ rest) ->
  exists c1, carg_read c0 flags = Ok (a, c1) /\ advanced c0 c1 rest.
Proof.
  destruct a as [k v]. intros [Hk Hv] Hg Hat. cbn [fst snd] in *. unfold carg_read, carg_write in *. cbn [fst snd] in *.
  rewrite <- Hk.
  destruct (read_prim_layout (arg_prim k) c0 v rest Hg Hv Hat) as [c1 [E A]].
  rewrite E. cbn [bind]. exists c1. split; [reflexivity|exact A].
Qed.

Lemma read_i16_written v c0 rest :
  f2d14 v -> cgood c0 -> at_bytes c0 (write_prim PI16 v ++ rest) ->
  exists c1, read_prim PI16 c0 = Ok (v, c1) /\ advanced c0 c1 rest.
Proof. intros Hv Hg Hat. exact (read_prim_layout PI16 c0 v rest Hg Hv Hat). Qed.

Lemma cscale_read_written flags s c0 rest :
  scale_ok flags s -> cgood c0 ->
  at_bytes c0 (match s with Some x => cscale_write x | None => [] end ++ rest) ->
  exists c1, cscale_read scale_tests flags c0 = Ok (s, c1) /\ advanced c0 c1 rest.
Proof.
  unfold scale_ok, scale_tests. cbn [scale_form cscale_read].
  intros Hs Hg Hat.
  destruct (cf_has flags cf_we_have_a_scale).
  { destruct s as [[a|a b|a b c d]|]; try contradiction. cbn [cscale_write] in Hat. cbn [cscale_read_kind].
    destruct (read_i16_written a c0 rest Hs Hg Hat) as [c1 [E A]]. rewrite E. cbn [bind].
    exists c1. split; [reflexivity|exact A]. }
  destruct (cf_has flags cf_we_have_an_x_and_y_scale).
  { destruct s as [[a|a b|a b c d]|]; try contradiction. destruct Hs as [Ha Hb]. cbn [cscale_write] in Hat. cbn [cscale_read_kind].
    rewrite <- app_assoc in Hat.
    destruct (read_i16_written a c0 _ Ha Hg Hat) as [c1 [E1 A1]]. rewrite E1. cbn [bind].
    destruct (read_i16_written b c1 rest Hb (proj1 A1) (proj2 (proj2 A1))) as [c2 [E2 A2]]. rewrite E2. cbn [bind].
    exists c2. split; [reflexivity|eapply advanced_trans; eassumption]. }
  destruct (cf_has flags cf_we_have_a_two_by_two).
  { destruct s as [[a|a b|a b c d]|]; try contradiction. destruct Hs as (Ha & Hb & Hc & Hd). cbn [cscale_write] in Hat. cbn [cscale_read_kind].
    rewrite <- !app_assoc in Hat.
    destruct (read_i16_written a c0 _ Ha Hg Hat) as [c1 [E1 A1]]. rewrite E1. cbn [bind].
    destruct (read_i16_written b c1 _ Hb (proj1 A1) (proj2 (proj2 A1))) as [c2 [E2 A2]]. rewrite E2. cbn [bind].
    destruct (read_i16_written c c2 _ Hc (proj1 A2) (proj2 (proj2 A2))) as [c3 [E3 A3]]. rewrite E3. cbn [bind].
    destruct (read_i16_written d c3 rest Hd (proj1 A3) (proj2 (proj2 A3))) as [c4 [E4 A4]]. rewrite E4. cbn [bind].
    exists c4. split; [reflexivity|].
    eapply advanced_trans; [exact A1|]. eapply advanced_trans; [exact A2|]. eapply advanced_trans; [exact A3|exact A4]. }
  destruct s; try contradiction. cbn [app] in Hat. exists c0. split; [reflexivity|apply advanced_refl; assumption].
Qed.

Lemma land_cf_all_bound f : 0 <= f -> 0 <= Z.land f CF_ALL < 8192.
Proof.
  intros H0. assert (0 <= Z.land f CF_ALL) as Hn by (apply Z.land_nonneg; left; exact H0).
  split; [exact Hn|].
  destruct (Z.eq_dec (Z.land f CF_ALL) 0) as [->|Hz]; [lia|].
  change 8192 with (2 ^ 13). apply Z.log2_lt_pow2; [lia|].
  pose proof (Z.log2_land f CF_ALL H0 ltac:(unfold CF_ALL; lia)) as Hl.
  change (Z.log2 CF_ALL) with 12 in Hl. lia.
Qed.

Lemma flags_u16 f : Z.land f CF_ALL = f -> 0 <= f -> prim_in_range PU16 f = true.
Proof.
  intros H H0. pose proof (land_cf_all_bound f H0) as Hb. rewrite H in Hb.
  unfold prim_in_range. cbn. lia.
Qed.

(* the flag word and the component that follows it *)
Lemma ccomp_read_written c c0 rest :
  comp_ok c -> cgood c0 -> at_bytes c0 (ccomp_write c ++ rest) ->
  exists c1 c2, read_prim PU16 c0 = Ok (cc_flags c, c1) /\ ccomp_read c1 (cc_flags c) = Ok (c, c2) /\
                advanced c0 c2 rest.
Proof.
  intros (Hm & H0 & Hgid & Ha1 & Ha2 & Hs) Hg Hat. unfold ccomp_write in Hat. rewrite <- !app_assoc in Hat.
  destruct (read_prim_layout PU16 c0 (cc_flags c) _ Hg (flags_u16 _ Hm H0) Hat) as [c1 [E1 A1]].
  exists c1. unfold ccomp_read.
  destruct (read_prim_layout PU16 c1 (cc_gid c) _ (proj1 A1) Hgid (proj2 (proj2 A1))) as [c2 [E2 A2]].
  rewrite E2. cbn [bind].
  destruct (carg_read_written _ _ c2 _ Ha1 (proj1 A2) (proj2 (proj2 A2))) as [c3 [E3 A3]]. rewrite E3. cbn [bind].
  destruct (carg_read_written _ _ c3 _ Ha2 (proj1 A3) (proj2 (proj2 A3))) as [c4 [E4 A4]]. rewrite E4. cbn [bind].
  destruct (cscale_read_written _ _ c4 rest Hs (proj1 A4) (proj2 (proj2 A4))) as [c5 [E5 A5]]. rewrite E5. cbn [bind].
  exists c5. split; [exact E1|]. split; [destruct c; reflexivity|].
  eapply advanced_trans; [exact A1|]. eapply advanced_trans; [exact A2|]. eapply advanced_trans; [exact A3|].
  eapply advanced_trans; [exact A4|exact A5].
Qed.

Lemma ccomps_read_written cs : forall c0 rest fuel,
  Forall comp_ok cs -> more_ok cs -> (length cs <= fuel)%nat -> cgood c0 ->
  at_bytes c0 (concat (map ccomp_write cs) ++ rest) ->
  exists c1, ccomps_read fuel c0 = Ok (cs, any_instr cs, c1) /\ advanced c0 c1 rest.
Proof.
  induction cs as [|c r IH]; intros c0 rest fuel Hok Hmore Hfuel Hg Hat; [contradiction|].
  destruct fuel as [|f]; [cbn [length] in Hfuel; lia|]. cbn [ccomps_read].
  cbn [map concat] in Hat. rewrite <- app_assoc in Hat.
  pose proof (Forall_inv Hok) as Hc.
  destruct (ccomp_read_written c c0 _ Hc Hg Hat) as (c1 & c2 & E1 & E2 & A2).
  rewrite E1. cbn [bind]. destruct Hc as (Hm & _). rewrite Hm. rewrite E2. cbn [bind].
  cbn [more_ok] in Hmore. unfold any_instr. cbn [existsb]. fold (any_instr r).
  destruct r as [|c' r'].
  - rewrite Hmore. cbn [any_instr existsb]. rewrite orb_false_r. cbn [map concat app] in A2.
    exists c2. split; [reflexivity|exact A2].
  - destruct Hmore as [Hmo Hmr]. rewrite Hmo.
    destruct (IH c2 rest f (Forall_inv_tail Hok) Hmr ltac:(cbn [length] in *; lia) (proj1 A2) (proj2 (proj2 A2))) as [c3 [E3 A3]].
    rewrite E3. cbn [bind]. exists c3. split; [reflexivity|eapply advanced_trans; eassumption].
Qed.

Lemma ccomp_write_len c : 4 <= len (ccomp_write c).
Proof.
  unfold ccomp_write. rewrite !len_app, !len_write_prim. cbn [spec_size].
  pose proof (len_nonneg (carg_write (cc_arg1 c))). pose proof (len_nonneg (carg_write (cc_arg2 c))).
  pose proof (len_nonneg (match cc_scale c with Some s => cscale_write s | None => [] end)). lia.
Qed.

Lemma comps_len cs : len cs <= len (concat (map ccomp_write cs)).
Proof.
  induction cs as [|c r IH]; cbn [map concat]; [apply Z.le_refl|]. rewrite len_cons, len_app. pose proof (ccomp_write_len c). lia.
Qed.

Lemma bbox_enc bbox : rec_ok [PI16; PI16; PI16; PI16] bbox ->
  write_items false bounding_box_write bbox = enc_rec [PI16; PI16; PI16; PI16] bbox.
Proof.
  intros Hbb. destruct bbox as [|a [|b0 [|c0 [|d [|? ?]]]]]; cbn [rec_ok] in Hbb; try tauto; try reflexivity.
Qed.

(* Theorem: whenever CompositeGlyph::write returns Ok for a glyph in the round-trip domain,
   Glyph::read on the written bytes (whatever follows them) returns the glyph with the
   instructions kept exactly when some component carries WE_HAVE_INSTRUCTIONS, and stops exactly
   at the end of the written bytes; in both arithmetic modes. *)
Theorem composite_roundtrip m g b rest c :
  cg_ok g -> cglyph_write g = Ok b -> cgood c -> at_bytes c (b ++ rest) ->
  exists c', glyph_read_full m c = Ok (GComposite (cg_norm g), c') /\ advanced c c' rest.
Proof.
  destruct g as [bbox comps instr]. intros (Hbb & Hcs & Hmore) H Hg Hat. cbn [cg_bbox cg_comps cg_instr] in *.
  unfold cglyph_write in H. cbn [cg_bbox cg_comps cg_instr] in H. rewrite has_instructions_any in H.
  unfold cg_norm. cbn [cg_bbox cg_comps cg_instr].
  assert (exists tail, b = write_prim PI16 (-1) ++ enc_rec [PI16; PI16; PI16; PI16] bbox ++ concat (map ccomp_write comps) ++ tail /\
          ((any_instr comps = true /\ tail = write_prim PU16 (len instr) ++ instr /\ 0 <= len instr <= 65535) \/
           (any_instr comps = false /\ tail = []))) as (tail & -> & Htail).
  { rewrite (bbox_enc bbox Hbb) in H. destruct (any_instr comps) eqn:Ea.
    - destruct (try_u16 (len instr)) as [il| | |] eqn:Eil; cbn [bind] in H; try discriminate.
      destruct (try_u16_ok _ _ Eil) as [-> Hil]. apply Ok_inj_g in H. subst b.
      exists (write_prim PU16 (len instr) ++ instr). split; [rewrite <- !app_assoc; reflexivity|]. left. auto.
    - apply Ok_inj_g in H. subst b. exists []. split; [rewrite app_nil_r; reflexivity|]. right. auto. }
  rewrite <- !app_assoc in Hat.
  unfold glyph_read_full.
  destruct (read_prim_layout PI16 c (-1) _ Hg ltac:(reflexivity) Hat) as [c1 [E1 A1]].
  rewrite E1. cbn [bind]. cbv beta iota. change (0 <=? -1) with false. cbv iota.
  unfold cglyph_read. rewrite bbox_ty_eq.
  destruct (read_ty_layout _ c1 bbox _ (proj1 A1) Hbb (proj2 (proj2 A1))) as [c2 [E2 A2]].
  rewrite E2. cbn [bind]. cbv beta iota.
  pose proof (proj2 (proj2 A2)) as Hat2.
  assert (length comps <= S (length (drop (off c2) (data (sc c2)))))%nat as Hfuel.
  { unfold at_bytes in Hat2. rewrite Hat2. pose proof (comps_len comps) as Hl.
    pose proof (len_app (concat (map ccomp_write comps)) (tail ++ rest)) as Hla. pose proof (len_nonneg (tail ++ rest)).
    unfold len in *. lia. }
  destruct (ccomps_read_written comps c2 _ _ Hcs Hmore Hfuel (proj1 A2) Hat2) as [c3 [E3 A3]].
  rewrite E3. cbn [bind]. cbv beta iota.
  destruct Htail as [(Ea & -> & Hil)|(Ea & ->)]; rewrite Ea.
  - pose proof (proj2 (proj2 A3)) as Hat3. rewrite <- app_assoc in Hat3.
    destruct (read_prim_layout PU16 c3 (len instr) _ (proj1 A3) ltac:(unfold prim_in_range; cbn; lia) Hat3) as [c4 [E4 A4]].
    rewrite E4. cbn [bind]. cbv beta iota.
    destruct (read_slice_layout_m m c4 instr rest (proj1 A4) (proj2 (proj2 A4))) as [c5 [E5 A5]].
    rewrite E5. cbn [bind]. exists c5. split; [reflexivity|].
    eapply advanced_trans; [exact A1|]. eapply advanced_trans; [exact A2|]. eapply advanced_trans; [exact A3|].
    eapply advanced_trans; [exact A4|exact A5].
  - cbn [bind]. cbv beta iota. pose proof (proj2 (proj2 A3)) as Hat3. cbn [app] in Hat3.
    destruct (read_slice_layout_m m c3 [] rest (proj1 A3) Hat3) as [c4 [E4 A4]]. change (len (@nil Z)) with 0 in E4.
    rewrite E4. cbn [bind]. exists c4. split; [reflexivity|].
    eapply advanced_trans; [exact A1|]. eapply advanced_trans; [exact A2|]. eapply advanced_trans; [exact A3|exact A4].
Qed.

(* ============================================================ Part 2: exactness of the write *)
(* Theorem: the writer emits instructionLength + instructions exactly when SOME component carries
   WE_HAVE_INSTRUCTIONS; it fails only with BadValue, and exactly when instructions have to be
   written and their number does not fit 16 bits (nothing is truncated) *)
Theorem composite_write_exact g :
  let body := write_prim PI16 (-1) ++ write_items false bounding_box_write (cg_bbox g)
              ++ concat (map ccomp_write (cg_comps g)) in
  (any_instr (cg_comps g) = false -> cglyph_write g = Ok body) /\
  (any_instr (cg_comps g) = true -> len (cg_instr g) <= 65535 ->
     cglyph_write g = Ok (body ++ write_prim PU16 (len (cg_instr g)) ++ cg_instr g)) /\
  (any_instr (cg_comps g) = true -> 65535 < len (cg_instr g) -> cglyph_write g = Err BadValue).
Proof.
  cbv zeta. unfold cglyph_write. rewrite has_instructions_any. pose proof (len_nonneg (cg_instr g)) as Hn.
  repeat split; intros Ha; try intros Hl; rewrite Ha; try reflexivity.
  - unfold try_u16. replace ((0 <=? len (cg_instr g)) && (len (cg_instr g) <=? 65535)) with true by lia. reflexivity.
  - unfold try_u16. replace ((0 <=? len (cg_instr g)) && (len (cg_instr g) <=? 65535)) with false by lia. reflexivity.
Qed.

Theorem composite_write_total g :
  (exists b, cglyph_write g = Ok b) \/
  (cglyph_write g = Err BadValue /\ any_instr (cg_comps g) = true /\ 65535 < len (cg_instr g)).
Proof.
  destruct (composite_write_exact g) as (A & B & C).
  destruct (any_instr (cg_comps g)) eqn:Ea.
  - destruct (Z_le_dec (len (cg_instr g)) 65535) as [Hl|Hl].
    + left. eexists. apply B; [reflexivity|exact Hl].
    + right. split; [apply C; [reflexivity|lia]|]. split; [reflexivity|lia].
  - left. eexists. apply A. reflexivity.
Qed.

(* the number of bytes written *)
Theorem composite_written_length g b :
  cglyph_write g = Ok b ->
  len b = 2 + len (write_items false bounding_box_write (cg_bbox g)) + len (concat (map ccomp_write (cg_comps g)))
          + (if any_instr (cg_comps g) then 2 + len (cg_instr g) else 0).
Proof.
  intros H. destruct (composite_write_exact g) as (A & B & C).
  destruct (any_instr (cg_comps g)) eqn:Ea.
  - destruct (Z_le_dec (len (cg_instr g)) 65535) as [Hl|Hl].
    + rewrite (B eq_refl Hl) in H. apply Ok_inj_g in H. subst b. rewrite !len_app, !len_write_prim. cbn [spec_size]. lia.
    + rewrite (C eq_refl ltac:(lia)) in H. discriminate.
  - rewrite (A eq_refl) in H. apply Ok_inj_g in H. subst b. rewrite !len_app, !len_write_prim. cbn [spec_size]. lia.
Qed.

(* ============================================================ Part 3: what the reader returns *)
Lemma be_fold_bound_l l : forall acc,
  bytes_ok l = true -> 0 <= acc ->
  0 <= fold_left (fun a b => a * 256 + b) l acc < (acc + 1) * 256 ^ len l.
Proof.
  induction l as [|b t IH]; intros acc Hb Ha.
  - cbn [fold_left]. unfold len. cbn [length Z.of_nat]. change (256 ^ 0) with 1. lia.
  - cbn [bytes_ok forallb] in Hb. apply andb_prop in Hb. destruct Hb as [Hb0 Hb].
    unfold byte_ok in Hb0. cbn [fold_left]. rewrite len_cons.
    specialize (IH (acc * 256 + b) Hb ltac:(lia)).
    pose proof (len_nonneg t) as Hl.
    rewrite Z.pow_add_r by lia. change (256 ^ 1) with 256.
    assert (0 < 256 ^ len t) by (apply Z.pow_pos_nonneg; lia).
    nia.
Qed.

Lemma be_val_bound_l l : bytes_ok l = true -> 0 <= be_val l < 256 ^ len l.
Proof. intros H. pose proof (be_fold_bound_l l 0 H ltac:(lia)) as B. unfold be_val. lia. Qed.

Lemma decode_prim_in_range p bs :
  bytes_ok bs = true -> len bs = spec_size p -> prim_in_range p (decode_prim p bs) = true.
Proof.
  intros Hb Hl. pose proof (be_val_bound_l bs Hb) as B. rewrite Hl in B.
  unfold decode_prim, prim_in_range. rewrite is_signed_spec.
  destruct p; cbn [prim_signed spec_size] in *; unfold prim_bits, to_signed; cbn [wsize Z.of_nat Pos.of_succ_nat Pos.succ];
    repeat match goal with
           | |- context [2 ^ ?k] => let x := eval vm_compute in (2 ^ k) in change (2 ^ k) with x
           | H : context [256 ^ ?k] |- _ => let x := eval vm_compute in (256 ^ k) in change (256 ^ k) with x in H
           end;
    try lia;
    match goal with |- context [if ?c then _ else _] => destruct c eqn:E end; lia.
Qed.

Lemma read_prim_inv p c v c' :
  cgood c -> read_prim p c = Ok (v, c') ->
  prim_in_range p v = true /\ cgood c' /\ c' = adv c (spec_size p) /\ spec_size p <= len (remaining c).
Proof.
  intros Hg H. rewrite (read_prim_refines p c Hg) in H. unfold rd_prim_l in H.
  destruct (spec_size p <=? len (remaining c)) eqn:E; cbn [bind] in H; [|discriminate].
  apply Ok_inj_g in H. injection H as <- <-.
  pose proof (spec_size_nonneg p) as Hs.
  split.
  - apply decode_prim_in_range; [apply bytes_ok_take; apply remaining_bytes_ok; exact Hg|].
    apply len_take. lia.
  - split; [apply (adv_good c (spec_size p) Hg); lia|]. split; [reflexivity|lia].
Qed.

Lemma read_slice_inv m c n bs c' :
  cgood c -> 0 <= n -> read_slice m c n = Ok (bs, c') -> len bs = n /\ cgood c'.
Proof.
  intros Hg Hn H. pose proof (len_remaining c Hg) as Hl. pose proof Hg as [[Hc Hs] [Hb [Hb0 Hb1]]]. unfold sinv in Hs.
  unfold read_slice, read_scope in H.
  destruct (Z_le_dec (off c + n) (dlen (sc c))) as [Hle|Hgt].
  - rewrite offset_length_complete in H by lia. unfold uadd in H.
    replace (off c + n <? USIZE) with true in H by lia. cbn [bind data] in H.
    apply Ok_inj_g in H. injection H as <- <-.
    split; [apply len_take; unfold dlen in *; rewrite len_drop by lia; lia|].
    pose proof (adv_good c n Hg ltac:(lia)) as [Hg' _]. exact Hg'.
  - exfalso. unfold offset_length in H.
    destruct ((off c <? dlen (sc c)) || (n =? 0)) eqn:E1.
    + rewrite slice_from_drop in H by (unfold dlen in *; lia).
      rewrite len_drop in H by (unfold dlen in *; lia).
      replace (n <=? len (data (sc c)) - off c) with false in H by (unfold dlen in *; lia).
      discriminate.
    + discriminate.
Qed.

Lemma carg_read_inv c flags a c' :
  cgood c -> carg_read c flags = Ok (a, c') -> arg_ok flags a /\ cgood c'.
Proof.
  intros Hg H. unfold carg_read in H.
  match type of H with bind ?x _ = _ => destruct x as [[v c1]| | |] eqn:E; cbn [bind] in H; try discriminate end.
  apply Ok_inj_g in H. injection H as <- <-.
  destruct (read_prim_inv _ _ _ _ Hg E) as (Hr & Hg1 & _). split; [|exact Hg1].
  split; [reflexivity|exact Hr].
Qed.

Lemma cscale_read_inv flags c s c' :
  cgood c -> cscale_read scale_tests flags c = Ok (s, c') -> scale_ok flags s /\ cgood c'.
Proof.
  unfold scale_ok, scale_tests. cbn [scale_form cscale_read]. intros Hg H.
  destruct (cf_has flags cf_we_have_a_scale).
  { cbn [cscale_read_kind] in H.
    destruct (read_prim PI16 c) as [[a c1]| | |] eqn:E1; cbn [bind] in H; try discriminate.
    apply Ok_inj_g in H. injection H as <- <-.
    destruct (read_prim_inv _ _ _ _ Hg E1) as (R1 & G1 & _). split; assumption. }
  destruct (cf_has flags cf_we_have_an_x_and_y_scale).
  { cbn [cscale_read_kind] in H.
    destruct (read_prim PI16 c) as [[a c1]| | |] eqn:E1; cbn [bind] in H; try discriminate.
    destruct (read_prim_inv _ _ _ _ Hg E1) as (R1 & G1 & _).
    destruct (read_prim PI16 c1) as [[b c2]| | |] eqn:E2; cbn [bind] in H; try discriminate.
    destruct (read_prim_inv _ _ _ _ G1 E2) as (R2 & G2 & _).
    apply Ok_inj_g in H. injection H as <- <-. split; [split; assumption|assumption]. }
  destruct (cf_has flags cf_we_have_a_two_by_two).
  { cbn [cscale_read_kind] in H.
    destruct (read_prim PI16 c) as [[a c1]| | |] eqn:E1; cbn [bind] in H; try discriminate.
    destruct (read_prim_inv _ _ _ _ Hg E1) as (R1 & G1 & _).
    destruct (read_prim PI16 c1) as [[b c2]| | |] eqn:E2; cbn [bind] in H; try discriminate.
    destruct (read_prim_inv _ _ _ _ G1 E2) as (R2 & G2 & _).
    destruct (read_prim PI16 c2) as [[d c3]| | |] eqn:E3; cbn [bind] in H; try discriminate.
    destruct (read_prim_inv _ _ _ _ G2 E3) as (R3 & G3 & _).
    destruct (read_prim PI16 c3) as [[e c4]| | |] eqn:E4; cbn [bind] in H; try discriminate.
    destruct (read_prim_inv _ _ _ _ G3 E4) as (R4 & G4 & _).
    apply Ok_inj_g in H. injection H as <- <-. split; [repeat split; assumption|assumption]. }
  apply Ok_inj_g in H. injection H as <- <-. split; [exact I|exact Hg].
Qed.

Lemma ccomp_read_inv c flags comp c' :
  cgood c -> Z.land flags CF_ALL = flags -> 0 <= flags ->
  ccomp_read c flags = Ok (comp, c') -> comp_ok comp /\ cc_flags comp = flags /\ cgood c'.
Proof.
  intros Hg Hm H0 H. unfold ccomp_read in H.
  destruct (read_prim PU16 c) as [[gid c1]| | |] eqn:E1; cbn [bind] in H; try discriminate.
  destruct (read_prim_inv _ _ _ _ Hg E1) as (R1 & G1 & _).
  destruct (carg_read c1 flags) as [[a1 c2]| | |] eqn:E2; cbn [bind] in H; try discriminate.
  destruct (carg_read_inv _ _ _ _ G1 E2) as (R2 & G2).
  destruct (carg_read c2 flags) as [[a2 c3]| | |] eqn:E3; cbn [bind] in H; try discriminate.
  destruct (carg_read_inv _ _ _ _ G2 E3) as (R3 & G3).
  destruct (cscale_read scale_tests flags c3) as [[sc c4]| | |] eqn:E4; cbn [bind] in H; try discriminate.
  destruct (cscale_read_inv _ _ _ _ G3 E4) as (R4 & G4).
  apply Ok_inj_g in H. injection H as <- <-. unfold comp_ok. cbn [cc_flags cc_gid cc_arg1 cc_arg2 cc_scale].
  exact (conj (conj Hm (conj H0 (conj R1 (conj R2 (conj R3 R4))))) (conj eq_refl G4)).
Qed.

Lemma ccomps_read_inv fuel : forall c cs hi c',
  cgood c -> ccomps_read fuel c = Ok (cs, hi, c') ->
  Forall comp_ok cs /\ more_ok cs /\ hi = any_instr cs /\ cgood c'.
Proof.
  induction fuel as [|f IH]; intros c cs hi c' Hg H; cbn [ccomps_read] in H; [discriminate|].
  destruct (read_prim PU16 c) as [[w c1]| | |] eqn:E1; cbn [bind] in H; try discriminate.
  destruct (read_prim_inv _ _ _ _ Hg E1) as (R1 & G1 & _).
  assert (0 <= w) as Hw by (unfold prim_in_range in R1; cbn in R1; lia).
  pose proof (land_cf_all_bound w Hw) as Hb.
  assert (Z.land (Z.land w CF_ALL) CF_ALL = Z.land w CF_ALL) as Hm by (rewrite <- Z.land_assoc, Z.land_diag; reflexivity).
  destruct (ccomp_read c1 (Z.land w CF_ALL)) as [[comp c2]| | |] eqn:E2; cbn [bind] in H; try discriminate.
  destruct (ccomp_read_inv _ _ _ _ G1 Hm (proj1 Hb) E2) as (R2 & Hf & G2).
  destruct (cf_has (Z.land w CF_ALL) cf_more_components) eqn:Emore.
  - destruct (ccomps_read f c2) as [[[cs' hi'] c3]| | |] eqn:E3; cbn [bind] in H; try discriminate.
    destruct (IH _ _ _ _ G2 E3) as (A & B & C & D).
    apply Ok_inj_g in H. injection H as <- <- <-.
    split; [constructor; assumption|]. split.
    + cbn [more_ok]. destruct cs' as [|x t]; [contradiction|]. rewrite Hf. split; [exact Emore|exact B].
    + split; [|exact D]. unfold any_instr. cbn [existsb]. unfold flag_instr at 1. rewrite Hf. rewrite C. reflexivity.
  - apply Ok_inj_g in H. injection H as <- <- <-.
    split; [constructor; [assumption|constructor]|]. split; [cbn [more_ok]; rewrite Hf; exact Emore|].
    split; [|exact G2]. unfold any_instr. cbn [existsb]. unfold flag_instr. rewrite Hf, orb_false_r. reflexivity.
Qed.

Lemma decode_ty_rec_ok t : forall bs, bytes_ok bs = true -> len bs = ty_size t -> rec_ok t (decode_ty t bs).
Proof.
  induction t as [|p t IH]; intros bs Hb Hl; cbn [decode_ty rec_ok]; [exact I|].
  cbn [ty_size fold_right] in Hl. rewrite prim_size_spec in Hl. fold (ty_size t) in Hl.
  pose proof (spec_size_nonneg p) as Hs.
  assert (0 <= ty_size t) as Ht.
  { clear. induction t as [|q t IH]; cbn [ty_size fold_right]; [lia|]. rewrite prim_size_spec. pose proof (spec_size_nonneg q). fold (ty_size t). lia. }
  split.
  - apply decode_prim_in_range; [apply bytes_ok_take; exact Hb|]. apply len_take. lia.
  - apply IH; [apply bytes_ok_drop; exact Hb|]. rewrite len_drop by lia. lia.
Qed.

Lemma read_ty_inv t c vs c' :
  cgood c -> read_ty t c = Ok (vs, c') -> rec_ok t vs /\ cgood c'.
Proof.
  intros Hg H. pose proof Hg as [Hc [Hb _]]. pose proof (len_remaining c Hg) as Hl.
  assert (0 <= ty_size t) as Ht.
  { clear. induction t as [|q t IH]; cbn [ty_size fold_right]; [lia|]. rewrite prim_size_spec. pose proof (spec_size_nonneg q). fold (ty_size t). lia. }
  destruct (read_ty_exact t c Hb Hc) as [[Hle E]|[Hlt E]]; rewrite E in H; [|discriminate].
  apply Ok_inj_g in H. injection H as <- <-.
  split.
  - apply decode_ty_rec_ok; [apply bytes_ok_take; apply bytes_ok_drop; exact Hb|].
    apply len_take. fold (remaining c). lia.
  - apply (adv_good c (ty_size t) Hg). lia.
Qed.

(* Theorem: whatever CompositeGlyph::read accepts, on any byte string, lies in the round-trip domain
   and is its own normal form; its instructions fit instructionLength *)
Theorem composite_read_normal m c g c' :
  cgood c -> cglyph_read m c = Ok (g, c') ->
  cg_ok g /\ cg_norm g = g /\ len (cg_instr g) <= 65535 /\ cgood c'.
Proof.
  intros Hg H. unfold cglyph_read in H. rewrite bbox_ty_eq in H.
  destruct (read_ty [PI16; PI16; PI16; PI16] c) as [[bbox c1]| | |] eqn:E1; cbn [bind] in H; try discriminate.
  destruct (read_ty_inv _ _ _ _ Hg E1) as (R1 & G1).
  match type of H with bind ?x _ = _ => destruct x as [[[cs hi] c2]| | |] eqn:E2; cbn [bind] in H; try discriminate end.
  destruct (ccomps_read_inv _ _ _ _ _ G1 E2) as (A & B & C & G2).
  destruct hi.
  - destruct (read_prim PU16 c2) as [[il c3]| | |] eqn:E3; cbn [bind] in H; try discriminate.
    destruct (read_prim_inv _ _ _ _ G2 E3) as (R3 & G3 & _).
    assert (0 <= il <= 65535) as Hil by (unfold prim_in_range in R3; cbn in R3; lia).
    destruct (read_slice m c3 il) as [[instr c4]| | |] eqn:E4; cbn [bind] in H; try discriminate.
    destruct (read_slice_inv _ _ _ _ _ G3 (proj1 Hil) E4) as (L4 & G4).
    apply Ok_inj_g in H. injection H as <- <-.
    split; [repeat split; assumption|]. unfold cg_norm. cbn [cg_bbox cg_comps cg_instr]. rewrite <- C.
    split; [reflexivity|]. split; [lia|exact G4].
  - cbn [bind] in H.
    destruct (read_slice m c2 0) as [[instr c4]| | |] eqn:E4; cbn [bind] in H; try discriminate.
    destruct (read_slice_inv _ _ _ _ _ G2 (Z.le_refl 0) E4) as (L4 & G4).
    apply Ok_inj_g in H. injection H as <- <-.
    assert (instr = []) as -> by (destruct instr; [reflexivity|rewrite len_cons in L4; pose proof (len_nonneg instr); lia]).
    split; [repeat split; assumption|]. unfold cg_norm. cbn [cg_bbox cg_comps cg_instr]. rewrite <- C.
    split; [reflexivity|]. split; [cbn; lia|exact G4].
Qed.

(* Theorem (parse-write-parse, arbitrary parsable bytes — not a partial statement): if Glyph::read
   returns a composite glyph for ANY byte string, CompositeGlyph::write accepts it and Glyph::read on
   the written bytes returns the same glyph, consuming exactly those bytes *)
Theorem composite_parse_write_parse m c g c1 :
  cgood c -> glyph_read_full m c = Ok (GComposite g, c1) ->
  exists b, cglyph_write g = Ok b /\
    forall m2 c2 rest, cgood c2 -> at_bytes c2 (b ++ rest) ->
      exists c3, glyph_read_full m2 c2 = Ok (GComposite g, c3) /\ advanced c2 c3 rest.
Proof.
  intros Hg H. unfold glyph_read_full in H.
  destruct (read_prim PI16 c) as [[nc c0]| | |] eqn:E0; cbn [bind] in H; try discriminate.
  destruct (read_prim_inv _ _ _ _ Hg E0) as (_ & G0 & _).
  destruct (0 <=? nc).
  { destruct (simple_glyph_read m c0 nc) as [[sg c2]| | |]; cbn [bind] in H; discriminate. }
  destruct (cglyph_read m c0) as [[g' c2]| | |] eqn:E1; cbn [bind] in H; try discriminate.
  apply Ok_inj_g in H. injection H as -> ->.
  destruct (composite_read_normal _ _ _ _ G0 E1) as (Hok & Hnorm & Hil & _).
  destruct (composite_write_total g) as [[b Hb]|(_ & _ & Hbig)]; [|lia].
  exists b. split; [exact Hb|]. intros m2 c2 rest Hg2 Hat.
  destruct (composite_roundtrip m2 g b rest c2 Hok Hb Hg2 Hat) as [c3 [E3 A3]].
  rewrite Hnorm in E3. exists c3. split; assumption.
Qed.

(* ============================================================ Glyph::write / Glyph::read dispatch *)
Definition glyph_ok_full (g : glyph) : Prop :=
  match g with GEmpty => False | GSimple s => glyph_ok s | GComposite c => cg_ok c end.
Definition glyph_norm_full (g : glyph) : glyph :=
  match g with GEmpty => GEmpty | GSimple s => GSimple (glyph_norm s) | GComposite c => GComposite (cg_norm c) end.

(* the simple-glyph-only reader of Model/Tables.v is the restriction of the full one *)
Lemma glyph_read_full_simple m c s c' :
  glyph_read m c = Ok (Some s, c') -> glyph_read_full m c = Ok (GSimple s, c').
Proof.
  unfold glyph_read, glyph_read_full. intros H.
  destruct (read_prim PI16 c) as [[nc c1]| | |]; cbn [bind] in *; try discriminate.
  destruct (0 <=? nc); [|discriminate].
  destruct (simple_glyph_read m c1 nc) as [[g c2]| | |]; cbn [bind] in *; try discriminate.
  apply Ok_inj_g in H. injection H as <- <-. reflexivity.
Qed.

(* Theorem: Glyph::write followed by Glyph::read returns the same variant and the same glyph up to
   the two normalisations (simple: flags reduced to ON_CURVE_POINT; composite: instructions only when
   flagged).  numberOfContours is -1 in the file for every composite glyph: it is not part of the
   parsed value (the reader takes any negative value). *)
Theorem glyph_roundtrip m g b rest c :
  glyph_ok_full g -> glyph_write_full g = Ok b -> cgood c -> at_bytes c (b ++ rest) ->
  exists c', glyph_read_full m c = Ok (glyph_norm_full g, c') /\ advanced c c' rest.
Proof.
  destruct g as [|s|cg]; cbn [glyph_ok_full glyph_write_full glyph_norm_full]; intros Hok H Hg Hat; [contradiction| |].
  - destruct (simple_glyph_roundtrip m s b rest c Hok H Hg Hat) as [c' [E A]].
    exists c'. split; [apply glyph_read_full_simple; exact E|exact A].
  - exact (composite_roundtrip m cg b rest c Hok H Hg Hat).
Qed.
