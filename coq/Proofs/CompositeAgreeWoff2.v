(* Proofs/CompositeAgreeWoff2.v — Model/Composite.v (C15) against the composite-glyph reader and
   writer inside the WOFF2 model Model/Woff2.v (C11; required, not imported, not changed):
     * Woff2.read_composite_glyphs on the remaining bytes = CompositeGlyphs::read of C15 (components
       with untagged arguments and the scale as a list), same have_instructions, same rest;
     * Woff2.write_glyph on a composite glyph = CompositeGlyph::write of C15 for every glyph of the
       round-trip domain whose instructions fit instructionLength (the WOFF2 model writes
       `len instr` without the u16::try_from, which its own invariants make harmless). *)
From AV Require Import Base.Prelude Base.Lemmas Gen.ReaderPrims Model.Reader Model.ReaderExt
  Proofs.ReaderProofs Proofs.EncodeProofs Model.TableLayout Proofs.TableLayoutProofs Proofs.RecordProofs
  Gen.TableLayouts Model.Tables Model.Cff Proofs.TableProofs Proofs.ArrayTableProofs Proofs.CffProofs
  Proofs.RefusalProofs Proofs.GlyphProofs Gen.CffDictTables Model.CffDict Proofs.CffDictProofs
  Gen.GlyfConsts Model.Composite Proofs.CompositeProofs Proofs.CompositeAgree.
From AV Require Model.Woff2.
From Coq Require Import ZifyBool ZifyNat.
Ltac Zify.zify_post_hook ::= Z.div_mod_to_equations.
Open Scope Z_scope.

Module W2 := AV.Model.Woff2.

Definition scale_list (s : option cscale) : list Z :=
  match s with
  | None => []
  | Some (CScale a) => [a]
  | Some (CXY a b) => [a; b]
  | Some (CMatrix a b c d) => [a; b; c; d]
  end.
Definition proj_w2 (c : ccomp) : W2.component :=
  {| W2.c_flags := cc_flags c; W2.c_gid := cc_gid c; W2.c_arg1 := snd (cc_arg1 c); W2.c_arg2 := snd (cc_arg2 c);
     W2.c_scale := scale_list (cc_scale c) |}.

(* ============================================================ single flag bits *)
Lemma land_pow2_cases f k : 0 <= k -> Z.land f (2 ^ k) = 0 \/ Z.land f (2 ^ k) = 2 ^ k.
Proof.
  intros Hk. destruct (Z.testbit f k) eqn:E; [right|left]; apply Z.bits_inj'; intros n Hn;
    rewrite Z.land_spec, ?Z.bits_0, Z.pow2_bits_eqb by lia; destruct (Z.eqb_spec k n) as [->|Hne];
    rewrite ?E, ?andb_false_r; reflexivity.
Qed.

Lemma has_bit_negb f k : 0 <= k -> cf_has f (2 ^ k) = negb (Z.land f (2 ^ k) =? 0).
Proof.
  intros Hk. unfold cf_has. assert (0 < 2 ^ k) by (apply Z.pow_pos_nonneg; lia).
  destruct (land_pow2_cases f k Hk) as [-> | ->]; lia.
Qed.

Lemma has_1 f : cf_has f 1 = negb (Z.land f 1 =? 0).      Proof. exact (has_bit_negb f 0 ltac:(lia)). Qed.
Lemma has_2 f : cf_has f 2 = negb (Z.land f 2 =? 0).      Proof. exact (has_bit_negb f 1 ltac:(lia)). Qed.
Lemma has_8 f : cf_has f 8 = negb (Z.land f 8 =? 0).      Proof. exact (has_bit_negb f 3 ltac:(lia)). Qed.
Lemma has_32 f : cf_has f 32 = negb (Z.land f 32 =? 0).   Proof. exact (has_bit_negb f 5 ltac:(lia)). Qed.
Lemma has_64 f : cf_has f 64 = negb (Z.land f 64 =? 0).   Proof. exact (has_bit_negb f 6 ltac:(lia)). Qed.
Lemma has_128 f : cf_has f 128 = negb (Z.land f 128 =? 0). Proof. exact (has_bit_negb f 7 ltac:(lia)). Qed.
Lemma has_256 f : cf_has f 256 = negb (Z.land f 256 =? 0). Proof. exact (has_bit_negb f 8 ltac:(lia)). Qed.

(* ============================================================ the readers *)
Lemma w2_prims bs :
  W2.rd_u8 bs = GO.rd_u8 bs /\ W2.rd_i8 bs = GO.rd_i8 bs /\ W2.rd_u16 bs = GO.rd_u16 bs /\ W2.rd_i16 bs = GO.rd_i16 bs.
Proof. destruct bs as [|a [|b r]]; repeat split; reflexivity. Qed.

Lemma sim_w2_arg c flags : cgood c ->
  sim (fun a : carg => snd a) (carg_read c flags) (W2.read_comp_arg flags (remaining c)).
Proof.
  intros Hg. pose proof (sim_arg c flags Hg) as H. unfold W2.read_comp_arg.
  change GO.has with cf_has in H. change cf_arg_1_and_2_are_words with 1 in H. change cf_args_are_xy_values with 2 in H.
  rewrite has_1, has_2 in H.
  destruct (w2_prims (remaining c)) as (A & B & C & D).
  destruct (negb (Z.land flags 1 =? 0)), (negb (Z.land flags 2 =? 0)); cbn [arg_kind GO.read_arg] in H;
    rewrite ?A, ?B, ?C, ?D; exact H.
Qed.

Lemma sim_w2_i16 c : cgood c -> sim (fun v => v) (read_prim PI16 c) (W2.rd_i16 (remaining c)).
Proof. intros Hg. destruct (w2_prims (remaining c)) as (_ & _ & _ & ->). apply sim_i16. exact Hg. Qed.
Lemma sim_w2_u16 c : cgood c -> sim (fun v => v) (read_prim PU16 c) (W2.rd_u16 (remaining c)).
Proof. intros Hg. destruct (w2_prims (remaining c)) as (_ & _ & -> & _). apply sim_u16. exact Hg. Qed.

Ltac step_i16 c Hg a c1 G1 :=
  let H := fresh "Hs" in
  pose proof (sim_w2_i16 c Hg) as H;
  destruct (read_prim PI16 c) as [[a c1]|?| |]; destruct (W2.rd_i16 (remaining c)) as [[? ?]|?| |];
  cbn [sim] in H; try contradiction; cbn [bind sim]; try assumption; try exact I;
  destruct H as (-> & G1 & <-).

Lemma sim_w2_scale c flags : cgood c ->
  sim scale_list (cscale_read scale_tests flags c)
      (if negb (Z.land flags 8 =? 0) then W2.rd_items W2.rd_i16 1 (remaining c)
       else if negb (Z.land flags 64 =? 0) then W2.rd_items W2.rd_i16 2 (remaining c)
       else if negb (Z.land flags 128 =? 0) then W2.rd_items W2.rd_i16 4 (remaining c)
       else Ok ([], remaining c)).
Proof.
  intros Hg. unfold scale_tests. cbn [cscale_read].
  change cf_we_have_a_scale with 8. change cf_we_have_an_x_and_y_scale with 64. change cf_we_have_a_two_by_two with 128.
  rewrite has_8, has_64, has_128.
  destruct (negb (Z.land flags 8 =? 0)).
  { cbn [cscale_read_kind W2.rd_items]. step_i16 c Hg a c1 G1. cbn [scale_list]. auto. }
  destruct (negb (Z.land flags 64 =? 0)).
  { cbn [cscale_read_kind W2.rd_items]. step_i16 c Hg a c1 G1. step_i16 c1 G1 b c2 G2. cbn [scale_list]. auto. }
  destruct (negb (Z.land flags 128 =? 0)).
  { cbn [cscale_read_kind W2.rd_items]. step_i16 c Hg a c1 G1. step_i16 c1 G1 b c2 G2.
    step_i16 c2 G2 d c3 G3. step_i16 c3 G3 e c4 G4. cbn [scale_list]. auto. }
  apply (sim_ret scale_list None c Hg).
Qed.

Lemma sim_w2_component c flags : cgood c ->
  sim proj_w2 (ccomp_read c flags) (W2.read_component flags (remaining c)).
Proof.
  intros Hg. unfold ccomp_read, W2.read_component.
  eapply sim_bind with (f := fun v : Z => v); [apply sim_w2_u16; exact Hg|].
  intros gid c1 G1. cbn beta iota.
  eapply sim_bind with (f := fun a : carg => snd a); [apply sim_w2_arg; exact G1|].
  intros a1 c2 G2. cbn beta iota.
  eapply sim_bind with (f := fun a : carg => snd a); [apply sim_w2_arg; exact G2|].
  intros a2 c3 G3. cbn beta iota.
  eapply sim_bind with (f := scale_list); [apply sim_w2_scale; exact G3|].
  intros sc c4 G4. cbn beta iota.
  apply (sim_ret proj_w2 {| cc_flags := flags; cc_gid := gid; cc_arg1 := a1; cc_arg2 := a2; cc_scale := sc |} c4 G4).
Qed.

(* the WOFF2 loop threads have_instructions through as an accumulator *)
Definition proj_w2_loop (acc : bool) (r : list ccomp * bool) : list W2.component * bool :=
  (map proj_w2 (fst r), acc || snd r).

Lemma sim_w2_components fuel : forall c acc, cgood c ->
  sim (proj_w2_loop acc) (ccomps_read fuel c) (W2.read_components fuel (remaining c) acc).
Proof.
  induction fuel as [|f IH]; intros c acc Hg; cbn [ccomps_read W2.read_components]; [exact I|].
  eapply sim_bind with (f := fun v : Z => v); [apply sim_w2_u16; exact Hg|].
  intros w c1 G1. cbn beta iota. change W2.comp_flag_mask with CF_ALL.
  eapply sim_bind with (f := proj_w2); [apply sim_w2_component; exact G1|].
  intros comp c2 G2. cbn beta iota.
  change cf_more_components with 32. change cf_we_have_instructions with 256. rewrite has_32, has_256.
  set (hi := negb (Z.land (Z.land w CF_ALL) 256 =? 0)).
  destruct (negb (Z.land (Z.land w CF_ALL) 32 =? 0)).
  - pose proof (IH c2 (acc || hi) G2) as H3.
    destruct (ccomps_read f c2) as [[[cs hi'] c3]|e| |];
      destruct (W2.read_components f (remaining c2) (acc || hi)) as [[[cs' hi''] r3]|e'| |];
      cbn [sim] in H3; try contradiction; cbn [bind sim]; try assumption.
    destruct H3 as (Hp & G3 & <-). unfold proj_w2_loop in Hp. cbn [fst snd] in Hp. injection Hp as -> ->.
    unfold proj_w2_loop. cbn [fst snd map]. rewrite orb_assoc. auto.
  - apply (sim_ret (proj_w2_loop acc) ([comp], hi) c2 G2).
Qed.

(* Theorem: on every good cursor the WOFF2 model's CompositeGlyphs::read on the remaining bytes
   returns the components of C15's CompositeGlyphs::read, the same have_instructions flag and the
   same rest; the same error; the same panic *)
Theorem composite_reader_agrees_woff2 c :
  cgood c ->
  sim (proj_w2_loop false) (ccomps_read (S (length (remaining c))) c) (W2.read_composite_glyphs (remaining c)).
Proof. intros Hg. unfold W2.read_composite_glyphs. apply sim_w2_components. exact Hg. Qed.

(* ============================================================ the writers *)
Lemma wr_u16_prim v : W2.wr_u16 v = write_prim PU16 v.
Proof. unfold W2.wr_u16, write_prim. cbn [wsize be_bytes Z.of_nat]. change (256 ^ 1) with 256. change (256 ^ 0) with 1. rewrite Z.div_1_r. reflexivity. Qed.
Lemma wr_i16_prim v : W2.wr_i16 v = write_prim PI16 v.
Proof.
  unfold W2.wr_i16, W2.wr_u16, write_prim. cbn [wsize be_bytes Z.of_nat]. change (256 ^ 1) with 256. change (256 ^ 0) with 1.
  rewrite Z.div_1_r. f_equal; [lia|]. f_equal. lia.
Qed.
Lemma wr_i16_u16 v : W2.wr_i16 v = write_prim PU16 v.
Proof. rewrite wr_i16_prim. reflexivity. Qed.

Lemma w2_arg_bytes flags a : arg_ok flags a -> W2.comp_arg_bytes flags (snd a) = carg_write a.
Proof.
  destruct a as [k v]. intros [Hk _]. cbn [fst snd] in *. unfold W2.comp_arg_bytes, carg_write. cbn [fst snd].
  change cf_arg_1_and_2_are_words with 1 in Hk. rewrite has_1 in Hk. subst k.
  destruct (negb (Z.land flags 1 =? 0)); destruct (cf_has flags cf_args_are_xy_values); cbn [arg_kind arg_prim].
  - apply wr_i16_prim.
  - apply wr_i16_u16.
  - unfold write_prim. cbn [wsize be_bytes Z.of_nat]. change (256 ^ 0) with 1. rewrite Z.div_1_r. reflexivity.
  - unfold write_prim. cbn [wsize be_bytes Z.of_nat]. change (256 ^ 0) with 1. rewrite Z.div_1_r. reflexivity.
Qed.

Lemma w2_scale_bytes s : flat_map W2.wr_i16 (scale_list s) = match s with Some x => cscale_write x | None => [] end.
Proof.
  destruct s as [[a|a b|a b c d]|]; cbn [scale_list flat_map cscale_write]; rewrite ?wr_i16_prim, ?app_nil_r, <- ?app_assoc; reflexivity.
Qed.

Lemma w2_component_bytes c : comp_ok c -> W2.write_component (proj_w2 c) = ccomp_write c.
Proof.
  intros (_ & _ & _ & Ha1 & Ha2 & _). unfold W2.write_component, ccomp_write, proj_w2.
  cbn [W2.c_flags W2.c_gid W2.c_arg1 W2.c_arg2 W2.c_scale].
  rewrite !wr_u16_prim, (w2_arg_bytes _ _ Ha1), (w2_arg_bytes _ _ Ha2), w2_scale_bytes. reflexivity.
Qed.

Lemma w2_components_bytes cs : Forall comp_ok cs -> flat_map W2.write_component (map proj_w2 cs) = concat (map ccomp_write cs).
Proof.
  induction cs as [|c r IH]; intros H; [reflexivity|]. cbn [map flat_map concat].
  rewrite (w2_component_bytes c (Forall_inv H)), (IH (Forall_inv_tail H)). reflexivity.
Qed.

Lemma w2_any cs : existsb (fun c => negb (Z.land (W2.c_flags c) 256 =? 0)) (map proj_w2 cs) = any_instr cs.
Proof.
  unfold any_instr. induction cs as [|c r IH]; [reflexivity|]. cbn [map existsb]. rewrite IH. f_equal.
  unfold flag_instr, proj_w2. cbn [W2.c_flags]. change cf_we_have_instructions with 256. rewrite has_256. reflexivity.
Qed.

(* Theorem: the two models of CompositeGlyph::write produce the same bytes for every composite glyph
   of the round-trip domain whose instructions fit the 16-bit length *)
Theorem composite_writer_agrees_woff2 m a b c d comps instr :
  Forall comp_ok comps -> prim_in_range PI16 a = true -> prim_in_range PI16 b = true ->
  prim_in_range PI16 c = true -> prim_in_range PI16 d = true ->
  (any_instr comps = true -> len instr <= 65535) ->
  W2.write_glyph m (W2.GComposite {| W2.bb_xmin := a; W2.bb_ymin := b; W2.bb_xmax := c; W2.bb_ymax := d |} (map proj_w2 comps) instr)
  = cglyph_write {| cg_bbox := [a; b; c; d]; cg_comps := comps; cg_instr := instr |}.
Proof.
  intros Hcs Ha Hb Hc Hd Hil. cbn [W2.write_glyph]. unfold cglyph_write. cbn [cg_bbox cg_comps cg_instr].
  rewrite has_instructions_any, w2_any, (w2_components_bytes comps Hcs).
  assert (W2.wr_bbox {| W2.bb_xmin := a; W2.bb_ymin := b; W2.bb_xmax := c; W2.bb_ymax := d |}
          = write_items false bounding_box_write [a; b; c; d]) as ->.
  { unfold W2.wr_bbox. cbn [W2.bb_xmin W2.bb_ymin W2.bb_xmax W2.bb_ymax]. rewrite !wr_i16_prim.
    rewrite (bbox_enc [a; b; c; d]) by (cbn [rec_ok]; auto). cbn [enc_rec]. rewrite app_nil_r. reflexivity. }
  rewrite wr_i16_prim.
  destruct (any_instr comps) eqn:Ea.
  - pose proof (len_nonneg instr). specialize (Hil eq_refl). unfold try_u16.
    replace ((0 <=? len instr) && (len instr <=? 65535)) with true by lia. cbn [bind].
    rewrite wr_u16_prim, <- !app_assoc. reflexivity.
  - rewrite app_nil_r. reflexivity.
Qed.
