(* Proofs/GlyfCompositeProofs.v — C16 (c): composite traversal (visit_outline,
   visit_composite_glyph_outline): every component's outline mapped through its scale matrix and
   offset, recursively; nesting bounded by the recursion limit; no panics. Exact rational arithmetic
   (the implementation's f32 evaluation is tied by correspondence). *)
From AV Require Import Base.Prelude Base.Lemmas Gen.GlyfConsts Model.GlyfSpec Model.GlyfOutline
     Proofs.GlyfContourProofs.
From Coq Require Import QArith Qabs Setoid Morphisms.
Open Scope Z_scope.

(* ---------------------------------------------------------------------------------------------- *)
(* equality of rational points / commands                                                          *)

Definition qp_eq (p q : Q * Q) : Prop := (fst p == fst q)%Q /\ (snd p == snd q)%Q.

Definition cmd_eq (a b : cmd (Q * Q)) : Prop :=
  match a, b with
  | Move p, Move q => qp_eq p q
  | Line p, Line q => qp_eq p q
  | Quad c p, Quad d q => qp_eq c d /\ qp_eq p q
  | Close, Close => True
  | _, _ => False
  end.

Definition cmds_eq : list (cmd (Q * Q)) -> list (cmd (Q * Q)) -> Prop := Forall2 cmd_eq.

Lemma qp_eq_refl p : qp_eq p p.
Proof. split; reflexivity. Qed.
Lemma qp_eq_trans p q r : qp_eq p q -> qp_eq q r -> qp_eq p r.
Proof. intros [A B] [C D]. split; etransitivity; eassumption. Qed.
Lemma qp_eq_sym p q : qp_eq p q -> qp_eq q p.
Proof. intros [A B]. split; symmetry; assumption. Qed.

Lemma cmd_eq_refl a : cmd_eq a a.
Proof. destruct a; cbn; auto using qp_eq_refl. Qed.
Lemma cmd_eq_trans a b c : cmd_eq a b -> cmd_eq b c -> cmd_eq a c.
Proof.
  destruct a, b, c; cbn; try tauto; try (apply qp_eq_trans).
  intros [A B] [C D]. split; eapply qp_eq_trans; eassumption.
Qed.

Lemma cmds_eq_refl l : cmds_eq l l.
Proof. induction l; constructor; [apply cmd_eq_refl|assumption]. Qed.
Lemma cmds_eq_trans a : forall b c, cmds_eq a b -> cmds_eq b c -> cmds_eq a c.
Proof.
  induction a as [|x a IH]; intros b c H1 H2; inversion H1; subst; inversion H2; subst; constructor.
  - eapply cmd_eq_trans; eassumption.
  - eapply IH; eassumption.
Qed.
Lemma cmds_eq_app a b c d : cmds_eq a b -> cmds_eq c d -> cmds_eq (a ++ c) (b ++ d).
Proof. apply Forall2_app. Qed.

Lemma cmds_eq_map (f g : Q * Q -> Q * Q) :
  (forall p q, qp_eq p q -> qp_eq (f p) (g q)) ->
  forall a b, cmds_eq a b -> cmds_eq (map (map_cmd f) a) (map (map_cmd g) b).
Proof.
  intros H a b Hab. induction Hab as [|x y a b Hxy Hab IH]; cbn [map]; constructor; [|exact IH].
  destruct x, y; cbn in *; try tauto; try (apply H; assumption).
  destruct Hxy. split; apply H; assumption.
Qed.

(* ---------------------------------------------------------------------------------------------- *)
(* transforms                                                                                      *)

(* x_apply without the normalisation *)
Definition x_app (t : xform) (p : Q * Q) : Q * Q :=
  (m00 t * fst p + m01 t * snd p + vx t, m10 t * fst p + m11 t * snd p + vy t)%Q.

Lemma x_apply_app t p : qp_eq (x_apply t p) (x_app t p).
Proof. unfold x_apply, x_app. split; cbn [fst snd]; apply Qred_correct. Qed.

Lemma x_app_proper t p q : qp_eq p q -> qp_eq (x_app t p) (x_app t q).
Proof. intros [A B]. unfold x_app. split; cbn [fst snd]; rewrite A, B; reflexivity. Qed.

Lemma x_apply_proper t p q : qp_eq p q -> qp_eq (x_apply t p) (x_apply t q).
Proof.
  intros H. eapply qp_eq_trans; [apply x_apply_app|].
  eapply qp_eq_trans; [apply x_app_proper; exact H|]. apply qp_eq_sym, x_apply_app.
Qed.

(* Transform2F composition is function composition *)
Lemma x_compose_apply a b p : qp_eq (x_apply (x_compose a b) p) (x_apply a (x_apply b p)).
Proof.
  eapply qp_eq_trans; [apply x_apply_app|].
  eapply qp_eq_trans; [|apply qp_eq_sym, x_apply_app].
  eapply qp_eq_trans; [|apply x_app_proper, qp_eq_sym, x_apply_app].
  unfold x_compose, x_app, x_apply, qp_eq. cbn [m00 m01 m10 m11 vx vy fst snd].
  split; rewrite !Qred_correct; ring.
Qed.

Lemma x_id_apply p : qp_eq (x_apply x_id p) p.
Proof.
  eapply qp_eq_trans; [apply x_apply_app|]. unfold x_app, x_id, qp_eq. cbn [m00 m01 m10 m11 vx vy fst snd].
  split; ring.
Qed.

(* ---------------------------------------------------------------------------------------------- *)
(* a component's transform is the OpenType one                                                     *)

Definition comp_spec (c : component) (p : Q * Q) : Q * Q :=
  spec_transform (sscale_of c) (c_arg1 c) (c_arg2 c) p.

Lemma f2dot14_eq v : (f2dot14 v == f2d14 v)%Q.
Proof. unfold f2dot14, f2d14, F2DOT14_DEN. apply Qred_correct. Qed.

Lemma comp_xform_spec c p : has (c_flags c) cf_args_are_xy_values = true ->
  qp_eq (x_apply (comp_xform c) p) (comp_spec c p).
Proof.
  intros Hxy. eapply qp_eq_trans; [apply x_apply_app|].
  unfold comp_spec, spec_transform, comp_xform, sscale_of, scale_matrix, x_app, qp_eq. rewrite Hxy.
  destruct (c_scale c) as [[s|x y|a b c' d]|]; cbn [m00 m01 m10 m11 vx vy fst snd];
    try (split; rewrite ?f2dot14_eq; ring).
  unfold row_major_args. cbn [nth mat_entry]. split; rewrite !f2dot14_eq; ring.
Qed.

(* ---------------------------------------------------------------------------------------------- *)
(* declarative outline of a glyph: a composite is the concatenation of its components' outlines,
   each mapped through the component's transform; n bounds the nesting explored                    *)

Definition each_spec (rec : Z -> option (list (cmd (Q * Q)))) :=
  fix each (comps : list component) : option (list (cmd (Q * Q))) :=
    match comps with
    | [] => Some []
    | c :: r =>
      match rec (c_gid c), each r with
      | Some a, Some b => Some (map (map_cmd (comp_spec c)) a ++ b)
      | _, _ => None
      end
    end.

Fixpoint outline_spec (n : nat) (t : table) (gid : Z) : option (list (cmd (Q * Q))) :=
  match n with
  | O => None
  | S n' =>
    match get_parsed_glyph t gid with
    | Ok GEmpty => Some []
    | Ok (GSimple sg) =>
      match visit_simple sg with Ok cs => Some (map (map_cmd half) cs) | _ => None end
    | Ok (GComposite comps) => each_spec (outline_spec n' t) comps
    | _ => None
    end
  end.

(* the model's inner loop, named *)
Definition each_visit (cx : component -> xform) (fuel' : nat) (t : table) (tr : xform) (depth : Z) :=
  fix each (comps : list component) : outcome (list (xform * list (cmd pt))) :=
    match comps with
    | [] => Ok []
    | c :: r =>
      a <- visit_outline cx fuel' t (c_gid c) (x_compose tr (cx c)) (depth + DEPTH_STEP) ;;
      b <- each r ;;
      Ok (a ++ b)
    end.

Lemma visit_outline_S cx fuel' t gid tr depth :
  visit_outline cx (S fuel') t gid tr depth =
  if depth_exceeded depth then Err LimitExceeded else
  g <- get_parsed_glyph t gid ;;
  match g with
  | GEmpty => Ok []
  | GSimple sg => cs <- visit_simple sg ;; Ok [(tr, cs)]
  | GComposite comps => each_visit cx fuel' t tr depth comps
  end.
Proof. reflexivity. Qed.

Lemma render_app a b : render (a ++ b) = render a ++ render b.
Proof. unfold render. apply flat_map_app. Qed.

Lemma map_cmd_map_cmd {A B C} (f : A -> B) (g : B -> C) (c : cmd A) :
  map_cmd g (map_cmd f c) = map_cmd (fun p => g (f p)) c.
Proof. destruct c; reflexivity. Qed.

Definition table_supported (t : table) : Prop :=
  forall gid comps c, get_parsed_glyph t gid = Ok (GComposite comps) -> In c comps -> supported c = true.

Theorem visit_outline_spec t (Hsup : table_supported t) : forall fuel gid tr depth insts,
  visit_outline comp_xform fuel t gid tr depth = Ok insts ->
  exists o, outline_spec fuel t gid = Some o /\
            cmds_eq (render insts) (map (map_cmd (x_apply tr)) o).
Proof.
  induction fuel as [|fuel IH]; intros gid tr depth insts H; [discriminate|].
  rewrite visit_outline_S in H. destruct (depth_exceeded depth); [discriminate|].
  cbn [outline_spec].
  destruct (get_parsed_glyph t gid) as [g| | |] eqn:Hg; try discriminate. cbn [bind] in H.
  destruct g as [|sg|comps].
  - inversion H; subst. exists []. split; [reflexivity|constructor].
  - destruct (visit_simple sg) as [cs| | |]; try discriminate. cbn [bind] in H. inversion H; subst.
    eexists. split; [reflexivity|]. unfold render. cbn [flat_map fst snd]. rewrite app_nil_r, map_map.
    rewrite (map_ext (fun x => map_cmd (x_apply tr) (map_cmd half x))
                     (map_cmd (fun p => x_apply tr (half p)))) by (intros; apply map_cmd_map_cmd).
    apply cmds_eq_refl.
  - assert (Hc : forall c, In c comps -> supported c = true) by (intros c Hin; eapply Hsup; eassumption).
    clear Hg. revert insts H Hc. induction comps as [|c r IHr]; intros insts H Hc.
    + cbn [each_visit] in H. inversion H; subst. exists []. split; [reflexivity|constructor].
    + cbn [each_visit] in H.
      destruct (visit_outline comp_xform fuel t (c_gid c) (x_compose tr (comp_xform c)) (depth + DEPTH_STEP))
        as [a| | |] eqn:Ha; try discriminate. cbn [bind] in H.
      destruct (each_visit comp_xform fuel t tr depth r) as [b| | |] eqn:Hb; try discriminate.
      cbn [bind] in H. inversion H; subst.
      destruct (IH _ _ _ _ Ha) as [oa [Hoa Ea]].
      destruct (IHr b eq_refl (fun c' Hin => Hc c' (or_intror Hin))) as [ob [Hob Eb]].
      cbn [each_spec]. rewrite Hoa. cbn [each_spec] in Hob. rewrite Hob.
      eexists. split; [reflexivity|].
      rewrite render_app, map_app. apply cmds_eq_app; [|exact Eb].
      eapply cmds_eq_trans; [exact Ea|].
      rewrite map_map.
      rewrite (map_ext (fun x => map_cmd (x_apply tr) (map_cmd (comp_spec c) x))
                       (map_cmd (fun p => x_apply tr (comp_spec c p)))) by (intros; apply map_cmd_map_cmd).
      apply cmds_eq_map; [|apply cmds_eq_refl].
      intros p q Hpq. eapply qp_eq_trans; [apply x_compose_apply|].
      apply x_apply_proper. eapply qp_eq_trans; [apply x_apply_proper; exact Hpq|].
      apply comp_xform_spec.
      specialize (Hc c (or_introl eq_refl)). unfold supported in Hc. apply andb_true_iff in Hc. apply Hc.
Qed.

(* ---------------------------------------------------------------------------------------------- *)
(* nesting depth                                                                                   *)

(* gid' is referenced from gid through n levels of composite glyphs *)
Inductive reach (t : table) : Z -> nat -> Z -> Prop :=
| reach_0 gid : reach t gid 0 gid
| reach_S gid comps c n gid' :
    get_parsed_glyph t gid = Ok (GComposite comps) -> In c comps ->
    reach t (c_gid c) n gid' -> reach t gid (S n) gid'.

Lemma each_visit_ok cx fuel t tr depth : forall comps insts,
  each_visit cx fuel t tr depth comps = Ok insts ->
  forall c, In c comps -> exists a,
    visit_outline cx fuel t (c_gid c) (x_compose tr (cx c)) (depth + DEPTH_STEP) = Ok a.
Proof.
  induction comps as [|c0 r IH]; intros insts H c Hin; [destruct Hin|].
  cbn [each_visit] in H.
  destruct (visit_outline cx fuel t (c_gid c0) (x_compose tr (cx c0)) (depth + DEPTH_STEP)) as [a| | |] eqn:Ha;
    try discriminate. cbn [bind] in H.
  destruct (each_visit cx fuel t tr depth r) as [b| | |] eqn:Hb; try discriminate.
  destruct Hin as [->|Hin]; [exists a; exact Ha|]. eapply IH; [reflexivity|exact Hin].
Qed.

(* an outline is only delivered when every glyph of the composite tree sits at most
   RECURSION_LIMIT levels below the glyph visited *)
Theorem visit_depth_bounded cx t : forall fuel gid tr depth insts,
  visit_outline cx fuel t gid tr depth = Ok insts ->
  forall n gid', reach t gid n gid' -> depth + Z.of_nat n * DEPTH_STEP <= RECURSION_LIMIT.
Proof.
  induction fuel as [|fuel IH]; intros gid tr depth insts H n gid' Hr; [discriminate|].
  rewrite visit_outline_S in H.
  destruct (depth_exceeded depth) eqn:Hd; [discriminate|].
  unfold depth_exceeded in Hd.
  inversion Hr as [|g0 comps c n' g1 Hg Hin Hr']; subst.
  - unfold DEPTH_STEP. lia.
  - rewrite Hg in H. cbn [bind] in H.
    destruct (each_visit_ok _ _ _ _ _ _ _ H c Hin) as [a Ha].
    specialize (IH _ _ _ _ Ha n' gid' Hr'). unfold DEPTH_STEP in *. lia.
Qed.

(* the fuel of the model is never the limiting factor: the depth test is *)
Lemma visit_fuel_mono cx t : forall fuel gid tr depth,
  0 <= depth -> RECURSION_LIMIT + 2 - depth <= Z.of_nat fuel -> (1 <= fuel)%nat ->
  visit_outline cx (S fuel) t gid tr depth = visit_outline cx fuel t gid tr depth.
Proof.
  induction fuel as [|fuel IH]; intros gid tr depth Hd Hf H1; [lia|].
  rewrite (visit_outline_S cx (S fuel)), (visit_outline_S cx fuel).
  destruct (depth_exceeded depth) eqn:Hx; [reflexivity|].
  unfold depth_exceeded in Hx.
  destruct (get_parsed_glyph t gid) as [g| | |]; try reflexivity. cbn [bind].
  destruct g as [|sg|comps]; try reflexivity.
  induction comps as [|c r IHr]; [reflexivity|].
  cbn [each_visit]. rewrite IHr.
  rewrite IH; [reflexivity| | |]; unfold DEPTH_STEP, RECURSION_LIMIT in *; lia.
Qed.

Theorem visit_fuel_irrelevant cx t gid : forall k,
  visit_outline cx (VISIT_FUEL + k) t gid x_id DEPTH_START = visit_outline cx VISIT_FUEL t gid x_id DEPTH_START.
Proof.
  induction k as [|k IH]; [rewrite Nat.add_0_r; reflexivity|].
  rewrite Nat.add_succ_r, visit_fuel_mono; [exact IH| | |];
    unfold VISIT_FUEL, DEPTH_START, RECURSION_LIMIT; cbn; lia.
Qed.

(* drawing a decoded simple glyph never fails: no unreachable!, no index panic, no fuel exhaustion *)
Theorem visit_simple_total sg : exists cmds, visit_simple sg = Ok cmds.
Proof. unfold visit_simple. destruct (simple_cmds_spec (contours 0 (sg_ends sg) (sg_coords sg))) as [p [H _]]. eauto. Qed.

(* the transform the correspondence judge applies for supported components is the specified one *)
Lemma spec_xform_spec c p : supported c = true -> qp_eq (x_apply (spec_xform c) p) (comp_spec c p).
Proof.
  intros Hs. eapply qp_eq_trans; [apply x_apply_app|].
  unfold spec_xform, comp_spec. rewrite Hs.
  unfold x_app, qp_eq, spec_transform. cbn [m00 m01 m10 m11 vx vy fst snd].
  destruct (sscale_of c); cbn [fst snd]; split; rewrite !Qred_correct; ring.
Qed.
