(* Proofs/SeacProofs.v -- the charset lookup of the seac form of endchar (SID -> glyph id for
   the charset formats 0, 1 and 2) is the inverse of the charset's glyph -> SID list, and a seac
   glyph draws its base followed by its displaced accent. *)
From AV Require Import Base.Prelude Base.Lemmas Gen.Type2Consts Model.Type2 Model.Type2Spec
  Model.SeacSpec Proofs.Type2Proofs.
Require Import ZifyBool.
Ltac Zify.zify_post_hook ::= Z.div_mod_to_equations.
Open Scope Z_scope.

(* ---------- lists of SIDs ---------- *)
Lemma len_range : forall s n, len (range s n) = Z.of_nat n.
Proof. intros. unfold len. rewrite range_length. reflexivity. Qed.

Lemma len_range_sids : forall r, 0 <= snd r -> len (range_sids r) = snd r + 1.
Proof. intros r Hr. unfold range_sids. rewrite len_range. lia. Qed.

Lemma ranges_sids_cons : forall r rs, ranges_sids (r :: rs) = range_sids r ++ ranges_sids rs.
Proof. reflexivity. Qed.

Lemma ranges_sids_app : forall a b, ranges_sids (a ++ b) = ranges_sids a ++ ranges_sids b.
Proof. intros. unfold ranges_sids. apply flat_map_app. Qed.

Lemma In_range_sids : forall r sid, 0 <= snd r -> (In sid (range_sids r) <-> in_range r sid).
Proof.
  intros r sid Hr. unfold range_sids, in_range. rewrite range_In. lia.
Qed.

Lemma In_ranges_sids : forall rs sid, ranges_wf rs ->
  (In sid (ranges_sids rs) <-> exists r, In r rs /\ in_range r sid).
Proof.
  intros rs sid Hwf. unfold ranges_sids. rewrite in_flat_map. split.
  - intros (r & Hin & Hs). exists r. split; [exact Hin|].
    apply In_range_sids; [|exact Hs]. unfold ranges_wf in Hwf. rewrite Forall_forall in Hwf.
    apply (Hwf r Hin).
  - intros (r & Hin & Hs). exists r. split; [exact Hin|].
    apply In_range_sids; [|exact Hs]. unfold ranges_wf in Hwf. rewrite Forall_forall in Hwf.
    apply (Hwf r Hin).
Qed.

(* ---------- position: the first index (counted from i0) that holds x ---------- *)
Lemma nth_opt_cons_0 {A} (y : A) r : nth_opt (y :: r) 0 = Some y.
Proof. reflexivity. Qed.

Lemma nth_opt_cons_S {A} (y : A) r i : 0 < i -> nth_opt (y :: r) i = nth_opt r (i - 1).
Proof.
  intros Hi. unfold nth_opt.
  destruct (Z.ltb_spec i 0); [lia|]. destruct (Z.ltb_spec (i - 1) 0); [lia|].
  replace (Z.to_nat i) with (S (Z.to_nat (i - 1))) by lia. reflexivity.
Qed.

Lemma position_some : forall x l i0 g,
  position x l i0 = Some g <->
  (i0 <= g /\ nth_opt l (g - i0) = Some x /\ forall g', i0 <= g' < g -> nth_opt l (g' - i0) <> Some x).
Proof.
  intros x l. induction l as [|y r IH]; intros i0 g; cbn [position].
  - split; [discriminate|]. intros (_ & H & _). unfold nth_opt in H.
    destruct (_ <? 0); [discriminate|]. destruct (Z.to_nat (g - i0)); discriminate.
  - destruct (Z.eqb_spec y x) as [->|Hne].
    + split.
      * intros H. injection H as <-. split; [lia|]. split.
        { rewrite Z.sub_diag. reflexivity. }
        intros g' Hg'. lia.
      * intros (Hle & Hn & Hfirst).
        destruct (Z.eq_dec g i0) as [->|Hd]; [reflexivity|].
        exfalso. apply (Hfirst i0); [lia|]. rewrite Z.sub_diag. reflexivity.
    + rewrite IH. split.
      * intros (Hle & Hn & Hfirst). split; [lia|]. split.
        { rewrite nth_opt_cons_S by lia. replace (g - i0 - 1) with (g - (i0 + 1)) by lia. exact Hn. }
        intros g' Hg'. destruct (Z.eq_dec g' i0) as [->|Hd].
        { rewrite Z.sub_diag, nth_opt_cons_0. congruence. }
        rewrite nth_opt_cons_S by lia. replace (g' - i0 - 1) with (g' - (i0 + 1)) by lia.
        apply Hfirst. lia.
      * intros (Hle & Hn & Hfirst).
        assert (Hg : g <> i0).
        { intros ->. rewrite Z.sub_diag, nth_opt_cons_0 in Hn. congruence. }
        split; [lia|]. split.
        { rewrite nth_opt_cons_S in Hn by lia. replace (g - (i0 + 1)) with (g - i0 - 1) by lia. exact Hn. }
        intros g' Hg'. specialize (Hfirst g' ltac:(lia)).
        rewrite nth_opt_cons_S in Hfirst by lia.
        replace (g' - (i0 + 1)) with (g' - i0 - 1) by lia. exact Hfirst.
Qed.

Lemma position_none : forall x l i0, position x l i0 = None <-> ~ In x l.
Proof.
  intros x l. induction l as [|y r IH]; intros i0; cbn [position In].
  - tauto.
  - destruct (Z.eqb_spec y x) as [->|Hne].
    + split; [discriminate|]. intros Hx. exfalso. apply Hx. left. reflexivity.
    + rewrite IH. tauto.
Qed.

Lemma position_bound : forall x l i0 g, position x l i0 = Some g -> i0 <= g < i0 + len l.
Proof.
  intros x l. induction l as [|y r IH]; intros i0 g; cbn [position]; [discriminate|].
  rewrite len_cons. pose proof (len_nonneg r).
  destruct (y =? x).
  - intros Hp. injection Hp as <-. lia.
  - intros Hp. apply IH in Hp. lia.
Qed.

(* a run of consecutive SIDs in front *)
Lemma position_range_app : forall x k f rest g,
  position x (range f k ++ rest) g =
  if (f <=? x) && (x <? f + Z.of_nat k) then Some (g + (x - f)) else position x rest (g + Z.of_nat k).
Proof.
  intros x k. induction k as [|k IH]; intros f rest g.
  - cbn [range app]. destruct (Z.leb_spec f x), (Z.ltb_spec x (f + Z.of_nat 0)); cbn [andb];
      try lia; rewrite Z.add_0_r; reflexivity.
  - cbn [range app position]. rewrite IH.
    destruct (Z.eqb_spec f x) as [->|Hne].
    + destruct (Z.leb_spec x x), (Z.ltb_spec x (x + Z.of_nat (S k))); cbn [andb]; try lia.
      f_equal. lia.
    + destruct (Z.leb_spec (f + 1) x), (Z.ltb_spec x (f + 1 + Z.of_nat k)),
        (Z.leb_spec f x), (Z.ltb_spec x (f + Z.of_nat (S k))); cbn [andb]; try lia;
        f_equal; lia.
Qed.

(* ---------- formats 1 and 2: glyph_id_for_sid_in_ranges ---------- *)
Lemma add_u16_ok : forall m a b, a + b < 65536 -> add_u16 m a b = COk (a + b).
Proof.
  intros m a b H. unfold add_u16, U16. destruct (Z.ltb_spec (a + b) 65536); [reflexivity|lia].
Qed.

Lemma range_hit_iff : forall f n sid, charset_range_hit f n sid = true <-> in_range (f, n) sid.
Proof.
  intros. unfold charset_range_hit, charset_range_last, in_range. cbn [fst snd]. lia.
Qed.

(* the lookup is the search for the first occurrence in the list the ranges stand for *)
Lemma gid_for_sid_in_ranges_position : forall m sid rs g0,
  ranges_wf rs -> 1 <= g0 -> g0 + len (ranges_sids rs) <= 65535 ->
  gid_for_sid_in_ranges m rs sid g0 = COk (position sid (ranges_sids rs) g0).
Proof.
  intros m sid rs. induction rs as [|[f n] rs IH]; intros g0 Hwf Hg0 Hb; [reflexivity|].
  inversion Hwf as [|r' rs' [Hf Hn] Hwf']; subst. cbn [fst snd] in Hf, Hn.
  rewrite ranges_sids_cons, len_app, len_range_sids in Hb by exact Hn. cbn [snd] in Hb.
  pose proof (len_nonneg (ranges_sids rs)) as Hl.
  cbn [gid_for_sid_in_ranges]. rewrite ranges_sids_cons. unfold range_sids at 1. cbn [fst snd].
  rewrite position_range_app. replace (Z.of_nat (Z.to_nat (n + 1))) with (n + 1) by lia.
  destruct (charset_range_hit f n sid) eqn:Eh.
  - apply range_hit_iff in Eh. unfold in_range in Eh. cbn [fst snd] in Eh.
    unfold charset_range_index, chk_u16, U16. match goal with |- context [?a <? 65536] => replace (a <? 65536) with true by lia end.
    destruct (Z.leb_spec f sid), (Z.ltb_spec sid (f + (n + 1))); cbn [andb]; try lia. reflexivity.
  - assert (Hno : ~ in_range (f, n) sid) by (rewrite <- range_hit_iff; congruence).
    unfold in_range in Hno. cbn [fst snd] in Hno.
    unfold charset_range_skip, U32. match goal with |- context [?a <? 4294967296] => replace (a <? 4294967296) with true by lia end. rewrite IH by (try assumption; lia).
    destruct (Z.leb_spec f sid), (Z.ltb_spec sid (f + (n + 1))); cbn [andb]; try lia; reflexivity.
Qed.

(* the ranges in front of the one that holds the SID only advance the glyph counter *)
Lemma gid_for_sid_skips : forall m sid pre rest g0,
  ranges_wf pre -> 1 <= g0 -> g0 + len (ranges_sids pre) <= 65535 ->
  (forall r, In r pre -> ~ in_range r sid) ->
  gid_for_sid_in_ranges m (pre ++ rest) sid g0 =
  gid_for_sid_in_ranges m rest sid (g0 + len (ranges_sids pre)).
Proof.
  intros m sid pre rest. induction pre as [|[f n] pre IH]; intros g0 Hwf Hg0 Hb Hno.
  - cbn [app ranges_sids flat_map]. rewrite len_nil, Z.add_0_r. reflexivity.
  - inversion Hwf as [|r' rs' [Hf Hn] Hwf']; subst. cbn [fst snd] in Hf, Hn.
    rewrite ranges_sids_cons, len_app, len_range_sids in * by exact Hn. cbn [snd] in *.
    pose proof (len_nonneg (ranges_sids pre)) as Hl.
    cbn [app gid_for_sid_in_ranges].
    destruct (charset_range_hit f n sid) eqn:Eh.
    + apply range_hit_iff in Eh. exfalso. apply (Hno (f, n)); [left; reflexivity|exact Eh].
    + unfold charset_range_skip, U32. match goal with |- context [?a <? 4294967296] => replace (a <? 4294967296) with true by lia end.
      rewrite IH; try assumption; try lia.
      * f_equal. lia.
      * intros r Hr. apply Hno. right. exact Hr.
Qed.

(* FOUND: the first range that holds the SID decides; the glyph id counts the glyphs of the ranges
   in front of it (nLeft + 1 each), glyph 1 being the first glyph of the first range.  The range
   holds the SID iff first <= sid <= first + nLeft. *)
Theorem range_lookup_found : forall m pre f n post sid,
  ranges_wf (pre ++ (f, n) :: post) -> len (ranges_sids (pre ++ (f, n) :: post)) <= 65534 ->
  (forall r, In r pre -> ~ in_range r sid) ->
  f <= sid <= f + n ->
  gid_for_sid_in_ranges m (pre ++ (f, n) :: post) sid CHARSET_FIRST_GID =
  COk (Some (1 + len (ranges_sids pre) + (sid - f))).
Proof.
  intros m pre f n post sid Hwf Hb Hno Hin.
  unfold ranges_wf in Hwf. apply Forall_app in Hwf. destruct Hwf as [Hwp Hwq].
  inversion Hwq as [|r' rs' [Hf Hn] Hwpost]; subst. cbn [fst snd] in Hf, Hn.
  rewrite ranges_sids_app, ranges_sids_cons, !len_app, len_range_sids in Hb by exact Hn.
  cbn [snd] in Hb.
  pose proof (len_nonneg (ranges_sids pre)). pose proof (len_nonneg (ranges_sids post)).
  change CHARSET_FIRST_GID with 1.
  rewrite gid_for_sid_skips by (try assumption; lia).
  cbn [gid_for_sid_in_ranges].
  assert (Eh : charset_range_hit f n sid = true) by (apply range_hit_iff; exact Hin).
  rewrite Eh. unfold charset_range_index, chk_u16, U16. match goal with |- context [?a <? 65536] => replace (a <? 65536) with true by lia end. reflexivity.
Qed.

(* NOT FOUND: no range holds the SID *)
Theorem range_lookup_none : forall m rs sid,
  ranges_wf rs -> len (ranges_sids rs) <= 65534 ->
  (forall r, In r rs -> ~ in_range r sid) ->
  gid_for_sid_in_ranges m rs sid CHARSET_FIRST_GID = COk None.
Proof.
  intros m rs sid Hwf Hb Hno. change CHARSET_FIRST_GID with 1.
  rewrite <- (app_nil_r rs). rewrite gid_for_sid_skips by (try assumption; lia). reflexivity.
Qed.

(* for ALL range lists: a glyph is found iff some range has first <= sid <= first + nLeft *)
Theorem range_lookup_iff : forall m rs sid,
  ranges_wf rs -> len (ranges_sids rs) <= 65534 ->
  (exists g, gid_for_sid_in_ranges m rs sid CHARSET_FIRST_GID = COk (Some g)) <->
  (exists f n, In (f, n) rs /\ f <= sid <= f + n).
Proof.
  intros m rs sid Hwf Hb. change CHARSET_FIRST_GID with 1.
  rewrite gid_for_sid_in_ranges_position by (try assumption; lia). split.
  - intros (g & Hg). injection Hg as Hg.
    assert (Hin : In sid (ranges_sids rs)).
    { destruct (in_dec Z.eq_dec sid (ranges_sids rs)) as [Hi|Hni]; [exact Hi|].
      apply position_none with (i0 := 1) in Hni. congruence. }
    apply In_ranges_sids in Hin; [|exact Hwf]. destruct Hin as ([f n] & Hr & Hs).
    exists f, n. split; [exact Hr|exact Hs].
  - intros (f & n & Hr & Hs).
    destruct (position sid (ranges_sids rs) 1) as [g|] eqn:E; [exists g; reflexivity|].
    exfalso. apply position_none in E. apply E. apply In_ranges_sids; [exact Hwf|].
    exists (f, n). split; [exact Hr|exact Hs].
Qed.

(* ---------- Charset::sid_to_gid for every custom format: the inverse of the glyph -> SID list ---------- *)
Lemma names_glyph_position : forall names sid g, sid <> 0 ->
  (position sid names 1 = Some g <-> names_glyph names sid g).
Proof.
  intros names sid g Hs. rewrite position_some. unfold names_glyph. split.
  - intros H. right. split; [exact Hs|exact H].
  - intros [[H _]|[_ H]]; [contradiction|exact H].
Qed.

Theorem charset_sid_to_gid_spec : forall m cs names sid,
  (exists sids, cs = CsCustom sids) \/ (exists rs, cs = CsRanges rs) ->
  charset_names cs = Some names -> charset_wf cs ->
  exists o, charset_sid_to_gid m cs sid = COk o /\
            (forall g, o = Some g <-> names_glyph names sid g) /\
            (o = None <-> sid <> 0 /\ ~ In sid names).
Proof.
  intros m cs names sid Hc Hn Hwf. unfold charset_sid_to_gid.
  destruct (Z.eqb_spec sid 0) as [->|Hs].
  - exists (Some 0). split; [reflexivity|]. split.
    + intros g. unfold names_glyph. split.
      * intros H. injection H as <-. left. auto.
      * intros [[_ ->]|[H _]]; [reflexivity|contradiction].
    + split; [discriminate|]. intros [H _]. contradiction.
  - assert (Hpos : forall o, o = position sid names 1 ->
              (forall g, o = Some g <-> names_glyph names sid g) /\ (o = None <-> sid <> 0 /\ ~ In sid names)).
    { intros o ->. split.
      - intros g. apply names_glyph_position. exact Hs.
      - rewrite position_none. tauto. }
    destruct Hc as [[sids ->]|[rs ->]]; cbn [charset_names] in Hn; injection Hn as <-;
      cbn [charset_wf] in Hwf.
    + eexists. split; [reflexivity|]. apply Hpos.
      destruct (position sid sids 1) as [g|] eqn:E; [|reflexivity].
      apply position_bound in E. destruct (Z.leb_spec g 65535); [reflexivity|lia].
    + destruct Hwf as [Hwf Hb]. change CHARSET_FIRST_GID with 1.
      rewrite gid_for_sid_in_ranges_position by (try assumption; lia).
      eexists. split; [reflexivity|]. apply Hpos. reflexivity.
Qed.

(* a range list and the format 0 list it stands for are interchangeable *)
Theorem charset_formats_equal : forall m rs sid,
  ranges_wf rs -> len (ranges_sids rs) <= 65534 ->
  charset_sid_to_gid m (CsRanges rs) sid = charset_sid_to_gid m (CsCustom (ranges_sids rs)) sid.
Proof.
  intros m rs sid Hwf Hb. unfold charset_sid_to_gid. destruct (sid =? 0); [reflexivity|].
  change CHARSET_FIRST_GID with 1. rewrite gid_for_sid_in_ranges_position by (try assumption; lia).
  destruct (position sid (ranges_sids rs) 1) as [g|] eqn:E; [|reflexivity].
  apply position_bound in E. destruct (Z.leb_spec g 65535); [reflexivity|lia].
Qed.

(* ================================================================== *)
(* seac: base glyph, then the accent glyph displaced by (adx, ady)     *)
(* ================================================================== *)

(* ---------- a plain glyph run as a component (any depth, any state of the parser) ---------- *)
Lemma ops_wf_moved : forall ops maxargs b1 b2 n,
  (b1 = true -> b2 = true) -> ops_wf maxargs b1 n ops -> ops_wf maxargs b2 n ops.
Proof.
  induction ops as [|o r IH]; intros maxargs b1 b2 n Hb Hwf; [exact I|].
  destruct Hwf as (Hs & Hl & Hm & Hmask & Hb32 & Hwf').
  cbn [ops_wf]. repeat split; try assumption.
  - intros H1 H2. apply Hb. apply Hm; assumption.
  - apply (IH maxargs (b1 || is_move o) (b2 || is_move o)); [|exact Hwf'].
    destruct (is_move o); [rewrite !orb_true_r; reflexivity|rewrite !orb_false_r; exact Hb].
Qed.

Lemma run_endchar_any : forall df e d w n ec sk vi sc p c0,
  e_kind e = KCFF ->
  run (S df) e d [14] (mkI [] w n ec sk vi sc p c0) =
  COk (mkI [] w n true sk vi sc (fst (parse_endchar p)) (c0 ++ snd (parse_endchar p))).
Proof.
  intros df e d w n ec sk vi sc p c0 Hk. rewrite run_cons. unfold step.
  change (classify 14) with KEndchar. unfold step_endchar. rewrite Hk. cbn [stk wparsed].
  change (len []) with 0. cbn [Z.eqb orb andb cbind].
  rewrite andb_false_r. cbn [cbind].
  unfold visit_op. change (visit_fn 14) with (Some F_endchar). cbn [pvisit cbind].
  unfold set_endchar, set_ps. cbn [stk wparsed stems endchar_seen seac_seen vsidx scal ps out].
  destruct (parse_endchar p) as [p' c]. reflexivity.
Qed.

Lemma run_endchar_width_any : forall df e d wv n ec sk vi sc p c0,
  e_kind e = KCFF ->
  run (S df) e d [14] (mkI [wv] false n ec sk vi sc p c0) =
  COk (mkI [] true n true sk vi sc (fst (parse_endchar p)) (c0 ++ snd (parse_endchar p))).
Proof.
  intros df e d wv n ec sk vi sc p c0 Hk. rewrite run_cons. unfold step.
  change (classify 14) with KEndchar. unfold step_endchar. rewrite Hk. cbn [stk wparsed].
  change (len [wv]) with 1. cbn [Z.eqb Pos.eqb orb andb negb].
  unfold pop, visit_op. change (visit_fn 14) with (Some F_endchar).
  unfold set_endchar, set_ps, set_wparsed, set_stk.
  cbn [stk wparsed stems endchar_seen seac_seen vsidx scal ps out removelast cbind pvisit].
  destruct (parse_endchar p) as [p' c]. reflexivity.
Qed.

(* the width operand under the operands of the first operator, whatever the parser state *)
Lemma run_ops_width_any : forall o r bss tail wv,
  Forall2 encodes bss (args_of o) -> enc_ops r tail ->
  forall df e d rest ec sk vi sc p c0,
  (is_move o || is_hint o) = true ->
  ops_wf (max_stack e) (has_move p) 0 (o :: r) -> len (args_of o) + 1 <= max_stack e ->
  max_stack e <= TEMP_OPERANDS ->
  run (S df) e d ((concat bss ++ opbytes o ++ tail) ++ rest) (mkI [wv] false 0 ec sk vi sc p c0) =
  run (S df) e d rest
      (mkI [] true (snd (fst (ops_eff (o :: r) p 0))) ec sk vi sc (fst (fst (ops_eff (o :: r) p 0)))
           (c0 ++ snd (ops_eff (o :: r) p 0))).
Proof.
  intros o r bss tail wv Hargs Hr df e d rest ec sk vi sc p c0 Hk Hwf Hroom Ht.
  pose proof (ops_wf_op_ok _ _ _ _ _ Hwf Ht) as Hok.
  destruct Hwf as (Hs & Hl & Hm & Hmask & Hb32 & Hwf').
  rewrite <- !app_assoc. rewrite (run_args bss (args_of o) Hargs).
  2:{ cbn [stk]. change (len [wv]) with 1. lia. }
  unfold set_stk. cbn [stk wparsed stems endchar_seen seac_seen vsidx scal ps out].
  rewrite (run_op o df e d (tail ++ rest) false [wv] true) by
    (try assumption; try (apply wp_some; exact Hk); change U32 with 4294967296; lia).
  rewrite (run_ops r tail Hr).
  - cbn [ops_eff]. destruct (ops_eff r (fst (spec_eff o p)) (0 + stems_of o)) as [[pf nf] cf].
    cbn [fst snd]. rewrite <- app_assoc. reflexivity.
  - rewrite spec_eff_has_move. exact Hwf'.
  - pose proof (stems_of_nonneg o). lia.
  - exact Ht.
Qed.

(* a plain glyph (optional width, operators, endchar) run from the state a seac component starts
   in: empty stack, no width seen, no stems; it appends its commands and ends the glyph *)
Lemma run_plain_glyph : forall df e d w ops bytes ec sk vi sc p c0,
  e_kind e = KCFF -> glyph_bytes w ops bytes ->
  exists wp n,
  run (S df) e d bytes (mkI [] false 0 ec sk vi sc p c0) =
  COk (mkI [] wp n true sk vi sc
           (fst (parse_endchar (fst (fst (ops_eff ops p 0)))))
           (c0 ++ snd (ops_eff ops p 0) ++ snd (parse_endchar (fst (fst (ops_eff ops p 0)))))).
Proof.
  intros df e d w ops bytes ec sk vi sc p c0 Hk (wb & body & -> & Hw & Hops & Hwf & Hroom).
  assert (Hmax : max_stack e = CFF_MAX_OPERANDS) by (unfold max_stack; rewrite Hk; reflexivity).
  assert (Ht : max_stack e <= TEMP_OPERANDS) by (rewrite Hmax; vm_compute; congruence).
  assert (Hwf' : ops_wf (max_stack e) (has_move p) 0 ops).
  { rewrite Hmax. apply (ops_wf_moved ops _ false); [discriminate|exact Hwf]. }
  destruct Hw as [|wv wbs Hwenc].
  - cbn [app].
    rewrite (run_ops ops body Hops) by (try assumption; lia).
    rewrite run_endchar_any by exact Hk.
    eexists; eexists. rewrite app_assoc. reflexivity.
  - rewrite (run_num wbs wv Hwenc). unfold push. cbn [stk].
    change (len []) with 0. rewrite Hmax. change (0 =? CFF_MAX_OPERANDS) with false.
    unfold set_stk. cbn [cbind stk wparsed stems endchar_seen seac_seen vsidx scal ps out app].
    destruct Hops as [|o r bss tail Hargs Hr].
    + cbn [app]. rewrite run_endchar_width_any by exact Hk.
      eexists; eexists. cbn [ops_eff fst snd app]. reflexivity.
    + assert (Hkk : (is_move o || is_hint o) = true).
      { destruct Hwf as (_ & _ & Hm & _).
        destruct (is_move o) eqn:E1; [reflexivity|]. destruct (is_hint o) eqn:E2; [reflexivity|].
        specialize (Hm eq_refl eq_refl). discriminate. }
      rewrite (run_ops_width_any o r bss tail wv Hargs Hr) by
        (try assumption; rewrite ?Hmax; assumption).
      rewrite run_endchar_any by exact Hk.
      eexists; eexists. rewrite app_assoc. reflexivity.
Qed.

(* ---------- the path of a program drawn from another origin is the displaced path ---------- *)
Definition shift_res (dx dy : Z) (r : Z * Z * bool * list cmd) : Z * Z * bool * list cmd :=
  let '(x, y, o, c) := r in (x + dx, y + dy, o, map (shift_cmd dx dy) c).

Lemma run_prims_shift : forall prims x y o dx dy,
  run_prims (x + dx) (y + dy) o prims = shift_res dx dy (run_prims x y o prims).
Proof.
  induction prims as [|pr r IH]; intros x y o dx dy; [reflexivity|].
  destruct pr as [a b|a b|a b c d e f]; cbn [run_prims].
  - replace (x + dx + a) with (x + a + dx) by lia. replace (y + dy + b) with (y + b + dy) by lia.
    rewrite IH. destruct (run_prims (x + a) (y + b) true r) as [[[xf yf] of] c].
    cbn [shift_res]. rewrite map_app. destruct o; reflexivity.
  - replace (x + dx + a) with (x + a + dx) by lia. replace (y + dy + b) with (y + b + dy) by lia.
    rewrite IH. destruct (run_prims (x + a) (y + b) o r) as [[[xf yf] of] c]. reflexivity.
  - replace (x + dx + a + c + e) with (x + a + c + e + dx) by lia.
    replace (y + dy + b + d + f) with (y + b + d + f + dy) by lia.
    rewrite IH. destruct (run_prims (x + a + c + e) (y + b + d + f) o r) as [[[xf yf] of] cs].
    cbn [shift_res map shift_cmd]. f_equal. f_equal. f_equal; lia.
Qed.

Lemma parse_endchar_first_move : forall p, first_move (fst (parse_endchar p)) = true.
Proof. intros p. unfold parse_endchar. destruct (first_move p) eqn:E; [exact E|reflexivity]. Qed.

Lemma parse_endchar_closed : forall p, first_move p = true -> parse_endchar p = (p, []).
Proof. intros p H. unfold parse_endchar. rewrite H. reflexivity. Qed.

Lemma parse_endchar_xy : forall p,
  px (fst (parse_endchar p)) = px p /\ py (fst (parse_endchar p)) = py p.
Proof. intros p. unfold parse_endchar. destruct (first_move p); split; reflexivity. Qed.

(* commands of a plain glyph whose parser starts at (px p, py p) with no open contour *)
Lemma ops_eff_path_from : forall ops p, first_move p = true ->
  snd (ops_eff ops p 0) ++ snd (parse_endchar (fst (fst (ops_eff ops p 0)))) =
  map (shift_cmd (px p) (py p)) (prog_path ops).
Proof.
  intros ops p Hf. pose proof (ops_eff_prims ops p 0) as H.
  unfold prog_path, path_of. rewrite Hf in H. cbn [negb] in H.
  replace (px p) with (0 + px p) in H by lia. replace (py p) with (0 + py p) in H by lia.
  rewrite run_prims_shift in H.
  destruct (ops_eff ops p 0) as [[pf nf] cf].
  destruct (run_prims 0 0 false (flat_map expand ops)) as [[[x y] o] c].
  cbn [shift_res] in H. destruct H as (_ & _ & Hfm & ->). cbn [fst snd].
  unfold parse_endchar. rewrite Hfm. rewrite map_app. destruct o; reflexivity.
Qed.

(* ---------- StandardEncoding code -> glyph ---------- *)
Lemma try_as_u8_int : forall c, 0 <= c <= 255 -> try_as_u8 (of_int c) = Some c.
Proof.
  intros c Hc. unfold try_as_u8. rewrite try_as_i32_int by (unfold I32_MIN, I32_MAX; lia).
  destruct (Z.leb_spec 0 c), (Z.leb_spec c 255); cbn [andb]; try lia. reflexivity.
Qed.

Lemma nth_opt_range : forall n s i v, nth_opt (range s n) i = Some v -> v = s + i /\ 0 <= i < Z.of_nat n.
Proof.
  induction n as [|n IH]; intros s i v H.
  - unfold nth_opt in H. destruct (_ <? 0); [discriminate|].
    destruct (Z.to_nat i); discriminate.
  - cbn [range] in H. destruct (Z.eq_dec i 0) as [->|Hi].
    + rewrite nth_opt_cons_0 in H. injection H as <-. lia.
    + assert (Hpos : 0 < i).
      { unfold nth_opt in H. destruct (Z.ltb_spec i 0); [discriminate|lia]. }
      rewrite nth_opt_cons_S in H by exact Hpos. apply IH in H. lia.
Qed.

(* in the ISOAdobe charset the glyph id is the SID *)
Lemma names_glyph_iso_adobe : forall sid g,
  names_glyph ISO_ADOBE_NAMES sid g -> g = sid /\ 0 <= sid <= 228.
Proof.
  intros sid g [[-> ->]|(Hs & Hg & Hn & _)]; [lia|].
  unfold ISO_ADOBE_NAMES in Hn. apply nth_opt_range in Hn. lia.
Qed.

(* Font::seac_code_to_glyph_id returns the glyph the code's standard name designates *)
Lemma seac_code_to_gid_spec : forall e names code g,
  charset_names (e_charset e) = Some names -> charset_wf (e_charset e) ->
  names_glyph names (nthZ STANDARD_ENCODING code) g ->
  seac_code_to_gid e code = COk (Some g).
Proof.
  intros e names code g Hn Hwf Hg. unfold seac_code_to_gid.
  destruct (e_charset e) as [| | |sids|rs] eqn:Ecs; cbn [charset_names] in Hn; try discriminate.
  - injection Hn as <-. apply names_glyph_iso_adobe in Hg. destruct Hg as [-> Hr].
    unfold seac_iso_adobe_ok, ISO_ADOBE_LAST_SID.
    destruct (Z.leb_spec (nthZ STANDARD_ENCODING code) 228); [reflexivity|lia].
  - destruct (charset_sid_to_gid_spec (e_mode e) (CsCustom sids) names (nthZ STANDARD_ENCODING code))
      as (o & Ho & Hsome & _); [left; eexists; reflexivity|exact Hn|exact Hwf|].
    rewrite Ho. f_equal. apply Hsome. exact Hg.
  - destruct (charset_sid_to_gid_spec (e_mode e) (CsRanges rs) names (nthZ STANDARD_ENCODING code))
      as (o & Ho & Hsome & _); [right; eexists; reflexivity|exact Hn|exact Hwf|].
    rewrite Ho. f_equal. apply Hsome. exact Hg.
Qed.

(* ---------- the seac form of endchar ---------- *)
Lemma pop_mk : forall k v w n ec sk vi sc p c0,
  pop (mkI (k ++ [v]) w n ec sk vi sc p c0) = COk (v, mkI k w n ec sk vi sc p c0).
Proof.
  intros. unfold pop. cbn [stk]. destruct (k ++ [v]) eqn:E.
  - exfalso. apply (app_cons_not_nil k [] v). symmetry. exact E.
  - rewrite <- E. rewrite last_last, removelast_last. reflexivity.
Qed.

(* the four operands (and the optional width under them) are on the stack, endchar is next *)
Lemma run_seac_endchar : forall df e pre adx ady bchar achar bg ag bytesb bytesa wbs opsb was opsa,
  e_kind e = KCFF ->
  (pre = [] \/ exists wv, pre = [wv]) ->
  0 <= bchar <= 255 -> 0 <= achar <= 255 ->
  seac_code_to_gid e bchar = COk (Some bg) -> seac_code_to_gid e achar = COk (Some ag) ->
  nth_opt (e_glyphs e) bg = Some bytesb -> glyph_bytes wbs opsb bytesb ->
  nth_opt (e_glyphs e) ag = Some bytesa -> glyph_bytes was opsa bytesa ->
  exists s,
  run (S (S df)) e 0 [14]
      (mkI (pre ++ [adx; ady; of_int bchar; of_int achar]) false 0 false false None None pst0 []) = COk s /\
  out s = seac_path adx ady opsb opsa.
Proof.
  intros df e pre adx ady bchar achar bg ag bytesb bytesa wbs opsb was opsa
         Hk Hpre Hb Ha Hgb Hga Hnb Hglb Hna Hgla.
  rewrite run_cons. unfold step. change (classify 14) with KEndchar.
  unfold step_endchar. rewrite Hk.
  assert (Hcond : (len (pre ++ [adx; ady; of_int bchar; of_int achar]) =? 4)
                  || (negb false && (len (pre ++ [adx; ady; of_int bchar; of_int achar]) =? 5)) = true).
  { destruct Hpre as [->|[wv ->]]; reflexivity. }
  cbn [stk wparsed]. rewrite Hcond. clear Hcond.
  unfold step_seac. change (0 =? STACK_LIMIT) with false. cbv iota.
  (* the run of the base glyph at depth 1 *)
  destruct (run_plain_glyph df e (0 + 1) wbs opsb bytesb false true None None pst0 [] Hk Hglb)
    as (wpb & nb & Hrunb).
  set (pb := fst (parse_endchar (fst (fst (ops_eff opsb pst0 0))))) in *.
  set (cb := snd (ops_eff opsb pst0 0) ++ snd (parse_endchar (fst (fst (ops_eff opsb pst0 0))))) in *.
  (* the run of the accent glyph at depth 1, from (adx, ady) *)
  destruct (run_plain_glyph df e (0 + 1) was opsa bytesa true true None None (set_xy pb adx ady)
              (([] ++ cb) ++ []) Hk Hgla) as (wpa & na & Hruna).
  assert (Hfm : first_move (set_xy pb adx ady) = true).
  { unfold set_xy, pb. cbn [first_move]. apply parse_endchar_first_move. }
  pose proof (ops_eff_path_from opsa (set_xy pb adx ady) Hfm) as Hpa.
  change (px (set_xy pb adx ady)) with adx in Hpa. change (py (set_xy pb adx ady)) with ady in Hpa.
  assert (Hcb : cb = prog_path opsb).
  { unfold cb. rewrite <- ops_eff_path. unfold parse_endchar.
    destruct (first_move (fst (fst (ops_eff opsb pst0 0)))); reflexivity. }
  replace (pre ++ [adx; ady; of_int bchar; of_int achar])
    with ((((pre ++ [adx]) ++ [ady]) ++ [of_int bchar]) ++ [of_int achar])
    by (rewrite <- !app_assoc; reflexivity).
  rewrite pop_mk. cbn [cbind].
  unfold seac_gid. rewrite (try_as_u8_int achar Ha), Hga. cbn [cbind].
  rewrite pop_mk. cbn [cbind].
  rewrite (try_as_u8_int bchar Hb), Hgb. cbn [cbind].
  rewrite pop_mk. cbn [cbind]. rewrite pop_mk. cbn [cbind].
  cbn [stk wparsed negb andb].
  assert (Hw : (if negb (len pre =? 0)
                then ' (_, s') <~ pop (mkI pre false 0 false false None None pst0 []);; COk (set_wparsed s' true)
                else COk (mkI pre false 0 false false None None pst0 [])) =
               COk (mkI [] (negb (len pre =? 0)) 0 false false None None pst0 [])).
  { destruct Hpre as [->|[wv ->]]; [reflexivity|].
    change [wv] with ([] ++ [wv]). rewrite pop_mk. reflexivity. }
  rewrite Hw. clear Hw. cbn [cbind].
  unfold set_seac, set_stems, set_wparsed.
  cbn [stk wparsed stems endchar_seen seac_seen vsidx scal ps out].
  rewrite Hnb. rewrite Hrunb. cbn [cbind]. rewrite Hna.
  unfold set_ps. cbn [stk wparsed stems endchar_seen seac_seen vsidx scal ps out].
  rewrite Hruna. cbn [cbind].
  unfold visit_op. change (visit_fn 14) with (Some F_endchar). cbn [pvisit cbind].
  unfold set_endchar, set_ps. cbn [stk wparsed stems endchar_seen seac_seen vsidx scal ps out].
  rewrite (parse_endchar_closed (fst (parse_endchar (fst (fst (ops_eff opsa (set_xy pb adx ady) 0))))))
    by apply parse_endchar_first_move.
  eexists. split; [reflexivity|]. cbn [out app].
  rewrite !app_nil_r. rewrite Hpa, Hcb. reflexivity.
Qed.

(* the accented glyph: [width] adx ady bchar achar endchar, every operand in any encoding *)
Theorem seac_spec : forall e w wb nadx nady nb na adx ady bchar achar names bg ag
                           bytesb wbs opsb bytesa was opsa,
  e_kind e = KCFF ->
  nth_opt (e_glyphs e) (e_gid e) = Some (wb ++ nadx ++ nady ++ nb ++ na ++ [14]) ->
  enc_width w wb ->
  encodes nadx adx -> encodes nady ady -> encodes nb (of_int bchar) -> encodes na (of_int achar) ->
  0 <= bchar <= 255 -> 0 <= achar <= 255 ->
  charset_names (e_charset e) = Some names -> charset_wf (e_charset e) ->
  names_glyph names (nthZ STANDARD_ENCODING bchar) bg ->
  names_glyph names (nthZ STANDARD_ENCODING achar) ag ->
  nth_opt (e_glyphs e) bg = Some bytesb -> glyph_bytes wbs opsb bytesb ->
  nth_opt (e_glyphs e) ag = Some bytesa -> glyph_bytes was opsa bytesa ->
  exists s, interp_glyph e = COk s /\ out s = seac_path adx ady opsb opsa.
Proof.
  intros e w wb nadx nady nb na adx ady bchar achar names bg ag bytesb wbs opsb bytesa was opsa
         Hk Hg Hw Hex Hey Heb Hea Hb Ha Hn Hcwf Hnb Hna Hgb Hglb Hga Hgla.
  assert (Hmax : max_stack e = CFF_MAX_OPERANDS) by (unfold max_stack; rewrite Hk; reflexivity).
  pose proof (seac_code_to_gid_spec e names bchar bg Hn Hcwf Hnb) as Hcb.
  pose proof (seac_code_to_gid_spec e names achar ag Hn Hcwf Hna) as Hca.
  assert (Hargs : Forall2 encodes [nadx; nady; nb; na] [adx; ady; of_int bchar; of_int achar])
    by (repeat constructor; assumption).
  unfold interp_glyph. rewrite Hk, Hg. unfold DEPTH_FUEL, ist0.
  replace (nadx ++ nady ++ nb ++ na ++ [14]) with (concat [nadx; nady; nb; na] ++ [14])
    by (cbn [concat]; rewrite app_nil_r, <- !app_assoc; reflexivity).
  destruct Hw as [|wv wbs' Hwenc].
  - cbn [app].
    rewrite (run_args _ _ Hargs) by (cbn [stk]; rewrite Hmax; vm_compute; congruence).
    unfold set_stk. cbn [stk wparsed stems endchar_seen seac_seen vsidx scal ps out].
    destruct (run_seac_endchar 10 e [] adx ady bchar achar bg ag bytesb bytesa wbs opsb was opsa)
      as (s & Hs & Ho); try assumption; [left; reflexivity|].
    cbn [app] in Hs. cbn [app]. rewrite Hs. cbn [cbind]. exists s. split; [reflexivity|exact Ho].
  - rewrite (run_num wbs' wv Hwenc). unfold push. cbn [stk].
    change (len []) with 0. rewrite Hmax. change (0 =? CFF_MAX_OPERANDS) with false.
    unfold set_stk. cbn [cbind stk wparsed stems endchar_seen seac_seen vsidx scal ps out app].
    rewrite (run_args _ _ Hargs) by (cbn [stk]; rewrite Hmax; vm_compute; congruence).
    unfold set_stk. cbn [stk wparsed stems endchar_seen seac_seen vsidx scal ps out].
    destruct (run_seac_endchar 10 e [wv] adx ady bchar achar bg ag bytesb bytesa wbs opsb was opsa)
      as (s & Hs & Ho); try assumption; [right; eexists; reflexivity|].
    rewrite Hs. cbn [cbind]. exists s. split; [reflexivity|exact Ho].
Qed.

(* what OutlineBuilder::visit returns for it *)
Corollary run_glyph_seac_spec : forall e w wb nadx nady nb na adx ady bchar achar names bg ag
                                       bytesb wbs opsb bytesa was opsa,
  e_kind e = KCFF ->
  nth_opt (e_glyphs e) (e_gid e) = Some (wb ++ nadx ++ nady ++ nb ++ na ++ [14]) ->
  enc_width w wb ->
  encodes nadx adx -> encodes nady ady -> encodes nb (of_int bchar) -> encodes na (of_int achar) ->
  0 <= bchar <= 255 -> 0 <= achar <= 255 ->
  charset_names (e_charset e) = Some names -> charset_wf (e_charset e) ->
  names_glyph names (nthZ STANDARD_ENCODING bchar) bg ->
  names_glyph names (nthZ STANDARD_ENCODING achar) ag ->
  nth_opt (e_glyphs e) bg = Some bytesb -> glyph_bytes wbs opsb bytesb ->
  nth_opt (e_glyphs e) ag = Some bytesa -> glyph_bytes was opsa bytesa ->
  run_glyph e = if bbox_ok (seac_path adx ady opsb opsa)
                then COk (seac_path adx ady opsb opsa) else CErr EBboxOverflow.
Proof.
  intros e w wb nadx nady nb na adx ady bchar achar names bg ag bytesb wbs opsb bytesa was opsa
         Hk Hg Hw Hex Hey Heb Hea Hb Ha Hn Hcwf Hnb Hna Hgb Hglb Hga Hgla.
  destruct (seac_spec e w wb nadx nady nb na adx ady bchar achar names bg ag bytesb wbs opsb
              bytesa was opsa Hk Hg Hw Hex Hey Heb Hea Hb Ha Hn Hcwf Hnb Hna Hgb Hglb Hga Hgla)
    as (s & Hs & Ho).
  unfold run_glyph. rewrite Hs. cbn [cbind]. rewrite Ho. reflexivity.
Qed.

(* the StandardEncoding table regenerated from the source is the table of the specification:
   the codes 32..126 are the SIDs 1..95, 161..251 the SIDs 96..149 with the gaps of appendix B *)
Definition std_sid_spec (c : Z) : Z :=
  if (32 <=? c) && (c <=? 126) then c - 31
  else if (161 <=? c) && (c <=? 175) then c - 65
  else if (177 <=? c) && (c <=? 180) then c - 66
  else if (182 <=? c) && (c <=? 189) then c - 67
  else if c =? 191 then 123
  else if (193 <=? c) && (c <=? 200) then c - 69
  else if (202 <=? c) && (c <=? 203) then c - 70
  else if (205 <=? c) && (c <=? 208) then c - 71
  else if c =? 225 then 138
  else if c =? 227 then 139
  else if (232 <=? c) && (c <=? 235) then c - 92
  else if c =? 241 then 144
  else if c =? 245 then 145
  else if (248 <=? c) && (c <=? 251) then c - 102
  else 0.

Lemma standard_encoding_table : forall c, 0 <= c <= 255 -> nthZ STANDARD_ENCODING c = std_sid_spec c.
Proof.
  intros c Hc.
  assert (H : forallb (fun c => nthZ STANDARD_ENCODING c =? std_sid_spec c) (range 0 256) = true)
    by (vm_compute; reflexivity).
  rewrite forallb_forall in H. apply Z.eqb_eq. apply H. apply range_In. lia.
Qed.
