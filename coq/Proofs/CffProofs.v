(* Proofs/CffProofs.v — CFF DICT integer operands (all of i32) and the INDEX structure. *)
From AV Require Import Base.Prelude Base.Lemmas Gen.ReaderPrims Model.Reader Model.ReaderExt
  Proofs.ReaderProofs Proofs.EncodeProofs Model.TableLayout Proofs.TableLayoutProofs Gen.TableLayouts Model.Tables Model.Cff.
From Coq Require Import ZifyBool ZifyNat.
Ltac Zify.zify_post_hook ::= Z.div_mod_to_equations.
Open Scope Z_scope.

Definition i32_ok (v : Z) : Prop := -2147483648 <= v <= 2147483647.

Lemma write_prim_u8 b : 0 <= b < 256 -> write_prim PU8 b = [b].
Proof.
  intros H. unfold write_prim. cbn [wsize be_bytes]. change (256 ^ Z.of_nat 0) with 1.
  rewrite Z.div_1_r. rewrite Z.mod_small by lia. reflexivity.
Qed.

Lemma read_u8_at c b rest :
  cgood c -> 0 <= b < 256 -> at_bytes c (b :: rest) ->
  exists c', read_prim PU8 c = Ok (b, c') /\ advanced c c' rest.
Proof.
  intros Hg Hb Hat. apply (read_prim_layout PU8 c b rest Hg).
  - unfold prim_in_range. cbn. lia.
  - rewrite write_prim_u8 by lia. exact Hat.
Qed.

Ltac unfold_cff :=
  cbv [cffw_small_lo cffw_small_hi cffw_small_bias cffw_pos_lo cffw_pos_hi cffw_pos_sub cffw_pos_b0
       cffw_neg_lo cffw_neg_hi cffw_neg_sub cffw_neg_b0 cffw_i16_lo cffw_i16_hi cffw_i16_b0 cffw_i32_b0
       cffw_offset_b0 cffr_i16_b0 cffr_i32_b0 cffr_real_b0 cffr_small_lo cffr_small_hi cffr_small_bias
       cffr_pos_lo cffr_pos_hi cffr_pos_b0 cffr_pos_add cffr_neg_lo cffr_neg_hi cffr_neg_b0 cffr_neg_sub between] in *.

(* pick the branch of the reader's if-chain that the byte value selects *)
Ltac pick_branch :=
  repeat match goal with
         | |- context [if ?b then _ else _] =>
             let E := fresh "E" in destruct b eqn:E; try (exfalso; lia)
         end.

(* Theorem: for EVERY i32 the encoder's choice among the 1-, 2-, 3- and 5-byte forms is decoded
   back to the same integer, consuming exactly the bytes written.  The range edges
   (±107/108, ±1131/1132, -32768/32767) are whatever the source says: the constants are
   regenerated from the Rust on every run. *)
Theorem operand_int_roundtrip v rest c :
  i32_ok v -> cgood c -> at_bytes c (operand_int_write v ++ rest) ->
  exists c', op_read c = Ok (OpInt v, c') /\ advanced c c' rest.
Proof.
  intros Hv Hg Hat. unfold i32_ok in Hv. unfold operand_int_write in Hat. unfold op_read. unfold_cff.
  destruct ((-107 <=? v) && (v <=? 107)) eqn:R1.
  { cbn [app] in Hat. rewrite Z.mod_small in Hat by lia.
    destruct (read_u8_at c (v + 139) rest Hg ltac:(lia) Hat) as [c1 [E1 A1]].
    rewrite E1. cbn [bind]. cbv beta iota. pick_branch.
    exists c1. split; [|exact A1]. f_equal. f_equal. f_equal. lia. }
  destruct ((108 <=? v) && (v <=? 1131)) eqn:R2.
  { cbn [app] in Hat. cbv zeta in Hat. rewrite (Z.mod_small ((v - 108) / 256 + 247)) in Hat by lia.
    destruct (read_u8_at c ((v - 108) / 256 + 247) _ Hg ltac:(lia) Hat) as [c1 [E1 A1]].
    destruct (read_u8_at c1 ((v - 108) mod 256) rest (proj1 A1) ltac:(lia) (proj2 (proj2 A1))) as [c2 [E2 A2]].
    rewrite E1. cbn [bind]. cbv beta iota. pick_branch.
    rewrite E2. cbn [bind]. cbv beta iota.
    exists c2. split; [|eapply advanced_trans; eassumption]. f_equal. f_equal. f_equal. lia. }
  destruct ((-1131 <=? v) && (v <=? -108)) eqn:R3.
  { cbn [app] in Hat. cbv zeta in Hat. rewrite (Z.mod_small ((- v - 108) / 256 + 251)) in Hat by lia.
    destruct (read_u8_at c ((- v - 108) / 256 + 251) _ Hg ltac:(lia) Hat) as [c1 [E1 A1]].
    destruct (read_u8_at c1 ((- v - 108) mod 256) rest (proj1 A1) ltac:(lia) (proj2 (proj2 A1))) as [c2 [E2 A2]].
    rewrite E1. cbn [bind]. cbv beta iota. pick_branch.
    rewrite E2. cbn [bind]. cbv beta iota.
    exists c2. split; [|eapply advanced_trans; eassumption]. f_equal. f_equal. f_equal. lia. }
  destruct ((-32768 <=? v) && (v <=? 32767)) eqn:R4.
  { cbn [app] in Hat.
    assert (to_signed 16 v = v) as Hs.
    { unfold to_signed. change (2 ^ 16) with 65536. change (2 ^ (16 - 1)) with 32768.
      destruct (v mod 65536 <? 32768) eqn:E; lia. }
    rewrite Hs in Hat.
    destruct (read_u8_at c 28 _ Hg ltac:(lia) Hat) as [c1 [E1 A1]].
    assert (prim_in_range PI16 v = true) as Hr by (unfold prim_in_range; cbn; lia).
    destruct (read_prim_layout PI16 c1 v rest (proj1 A1) Hr (proj2 (proj2 A1))) as [c2 [E2 A2]].
    rewrite E1. cbn [bind]. cbv beta iota. pick_branch.
    rewrite E2. cbn [bind]. cbv beta iota.
    exists c2. split; [reflexivity|eapply advanced_trans; eassumption]. }
  { cbn [app] in Hat.
    destruct (read_u8_at c 29 _ Hg ltac:(lia) Hat) as [c1 [E1 A1]].
    assert (prim_in_range PI32 v = true) as Hr by (unfold prim_in_range; cbn; lia).
    destruct (read_prim_layout PI32 c1 v rest (proj1 A1) Hr (proj2 (proj2 A1))) as [c2 [E2 A2]].
    rewrite E1. cbn [bind]. cbv beta iota. pick_branch.
    rewrite E2. cbn [bind]. cbv beta iota.
    exists c2. split; [reflexivity|eapply advanced_trans; eassumption]. }
Qed.

(* offsets are always written in the 5-byte form and read back as the same integer *)
Theorem operand_offset_roundtrip v rest c :
  i32_ok v -> cgood c -> at_bytes c (operand_offset_write v ++ rest) ->
  exists c', op_read c = Ok (OpInt v, c') /\ advanced c c' rest.
Proof.
  intros Hv Hg Hat. unfold i32_ok in Hv. unfold operand_offset_write in Hat. unfold op_read. unfold_cff.
  cbn [app] in Hat.
  destruct (read_u8_at c 29 _ Hg ltac:(lia) Hat) as [c1 [E1 A1]].
  assert (prim_in_range PI32 v = true) as Hr by (unfold prim_in_range; cbn; lia).
  destruct (read_prim_layout PI32 c1 v rest (proj1 A1) Hr (proj2 (proj2 A1))) as [c2 [E2 A2]].
  rewrite E1. cbn [bind]. cbv beta iota. pick_branch.
  rewrite E2. cbn [bind]. cbv beta iota.
  exists c2. split; [reflexivity|eapply advanced_trans; eassumption].
Qed.

(* the size of the chosen form: 1, 2, 3 or 5 bytes, and it is the shortest form that can hold v *)
Theorem operand_int_size v : i32_ok v ->
  len (operand_int_write v) =
    if (-107 <=? v) && (v <=? 107) then 1
    else if (-1131 <=? v) && (v <=? 1131) then 2
    else if (-32768 <=? v) && (v <=? 32767) then 3 else 5.
Proof.
  intros Hv. unfold operand_int_write. unfold_cff.
  destruct ((-107 <=? v) && (v <=? 107)) eqn:R1; [reflexivity|].
  destruct ((108 <=? v) && (v <=? 1131)) eqn:R2.
  { replace ((-1131 <=? v) && (v <=? 1131)) with true by lia. reflexivity. }
  destruct ((-1131 <=? v) && (v <=? -108)) eqn:R3.
  { replace ((-1131 <=? v) && (v <=? 1131)) with true by lia. reflexivity. }
  replace ((-1131 <=? v) && (v <=? 1131)) with false by lia.
  destruct ((-32768 <=? v) && (v <=? 32767)) eqn:R4.
  - rewrite len_cons, len_write_prim. reflexivity.
  - rewrite len_cons, len_write_prim. reflexivity.
Qed.

(* ====================================================================================== INDEX *)
Lemma concat_map_singleton {A B} (f : A -> B) l : concat (map (fun x => [f x]) l) = map f l.
Proof. induction l as [|x l IH]; [reflexivity|]. cbn. rewrite IH. reflexivity. Qed.

(* the offset array as the writer lays it out: every offset in sz big-endian bytes *)
Definition enc_offs (sz : Z) (offs : list Z) : list Z := concat (map (be_bytes (Z.to_nat sz)) offs).

Lemma len_enc_offs sz offs : 0 <= sz -> len (enc_offs sz offs) = sz * len offs.
Proof.
  intros Hs. unfold enc_offs. induction offs as [|o r IH]; [cbn; lia|].
  cbn [map concat]. rewrite len_app, len_be_bytes, IH, len_cons. lia.
Qed.

Lemma enc_offs_bytes_ok sz offs : bytes_ok (enc_offs sz offs) = true.
Proof.
  unfold enc_offs. induction offs as [|o r IH]; [reflexivity|]. cbn [map concat].
  rewrite bytes_ok_app, be_bytes_ok, IH. reflexivity.
Qed.

Lemma drop_app_len {A} (a b : list A) n : len a = n -> drop n (a ++ b) = b.
Proof. intros <-. apply drop_app_exact. Qed.
Lemma take_app_len {A} (a b : list A) n : len a = n -> take n (a ++ b) = a.
Proof. intros <-. apply take_app_exact. Qed.

Lemma drop_enc_offs sz : 0 <= sz -> forall offs (i : nat), (i < length offs)%nat ->
  exists rest', drop (Z.of_nat i * sz) (enc_offs sz offs) = be_bytes (Z.to_nat sz) (nth i offs 0) ++ rest'.
Proof.
  intros Hs. induction offs as [|o r IH]; intros i Hi; cbn [length] in Hi; [lia|].
  unfold enc_offs in *. cbn [map concat]. destruct i as [|i].
  - cbn [nth]. rewrite Z.mul_0_l, drop_0. eauto.
  - cbn [nth]. replace (Z.of_nat (S i) * sz) with (Z.of_nat i * sz + sz) by lia.
    rewrite <- drop_drop by lia.
    rewrite (drop_app_len _ _ sz) by (rewrite len_be_bytes; lia). apply IH. lia.
Qed.

Lemma lookup_enc sz offs i :
  1 <= sz <= 4 -> (forall o, In o offs -> 0 <= o < 256 ^ sz) -> 0 <= i < len offs ->
  lookup_offset_index sz (enc_offs sz offs) i = Ok (nth (Z.to_nat i) offs 0).
Proof.
  intros Hs Hr Hi. unfold lookup_offset_index.
  replace ((1 <=? sz) && (sz <=? 4)) with true by lia.
  rewrite len_enc_offs by lia. replace (i * sz + sz <=? sz * len offs) with true by nia.
  assert (Z.to_nat i < length offs)%nat as Hn by (unfold len in Hi; lia).
  destruct (drop_enc_offs sz ltac:(lia) offs (Z.to_nat i) Hn) as [rest' Hd].
  rewrite Z2Nat.id in Hd by lia. rewrite Hd.
  rewrite (take_app_len _ _ sz) by (rewrite len_be_bytes; lia). f_equal. apply be_val_be_bytes. rewrite Z2Nat.id by lia.
  apply Hr. apply nth_In. exact Hn.
Qed.

(* ---------- offset_size: the minimal width *)
Lemma offset_size_spec v sz : 0 <= v -> offset_size v = Some sz ->
  1 <= sz <= 4 /\ v < 256 ^ sz /\ (1 < sz -> 256 ^ (sz - 1) <= v).
Proof.
  intros Hv. unfold offset_size. cbv [offset_size_max1 offset_size_max2 offset_size_max3 offset_size_max4].
  destruct (v <=? 255) eqn:E1; [intros H; injection H as <-; cbn; lia|].
  destruct (v <=? 65535) eqn:E2; [intros H; injection H as <-; cbn; lia|].
  destruct (v <=? 16777215) eqn:E3; [intros H; injection H as <-; cbn; lia|].
  destruct (v <=? 4294967295) eqn:E4; [intros H; injection H as <-; cbn; lia|discriminate].
Qed.

Lemma offset_size_none v : offset_size v = None -> 4294967295 < v.
Proof.
  unfold offset_size. cbv [offset_size_max1 offset_size_max2 offset_size_max3 offset_size_max4].
  destruct (v <=? 255) eqn:E1; [discriminate|]. destruct (v <=? 65535) eqn:E2; [discriminate|].
  destruct (v <=? 16777215) eqn:E3; [discriminate|]. destruct (v <=? 4294967295) eqn:E4; [discriminate|]. lia.
Qed.

Lemma write_u24s_ok offs : (forall o, In o offs -> 0 <= o <= 16777215) ->
  write_u24s offs = Ok (concat (map (be_bytes 3) offs)).
Proof.
  induction offs as [|o r IH]; intros H; [reflexivity|].
  cbn [write_u24s map concat]. pose proof (H o (or_introl eq_refl)) as Ho.
  rewrite Z.mod_small by lia. unfold write_u24. change u24_max with 16777215.
  replace (o >? 16777215) with false by lia. cbn [bind].
  rewrite IH by (intros x Hx; apply H; right; exact Hx). reflexivity.
Qed.

(* serialise_offset_array on offsets bounded by their last element (as the INDEX writers produce
   them): never truncates, uses the minimal width, and errs only beyond 32 bits *)
Lemma serialise_ok offs : offs <> [] -> (forall o, In o offs -> 0 <= o <= last offs 0) ->
  match serialise_offset_array offs with
  | Ok (sz, arr) => offset_size (last offs 0) = Some sz /\ arr = enc_offs sz offs
  | Err e => e = BadValue /\ 4294967295 < last offs 0
  | _ => False
  end.
Proof.
  intros Hne Hr. unfold serialise_offset_array. destruct offs as [|o0 r0] eqn:Eo; [contradiction|]. rewrite <- Eo in *.
  assert (0 <= last offs 0) as Hl0.
  { assert (In o0 offs) as Hin by (rewrite Eo; left; reflexivity). specialize (Hr _ Hin). lia. }
  destruct (offset_size (last offs 0)) as [sz|] eqn:E.
  - destruct (offset_size_spec _ _ Hl0 E) as [Hs [Hlt _]].
    assert (sz = 1 \/ sz = 2 \/ sz = 3 \/ sz = 4) as Hcase by lia.
    destruct Hcase as [Hc|[Hc|[Hc|Hc]]]; subst sz.
    + split; [reflexivity|]. unfold enc_offs. rewrite <- concat_map_singleton. f_equal. apply map_ext. intros o.
      change (Z.to_nat 1) with 1%nat. cbn [be_bytes]. change (256 ^ Z.of_nat 0) with 1. rewrite Z.div_1_r. reflexivity.
    + split; [reflexivity|]. unfold enc_offs. f_equal. apply map_ext_in. intros o Ho. specialize (Hr _ Ho).
      change (256 ^ 2) with 65536 in Hlt. rewrite Z.mod_small by lia. reflexivity.
    + change (256 ^ 3) with 16777216 in Hlt. rewrite write_u24s_ok by (intros o Ho; specialize (Hr _ Ho); lia).
      cbn [bind]. split; reflexivity.
    + split; [reflexivity|]. unfold enc_offs. f_equal. apply map_ext_in. intros o Ho. specialize (Hr _ Ho).
      change (256 ^ 4) with 4294967296 in Hlt. rewrite Z.mod_small by lia. reflexivity.
  - split; [reflexivity|]. apply offset_size_none. exact E.
Qed.

(* ---------- the offsets of an INDEX: 1, 1 + |o1|, 1 + |o1| + |o2|, ... *)
Lemma index_offsets_length objs : forall off, length (index_offsets off objs) = S (length objs).
Proof. induction objs as [|d r IH]; intros off; [reflexivity|]. cbn [index_offsets length]. rewrite IH. reflexivity. Qed.

Lemma index_offsets_nth objs : forall off (i : nat), (i <= length objs)%nat ->
  nth i (index_offsets off objs) 0 = off + len (concat (firstn i objs)).
Proof.
  induction objs as [|d r IH]; intros off i Hi.
  - cbn [length] in Hi. assert (i = 0%nat) as -> by lia. cbn. unfold len; cbn. lia.
  - destruct i as [|i]; [cbn; unfold len; cbn; lia|].
    cbn [index_offsets nth firstn concat]. rewrite IH by (cbn [length] in Hi; lia). rewrite len_app. lia.
Qed.

Lemma last_nth {A} (l : list A) d : last l d = nth (length l - 1) l d.
Proof.
  induction l as [|x l IH]; [reflexivity|]. destruct l as [|y l]; [reflexivity|].
  change (last (x :: y :: l) d) with (last (y :: l) d). rewrite IH. cbn [length nth].
  replace (S (S (length l)) - 1)%nat with (S (length l)) by lia. cbn [nth].
  replace (S (length l) - 1)%nat with (length l) by lia. reflexivity.
Qed.

Lemma index_offsets_last objs off : last (index_offsets off objs) 0 = off + len (concat objs).
Proof.
  rewrite last_nth, index_offsets_length. replace (S (length objs) - 1)%nat with (length objs) by lia.
  rewrite index_offsets_nth by lia. rewrite firstn_all. reflexivity.
Qed.

Lemma index_offsets_bounds objs off o : 0 <= off -> In o (index_offsets off objs) ->
  0 <= o <= last (index_offsets off objs) 0.
Proof.
  intros Hoff Hin. rewrite index_offsets_last. destruct (In_nth _ _ 0 Hin) as [i [Hi <-]].
  rewrite index_offsets_length in Hi. rewrite index_offsets_nth by lia.
  pose proof (len_nonneg (concat (firstn i objs))).
  assert (len (concat (firstn i objs)) <= len (concat objs)).
  { rewrite <- (firstn_skipn i objs) at 2. rewrite concat_app, len_app. pose proof (len_nonneg (concat (skipn i objs))). lia. }
  lia.
Qed.

(* ---------- reading back the objects *)
Lemma skipn_nth_cons {A} (l : list A) (i : nat) d : (i < length l)%nat -> skipn i l = nth i l d :: skipn (S i) l.
Proof.
  revert i. induction l as [|x l IH]; intros i Hi; cbn [length] in Hi; [lia|].
  destruct i as [|i]; [reflexivity|]. cbn [skipn nth]. apply IH. lia.
Qed.

Lemma concat_split_nth (objs : list (list Z)) (i : nat) : (i < length objs)%nat ->
  concat objs = concat (firstn i objs) ++ nth i objs [] ++ concat (skipn (S i) objs).
Proof.
  intros Hi. rewrite <- (firstn_skipn i objs) at 1. rewrite concat_app. f_equal.
  rewrite (skipn_nth_cons objs i [] Hi). reflexivity.
Qed.

Section IndexObjects.
  Variable objs : list (list Z).
  Variable sz : Z.
  Let offs := index_offsets 1 objs.
  Let ix := {| ix_count := len objs; ix_off_size := sz; ix_offsets := enc_offs sz offs; ix_data := concat objs |}.
  Hypothesis Hsz : 1 <= sz <= 4.
  Hypothesis Hfit : last offs 0 < 256 ^ sz.

  Lemma offs_in_range o : In o offs -> 0 <= o < 256 ^ sz.
  Proof. intros H. pose proof (index_offsets_bounds objs 1 o ltac:(lia) H). fold offs in H0. lia. Qed.

  Lemma lookup_off (i : nat) : (i <= length objs)%nat ->
    lookup_offset_index sz (enc_offs sz offs) (Z.of_nat i) = Ok (1 + len (concat (firstn i objs))).
  Proof.
    intros Hi. rewrite lookup_enc; try exact Hsz; try exact offs_in_range.
    - rewrite Nat2Z.id. unfold offs. rewrite index_offsets_nth by exact Hi. reflexivity.
    - unfold len, offs. rewrite index_offsets_length. lia.
  Qed.

  Lemma index_object_nth (i : nat) : (i < length objs)%nat ->
    index_object ix (Z.of_nat i) = Ok (Some (nth i objs [])).
  Proof.
    intros Hi. unfold index_object. cbn [ix ix_count ix_off_size ix_offsets ix_data].
    replace (Z.of_nat i <? len objs) with true by (unfold len; lia).
    rewrite (lookup_off i) by lia. cbn [bind].
    replace (Z.of_nat i + 1) with (Z.of_nat (S i)) by lia. rewrite (lookup_off (S i)) by lia. cbn [bind].
    set (pre := len (concat (firstn i objs))).
    assert (len (concat (firstn (S i) objs)) = pre + len (nth i objs [])) as Hnext.
    { assert (firstn (S i) objs = firstn i objs ++ [nth i objs []]) as ->.
      { clear -Hi. revert i Hi. induction objs as [|x l IH]; intros i Hi; cbn [length] in Hi; [lia|].
        destruct i as [|i]; [reflexivity|]. cbn [firstn nth app]. f_equal. apply IH. lia. }
      rewrite concat_app, len_app. cbn [concat]. rewrite app_nil_r. reflexivity. }
    set (x := nth i objs []) in *. set (post := concat (skipn (S i) objs)).
    assert (concat objs = concat (firstn i objs) ++ x ++ post) as Hsplit by (apply concat_split_nth; exact Hi).
    rewrite Hnext. rewrite Hsplit. rewrite !len_app. fold pre.
    pose proof (len_nonneg x). pose proof (len_nonneg post). pose proof (len_nonneg (concat (firstn i objs))) as Hp. fold pre in Hp.
    replace ((1 <=? 1 + pre) && (1 + pre <=? 1 + (pre + len x)) &&
             (1 + (pre + len x) - 1 <=? pre + (len x + len post))) with true by lia.
    f_equal. f_equal.
    replace (1 + pre - 1) with pre by lia. unfold pre. rewrite drop_app_exact.
    replace (1 + (len (concat (firstn i objs)) + len x) - (1 + len (concat (firstn i objs)))) with (len x) by lia.
    apply take_app_exact.
  Qed.

  Lemma index_objects_from_skipn : forall (n i : nat), (i + n = length objs)%nat ->
    index_objects_from ix (Z.of_nat i) n = Ok (skipn i objs).
  Proof.
    induction n as [|n IH]; intros i Hi.
    - cbn [index_objects_from]. rewrite skipn_all2 by lia. reflexivity.
    - cbn [index_objects_from]. rewrite index_object_nth by lia. cbn [bind].
      replace (Z.of_nat i + 1) with (Z.of_nat (S i)) by lia. rewrite IH by lia. cbn [bind].
      rewrite (skipn_nth_cons objs i []) by lia. reflexivity.
  Qed.

  Lemma index_objects_all : index_objects ix = Ok objs.
  Proof.
    unfold index_objects. cbn [ix ix_count]. unfold len. rewrite Nat2Z.id.
    exact (index_objects_from_skipn (length objs) 0 ltac:(lia)).
  Qed.
End IndexObjects.

Definition count_prim (wide : bool) : prim := if wide then PU32 else PU16.

(* Theorem: whenever the owned INDEX writer (16- or 32-bit count) returns Ok, the reader parses the
   bytes back into exactly the objects written, consuming exactly the bytes written; the offsets
   start at 1 and use the minimal offset size. *)
Theorem index_roundtrip wide objs b rest c :
  index_write wide objs = Ok b -> cgood c -> at_bytes c (b ++ rest) ->
  exists ix c', index_read wide c = Ok (ix, c') /\ advanced c c' rest /\ index_objects ix = Ok objs.
Proof.
  intros H Hg Hat. unfold index_write in H.
  assert (exists count, (if wide then try_u32 else try_u16) (len objs) = Ok count) as [count Hcnt].
  { destruct ((if wide then try_u32 else try_u16) (len objs)) eqn:E; try discriminate. eauto. }
  rewrite Hcnt in H. cbn [bind] in H.
  assert (count = len objs /\ prim_in_range (count_prim wide) count = true) as [-> Hcr].
  { destruct wide; [unfold try_u32 in Hcnt|unfold try_u16 in Hcnt];
      match type of Hcnt with (if ?b then _ else _) = _ => destruct b eqn:E; [|discriminate] end;
      injection Hcnt as <-; split; [reflexivity| |reflexivity|]; unfold prim_in_range; cbn; lia. }
  fold (count_prim wide) in H. unfold index_read. fold (count_prim wide).
  destruct objs as [|d r] eqn:Eobjs.
  - injection H as <-.
    destruct (read_prim_layout _ c _ rest Hg Hcr Hat) as [c1 [E1 A1]]. rewrite E1. cbn [bind]. cbv beta iota.
    unfold read_index. change (len (@nil (list Z))) with 0. cbn [Z.ltb Z.compare].
    eexists; exists c1. split; [reflexivity|]. split; [exact A1|]. reflexivity.
  - rewrite <- Eobjs in *. assert (objs <> []) as Hne by (rewrite Eobjs; discriminate).
    assert (0 < len objs) as Hpos by (rewrite Eobjs, len_cons; pose proof (len_nonneg r); lia).
    clear Eobjs d r.
    set (offs := index_offsets 1 objs) in *.
    assert (offs <> []) as Hone by (unfold offs; destruct objs; discriminate).
    pose proof (serialise_ok offs Hone (fun o Ho => index_offsets_bounds objs 1 o ltac:(lia) Ho)) as Hser.
    destruct (serialise_offset_array offs) as [[sz arr]| | |] eqn:Es; try discriminate; try contradiction.
    destruct Hser as [Hos ->]. cbn [bind] in H. injection H as <-.
    assert (0 <= last offs 0) as Hl0 by (unfold offs; rewrite index_offsets_last; pose proof (len_nonneg (concat objs)); lia).
    destruct (offset_size_spec _ _ Hl0 Hos) as [Hsz [Hfit _]].
    rewrite <- !app_assoc in Hat. cbn [app] in Hat. rewrite <- ?app_assoc in Hat.
    destruct (read_prim_layout _ c _ _ Hg Hcr Hat) as [c1 [E1 A1]]. rewrite E1. cbn [bind]. cbv beta iota.
    unfold read_index. replace (0 <? len objs) with true by lia.
    destruct (read_u8_at c1 sz (enc_offs sz offs ++ concat objs ++ rest) (proj1 A1) ltac:(lia) (proj2 (proj2 A1))) as [c2 [E2 A2]].
    rewrite E2. cbn [bind]. cbv beta iota. replace ((sz <? 1) || (4 <? sz)) with false by lia.
    assert (len (enc_offs sz offs) = (len objs + 1) * sz) as Hla.
    { rewrite len_enc_offs by lia. unfold offs, len. rewrite index_offsets_length. lia. }
    rewrite <- Hla.
    destruct (read_slice_layout c2 (enc_offs sz offs) (concat objs ++ rest) (proj1 A2) (proj2 (proj2 A2))) as [c3 [E3 A3]].
    rewrite E3. cbn [bind]. cbv beta iota.
    pose proof (lookup_off objs sz Hsz Hfit (length objs) ltac:(lia)) as Hlk.
    change (Z.of_nat (length objs)) with (len objs) in Hlk. fold offs in Hlk. rewrite Hlk. cbn [bind]. rewrite firstn_all.
    pose proof (len_nonneg (concat objs)).
    replace (1 + len (concat objs) <? 1) with false by lia.
    replace (1 + len (concat objs) - 1) with (len (concat objs)) by lia.
    destruct (read_slice_layout c3 (concat objs) rest (proj1 A3) (proj2 (proj2 A3))) as [c4 [E4 A4]].
    rewrite E4. cbn [bind]. cbv beta iota.
    eexists; exists c4. split; [reflexivity|]. split.
    + eapply advanced_trans; [exact A1|]. eapply advanced_trans; [exact A2|]. eapply advanced_trans; [exact A3|exact A4].
    + apply index_objects_all; assumption.
Qed.

(* Refusal: the writer fails exactly when the count or the data does not fit its field; it never
   writes a truncated count or offset. *)
Theorem index_write_refusal wide objs :
  match index_write wide objs with
  | Ok _ => len objs <= (if wide then 4294967295 else 65535) /\ (objs <> [] -> 1 + len (concat objs) <= 4294967295)
  | Err e => e = BadValue /\ ((if wide then 4294967295 else 65535) < len objs \/ 4294967295 < 1 + len (concat objs))
  | _ => False
  end.
Proof.
  unfold index_write. pose proof (len_nonneg objs).
  destruct wide; [unfold try_u32|unfold try_u16];
    match goal with |- context [if ?b then _ else _] => destruct b eqn:E end; cbn [bind]; try (split; [reflexivity|left; lia]).
  all: destruct objs as [|d r] eqn:Eo; [split; [lia|intros Hc; contradiction]|]; rewrite <- Eo in *;
    assert (index_offsets 1 objs <> []) as Hone by (destruct objs; discriminate);
    pose proof (serialise_ok _ Hone (fun o Ho => index_offsets_bounds objs 1 o ltac:(lia) Ho)) as Hser;
    rewrite index_offsets_last in Hser;
    destruct (serialise_offset_array (index_offsets 1 objs)) as [[sz arr]| | |]; try contradiction; cbn [bind].
  - destruct Hser as [Hos _]. pose proof (len_nonneg (concat objs)).
    destruct (offset_size_spec (1 + len (concat objs)) sz ltac:(lia) Hos) as [Hsz [Hfit _]]. split; [lia|]. intros _.
    assert (256 ^ sz <= 4294967296) by (assert (sz = 1 \/ sz = 2 \/ sz = 3 \/ sz = 4) as Hc by lia; destruct Hc as [Hc|[Hc|[Hc|Hc]]]; subst sz; cbn; lia). lia.
  - destruct Hser as [-> Hbig]. split; [reflexivity|right; lia].
  - destruct Hser as [Hos _]. pose proof (len_nonneg (concat objs)).
    destruct (offset_size_spec (1 + len (concat objs)) sz ltac:(lia) Hos) as [Hsz [Hfit _]]. split; [lia|]. intros _.
    assert (256 ^ sz <= 4294967296) by (assert (sz = 1 \/ sz = 2 \/ sz = 3 \/ sz = 4) as Hc by lia; destruct Hc as [Hc|[Hc|[Hc|Hc]]]; subst sz; cbn; lia). lia.
  - destruct Hser as [-> Hbig]. split; [reflexivity|right; lia].
Qed.
