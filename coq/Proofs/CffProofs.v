(* Proofs/CffProofs.v — CFF DICT integer operands (all of i32) and the INDEX structure. *)
From AV Require Import Base.Prelude Base.Lemmas Gen.ReaderPrims Model.Reader Model.ReaderExt
  Proofs.ReaderProofs Proofs.EncodeProofs Model.Layout Proofs.LayoutProofs Gen.TableLayouts Model.Tables Model.Cff.
From Coq Require Import ZifyBool ZifyNat.
Ltac Zify.zify_post_hook ::= Z.div_mod_to_equations.
Open Scope Z_scope.

Definition i32_ok (v : Z) : Prop := -2147483648 <= v <= 2147483647.

Lemma write_prim_u8 b : 0 <= b < 256 -> write_prim PU8 b = [b].
Proof.
  intros H. unfold write_prim. cbn [wsize be_bytes]. change (256 ^ Z.of_nat 0) with 1.
  rewrite Z.div_1_r. rewrite Z.mod_small by lia. reflexivity.
Qed.

Lemma read_u8_at c b rest :
  cgood c -> 0 <= b < 256 -> at_bytes c (b :: rest) ->
  exists c', read_prim PU8 c = Ok (b, c') /\ advanced c c' rest.
Proof.
  intros Hg Hb Hat. apply (read_prim_layout PU8 c b rest Hg).
  - unfold prim_in_range. cbn. lia.
  - rewrite write_prim_u8 by lia. exact Hat.
Qed.

Ltac unfold_cff :=
  cbv [cffw_small_lo cffw_small_hi cffw_small_bias cffw_pos_lo cffw_pos_hi cffw_pos_sub cffw_pos_b0
       cffw_neg_lo cffw_neg_hi cffw_neg_sub cffw_neg_b0 cffw_i16_lo cffw_i16_hi cffw_i16_b0 cffw_i32_b0
       cffw_offset_b0 cffr_i16_b0 cffr_i32_b0 cffr_real_b0 cffr_small_lo cffr_small_hi cffr_small_bias
       cffr_pos_lo cffr_pos_hi cffr_pos_b0 cffr_pos_add cffr_neg_lo cffr_neg_hi cffr_neg_b0 cffr_neg_sub between] in *.

(* pick the branch of the reader's if-chain that the byte value selects *)
Ltac pick_branch :=
  repeat match goal with
         | |- context [if ?b then _ else _] =>
             let E := fresh "E" in destruct b eqn:E; try (exfalso; lia)
         end.

(* Theorem: for EVERY i32 the encoder's choice among the 1-, 2-, 3- and 5-byte forms is decoded
   back to the same integer, consuming exactly the bytes written.  The range edges
   (±107/108, ±1131/1132, -32768/32767) are whatever the source says: the constants are
   regenerated from the Rust on every run. *)
Theorem operand_int_roundtrip v rest c :
  i32_ok v -> cgood c -> at_bytes c (operand_int_write v ++ rest) ->
  exists c', op_read c = Ok (OpInt v, c') /\ advanced c c' rest.
Proof.
  intros Hv Hg Hat. unfold i32_ok in Hv. unfold operand_int_write in Hat. unfold op_read. unfold_cff.
  destruct ((-107 <=? v) && (v <=? 107)) eqn:R1.
  { cbn [app] in Hat. rewrite Z.mod_small in Hat by lia.
    destruct (read_u8_at c (v + 139) rest Hg ltac:(lia) Hat) as [c1 [E1 A1]].
    rewrite E1. cbn [bind]. cbv beta iota. pick_branch.
    exists c1. split; [|exact A1]. f_equal. f_equal. f_equal. lia. }
  destruct ((108 <=? v) && (v <=? 1131)) eqn:R2.
  { cbn [app] in Hat. cbv zeta in Hat. rewrite (Z.mod_small ((v - 108) / 256 + 247)) in Hat by lia.
    destruct (read_u8_at c ((v - 108) / 256 + 247) _ Hg ltac:(lia) Hat) as [c1 [E1 A1]].
    destruct (read_u8_at c1 ((v - 108) mod 256) rest (proj1 A1) ltac:(lia) (proj2 (proj2 A1))) as [c2 [E2 A2]].
    rewrite E1. cbn [bind]. cbv beta iota. pick_branch.
    rewrite E2. cbn [bind]. cbv beta iota.
    exists c2. split; [|eapply advanced_trans; eassumption]. f_equal. f_equal. f_equal. lia. }
  destruct ((-1131 <=? v) && (v <=? -108)) eqn:R3.
  { cbn [app] in Hat. cbv zeta in Hat. rewrite (Z.mod_small ((- v - 108) / 256 + 251)) in Hat by lia.
    destruct (read_u8_at c ((- v - 108) / 256 + 251) _ Hg ltac:(lia) Hat) as [c1 [E1 A1]].
    destruct (read_u8_at c1 ((- v - 108) mod 256) rest (proj1 A1) ltac:(lia) (proj2 (proj2 A1))) as [c2 [E2 A2]].
    rewrite E1. cbn [bind]. cbv beta iota. pick_branch.
    rewrite E2. cbn [bind]. cbv beta iota.
    exists c2. split; [|eapply advanced_trans; eassumption]. f_equal. f_equal. f_equal. lia. }
  destruct ((-32768 <=? v) && (v <=? 32767)) eqn:R4.
  { cbn [app] in Hat.
    assert (to_signed 16 v = v) as Hs.
    { unfold to_signed. change (2 ^ 16) with 65536. change (2 ^ (16 - 1)) with 32768.
      destruct (v mod 65536 <? 32768) eqn:E; lia. }
    rewrite Hs in Hat.
    destruct (read_u8_at c 28 _ Hg ltac:(lia) Hat) as [c1 [E1 A1]].
    assert (prim_in_range PI16 v = true) as Hr by (unfold prim_in_range; cbn; lia).
    destruct (read_prim_layout PI16 c1 v rest (proj1 A1) Hr (proj2 (proj2 A1))) as [c2 [E2 A2]].
    rewrite E1. cbn [bind]. cbv beta iota. pick_branch.
    rewrite E2. cbn [bind]. cbv beta iota.
    exists c2. split; [reflexivity|eapply advanced_trans; eassumption]. }
  { cbn [app] in Hat.
    destruct (read_u8_at c 29 _ Hg ltac:(lia) Hat) as [c1 [E1 A1]].
    assert (prim_in_range PI32 v = true) as Hr by (unfold prim_in_range; cbn; lia).
    destruct (read_prim_layout PI32 c1 v rest (proj1 A1) Hr (proj2 (proj2 A1))) as [c2 [E2 A2]].
    rewrite E1. cbn [bind]. cbv beta iota. pick_branch.
    rewrite E2. cbn [bind]. cbv beta iota.
    exists c2. split; [reflexivity|eapply advanced_trans; eassumption]. }
Qed.

(* offsets are always written in the 5-byte form and read back as the same integer *)
Theorem operand_offset_roundtrip v rest c :
  i32_ok v -> cgood c -> at_bytes c (operand_offset_write v ++ rest) ->
  exists c', op_read c = Ok (OpInt v, c') /\ advanced c c' rest.
Proof.
  intros Hv Hg Hat. unfold i32_ok in Hv. unfold operand_offset_write in Hat. unfold op_read. unfold_cff.
  cbn [app] in Hat.
  destruct (read_u8_at c 29 _ Hg ltac:(lia) Hat) as [c1 [E1 A1]].
  assert (prim_in_range PI32 v = true) as Hr by (unfold prim_in_range; cbn; lia).
  destruct (read_prim_layout PI32 c1 v rest (proj1 A1) Hr (proj2 (proj2 A1))) as [c2 [E2 A2]].
  rewrite E1. cbn [bind]. cbv beta iota. pick_branch.
  rewrite E2. cbn [bind]. cbv beta iota.
  exists c2. split; [reflexivity|eapply advanced_trans; eassumption].
Qed.

(* the size of the chosen form: 1, 2, 3 or 5 bytes, and it is the shortest form that can hold v *)
Theorem operand_int_size v : i32_ok v ->
  len (operand_int_write v) =
    if (-107 <=? v) && (v <=? 107) then 1
    else if (-1131 <=? v) && (v <=? 1131) then 2
    else if (-32768 <=? v) && (v <=? 32767) then 3 else 5.
Proof.
  intros Hv. unfold operand_int_write. unfold_cff.
  destruct ((-107 <=? v) && (v <=? 107)) eqn:R1; [reflexivity|].
  destruct ((108 <=? v) && (v <=? 1131)) eqn:R2.
  { replace ((-1131 <=? v) && (v <=? 1131)) with true by lia. reflexivity. }
  destruct ((-1131 <=? v) && (v <=? -108)) eqn:R3.
  { replace ((-1131 <=? v) && (v <=? 1131)) with true by lia. reflexivity. }
  replace ((-1131 <=? v) && (v <=? 1131)) with false by lia.
  destruct ((-32768 <=? v) && (v <=? 32767)) eqn:R4.
  - rewrite len_cons, len_write_prim. reflexivity.
  - rewrite len_cons, len_write_prim. reflexivity.
Qed.
