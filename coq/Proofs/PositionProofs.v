(* Proofs/PositionProofs.v — glyph_positions: advances, mark placement relative to the base in both text
   directions (position_marks), first pass. *)
From AV Require Import Base.Prelude Base.Lemmas Model.Layout Model.Gpos Model.Position Model.GposSpec.
From Coq Require Import ZifyBool.
Open Scope Z_scope.

(* ------------------------------------------------------------------ indexed access *)
Lemma nth_opt_range {A} (l : list A) k x : nth_opt l k = Some x -> 0 <= k < len l.
Proof.
  unfold nth_opt. destruct (k <? 0) eqn:E; [discriminate|]. intros H.
  assert (Z.to_nat k < length l)%nat by (apply nth_error_Some; congruence). unfold len. lia.
Qed.

Lemma nth_opt_in_range {A} (l : list A) k : 0 <= k < len l -> exists x, nth_opt l k = Some x.
Proof.
  intros H. unfold nth_opt. replace (k <? 0) with false by lia.
  destruct (nth_error l (Z.to_nat k)) eqn:E; [eauto|]. apply nth_error_None in E. unfold len in H. lia.
Qed.

Lemma split_at_Z {A} (l : list A) k x : nth_opt l k = Some x ->
  exists a b, l = a ++ x :: b /\ len a = k.
Proof.
  intros H. pose proof (nth_opt_range _ _ _ H) as Hr. unfold nth_opt in H. replace (k <? 0) with false in H by lia.
  apply nth_error_split in H. destruct H as (a & b & -> & Hl). exists a, b. split; [reflexivity|unfold len; lia].
Qed.

Lemma nth_opt_app_l {A} (a b : list A) k : 0 <= k < len a -> nth_opt (a ++ b) k = nth_opt a k.
Proof. intros H. unfold nth_opt. replace (k <? 0) with false by lia. apply nth_error_app1. unfold len in H. lia. Qed.

Lemma nth_opt_app_r {A} (a b : list A) k : len a <= k -> nth_opt (a ++ b) k = nth_opt b (k - len a).
Proof.
  intros H. pose proof (len_nonneg a). unfold nth_opt. replace (k <? 0) with false by lia.
  replace (k - len a <? 0) with false by lia. rewrite nth_error_app2 by (unfold len in H; lia).
  f_equal. unfold len. lia.
Qed.

Lemma take_app_len' {A} (a b : list A) : take (len a) (a ++ b) = a.
Proof. unfold take, len. rewrite Nat2Z.id, firstn_app, Nat.sub_diag, firstn_all. cbn [firstn]. apply app_nil_r. Qed.
Lemma drop_app_len' {A} (a b : list A) : drop (len a) (a ++ b) = b.
Proof. unfold drop, len. rewrite Nat2Z.id, skipn_app, skipn_all, Nat.sub_diag. reflexivity. Qed.

Lemma pset_mid a p b p' : pset (a ++ p :: b) (len a) p' = a ++ p' :: b.
Proof. unfold pset. rewrite take_app_len', drop_app_len'. reflexivity. Qed.

Lemma pset_spec ps i p p0 : nth_opt ps i = Some p0 ->
  len (pset ps i p) = len ps /\ nth_opt (pset ps i p) i = Some p /\
  (forall k, k <> i -> nth_opt (pset ps i p) k = nth_opt ps k).
Proof.
  intros H. destruct (split_at_Z _ _ _ H) as (a & b & -> & <-). rewrite pset_mid.
  split; [rewrite !len_app, !len_cons; reflexivity|]. pose proof (len_nonneg a). split.
  - rewrite nth_opt_app_r by lia. replace (len a - len a) with 0 by lia. reflexivity.
  - intros k Hk. destruct (Z_lt_ge_dec k (len a)).
    + destruct (Z_lt_ge_dec k 0).
      * unfold nth_opt. replace (k <? 0) with true by lia. reflexivity.
      * rewrite !nth_opt_app_l by lia. reflexivity.
    + rewrite !nth_opt_app_r by lia. unfold nth_opt. replace (k - len a <? 0) with false by lia.
      replace (Z.to_nat (k - len a)) with (S (Z.to_nat (k - len a - 1))) by lia. reflexivity.
Qed.

Lemma pget_ok ps i p : pget ps i = Ok p <-> nth_opt ps i = Some p.
Proof. unfold pget. destruct (nth_opt ps i); split; intros H; inversion H; reflexivity. Qed.

(* ------------------------------------------------------------------ sums of advances *)
Definition horis (ps : list gpos_pos) : list Z := map hori_advance ps.
Definition verts (ps : list gpos_pos) : list Z := map vert_advance ps.
Definition zsum (l : list Z) : Z := fold_left Z.add l 0.

Lemma fold_add_acc (l : list Z) a : fold_left Z.add l a = a + fold_left Z.add l 0.
Proof. revert a; induction l as [|x l IH]; intros a; cbn [fold_left]; [lia|]. rewrite IH, (IH (0 + x)). lia. Qed.

Lemma zsum_app a b : zsum (a ++ b) = zsum a + zsum b.
Proof. unfold zsum. rewrite fold_left_app, fold_add_acc. reflexivity. Qed.

Lemma zsum_cons x l : zsum (x :: l) = x + zsum l.
Proof. unfold zsum. cbn [fold_left]. rewrite fold_add_acc. lia. Qed.

Lemma sum_adv_horis ps : sum_adv ps = zsum (horis ps).
Proof.
  unfold sum_adv, zsum, horis. generalize 0. induction ps as [|p ps IH]; intros a; cbn [fold_left map]; [reflexivity|apply IH].
Qed.

Lemma fold_hori_horis ps : fold_left (fun acc p => acc + hori_advance p) ps 0 = zsum (horis ps).
Proof. apply sum_adv_horis. Qed.

Lemma fold_vert_verts ps : fold_left (fun acc p => acc + vert_advance p) ps 0 = zsum (verts ps).
Proof.
  unfold zsum, verts. generalize 0. induction ps as [|p ps IH]; intros a; cbn [fold_left map]; [reflexivity|apply IH].
Qed.

Lemma take_map {A B} (f : A -> B) n l : take n (map f l) = map f (take n l).
Proof. unfold take. apply firstn_map. Qed.
Lemma drop_map {A B} (f : A -> B) n l : drop n (map f l) = map f (drop n l).
Proof. unfold drop. apply skipn_map. Qed.

Lemma sum_hori_horis ps a b : sum_hori ps a b =
  if (a <=? b) && (b <=? len ps) then zsum (take (b - a) (drop a (horis ps))) else 0.
Proof. unfold sum_hori. destruct ((a <=? b) && (b <=? len ps)); [|reflexivity]. rewrite fold_hori_horis. unfold horis. rewrite drop_map, take_map. reflexivity. Qed.

Lemma sum_vert_verts ps a b : sum_vert ps a b =
  if (a <=? b) && (b <=? len ps) then zsum (take (b - a) (drop a (verts ps))) else 0.
Proof. unfold sum_vert. destruct ((a <=? b) && (b <=? len ps)); [|reflexivity]. rewrite fold_vert_verts. unfold verts. rewrite drop_map, take_map. reflexivity. Qed.

(* sum over [0,b) = sum over [0,a) + sum over [a,b) *)
Lemma zsum_take_split (l : list Z) a b : 0 <= a <= b -> b <= len l ->
  zsum (take b l) = zsum (take a l) + zsum (take (b - a) (drop a l)).
Proof.
  intros Ha Hb. rewrite <- zsum_app. f_equal.
  unfold take, drop. replace (Z.to_nat b) with (Z.to_nat a + Z.to_nat (b - a))%nat by lia.
  rewrite <- (firstn_skipn (Z.to_nat a) l) at 1.
  rewrite firstn_app, firstn_firstn.
  replace (Nat.min (Z.to_nat a + Z.to_nat (b - a)) (Z.to_nat a)) with (Z.to_nat a) by lia.
  f_equal. rewrite firstn_length. unfold len in Hb.
  replace (Z.to_nat a + Z.to_nat (b - a) - Nat.min (Z.to_nat a) (length l))%nat with (Z.to_nat (b - a)) by lia.
  reflexivity.
Qed.

(* ------------------------------------------------------------------ position_marks *)
Definition is_markish (p : placement) : bool :=
  match p with PMarkAnchor _ _ _ | PMarkOverprint _ => true | _ => false end.

(* what position_marks leaves alone *)
Definition same_advances (ps ps' : list gpos_pos) : Prop := horis ps' = horis ps /\ verts ps' = verts ps.

Lemma pset_same_advances ps i p p0 : nth_opt ps i = Some p0 ->
  hori_advance p = hori_advance p0 -> vert_advance p = vert_advance p0 -> same_advances ps (pset ps i p).
Proof.
  intros H Hh Hv. destruct (split_at_Z _ _ _ H) as (a & b & -> & <-). rewrite pset_mid.
  unfold same_advances, horis, verts. rewrite !map_app. cbn [map]. rewrite Hh, Hv. split; reflexivity.
Qed.

Lemma same_advances_trans a b c : same_advances a b -> same_advances b c -> same_advances a c.
Proof. unfold same_advances. intros [H1 H2] [H3 H4]. split; congruence. Qed.

Lemma same_advances_len a b : same_advances a b -> len b = len a.
Proof. intros [H _]. unfold horis in H. unfold len. rewrite <- (map_length hori_advance b), H, map_length. reflexivity. Qed.

(* the mark's final offset in terms of the final offset of its base (the base comes first and is final) *)
Definition mark_final (dir : direction) (ps0 ps' : list gpos_pos) (k b : Z) : Prop :=
  exists p0 pb p',
    nth_opt ps0 k = Some p0 /\ nth_opt ps' b = Some pb /\ nth_opt ps' k = Some p' /\
    match dir with
    | LeftToRight =>
      x_offset p' = x_offset p0 + x_offset pb - sum_hori ps0 b k /\
      y_offset p' = y_offset p0 + y_offset pb - sum_vert ps0 b k
    | RightToLeft =>
      x_offset p' = x_offset p0 + x_offset pb + sum_hori ps0 k b /\
      y_offset p' = y_offset p0 + y_offset pb + sum_vert ps0 k b
    end.

Lemma sum_hori_same ps ps' a b : same_advances ps ps' -> sum_hori ps' a b = sum_hori ps a b.
Proof. intros H. rewrite !sum_hori_horis. rewrite (same_advances_len _ _ H). destruct H as [-> _]. reflexivity. Qed.
Lemma sum_vert_same ps ps' a b : same_advances ps ps' -> sum_vert ps' a b = sum_vert ps a b.
Proof. intros H. rewrite !sum_vert_verts. rewrite (same_advances_len _ _ H). destruct H as [_ ->]. reflexivity. Qed.

Lemma position_marks_spec dir : forall todo i ps ps',
  0 <= i -> position_marks dir todo i ps = Ok ps' ->
  same_advances ps ps' /\
  (forall k, k < i \/ i + len todo <= k -> nth_opt ps' k = nth_opt ps k) /\
  (forall j x b ba ma, nth_opt todo j = Some x -> i_place x = PMarkAnchor b ba ma -> 0 <= b < i + j ->
     mark_final dir ps ps' (i + j) b) /\
  (forall j x, nth_opt todo j = Some x -> is_markish (i_place x) = false -> nth_opt ps' (i + j) = nth_opt ps (i + j)).
Proof.
  induction todo as [|x todo IH]; intros i ps ps' Hi H; cbn [position_marks] in H.
  - inversion H; subst. split; [split; reflexivity|]. split; [reflexivity|]. split.
    + intros j ? ? ? ? Hj. unfold nth_opt in Hj. destruct (j <? 0); [discriminate|]. destruct (Z.to_nat j); discriminate.
    + intros j ? Hj. unfold nth_opt in Hj. destruct (j <? 0); [discriminate|]. destruct (Z.to_nat j); discriminate.
  - rewrite len_cons.
    assert (Hskip : forall ps1, same_advances ps ps1 ->
              (forall k, k <> i -> nth_opt ps1 k = nth_opt ps k) ->
              position_marks dir todo (i + 1) ps1 = Ok ps' ->
              (forall b ba ma, i_place x = PMarkAnchor b ba ma -> 0 <= b < i -> mark_final dir ps ps1 i b /\ nth_opt ps1 i <> None) ->
              (is_markish (i_place x) = false -> nth_opt ps1 i = nth_opt ps i) ->
              same_advances ps ps' /\
              (forall k, k < i \/ i + (1 + len todo) <= k -> nth_opt ps' k = nth_opt ps k) /\
              (forall j x0 b ba ma, nth_opt (x :: todo) j = Some x0 -> i_place x0 = PMarkAnchor b ba ma -> 0 <= b < i + j ->
                 mark_final dir ps ps' (i + j) b) /\
              (forall j x0, nth_opt (x :: todo) j = Some x0 -> is_markish (i_place x0) = false -> nth_opt ps' (i + j) = nth_opt ps (i + j))).
    { intros ps1 Hsa Hoth Hrest Hmark Hnm. pose proof (len_nonneg todo) as Hlt.
      destruct (IH (i + 1) ps1 ps' ltac:(lia) Hrest) as (S1 & S2 & S3 & S4).
      split; [eapply same_advances_trans; eassumption|]. split; [|split].
      - intros k Hk. rewrite S2 by lia. apply Hoth. lia.
      - intros j x0 b ba ma Hj Hp Hb.
        pose proof (nth_opt_range _ _ _ Hj) as Hjr.
        destruct (Z.eq_dec j 0) as [->|Hj0].
        + unfold nth_opt in Hj. cbn in Hj. inversion Hj; subst x0.
          replace (i + 0) with i in * by lia.
          destruct (Hmark b ba ma Hp Hb) as ((p0 & pb & p' & M1 & M2 & M3 & M4) & _).
          exists p0, pb, p'. rewrite !S2 by lia. repeat split; assumption.
        + assert (Hj' : nth_opt todo (j - 1) = Some x0).
          { unfold nth_opt in *. destruct (j <? 0) eqn:E; [discriminate|]. replace (j - 1 <? 0) with false by lia.
            replace (Z.to_nat j) with (S (Z.to_nat (j - 1))) in Hj by lia. exact Hj. }
          specialize (S3 (j - 1) x0 b ba ma Hj' Hp ltac:(lia)).
          replace (i + 1 + (j - 1)) with (i + j) in S3 by lia.
          destruct S3 as (p0 & pb & p' & M1 & M2 & M3 & M4).
          exists p0, pb, p'. rewrite <- (Hoth (i + j)) by lia. repeat split; try assumption.
          destruct dir; rewrite <- (sum_hori_same ps ps1), <- (sum_vert_same ps ps1) by assumption; exact M4.
      - intros j x0 Hj Hn. pose proof (nth_opt_range _ _ _ Hj) as Hjr.
        destruct (Z.eq_dec j 0) as [->|Hj0].
        + unfold nth_opt in Hj. cbn in Hj. inversion Hj; subst x0. replace (i + 0) with i by lia.
          rewrite S2 by lia. apply Hnm. exact Hn.
        + assert (Hj' : nth_opt todo (j - 1) = Some x0).
          { unfold nth_opt in *. destruct (j <? 0) eqn:E; [discriminate|]. replace (j - 1 <? 0) with false by lia.
            replace (Z.to_nat j) with (S (Z.to_nat (j - 1))) in Hj by lia. exact Hj. }
          pose proof (S4 (j - 1) x0 Hj' Hn) as E. replace (i + 1 + (j - 1)) with (i + j) in E by lia.
          rewrite E. apply Hoth. lia. }
    destruct (i_place x) as [|dx dy|b ba ma|b|e r a1 a2] eqn:Ep.
    + apply (Hskip ps); [split; reflexivity|reflexivity|exact H| |reflexivity]. intros; discriminate.
    + apply (Hskip ps); [split; reflexivity|reflexivity|exact H| |reflexivity]. intros; discriminate.
    + destruct (pget ps b) as [bp| | |] eqn:Eb; cbn [bind] in H; try discriminate.
      apply pget_ok in Eb.
      destruct (pget ps i) as [p| | |] eqn:Ei.
      2-4: (destruct dir; cbn [bind] in H; discriminate).
      apply pget_ok in Ei.
      set (p' := match dir with
                 | LeftToRight => set_y (set_x p (x_offset p + x_offset bp - sum_hori ps b i)) (y_offset p + y_offset bp - sum_vert ps b i)
                 | RightToLeft => set_y (set_x p (x_offset p + x_offset bp + sum_hori ps i b)) (y_offset p + y_offset bp + sum_vert ps i b)
                 end).
      assert (Hrest : position_marks dir todo (i + 1) (pset ps i p') = Ok ps').
      { destruct dir; cbn [bind] in H; exact H. }
      destruct (pset_spec ps i p' p Ei) as (L1 & L2 & L3).
      apply (Hskip (pset ps i p')).
      * apply (pset_same_advances ps i p' p Ei); destruct dir; reflexivity.
      * exact L3.
      * exact Hrest.
      * intros b0 ba0 ma0 Heq Hb0. inversion Heq; subst b0 ba0 ma0. split; [|rewrite L2; discriminate].
        exists p, bp, p'. rewrite L3 by lia. repeat split; try assumption.
        destruct dir; cbn; split; reflexivity.
      * cbn. discriminate.
    + destruct (pget ps b) as [bp| | |] eqn:Eb; cbn [bind] in H; try discriminate.
      destruct (pget ps i) as [p| | |] eqn:Ei; cbn [bind] in H; try discriminate.
      apply pget_ok in Ei.
      destruct (pset_spec ps i (set_y (set_x p (x_offset bp)) (y_offset bp)) p Ei) as (L1 & L2 & L3).
      apply (Hskip (pset ps i (set_y (set_x p (x_offset bp)) (y_offset bp)))).
      * apply (pset_same_advances ps i _ p Ei); reflexivity.
      * exact L3.
      * exact H.
      * intros; discriminate.
      * cbn. discriminate.
    + apply (Hskip ps); [split; reflexivity|reflexivity|exact H| |reflexivity]. intros; discriminate.
Qed.

(* ------------------------------------------------------------------ pen positions of marks *)
Lemma nth_opt_map {A B} (f : A -> B) l k : nth_opt (map f l) k = option_map f (nth_opt l k).
Proof. unfold nth_opt. destruct (k <? 0); [reflexivity|]. apply nth_error_map. Qed.

Lemma zsum_zero l : (forall x, In x l -> x = 0) -> zsum l = 0.
Proof.
  induction l as [|x l IH]; intros H; [reflexivity|]. rewrite zsum_cons, IH; [|intros; apply H; right; assumption].
  rewrite (H x (or_introl eq_refl)). reflexivity.
Qed.

Lemma In_take_drop {A} (l : list A) : forall a n x, In x (firstn n (skipn a l)) ->
  exists k, (a <= k < a + n)%nat /\ nth_error l k = Some x.
Proof.
  induction l as [|y l IH]; intros a n x H.
  - rewrite skipn_nil, firstn_nil in H. destruct H.
  - destruct a as [|a].
    + cbn [skipn] in H. destruct n as [|n]; [destruct H|]. cbn [firstn In] in H. destruct H as [->|H].
      * exists 0%nat. split; [lia|reflexivity].
      * change l with (skipn 0 l) in H. destruct (IH 0%nat n x H) as (k & Hk & Hn). exists (S k). split; [lia|exact Hn].
    + cbn [skipn] in H. destruct (IH a n x H) as (k & Hk & Hn). exists (S k). split; [lia|exact Hn].
Qed.

Lemma glyph_x_ltr ps i p : nth_opt ps i = Some p -> glyph_x LeftToRight ps i = zsum (take i (horis ps)) + x_offset p.
Proof. intros H. unfold glyph_x, pen_x. rewrite H, sum_adv_horis. unfold horis. rewrite take_map. reflexivity. Qed.

Lemma glyph_x_rtl ps i p : nth_opt ps i = Some p -> glyph_x RightToLeft ps i = - zsum (take (i + 1) (horis ps)) + x_offset p.
Proof. intros H. unfold glyph_x, pen_x. rewrite H, sum_adv_horis. unfold horis. rewrite take_map. reflexivity. Qed.

(* Left to right: after position_marks every anchored mark sits at the position of its base plus the offset it
   had before (base anchor - mark anchor), whatever lies between base and mark and whatever moved the base. *)
Theorem marks_follow_base_ltr : forall infos ps ps' j x b ba ma p0,
  position_marks LeftToRight infos 0 ps = Ok ps' ->
  nth_opt infos j = Some x -> i_place x = PMarkAnchor b ba ma -> 0 <= b < j ->
  nth_opt ps j = Some p0 ->
  glyph_x LeftToRight ps' j = glyph_x LeftToRight ps' b + x_offset p0 /\
  ((forall v, In v (verts ps) -> v = 0) -> glyph_y ps' j = glyph_y ps' b + y_offset p0).
Proof.
  intros infos ps ps' j x b ba ma p0 H Hj Hp Hb H0.
  destruct (position_marks_spec LeftToRight infos 0 ps ps' ltac:(lia) H) as (Hsa & _ & S3 & _).
  specialize (S3 j x b ba ma Hj Hp ltac:(lia)). replace (0 + j) with j in S3 by lia.
  destruct S3 as (p0' & pb & p' & M1 & M2 & M3 & M4 & M5). rewrite H0 in M1. inversion M1; subst p0'.
  pose proof (nth_opt_range _ _ _ H0) as Hjr. pose proof Hsa as [Hh Hv].
  split.
  - rewrite (glyph_x_ltr ps' j p' M3), (glyph_x_ltr ps' b pb M2), M4, Hh.
    rewrite sum_hori_horis. replace ((b <=? j) && (j <=? len ps)) with true by lia.
    rewrite (zsum_take_split (horis ps) b j) by (unfold horis, len in *; rewrite ?map_length; lia). lia.
  - intros Hz. unfold glyph_y. rewrite M3, M2, M5. rewrite sum_vert_verts.
    replace ((b <=? j) && (j <=? len ps)) with true by lia.
    rewrite zsum_zero; [lia|]. intros v Hin. apply Hz. unfold take, drop in Hin.
    apply In_take_drop in Hin. destruct Hin as (k & _ & Hk). eapply nth_error_In; eassumption.
Qed.

(* Right to left: the same holds when the glyphs from just after the base up to the mark itself have zero
   advance (the mark loop adds an empty sum, because the base precedes the mark in logical order) *)
Theorem marks_follow_base_rtl : forall infos ps ps' j x b ba ma p0,
  position_marks RightToLeft infos 0 ps = Ok ps' ->
  nth_opt infos j = Some x -> i_place x = PMarkAnchor b ba ma -> 0 <= b < j ->
  nth_opt ps j = Some p0 ->
  glyph_x RightToLeft ps' j = glyph_x RightToLeft ps' b + x_offset p0 - zsum (take (j - b) (drop (b + 1) (horis ps))) /\
  glyph_y ps' j = glyph_y ps' b + y_offset p0.
Proof.
  intros infos ps ps' j x b ba ma p0 H Hj Hp Hb H0.
  destruct (position_marks_spec RightToLeft infos 0 ps ps' ltac:(lia) H) as (Hsa & _ & S3 & _).
  specialize (S3 j x b ba ma Hj Hp ltac:(lia)). replace (0 + j) with j in S3 by lia.
  destruct S3 as (p0' & pb & p' & M1 & M2 & M3 & M4 & M5). rewrite H0 in M1. inversion M1; subst p0'.
  pose proof (nth_opt_range _ _ _ H0) as Hjr. pose proof Hsa as [Hh Hv].
  split.
  - rewrite (glyph_x_rtl ps' j p' M3), (glyph_x_rtl ps' b pb M2), M4, Hh.
    unfold sum_hori. replace ((j <=? b) && (b <=? len ps)) with false by lia.
    rewrite (zsum_take_split (horis ps) (b + 1) (j + 1)) by (unfold horis, len in *; rewrite ?map_length; lia).
    replace (j + 1 - (b + 1)) with (j - b) by lia. lia.
  - unfold glyph_y. rewrite M3, M2, M5. unfold sum_vert. replace ((j <=? b) && (b <=? len ps)) with false by lia. lia.
Qed.

(* ------------------------------------------------------------------ first pass (runs without cursive anchors) *)
Definition is_cursive (p : placement) : bool := match p with PCursiveAnchor _ _ _ _ => true | _ => false end.

Definition pass1_entry (advs : list Z) (x : info) : gpos_pos :=
  let h := glyph_adv advs (i_id x) + i_kern x in
  match i_place x with
  | PNone => mkPos h 0 0 0 None
  | PDistance dx dy => mkPos h 0 dx dy None
  | PMarkAnchor _ (bx, by_) (mx, my) => mkPos h 0 (bx - mx) (by_ - my) None
  | PMarkOverprint _ => mkPos 0 0 0 0 None
  | PCursiveAnchor _ _ _ _ => mkPos h 0 0 0 None
  end.

Lemma first_pass_nocursive advs infos : forall todo done hm hc ps' hm' hc',
  forallb (fun x => negb (is_cursive (i_place x))) todo = true ->
  first_pass advs infos todo (len done) (done ++ map (fun _ => pos_default) todo) hm hc = Ok (ps', hm', hc') ->
  ps' = done ++ map (pass1_entry advs) todo /\ hc' = hc /\
  hm' = hm || existsb (fun x => is_markish (i_place x)) todo.
Proof.
  induction todo as [|x todo IH]; intros done hm hc ps' hm' hc' Hnc H; cbn [first_pass map] in H.
  - inversion H; subst. cbn [existsb]. rewrite orb_false_r. repeat split; reflexivity.
  - cbn [forallb] in Hnc. apply andb_true_iff in Hnc. destruct Hnc as [Hx Hnc].
    assert (Hg : pget (done ++ pos_default :: map (fun _ => pos_default) todo) (len done) = Ok pos_default).
    { apply pget_ok. pose proof (len_nonneg done). rewrite nth_opt_app_r by lia. replace (len done - len done) with 0 by lia. reflexivity. }
    rewrite Hg in H. cbn [bind] in H.
    assert (Hstep : forall e hm1, first_pass advs infos todo (len done + 1)
                (pset (done ++ pos_default :: map (fun _ => pos_default) todo) (len done) e) hm1 hc = Ok (ps', hm', hc') ->
              e = pass1_entry advs x -> hm1 = hm || is_markish (i_place x) ->
              ps' = done ++ map (pass1_entry advs) (x :: todo) /\ hc' = hc /\
              hm' = hm || existsb (fun x => is_markish (i_place x)) (x :: todo)).
    { intros e hm1 Hf -> ->. rewrite pset_mid in Hf.
      replace (done ++ pass1_entry advs x :: map (fun _ => pos_default) todo)
        with ((done ++ [pass1_entry advs x]) ++ map (fun _ => pos_default) todo) in Hf by (rewrite <- app_assoc; reflexivity).
      replace (len done + 1) with (len (done ++ [pass1_entry advs x])) in Hf by (rewrite len_app; unfold len; cbn [length]; lia).
      destruct (IH _ _ _ _ _ _ Hnc Hf) as (-> & -> & ->). split; [rewrite <- app_assoc; reflexivity|]. split; [reflexivity|].
      cbn [existsb]. rewrite orb_assoc. reflexivity. }
    unfold pass1_entry in Hstep.
    destruct (i_place x) as [|dx dy|b [bx by_] [mx my]|b|e r a1 a2] eqn:Ep; cbn [is_cursive negb] in Hx; try discriminate.
    + eapply Hstep; [exact H|reflexivity|cbn; rewrite orb_false_r; reflexivity].
    + eapply Hstep; [exact H|reflexivity|cbn; rewrite orb_false_r; reflexivity].
    + destruct (nth_opt infos b); [|discriminate]. eapply Hstep; [exact H|reflexivity|cbn; rewrite orb_true_r; reflexivity].
    + destruct (nth_opt infos b); [|discriminate]. eapply Hstep; [exact H|reflexivity|cbn; rewrite orb_true_r; reflexivity].
Qed.

Definition no_cursive (infos : list info) : Prop := forallb (fun x => negb (is_cursive (i_place x))) infos = true.

Lemma glyph_positions_nocursive advs dir infos ps :
  no_cursive infos -> glyph_positions advs dir infos = Ok ps ->
  (existsb (fun x => is_markish (i_place x)) infos = false /\ ps = map (pass1_entry advs) infos) \/
  position_marks dir infos 0 (map (pass1_entry advs) infos) = Ok ps.
Proof.
  intros Hnc H. unfold glyph_positions in H.
  destruct (first_pass advs infos infos 0 (map (fun _ => pos_default) infos) false false) as [[[ps1 hm] hc]| | |] eqn:E;
    cbn [bind] in H; try discriminate.
  destruct (first_pass_nocursive advs infos infos [] false false ps1 hm hc Hnc E) as (-> & -> & ->). cbn [app orb] in H. cbn [bind] in H.
  destruct (existsb (fun x => is_markish (i_place x)) infos) eqn:Em; [right; exact H|left; inversion H; split; reflexivity].
Qed.

(* The final pen positions: every glyph advances by its font advance plus the accumulated kerning (an overprint
   mark by 0), and every anchored mark sits at its base's position plus base anchor minus mark anchor. *)
Theorem pen_positions_spec : forall advs dir infos ps,
  no_cursive infos -> glyph_positions advs dir infos = Ok ps ->
  len ps = len infos /\
  (forall k x p, nth_opt infos k = Some x -> nth_opt ps k = Some p ->
     vert_advance p = 0 /\
     hori_advance p = match i_place x with PMarkOverprint _ => 0 | _ => glyph_adv advs (i_id x) + i_kern x end /\
     match i_place x with
     | PNone => x_offset p = 0 /\ y_offset p = 0
     | PDistance dx dy => x_offset p = dx /\ y_offset p = dy
     | _ => True
     end) /\
  (forall j x b bx by_ mx my, nth_opt infos j = Some x -> i_place x = PMarkAnchor b (bx, by_) (mx, my) -> 0 <= b < j ->
     glyph_y ps j = glyph_y ps b + (by_ - my) /\
     match dir with
     | LeftToRight => glyph_x dir ps j = glyph_x dir ps b + (bx - mx)
     | RightToLeft => glyph_x dir ps j = glyph_x dir ps b + (bx - mx)
                                         - zsum (take (j - b) (drop (b + 1) (horis ps)))
     end).
Proof.
  intros advs dir infos ps Hnc H.
  set (ps1 := map (pass1_entry advs) infos).
  assert (Hl1 : len ps1 = len infos) by (unfold ps1, len; rewrite map_length; reflexivity).
  assert (Hv1 : forall v, In v (verts ps1) -> v = 0).
  { intros v Hin. unfold verts, ps1 in Hin. rewrite map_map in Hin. apply in_map_iff in Hin.
    destruct Hin as (x & <- & _). unfold pass1_entry. destruct (i_place x) as [| | ? [? ?] [? ?] | |]; reflexivity. }
  assert (Hentry : forall k x, nth_opt infos k = Some x -> nth_opt ps1 k = Some (pass1_entry advs x)).
  { intros k x Hk. unfold ps1. rewrite nth_opt_map, Hk. reflexivity. }
  destruct (glyph_positions_nocursive advs dir infos ps Hnc H) as [[Hnm ->]|Hm].
  - fold ps1. split; [exact Hl1|]. split.
    + intros k x p Hk Hp. rewrite (Hentry k x Hk) in Hp. inversion Hp; subst p. unfold pass1_entry.
      destruct (i_place x) as [| | ? [? ?] [? ?] | |]; cbn; repeat split; reflexivity.
    + intros j x b bx by_ mx my Hj Hp Hb. exfalso.
      assert (Hin : In x infos).
      { unfold nth_opt in Hj. destruct (j <? 0); [discriminate|]. eapply nth_error_In; eassumption. }
      assert (Ht : existsb (fun x => is_markish (i_place x)) infos = true).
      { apply existsb_exists. exists x. split; [exact Hin|rewrite Hp; reflexivity]. }
      congruence.
  - fold ps1 in Hm.
    destruct (position_marks_spec dir infos 0 ps1 ps ltac:(lia) Hm) as (Hsa & _ & _ & S4).
    pose proof (same_advances_len _ _ Hsa) as Hlen. pose proof Hsa as [Hh Hv].
    split; [lia|]. split.
    + intros k x p Hk Hp. pose proof (Hentry k x Hk) as He.
      assert (Hadv : hori_advance p = hori_advance (pass1_entry advs x) /\ vert_advance p = vert_advance (pass1_entry advs x)).
      { assert (A : nth_opt (horis ps) k = Some (hori_advance p)) by (unfold horis; rewrite nth_opt_map, Hp; reflexivity).
        assert (B : nth_opt (verts ps) k = Some (vert_advance p)) by (unfold verts; rewrite nth_opt_map, Hp; reflexivity).
        rewrite Hh in A. rewrite Hv in B. unfold horis in A. unfold verts in B. rewrite nth_opt_map, He in A, B.
        cbn in A, B. inversion A; inversion B. split; reflexivity. }
      destruct Hadv as [Ha Hb]. rewrite Ha, Hb.
      assert (Hsame : is_markish (i_place x) = false -> p = pass1_entry advs x).
      { intros Hn. pose proof (S4 k x Hk Hn) as E. replace (0 + k) with k in E by lia. rewrite Hp, He in E. inversion E; reflexivity. }
      unfold pass1_entry in *.
      destruct (i_place x) as [|dx dy| ? [? ?] [? ?] |?|? ? ? ?] eqn:Ep; cbn [hori_advance vert_advance]; repeat split; try reflexivity;
        rewrite (Hsame eq_refl); reflexivity.
    + intros j x b bx by_ mx my Hj Hp Hb.
      pose proof (Hentry j x Hj) as He. unfold pass1_entry in He. rewrite Hp in He.
      destruct dir.
      * destruct (marks_follow_base_ltr infos ps1 ps j x b (bx, by_) (mx, my) _ Hm Hj Hp Hb He) as [Hx Hy].
        cbn [x_offset y_offset] in Hx, Hy. split; [apply Hy; exact Hv1|exact Hx].
      * destruct (marks_follow_base_rtl infos ps1 ps j x b (bx, by_) (mx, my) _ Hm Hj Hp Hb He) as [Hx Hy].
        cbn [x_offset y_offset] in Hx, Hy. split; [exact Hy|]. rewrite Hh. exact Hx.
Qed.
