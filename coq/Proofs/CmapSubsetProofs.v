(* Proofs/CmapSubsetProofs.v — the cmap builders of the subsetter (Model/CmapSubset.v) produce
   sub-tables whose lookups (Model/Cmap.v, proved conformant in C06) return exactly the mappings
   they were built from. *)
From AV Require Import Base.Prelude Base.Lemmas Gen.CmapPrefs Model.MacRoman Model.Cmap Model.CmapSpec
  Model.CmapSubset Proofs.CmapProofs Proofs.CmapParseProofs Proofs.MacRomanProofs.
Require Import ZifyBool.
Open Scope Z_scope.

(* ------------------------------------------------------------------------------------------- *)
(* mappings: association lists sorted by strictly increasing code *)

Fixpoint assoc_z (c : Z) (M : list (Z * Z)) : option Z :=
  match M with [] => None | (a, g) :: t => if a =? c then Some g else assoc_z c t end.

(* the glyph of code c: the kept mapping, 0 when there is none *)
Definition lookup0 (M : list (Z * Z)) (c : Z) : Z := match assoc_z c M with Some g => g | None => 0 end.

(* every code is above [lo], codes increase strictly, codes and glyph ids are 16 bit values *)
Fixpoint sorted_above (lo : Z) (M : list (Z * Z)) : Prop :=
  match M with
  | [] => True
  | (c, g) :: t => lo < c /\ c <= 65535 /\ 0 <= g <= 65535 /\ sorted_above c t
  end.

Lemma assoc_z_above lo M c : sorted_above lo M -> c <= lo -> assoc_z c M = None.
Proof.
  revert lo. induction M as [|[a g] t IH]; intros lo H Hc; [reflexivity|].
  cbn [sorted_above] in H. destruct H as (H1 & H2 & H3 & H4). cbn [assoc_z].
  replace (a =? c) with false by lia. apply (IH a); [exact H4 | lia].
Qed.

(* ------------------------------------------------------------------------------------------- *)
(* segments: the glyph of a code, on the reversed glyph id vector *)

Definition seg_in (sg : segment) (c : Z) : bool := (sg_start sg <=? c) && (c <=? sg_end sg).
Definition seg_val (sg : segment) (c : Z) : Z := nth (Z.to_nat (sg_end sg - c)) (sg_rgids sg) 0.

Definition seg_wf (sg : segment) : Prop :=
  0 <= sg_start sg /\ sg_start sg <= sg_end sg /\ sg_end sg <= 65535 /\
  len (sg_rgids sg) = sg_end sg - sg_start sg + 1 /\
  Forall (fun g => 0 <= g <= 65535) (sg_rgids sg) /\
  (sg_consec sg = true ->
   forall c, sg_start sg <= c <= sg_end sg ->
             seg_val sg c = (seg_val sg (sg_start sg) + (c - sg_start sg)) mod 65536).

(* first segment that contains c *)
Fixpoint segs_val (segs : list segment) (c : Z) : Z :=
  match segs with
  | [] => 0
  | sg :: t => if seg_in sg c then seg_val sg c else segs_val t c
  end.

Lemma seg_new_wf start gid : 0 <= start <= 65535 -> 0 <= gid <= 65535 -> seg_wf (seg_new start gid).
Proof.
  intros Hs Hg. unfold seg_wf, seg_new. cbn [sg_start sg_end sg_rgids sg_consec].
  split; [lia|]. split; [lia|]. split; [lia|].
  split; [unfold len; cbn [length]; lia|].
  split; [constructor; [lia | constructor]|].
  intros _ c Hc. assert (c = start) by lia. subst. unfold seg_val. cbn [sg_end sg_rgids sg_start].
  replace (start - start) with 0 by lia. cbn [Z.to_nat nth].
  rewrite Z.add_0_r. rewrite Z.mod_small by lia. reflexivity.
Qed.

Lemma nth_repeat_0 n k : nth k (repeat 0 n) 0 = 0.
Proof. revert k. induction n as [|n IH]; intros [|k]; cbn [repeat nth]; auto. Qed.

Lemma at_least_4_len l : at_least_4 l = (4 <=? len l).
Proof.
  destruct l as [|a [|b [|c [|d t]]]]; cbn [at_least_4]; unfold len; cbn [length]; try lia.
Qed.

(* adding a pair to a segment *)
Lemma seg_add_some m sg ch gid sg' :
  seg_wf sg -> sg_end sg < ch -> ch <= 65535 -> 0 <= gid <= 65535 ->
  seg_add m sg ch gid = Ok (Some sg') ->
  seg_wf sg' /\ sg_start sg' = sg_start sg /\ sg_end sg' = ch /\
  seg_val sg' ch = gid /\
  (forall c, sg_end sg < c < ch -> seg_val sg' c = 0) /\
  (forall c, c <= sg_end sg -> seg_val sg' c = seg_val sg c).
Proof.
  intros (W1 & W2 & W3 & W4 & W5 & W6) Hlt Hch Hg H. unfold seg_add in H.
  replace (Z.max 0 (Z.max 0 (ch - sg_end sg) - 1)) with (ch - sg_end sg - 1) in H by lia.
  set (gap := ch - sg_end sg - 1) in *.
  destruct ((0 <? gap) && (sg_consec sg && at_least_4 (sg_rgids sg))); [discriminate|].
  destruct (gap <? 4) eqn:E4; [|discriminate].
  destruct (gap =? 0) eqn:E0.
  - (* consecutive code *)
    assert (Hch' : ch = sg_end sg + 1) by lia.
    destruct (succ_u16 m (hd 0 (sg_rgids sg))) as [next| | |] eqn:ES; cbn [bind] in H; try discriminate.
    inversion H; subst sg'; clear H. cbn [sg_start sg_end sg_rgids sg_consec].
    assert (V1 : forall c, c <= sg_end sg ->
                 nth (Z.to_nat (ch - c)) (gid :: sg_rgids sg) 0 = nth (Z.to_nat (sg_end sg - c)) (sg_rgids sg) 0).
    { intros c Hc. replace (Z.to_nat (ch - c)) with (S (Z.to_nat (sg_end sg - c))) by lia. reflexivity. }
    assert (V0 : nth (Z.to_nat (ch - ch)) (gid :: sg_rgids sg) 0 = gid).
    { replace (ch - ch) with 0 by lia. reflexivity. }
    split; [|split; [reflexivity|split; [reflexivity|split; [exact V0|split; [intros; lia|exact V1]]]]].
    unfold seg_wf. cbn [sg_start sg_end sg_rgids sg_consec].
    split; [lia|]. split; [lia|]. split; [lia|]. split; [rewrite len_cons; lia|].
    split; [constructor; [lia | exact W5]|].
    intros Hcons c Hc. apply andb_prop in Hcons. destruct Hcons as [Hc1 Hc2].
    specialize (W6 Hc1). unfold seg_val in *. cbn [sg_end sg_rgids sg_start] in *.
    rewrite (V1 (sg_start sg)) by lia.
    destruct (Z.eq_dec c ch) as [->|Hne].
    + rewrite V0.
      (* gid = prev + 1 modulo 65536, prev = value at the old end *)
      assert (Hprev : hd 0 (sg_rgids sg) = nth (Z.to_nat (sg_end sg - sg_end sg)) (sg_rgids sg) 0).
      { replace (sg_end sg - sg_end sg) with 0 by lia. destruct (sg_rgids sg); reflexivity. }
      rewrite (W6 (sg_end sg)) in Hprev by lia.
      unfold succ_u16 in ES. set (prev := hd 0 (sg_rgids sg)) in *.
      assert (Hpr : 0 <= prev <= 65535).
      { subst prev. destruct (sg_rgids sg) as [|x t]; cbn [hd]; [lia|]. inversion W5; subst. assumption. }
      assert (Hgid : gid = (prev + 1) mod 65536).
      { destruct (prev + 1 <=? 65535) eqn:EP.
        - inversion ES; subst next. rewrite Z.mod_small by lia. lia.
        - destruct m; [discriminate|]. inversion ES; subst next.
          assert (prev = 65535) by lia. replace (prev + 1) with 65536 by lia. cbn. lia. }
      rewrite Hgid, Hprev. rewrite Z.add_mod_idemp_l by lia. f_equal. lia.
    + rewrite V1 by lia. apply W6. lia.
  - (* a gap of 1..3 codes mapped to glyph 0 *)
    inversion H; subst sg'; clear H. cbn [sg_start sg_end sg_rgids sg_consec].
    assert (Hgap : 0 < gap < 4) by lia.
    assert (V0 : nth (Z.to_nat (ch - ch)) (gid :: repeat 0 (Z.to_nat gap) ++ sg_rgids sg) 0 = gid).
    { replace (ch - ch) with 0 by lia. reflexivity. }
    assert (Vg : forall c, sg_end sg < c < ch ->
                 nth (Z.to_nat (ch - c)) (gid :: repeat 0 (Z.to_nat gap) ++ sg_rgids sg) 0 = 0).
    { intros c Hc. replace (Z.to_nat (ch - c)) with (S (Z.to_nat (ch - c - 1))) by lia. cbn [nth].
      rewrite app_nth1 by (rewrite repeat_length; lia). apply nth_repeat_0. }
    assert (V1 : forall c, c <= sg_end sg ->
                 nth (Z.to_nat (ch - c)) (gid :: repeat 0 (Z.to_nat gap) ++ sg_rgids sg) 0
                 = nth (Z.to_nat (sg_end sg - c)) (sg_rgids sg) 0).
    { intros c Hc. replace (Z.to_nat (ch - c)) with (S (Z.to_nat (ch - c - 1))) by lia. cbn [nth].
      rewrite app_nth2 by (rewrite repeat_length; lia). rewrite repeat_length. f_equal. lia. }
    split; [|split; [reflexivity|split; [reflexivity|split; [exact V0|split; [exact Vg|exact V1]]]]].
    unfold seg_wf. cbn [sg_start sg_end sg_rgids sg_consec].
    split; [lia|]. split; [lia|]. split; [lia|].
    split.
    { rewrite len_cons, len_app. unfold len at 1. rewrite repeat_length. lia. }
    split.
    { constructor; [lia|]. apply Forall_app. split; [|exact W5].
      apply Forall_forall. intros x Hx. apply repeat_spec in Hx. lia. }
    discriminate.
Qed.

Lemma seg_add_none_or_some m sg ch gid r :
  seg_add m sg ch gid = Ok r -> True.
Proof. auto. Qed.

(* the segments cover exactly the mappings: the glyph of c is that of the first segment containing c *)
Lemma split_segments_val m rest : forall sg segs,
  seg_wf sg -> sorted_above (sg_end sg) rest ->
  split_segments m sg rest = Ok segs ->
  Forall seg_wf segs /\
  forall c, segs_val segs c = if seg_in sg c then seg_val sg c else lookup0 rest c.
Proof.
  induction rest as [|[ch gid] t IH]; intros sg segs Hwf Hs H.
  - cbn [split_segments] in H. inversion H; subst. split; [constructor; [exact Hwf | constructor]|].
    intros c. cbn [segs_val]. destruct (seg_in sg c); reflexivity.
  - cbn [split_segments] in H. cbn [sorted_above] in Hs. destruct Hs as (S1 & S2 & S3 & S4).
    destruct (seg_add m sg ch gid) as [[sg'|]| | |] eqn:EA; cbn [bind] in H; try discriminate.
    + (* added to the current segment *)
      destruct (seg_add_some m sg ch gid sg' Hwf S1 S2 S3 EA) as (W' & Hst & Hen & V0 & Vg & V1).
      assert (Hs' : sorted_above (sg_end sg') t) by (rewrite Hen; exact S4).
      destruct (IH sg' segs W' Hs' H) as [F HV]. split; [exact F|].
      intros c. rewrite HV. unfold seg_in. rewrite Hst, Hen.
      destruct Hwf as (W1 & W2 & _).
      unfold lookup0. cbn [assoc_z].
      destruct (Z_lt_dec c (sg_start sg)) as [Hlo|Hlo].
      { replace ((sg_start sg <=? c) && (c <=? ch)) with false by lia.
        replace ((sg_start sg <=? c) && (c <=? sg_end sg)) with false by lia.
        replace (ch =? c) with false by lia. reflexivity. }
      destruct (Z_le_dec c (sg_end sg)) as [Hin|Hin].
      { replace ((sg_start sg <=? c) && (c <=? ch)) with true by lia.
        replace ((sg_start sg <=? c) && (c <=? sg_end sg)) with true by lia. apply V1. lia. }
      replace ((sg_start sg <=? c) && (c <=? sg_end sg)) with false by lia.
      destruct (Z_lt_dec c ch) as [Hgap|Hgap].
      { replace ((sg_start sg <=? c) && (c <=? ch)) with true by lia.
        replace (ch =? c) with false by lia.
        rewrite (assoc_z_above ch t c S4) by lia. apply Vg. lia. }
      destruct (Z.eq_dec c ch) as [->|Hne].
      { replace ((sg_start sg <=? ch) && (ch <=? ch)) with true by lia.
        rewrite Z.eqb_refl. exact V0. }
      replace ((sg_start sg <=? c) && (c <=? ch)) with false by lia.
      replace (ch =? c) with false by lia. reflexivity.
    + (* a new segment starts at ch *)
      destruct (split_segments m (seg_new ch gid) t) as [more| | |] eqn:EM; cbn [bind] in H; try discriminate.
      inversion H; subst segs; clear H.
      assert (Wn : seg_wf (seg_new ch gid)).
      { apply seg_new_wf; [|lia]. destruct Hwf as (W1 & W2 & _). lia. }
      destruct (IH (seg_new ch gid) more Wn S4 EM) as [F HV].
      split; [constructor; assumption|].
      intros c. cbn [segs_val]. destruct (seg_in sg c) eqn:EI; [reflexivity|].
      rewrite HV. unfold seg_in, seg_new, seg_val, lookup0. cbn [sg_start sg_end sg_rgids assoc_z].
      destruct (Z.eq_dec c ch) as [->|Hne].
      * replace ((ch <=? ch) && (ch <=? ch)) with true by lia. rewrite Z.eqb_refl.
        replace (ch - ch) with 0 by lia. reflexivity.
      * replace ((ch <=? c) && (c <=? ch)) with false by lia. replace (ch =? c) with false by lia.
        reflexivity.
Qed.

(* ------------------------------------------------------------------------------------------- *)
(* assembling the table: what add_segment accumulates, as functions of the segment list *)

Definition delta_of (sg : segment) : Z :=
  if sg_consec sg then to_signed 16 (last (sg_rgids sg) 0 - sg_start sg) else 0.

Fixpoint ros_pre (off : Z) (segs : list segment) : list (bool * Z) :=
  match segs with
  | [] => []
  | sg :: t => if sg_consec sg then (false, 0) :: ros_pre off t
               else (true, off mod 65536) :: ros_pre (off + len (sg_rgids sg)) t
  end.

Fixpoint gids_cat (segs : list segment) : list Z :=
  match segs with
  | [] => []
  | sg :: t => if sg_consec sg then gids_cat t else rev (sg_rgids sg) ++ gids_cat t
  end.

Lemma frev_rev {A} (l : list A) : frev l = rev l.
Proof. unfold frev. symmetry. apply rev_alt. Qed.

Lemma fold_add_segment segs : forall t,
  let t' := fold_left add_segment segs t in
  rev (a_rstarts t') = rev (a_rstarts t) ++ map (fun sg => sg_start sg mod 65536) segs /\
  rev (a_rends t') = rev (a_rends t) ++ map (fun sg => sg_end sg mod 65536) segs /\
  rev (a_rdeltas t') = rev (a_rdeltas t) ++ map delta_of segs /\
  rev (a_rros t') = rev (a_rros t) ++ ros_pre (a_ngids t) segs /\
  rev (a_rgids t') = rev (a_rgids t) ++ gids_cat segs /\
  a_nsegs t' = a_nsegs t + len segs /\
  a_ngids t' = a_ngids t + len (gids_cat segs).
Proof.
  induction segs as [|sg segs IH]; intros t; cbn [fold_left].
  - cbn [map ros_pre gids_cat]. rewrite !app_nil_r. unfold len. cbn [length]. repeat split; lia.
  - specialize (IH (add_segment t sg)). cbn zeta in IH |- *.
    destruct IH as (I1 & I2 & I3 & I4 & I5 & I6 & I7).
    rewrite I1, I2, I3, I4, I5, I6, I7. clear I1 I2 I3 I4 I5 I6 I7.
    cbn [map ros_pre gids_cat]. unfold add_segment, delta_of.
    destruct (sg_consec sg); cbn [a_rstarts a_rends a_rdeltas a_rros a_rgids a_nsegs a_ngids rev];
      rewrite <- ?app_assoc; cbn [app]; rewrite ?len_cons, ?len_app.
    + repeat split; try reflexivity; lia.
    + rewrite rev_app_distr, <- app_assoc.
      assert (len (rev (sg_rgids sg)) = len (sg_rgids sg)) by (unfold len; rewrite rev_length; reflexivity).
      repeat split; try reflexivity; lia.
Qed.

(* the id range offsets after the fix-up pass, when nothing was truncated *)
Fixpoint ros_final (N off k : Z) (segs : list segment) : list Z :=
  match segs with
  | [] => []
  | sg :: t => if sg_consec sg then 0 :: ros_final N off (k + 1) t
               else 2 * (N + off - k) :: ros_final N (off + len (sg_rgids sg)) (k + 1) t
  end.

Lemma fixup_ros_final segs : forall N off k ros,
  0 <= off -> off + len (gids_cat segs) <= 65535 ->
  fixup_ros N (ros_pre off segs) k = Ok ros -> ros = ros_final N off k segs.
Proof.
  induction segs as [|sg segs IH]; intros N off k ros Hoff Hb H; cbn [ros_pre fixup_ros ros_final] in *.
  - inversion H. reflexivity.
  - cbn [gids_cat] in Hb. destruct (sg_consec sg).
    + cbn [fixup_ros] in H.
      destruct (fixup_ros N (ros_pre off segs) (k + 1)) as [more| | |] eqn:E; cbn [bind] in H; try discriminate.
      inversion H; subst. f_equal. eapply IH; eauto.
    + rewrite len_app in Hb.
      assert (Hl : len (rev (sg_rgids sg)) = len (sg_rgids sg)) by (unfold len; rewrite rev_length; reflexivity).
      pose proof (len_nonneg (sg_rgids sg)). pose proof (len_nonneg (gids_cat segs)).
      cbn [fixup_ros] in H. rewrite Z.mod_small in H by lia.
      destruct (2 * (N + off - k) <=? 65535); [|discriminate].
      destruct (fixup_ros N (ros_pre (off + len (sg_rgids sg)) segs) (k + 1)) as [more| | |] eqn:E;
        cbn [bind] in H; try discriminate.
      inversion H; subst. f_equal. eapply IH; [| |exact E]; lia.
Qed.

(* the segments of the table *)
Fixpoint tsegs (N off k : Z) (segs : list segment) : list seg :=
  match segs with
  | [] => []
  | sg :: t =>
      {| s_start := sg_start sg mod 65536; s_end := sg_end sg mod 65536; s_delta := delta_of sg;
         s_ro := if sg_consec sg then 0 else 2 * (N + off - k) |}
      :: tsegs N (if sg_consec sg then off else off + len (sg_rgids sg)) (k + 1) t
  end.

Lemma zip4_tsegs segs : forall N off k,
  zip4 (map (fun sg => sg_start sg mod 65536) segs) (map (fun sg => sg_end sg mod 65536) segs)
       (map delta_of segs) (ros_final N off k segs) = tsegs N off k segs.
Proof.
  induction segs as [|sg segs IH]; intros N off k; [reflexivity|].
  cbn [map ros_final tsegs]. destruct (sg_consec sg); cbn [zip4]; rewrite IH; reflexivity.
Qed.

Lemma ros_final_len segs : forall N off k, len (ros_final N off k segs) = len segs.
Proof.
  induction segs as [|sg segs IH]; intros N off k; [reflexivity|].
  cbn [ros_final]. destruct (sg_consec sg); rewrite !len_cons, IH; reflexivity.
Qed.

Lemma to_signed16_mod v : to_signed 16 v mod 65536 = v mod 65536.
Proof.
  unfold to_signed. change (2 ^ 16) with 65536. change (2 ^ (16 - 1)) with 32768.
  pose proof (Z.mod_pos_bound v 65536 ltac:(lia)) as B.
  destruct (v mod 65536 <? 32768).
  - apply Z.mod_mod. lia.
  - replace (v mod 65536 - 65536) with (v mod 65536 + (-1) * 65536) by lia.
    rewrite Z.mod_add by lia. apply Z.mod_mod. lia.
Qed.

Lemma nth_last_len {A} (l : list A) d : nth (length l - 1) l d = last l d.
Proof.
  induction l as [|a [|b t] IH]; [reflexivity | reflexivity |].
  replace (length (a :: b :: t) - 1)%nat with (S (length (b :: t) - 1)) by (cbn [length]; lia).
  change (nth (S (length (b :: t) - 1)) (a :: b :: t) d) with (nth (length (b :: t) - 1) (b :: t) d).
  rewrite IH. reflexivity.
Qed.

(* the lookup in the part of the table that starts at segment k *)
Definition f4_lookup_from (tsg : list seg) (k : Z) (ros gids : list Z) (c : Z) : outcome (option Z) :=
  match find_seg tsg k c with
  | None => Ok None
  | Some (i, sg) =>
      g <- glyph_id_for_id_range_offset ros gids (s_ro sg) c (s_delta sg) i (c - s_start sg) ;;
      Ok (Some g)
  end.

Lemma tsegs_lookup c segs : forall N off k Gpre ros_all,
  Forall seg_wf segs -> len Gpre = off -> len ros_all = N -> 0 <= k -> k + len segs <= N -> 0 <= c ->
  glyph_of (f4_lookup_from (tsegs N off k segs) k ros_all (Gpre ++ gids_cat segs) c) = segs_val segs c.
Proof.
  induction segs as [|sg segs IH]; intros N off k Gpre ros_all Hwf HG HN Hk HkN Hc.
  - reflexivity.
  - pose proof (Forall_inv Hwf) as W. pose proof (Forall_inv_tail Hwf) as Hwf'.
    destruct W as (W1 & W2 & W3 & W4 & W5 & W6).
    rewrite len_cons in HkN. pose proof (len_nonneg segs) as Hls.
    cbn [tsegs segs_val]. unfold f4_lookup_from. cbn [find_seg s_start s_end].
    rewrite (Z.mod_small (sg_start sg)) by lia. rewrite (Z.mod_small (sg_end sg)) by lia.
    fold (seg_in sg c). destruct (seg_in sg c) eqn:EI.
    + (* c lies in this segment *)
      unfold seg_in in EI. cbn [s_ro s_delta s_start].
      unfold glyph_id_for_id_range_offset, delta_of.
      destruct (sg_consec sg) eqn:EC.
      * cbn [Z.eqb bind glyph_of].
        rewrite (W6 eq_refl c) by lia.
        assert (Hfirst : seg_val sg (sg_start sg) = last (sg_rgids sg) 0).
        { unfold seg_val. rewrite <- nth_last_len. f_equal. unfold len in W4. lia. }
        rewrite Hfirst. rewrite <- Z.add_mod_idemp_r by lia. rewrite to_signed16_mod.
        rewrite Z.add_mod_idemp_r by lia. f_equal. lia.
      * set (ro := 2 * (N + off - k)).
        pose proof (len_nonneg Gpre) as HGp.
        replace (ro =? 65535) with false by lia. replace (ro =? 0) with false by lia.
        unfold offset_to_index. rewrite HN.
        replace (ro + k * 2 + (c - sg_start sg) * 2) with ((N + off + (c - sg_start sg)) * 2) by lia.
        rewrite Z.even_mul. replace (Z.even 2) with true by reflexivity. rewrite orb_true_r.
        replace (N * 2 <=? (N + off + (c - sg_start sg)) * 2) with true by lia.
        cbn [andb bind]. rewrite Z.div_mul by lia.
        replace (N + off + (c - sg_start sg) - N) with (len Gpre + (c - sg_start sg)) by lia.
        cbn [gids_cat]. rewrite EC.
        rewrite get_app_r by lia.
        replace (len Gpre + (c - sg_start sg) - len Gpre) with (c - sg_start sg) by lia.
        assert (HG2 : get (rev (sg_rgids sg) ++ gids_cat segs) (c - sg_start sg) = Some (seg_val sg c)).
        { unfold get. rewrite len_app.
          assert (Hlr : len (rev (sg_rgids sg)) = len (sg_rgids sg)) by (unfold len; rewrite rev_length; reflexivity).
          pose proof (len_nonneg (gids_cat segs)).
          replace ((0 <=? c - sg_start sg) && (c - sg_start sg <? len (rev (sg_rgids sg)) + len (gids_cat segs)))
            with true by lia.
          rewrite nth_error_app1 by (rewrite rev_length; unfold len in W4; lia).
          rewrite (nth_error_nth' _ 0) by (rewrite rev_length; unfold len in W4; lia).
          f_equal. rewrite rev_nth by (unfold len in W4; lia). unfold seg_val. f_equal.
          unfold len in W4. lia. }
        rewrite HG2. cbn [ok_or bind].
        assert (Hu : 0 <= seg_val sg c <= 65535).
        { unfold seg_val. rewrite Forall_forall in W5. apply W5. apply nth_In. unfold len in W4. lia. }
        destruct (seg_val sg c =? 0) eqn:E0; cbn [bind glyph_of]; [lia|].
        rewrite Z.add_0_r. apply Z.mod_small. lia.
    + (* not in this segment: continue with the next *)
      specialize (IH N (if sg_consec sg then off else off + len (sg_rgids sg)) (k + 1)
                     (if sg_consec sg then Gpre else Gpre ++ rev (sg_rgids sg)) ros_all Hwf').
      unfold f4_lookup_from in IH. cbn [gids_cat].
      destruct (sg_consec sg).
      * apply IH; try assumption; lia.
      * rewrite app_assoc. apply IH; try assumption; try lia.
        rewrite len_app. unfold len at 2. rewrite rev_length. fold (len (sg_rgids sg)). lia.
Qed.

Lemma segs_val_terminator segs c :
  segs_val (segs ++ [seg_new 65535 0]) c = segs_val segs c.
Proof.
  induction segs as [|sg t IH]; cbn [app segs_val].
  - unfold seg_in, seg_val, seg_new. cbn [sg_start sg_end sg_rgids].
    destruct ((65535 <=? c) && (c <=? 65535)) eqn:E; [|reflexivity].
    replace (65535 - c) with 0 by lia. reflexivity.
  - destruct (seg_in sg c); [reflexivity | exact IH].
Qed.

Lemma lookup0_beyond lo M c : sorted_above lo M -> 65535 < c -> lookup0 M c = 0.
Proof.
  revert lo. induction M as [|[a g] t IH]; intros lo H Hc; [reflexivity|].
  cbn [sorted_above] in H. destruct H as (H1 & H2 & H3 & H4). unfold lookup0 in *. cbn [assoc_z].
  replace (a =? c) with false by lia. eapply IH; eauto.
Qed.

(* C08, format 4: the built sub-table maps every code to its kept glyph and everything else to 0,
   provided the glyph id array is not longer than a 16 bit offset can address (which a successful
   write guarantees, see write_f4_bounds) *)
Theorem f4_build_correct m M l ends starts deltas ros gids :
  sorted_above (-1) M ->
  f4_from_mappings m M = Ok (F4 l ends starts deltas ros gids) ->
  len gids <= 65535 ->
  forall c, 0 <= c ->
    glyph_of (map_glyph (F4 l ends starts deltas ros gids) c) = lookup0 M c.
Proof.
  intros HS HB HL c Hc. unfold f4_from_mappings in HB.
  destruct M as [|[c0 g0] rest]; [discriminate|].
  cbn [sorted_above] in HS. destruct HS as (S1 & S2 & S3 & S4).
  destruct (split_segments m (seg_new c0 g0) rest) as [segs| | |] eqn:ES; cbn [bind] in HB; try discriminate.
  set (segs' := segs ++ [seg_new 65535 0]) in *.
  pose proof (fold_add_segment segs' f4_empty) as HF. cbn zeta in HF.
  set (t := fold_left add_segment segs' f4_empty) in *.
  cbn [f4_empty a_rstarts a_rends a_rdeltas a_rros a_rgids a_nsegs a_ngids rev app] in HF.
  destruct HF as (F1 & F2 & F3 & F4' & F5 & F6 & F7).
  rewrite !frev_rev in HB. rewrite F1, F2, F3, F4', F5, F6 in HB.
  destruct (fixup_ros (0 + len segs') (ros_pre 0 segs') 0) as [ros'| | |] eqn:EF; cbn [bind] in HB; try discriminate.
  inversion HB; subst l ends starts deltas ros gids; clear HB.
  apply fixup_ros_final in EF; [|lia|lia]. subst ros'.
  (* the segments *)
  assert (Wn : seg_wf (seg_new c0 g0)) by (apply seg_new_wf; lia).
  destruct (split_segments_val m rest (seg_new c0 g0) segs Wn S4 ES) as [FW HV].
  assert (FW' : Forall seg_wf segs').
  { apply Forall_app. split; [exact FW|]. constructor; [apply seg_new_wf; lia | constructor]. }
  cbn [map_glyph]. unfold f4_map_glyph.
  destruct (65535 <? c) eqn:E.
  - cbn [glyph_of]. symmetry. apply (lookup0_beyond (-1) ((c0, g0) :: rest)); [|lia].
    cbn [sorted_above]. auto.
  - rewrite zip4_tsegs.
    pose proof (tsegs_lookup c segs' (0 + len segs') 0 0 [] (ros_final (0 + len segs') 0 0 segs') FW'
                  eq_refl (ros_final_len _ _ _ _) ltac:(lia) ltac:(lia) Hc) as HT.
    unfold f4_lookup_from in HT. cbn [app] in HT.
    match goal with |- glyph_of ?x = _ => match type of HT with glyph_of ?y = _ => change x with y end end.
    rewrite HT. subst segs'. rewrite segs_val_terminator, HV.
    unfold seg_in, seg_val, seg_new, lookup0. cbn [sg_start sg_end sg_rgids assoc_z].
    destruct (Z.eq_dec c c0) as [->|Hne].
    + replace ((c0 <=? c0) && (c0 <=? c0)) with true by lia. rewrite Z.eqb_refl.
      replace (c0 - c0) with 0 by lia. reflexivity.
    + replace ((c0 <=? c) && (c <=? c0)) with false by lia. replace (c0 =? c) with false by lia. reflexivity.
Qed.

(* ------------------------------------------------------------------------------------------- *)
(* the built format 4 sub-table has fields that fit their widths and arrays of equal length *)

Lemma fixup_ros_u16 pre : forall N k ros,
  Forall (fun p => 0 <= snd p <= 65535) pre -> 0 <= k -> k + len pre <= N ->
  fixup_ros N pre k = Ok ros -> Forall u16 ros /\ len ros = len pre.
Proof.
  induction pre as [|[b ro] t IH]; intros N k ros HF Hk HN H; cbn [fixup_ros] in H.
  - inversion H. split; [constructor | reflexivity].
  - pose proof (Forall_inv HF) as Hro. pose proof (Forall_inv_tail HF) as HF'. cbn [snd] in Hro.
    rewrite len_cons in HN. pose proof (len_nonneg t).
    destruct b.
    + destruct (2 * (N + ro - k) <=? 65535) eqn:E; [|discriminate].
      destruct (fixup_ros N t (k + 1)) as [more| | |] eqn:EM; cbn [bind] in H; try discriminate.
      assert (Hros : ros = 2 * (N + ro - k) :: more) by congruence. subst ros. clear H.
      destruct (IH N (k + 1) more HF' ltac:(lia) ltac:(lia) EM) as [F L].
      split; [constructor; [unfold u16; lia | exact F] | rewrite !len_cons; lia].
    + destruct (fixup_ros N t (k + 1)) as [more| | |] eqn:EM; cbn [bind] in H; try discriminate.
      assert (Hros : ros = ro :: more) by congruence. subst ros. clear H. destruct (IH N (k + 1) more HF' ltac:(lia) ltac:(lia) EM) as [F L].
      split; [constructor; [unfold u16; lia | exact F] | rewrite !len_cons; lia].
Qed.

Lemma ros_pre_range segs : forall off, Forall (fun p => 0 <= snd p <= 65535) (ros_pre off segs).
Proof.
  induction segs as [|sg t IH]; intros off; cbn [ros_pre]; [constructor|].
  destruct (sg_consec sg); constructor; cbn [snd]; try apply IH.
  - lia.
  - pose proof (Z.mod_pos_bound off 65536 ltac:(lia)). lia.
Qed.

Lemma ros_pre_len segs : forall off, len (ros_pre off segs) = len segs.
Proof.
  induction segs as [|sg t IH]; intros off; cbn [ros_pre]; [reflexivity|].
  destruct (sg_consec sg); rewrite !len_cons, IH; reflexivity.
Qed.

Lemma gids_cat_u16 segs : Forall seg_wf segs -> Forall u16 (gids_cat segs).
Proof.
  induction segs as [|sg t IH]; intros H; cbn [gids_cat]; [constructor|].
  pose proof (Forall_inv H) as (_ & _ & _ & _ & W5 & _). pose proof (Forall_inv_tail H) as H'.
  destruct (sg_consec sg); [apply IH; exact H'|].
  apply Forall_app. split; [|apply IH; exact H'].
  apply Forall_rev. exact W5.
Qed.

Lemma map_len {A B} (f : A -> B) l : len (map f l) = len l.
Proof. unfold len. rewrite map_length. reflexivity. Qed.

Theorem f4_build_shape m M l ends starts deltas ros gids :
  sorted_above (-1) M ->
  f4_from_mappings m M = Ok (F4 l ends starts deltas ros gids) ->
  l = 0 /\ Forall u16 ends /\ Forall u16 starts /\ Forall i16 deltas /\ Forall u16 ros /\ Forall u16 gids /\
  len ends = len starts /\ len deltas = len starts /\ len ros = len starts.
Proof.
  intros HS HB. unfold f4_from_mappings in HB.
  destruct M as [|[c0 g0] rest]; [discriminate|].
  cbn [sorted_above] in HS. destruct HS as (S1 & S2 & S3 & S4).
  destruct (split_segments m (seg_new c0 g0) rest) as [segs| | |] eqn:ES; cbn [bind] in HB; try discriminate.
  set (segs' := segs ++ [seg_new 65535 0]) in *.
  pose proof (fold_add_segment segs' f4_empty) as HF. cbn zeta in HF.
  set (t := fold_left add_segment segs' f4_empty) in *.
  cbn [f4_empty a_rstarts a_rends a_rdeltas a_rros a_rgids a_nsegs a_ngids rev app] in HF.
  destruct HF as (F1 & F2 & F3 & F4' & F5 & F6 & F7).
  rewrite !frev_rev in HB. rewrite F1, F2, F3, F4', F5, F6 in HB.
  destruct (fixup_ros (0 + len segs') (ros_pre 0 segs') 0) as [ros'| | |] eqn:EF; cbn [bind] in HB; try discriminate.
  inversion HB; subst l ends starts deltas ros gids; clear HB.
  assert (Wn : seg_wf (seg_new c0 g0)) by (apply seg_new_wf; lia).
  destruct (split_segments_val m rest (seg_new c0 g0) segs Wn S4 ES) as [FW _].
  assert (FW' : Forall seg_wf segs').
  { apply Forall_app. split; [exact FW|]. constructor; [apply seg_new_wf; lia | constructor]. }
  assert (HLN : 0 + len (ros_pre 0 segs') <= 0 + len segs') by (rewrite ros_pre_len; lia).
  destruct (fixup_ros_u16 (ros_pre 0 segs') (0 + len segs') 0 ros' (ros_pre_range segs' 0) (Z.le_refl 0)
              HLN EF) as [FR LR].
  rewrite ros_pre_len in LR. rewrite !map_len.
  split; [reflexivity|].
  split. { apply Forall_forall. intros x Hx. apply in_map_iff in Hx. destruct Hx as (sg & <- & _).
           unfold u16. pose proof (Z.mod_pos_bound (sg_end sg) 65536 ltac:(lia)). lia. }
  split. { apply Forall_forall. intros x Hx. apply in_map_iff in Hx. destruct Hx as (sg & <- & _).
           unfold u16. pose proof (Z.mod_pos_bound (sg_start sg) 65536 ltac:(lia)). lia. }
  split. { apply Forall_forall. intros x Hx. apply in_map_iff in Hx. destruct Hx as (sg & <- & _).
           unfold delta_of. destruct (sg_consec sg); [apply CmapParseProofs.to_signed16_range | unfold i16; lia]. }
  split; [exact FR|]. split; [apply gids_cat_u16; exact FW'|].
  split; [reflexivity|]. split; [reflexivity | exact LR].
Qed.

(* ------------------------------------------------------------------------------------------- *)
(* format 12 builder *)

(* codes are u32 values below u32::MAX, glyph ids are below 65535 (ids of a font with at most 65535
   glyphs), so that neither `end_char_code + 1` nor `prev_gid + 1` can overflow *)
Fixpoint sorted_above32 (lo : Z) (M : list (Z * Z)) : Prop :=
  match M with
  | [] => True
  | (c, g) :: t => lo < c /\ c <= 4294967294 /\ 0 <= g <= 65534 /\ sorted_above32 c t
  end.

Lemma assoc_z_above32 lo M c : sorted_above32 lo M -> c <= lo -> assoc_z c M = None.
Proof.
  revert lo. induction M as [|[a g] t IH]; intros lo H Hc; [reflexivity|].
  cbn [sorted_above32] in H. destruct H as (H1 & H2 & H3 & H4). cbn [assoc_z].
  replace (a =? c) with false by lia. apply (IH a); [exact H4 | lia].
Qed.

Definition group_ok (g : seq_group) : Prop :=
  0 <= g_start g /\ g_start g <= g_end g /\ g_end g <= 4294967294 /\
  0 <= g_gid g /\ g_gid g + (g_end g - g_start g) <= 65534.

Fixpoint groups_val (gs : list seq_group) (c : Z) : Z :=
  match gs with
  | [] => 0
  | g :: t => if group_has g c then g_gid g + (c - g_start g) else groups_val t c
  end.

Lemma f12_groups_val m rest : forall seg prev groups,
  group_ok seg -> prev = g_gid seg + (g_end seg - g_start seg) ->
  sorted_above32 (g_end seg) rest ->
  f12_groups m seg prev rest = Ok groups ->
  Forall group_ok groups /\
  forall c, groups_val groups c = if group_has seg c then g_gid seg + (c - g_start seg) else lookup0 rest c.
Proof.
  induction rest as [|[ch gid] t IH]; intros seg prev groups Hok Hprev Hs H.
  - cbn [f12_groups] in H. inversion H; subst groups. split; [constructor; [exact Hok | constructor]|].
    intros c. cbn [groups_val]. destruct (group_has seg c); reflexivity.
  - cbn [sorted_above32] in Hs. destruct Hs as (S1 & S2 & S3 & S4).
    destruct Hok as (K1 & K2 & K3 & K4 & K5).
    cbn [f12_groups] in H. unfold succ_u32 in H.
    replace (g_end seg + 1 <=? 4294967295) with true in H by lia. cbn [bind] in H.
    destruct (ch =? g_end seg + 1) eqn:EC.
    + unfold succ_u16 in H. replace (prev + 1 <=? 65535) with true in H by lia. cbn [bind] in H.
      destruct (gid =? prev + 1) eqn:EG.
      * (* the group grows *)
        set (seg' := {| g_start := g_start seg; g_end := g_end seg + 1; g_gid := g_gid seg |}) in *.
        assert (Hok' : group_ok seg').
        { unfold group_ok, seg'. cbn [g_start g_end g_gid]. lia. }
        assert (Hs' : sorted_above32 (g_end seg') t).
        { unfold seg'. cbn [g_end]. replace (g_end seg + 1) with ch by lia. exact S4. }
        destruct (IH seg' gid groups Hok' ltac:(unfold seg'; cbn [g_start g_end g_gid]; lia) Hs' H) as [F HV].
        split; [exact F|]. intros c. rewrite HV. unfold group_has, seg', lookup0. cbn [g_start g_end g_gid assoc_z].
        destruct (Z.eq_dec c ch) as [->|Hne].
        -- replace ((g_start seg <=? ch) && (ch <=? g_end seg + 1)) with true by lia.
           replace ((g_start seg <=? ch) && (ch <=? g_end seg)) with false by lia.
           rewrite Z.eqb_refl. lia.
        -- replace (ch =? c) with false by lia.
           replace ((g_start seg <=? c) && (c <=? g_end seg + 1)) with ((g_start seg <=? c) && (c <=? g_end seg)) by lia.
           reflexivity.
      * (* next code, but not the next glyph: a new group *)
        destruct (f12_groups m {| g_start := ch; g_end := ch; g_gid := gid |} gid t) as [more| | |] eqn:EM;
          cbn [bind] in H; try discriminate.
        inversion H; subst groups; clear H.
        assert (Hok' : group_ok {| g_start := ch; g_end := ch; g_gid := gid |}).
        { unfold group_ok. cbn [g_start g_end g_gid]. lia. }
        destruct (IH _ gid more Hok' ltac:(cbn [g_start g_end g_gid]; lia) S4 EM) as [F HV].
        split; [constructor; [unfold group_ok; lia | exact F]|].
        intros c. cbn [groups_val]. destruct (group_has seg c) eqn:EI; [reflexivity|].
        rewrite HV. unfold group_has, lookup0. cbn [g_start g_end g_gid assoc_z].
        destruct (Z.eq_dec c ch) as [->|Hne].
        -- replace ((ch <=? ch) && (ch <=? ch)) with true by lia. rewrite Z.eqb_refl. lia.
        -- replace ((ch <=? c) && (c <=? ch)) with false by lia. replace (ch =? c) with false by lia. reflexivity.
    + cbn [bind] in H.
      destruct (f12_groups m {| g_start := ch; g_end := ch; g_gid := gid |} gid t) as [more| | |] eqn:EM;
        cbn [bind] in H; try discriminate.
      inversion H; subst groups; clear H.
      assert (Hok' : group_ok {| g_start := ch; g_end := ch; g_gid := gid |}).
      { unfold group_ok. cbn [g_start g_end g_gid]. lia. }
      destruct (IH _ gid more Hok' ltac:(cbn [g_start g_end g_gid]; lia) S4 EM) as [F HV].
      split; [constructor; [unfold group_ok; lia | exact F]|].
      intros c. cbn [groups_val]. destruct (group_has seg c) eqn:EI; [reflexivity|].
      rewrite HV. unfold group_has, lookup0. cbn [g_start g_end g_gid assoc_z].
      destruct (Z.eq_dec c ch) as [->|Hne].
      * replace ((ch <=? ch) && (ch <=? ch)) with true by lia. rewrite Z.eqb_refl. lia.
      * replace ((ch <=? c) && (c <=? ch)) with false by lia. replace (ch =? c) with false by lia. reflexivity.
Qed.

Lemma groups_val_lookup gs c :
  Forall group_ok gs -> glyph_of (f12_map_glyph gs c) = groups_val gs c.
Proof.
  intros HF. unfold f12_map_glyph. induction gs as [|g t IH]; [reflexivity|].
  cbn [find_group groups_val]. fold (group_has g c).
  pose proof (Forall_inv HF) as (K1 & K2 & K3 & K4 & K5).
  destruct (group_has g c) eqn:E.
  - unfold group_has in E. replace (g_gid g + (c - g_start g) <=? 65535) with true by lia. reflexivity.
  - apply IH. eapply Forall_inv_tail; eauto.
Qed.

(* C08, format 12 *)
Theorem f12_build_correct m M l groups :
  sorted_above32 (-1) M ->
  f12_from_mappings m M = Ok (F12 l groups) ->
  l = 0 /\
  Forall (fun g => u32 (g_start g) /\ u32 (g_end g) /\ u32 (g_gid g)) groups /\
  forall c, glyph_of (map_glyph (F12 l groups) c) = lookup0 M c.
Proof.
  intros HS HB. unfold f12_from_mappings in HB.
  destruct M as [|[c0 g0] rest]; [discriminate|].
  cbn [sorted_above32] in HS. destruct HS as (S1 & S2 & S3 & S4).
  destruct (f12_groups m {| g_start := c0; g_end := c0; g_gid := g0 |} g0 rest) as [gs| | |] eqn:EG;
    cbn [bind] in HB; try discriminate.
  inversion HB; subst l groups; clear HB.
  assert (Hok : group_ok {| g_start := c0; g_end := c0; g_gid := g0 |}).
  { unfold group_ok. cbn [g_start g_end g_gid]. lia. }
  destruct (f12_groups_val m rest _ g0 gs Hok ltac:(cbn [g_start g_end g_gid]; lia) S4 EG) as [F HV].
  split; [reflexivity|]. split.
  - eapply Forall_impl; [|exact F]. intros g (K1 & K2 & K3 & K4 & K5). unfold u32. lia.
  - intros c. cbn [map_glyph]. rewrite groups_val_lookup by exact F. rewrite HV.
    unfold group_has, lookup0. cbn [g_start g_end g_gid assoc_z].
    destruct (Z.eq_dec c c0) as [->|Hne].
    + replace ((c0 <=? c0) && (c0 <=? c0)) with true by lia. rewrite Z.eqb_refl. lia.
    + replace ((c0 <=? c) && (c <=? c0)) with false by lia. replace (c0 =? c) with false by lia. reflexivity.
Qed.

(* ------------------------------------------------------------------------------------------- *)
(* format 0 (Mac Roman byte table) *)

Lemma set_nth_length l i v : length (set_nth l i v) = length l.
Proof. revert i. induction l as [|x t IH]; intros [|i]; cbn [set_nth length]; auto. Qed.

Lemma set_nth_same l i v : (i < length l)%nat -> nth i (set_nth l i v) 0 = v.
Proof. revert i. induction l as [|x t IH]; intros [|i] H; cbn [set_nth nth length] in *; try lia. apply IH. lia. Qed.

Lemma set_nth_other l i j v : i <> j -> nth j (set_nth l i v) 0 = nth j l 0.
Proof.
  revert i j. induction l as [|x t IH]; intros [|i] [|j] H; cbn [set_nth nth]; try reflexivity; try congruence.
  apply IH. congruence.
Qed.

Lemma f0_fill_spec M : forall arr arr',
  Forall (fun p => 0 <= char_code (fst p)) M ->
  f0_fill arr M = Ok arr' ->
  length arr' = length arr /\
  (forall b, (forall u g, In (CUnicode u, g) M -> char_to_macroman u <> Some (Z.of_nat b)) ->
             nth b arr' 0 = nth b arr 0) /\
  (forall ch g, In (ch, g) M -> exists u b, ch = CUnicode u /\ char_to_macroman u = Some b).
Proof.
  induction M as [|[[u|s] g] t IH]; intros arr arr' HP H; cbn [f0_fill] in H.
  - inversion H; subst. split; [reflexivity|]. split; [reflexivity|]. intros ch g [].
  - destruct (char_to_macroman u) as [b|] eqn:EB; [|discriminate].
    pose proof (Forall_inv HP) as Hu. cbn [fst char_code] in Hu.
    destruct (MacRomanProofs.macroman_chars_roundtrip u b Hu EB) as [_ Hb].
    destruct (IH _ _ (Forall_inv_tail HP) H) as (L & U & A). rewrite set_nth_length in L.
    split; [exact L|]. split.
    + intros b0 Hb0. rewrite U.
      * apply set_nth_other. intros Heq. apply (Hb0 u g (or_introl eq_refl)). rewrite EB. f_equal. lia.
      * intros u' g' Hin. apply (Hb0 u' g'). right. exact Hin.
    + intros ch g' [Heq | Hin].
      * inversion Heq; subst. eauto.
      * eapply A; eauto.
  - discriminate.
Qed.

Lemma char_to_macroman_inj u u' b :
  0 <= u -> 0 <= u' -> char_to_macroman u = Some b -> char_to_macroman u' = Some b -> u = u'.
Proof.
  intros H H' E E'.
  destruct (MacRomanProofs.macroman_chars_roundtrip u b H E) as [R _].
  destruct (MacRomanProofs.macroman_chars_roundtrip u' b H' E') as [R' _]. congruence.
Qed.

Lemma f0_fill_hit M : forall arr arr',
  Forall (fun p => 0 <= char_code (fst p)) M -> NoDup (map fst M) ->
  f0_fill arr M = Ok arr' ->
  forall u g b, In (CUnicode u, g) M -> char_to_macroman u = Some b -> (Z.to_nat b < length arr)%nat ->
                nth (Z.to_nat b) arr' 0 = g.
Proof.
  induction M as [|[[u0|s] g0] t IH]; intros arr arr' HP HN H u g b Hin Hb Hlen; [contradiction| |].
  - cbn [f0_fill] in H. destruct (char_to_macroman u0) as [b0|] eqn:EB; [|discriminate].
    pose proof (Forall_inv HP) as Hu0. cbn [fst char_code] in Hu0.
    cbn [map fst] in HN. inversion HN as [|? ? Hnot HN']; subst.
    destruct (MacRomanProofs.macroman_chars_roundtrip u0 b0 Hu0 EB) as [_ Hb0].
    destruct Hin as [Heq | Hin].
    + inversion Heq; subst u0 g0. assert (b0 = b) by congruence. subst b0.
      destruct (f0_fill_spec t _ _ (Forall_inv_tail HP) H) as (L & U & A).
      replace (Z.to_nat b) with (Z.to_nat b) by reflexivity.
      rewrite (U (Z.to_nat b)).
      * apply set_nth_same. exact Hlen.
      * intros u' g' Hin' Heq'. rewrite Z2Nat.id in Heq' by lia.
        assert (Hu' : 0 <= u').
        { pose proof (Forall_inv_tail HP) as HP'. rewrite Forall_forall in HP'.
          apply (HP' (CUnicode u', g') Hin'). }
        assert (u' = u) by (eapply char_to_macroman_inj; eauto). subst u'.
        apply Hnot. change (CUnicode u) with (fst (CUnicode u, g')). apply in_map. exact Hin'.
    + eapply (IH (set_nth arr (Z.to_nat b0) g0)); eauto.
      * eapply Forall_inv_tail; eauto.
      * rewrite set_nth_length. exact Hlen.
  - cbn [f0_fill] in H. discriminate.
Qed.

Lemma f0_fill_range M : forall arr arr',
  Forall (fun p => 0 <= snd p <= 255) M -> Forall (fun g => 0 <= g <= 255) arr ->
  f0_fill arr M = Ok arr' -> Forall (fun g => 0 <= g <= 255) arr'.
Proof.
  induction M as [|[[u0|s] g0] t IH]; intros arr arr' HG HA H; cbn [f0_fill] in H.
  - inversion H; subst. exact HA.
  - destruct (char_to_macroman u0) as [b0|]; [|discriminate].
    eapply IH; [eapply Forall_inv_tail; eauto | | exact H].
    pose proof (Forall_inv HG) as Hg0. cbn [snd] in Hg0. clear -HA Hg0.
    revert arr HA. induction (Z.to_nat b0) as [|n IHn]; intros [|x l] HA; cbn [set_nth]; try constructor;
      try (inversion HA; subst; auto).
  - discriminate.
Qed.
