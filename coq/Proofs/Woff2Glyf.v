(* Proofs/Woff2Glyf.v — the transformed glyf table: decoding (Model/Woff2.v, after
   Woff2GlyfTable::read_dep) of every encoding the specification allows (Proofs/Woff2Spec.v)
   gives back the glyphs that were encoded. *)
From AV Require Import Base.Prelude Base.Lemmas Gen.Woff2Lut Model.Woff2
  Proofs.Woff2Spec Proofs.Woff2Ints Proofs.Woff2Triplet.
From Coq Require Import ZifyBool.
Ltac Zify.zify_post_hook ::= Z.div_mod_to_equations.
Open Scope Z_scope.

Ltac feq := try reflexivity; repeat (f_equal; try lia); try reflexivity; try lia.

(* ------------------------------------------------------------------ fixed-width fields *)
Lemma rd_u16_wr : forall v r, u16_ok v -> rd_u16 (wr_u16 v ++ r) = Ok (v, r).
Proof.
  intros v r Hv. unfold u16_ok in Hv. unfold wr_u16. cbn [app rd_u16]. f_equal. f_equal. lia.
Qed.

Lemma rd_i16_wr : forall v r, i16_ok v -> rd_i16 (wr_i16 v ++ r) = Ok (v, r).
Proof.
  intros v r Hv. unfold i16_ok in Hv. unfold wr_i16, wr_u16. cbn [app rd_i16]. f_equal. f_equal.
  unfold to_signed. change (2 ^ 16) with 65536. change (2 ^ (16 - 1)) with 32768.
  match goal with |- context [if ?c then _ else _] => destruct c eqn:E end; lia.
Qed.

Lemma rd_u16_wr_i16 : forall v r, u16_ok v -> rd_u16 (wr_i16 v ++ r) = Ok (v, r).
Proof.
  intros v r Hv. unfold u16_ok in Hv. unfold wr_i16, wr_u16. cbn [app rd_u16]. f_equal. f_equal. lia.
Qed.

Lemma rd_u32_wr : forall v r, 0 <= v < 4294967296 -> rd_u32 (wr_u32 v ++ r) = Ok (v, r).
Proof.
  intros v r Hv. unfold wr_u32. cbn [app rd_u32]. f_equal. f_equal. lia.
Qed.

Lemma read_bbox_wr : forall b r, bbox_ok b -> read_bbox (wr_bbox b ++ r) = Ok (b, r).
Proof.
  intros [x0 y0 x1 y1] r (H0 & H1 & H2 & H3). cbn [bb_xmin bb_ymin bb_xmax bb_ymax] in *.
  unfold i16_ok in *. unfold wr_bbox, wr_i16, wr_u16. cbn [bb_xmin bb_ymin bb_xmax bb_ymax app read_bbox].
  assert (forall v, -32768 <= v <= 32767 ->
            to_signed 16 ((v mod 65536 / 256) mod 256 * 256 + (v mod 65536) mod 256) = v) as G.
  { intros v Hv. unfold to_signed. change (2 ^ 16) with 65536. change (2 ^ (16 - 1)) with 32768.
    match goal with |- context [if ?c then _ else _] => destruct c eqn:E end; lia. }
  rewrite !G by assumption. reflexivity.
Qed.

Lemma len_wr_i16 : forall v, len (wr_i16 v) = 2.
Proof. reflexivity. Qed.
Lemma len_wr_u16 : forall v, len (wr_u16 v) = 2.
Proof. reflexivity. Qed.
Lemma len_wr_u32 : forall v, len (wr_u32 v) = 4.
Proof. reflexivity. Qed.

(* ------------------------------------------------------------------ endPtsOfContours *)
Fixpoint running (acc : Z) (counts : list Z) : list Z :=
  match counts with [] => [] | c :: r => (acc + c - 1) :: running (acc + c) r end.
Definition sum (l : list Z) : Z := fold_right Z.add 0 l.

Lemma end_pts_loop_spec : forall counts encs acc rest,
  Forall2 encodes_255 encs counts -> Forall (fun c => 1 <= c) counts ->
  0 <= acc -> acc + sum counts < 65536 ->
  end_pts_loop (length counts) (concat encs ++ rest) acc =
    Ok (running acc counts, acc + sum counts, rest).
Proof.
  intros counts encs acc rest H. revert acc rest.
  induction H as [|e c encs counts He _ IH]; intros acc rest Hpos Hacc Hsum.
  - cbn [length end_pts_loop running sum fold_right concat app]. feq.
  - inversion Hpos as [|? ? Hc Hpos']; subst. cbn [sum fold_right] in Hsum. fold (sum counts) in Hsum.
    assert (0 <= sum counts) as Hs0.
    { clear - Hpos'. induction Hpos' as [|x l Hx _ IHl]; cbn [sum fold_right]; [lia|]. fold (sum l). lia. }
    cbn [length end_pts_loop concat]. rewrite <- app_assoc.
    rewrite (packed_u16_all_encodings _ _ _ He). cbn [bind].
    replace (acc + c <=? 65535) with true by lia. cbn [bind].
    replace (1 <=? acc + c) with true by lia. cbn [bind].
    rewrite IH by (try assumption; lia). cbn [bind running sum fold_right]. fold (sum counts).
    feq.
Qed.

Lemma running_counts : forall eps prev,
  running (prev + 1) (contour_counts prev eps) = eps.
Proof.
  induction eps as [|e r IH]; intros prev; cbn [contour_counts running]; [reflexivity|].
  f_equal; [lia|]. replace (prev + 1 + (e - prev)) with (e + 1) by lia. apply IH.
Qed.

Lemma last_cons_default {A} : forall (r : list A) e d, last (e :: r) d = last r e.
Proof.
  induction r as [|x r IH]; intros e d; [reflexivity|].
  change (last (e :: x :: r) d) with (last (x :: r) d). rewrite IH. symmetry. apply IH.
Qed.

Lemma sum_counts : forall eps prev, sum (contour_counts prev eps) = last eps prev - prev.
Proof.
  induction eps as [|e r IH]; intros prev; [cbn; lia|].
  cbn [contour_counts sum fold_right]. fold (sum (contour_counts e r)). rewrite IH.
  rewrite last_cons_default. lia.
Qed.

Lemma counts_pos : forall eps prev, increasing prev eps -> Forall (fun c => 1 <= c) (contour_counts prev eps).
Proof.
  induction eps as [|e r IH]; intros prev H; cbn [contour_counts]; constructor.
  - cbn [increasing] in H. lia.
  - apply IH. apply H.
Qed.

Lemma length_counts : forall eps prev, length (contour_counts prev eps) = length eps.
Proof. induction eps; intros; cbn [contour_counts length]; auto. Qed.

Lemma last_nonempty {A} : forall (l : list A) d d', l <> [] -> last l d = last l d'.
Proof.
  induction l as [|x l IH]; intros d d' H; [congruence|]. destruct l; [reflexivity|].
  cbn [last]. apply IH. congruence.
Qed.

Lemma compute_end_pts_spec : forall eps encs rest,
  eps <> [] -> increasing (-1) eps -> last eps 0 + 1 < 65536 ->
  Forall2 encodes_255 encs (contour_counts (-1) eps) ->
  compute_end_pts (concat encs ++ rest) (len eps) = Ok (eps, last eps 0 + 1, rest).
Proof.
  intros eps encs rest Hne Hinc Hlast H. unfold compute_end_pts.
  replace (Z.to_nat (len eps)) with (length (contour_counts (-1) eps))
    by (rewrite length_counts; unfold len; lia).
  assert (last eps (-1) = last eps 0) as Hl by (apply last_nonempty; exact Hne).
  rewrite end_pts_loop_spec; try assumption.
  - rewrite sum_counts. change 0 with (-1 + 1) at 1. rewrite (running_counts eps (-1)). rewrite Hl. feq.
  - apply counts_pos; assumption.
  - lia.
  - rewrite sum_counts. lia.
Qed.

(* ------------------------------------------------------------------ points *)
Lemma flag_row : forall i (onc : bool), 0 <= i < 128 ->
  Z.land (i + (if onc then 0 else 128)) 127 = i /\
  (Z.land (i + (if onc then 0 else 128)) 128 =? 0) = onc.
Proof.
  intros i onc Hi. split.
  - rewrite land_127 by (destruct onc; lia). destruct onc; lia.
  - rewrite land_128_zero by (destruct onc; lia). destruct onc; lia.
Qed.

Lemma to_signed_small : forall v, i16_ok v -> to_signed 16 v = v.
Proof.
  intros v Hv. unfold i16_ok in Hv. unfold to_signed. change (2 ^ 16) with 65536.
  change (2 ^ (16 - 1)) with 32768.
  match goal with |- context [if ?c then _ else _] => destruct c eqn:E end; lia.
Qed.

(* accumulating a delta: the decoded delta is the true one modulo 2^16 (to_signed 16) and so is
   the sum (i16::wrapping_add), which lands on the right coordinate whatever the delta *)
Lemma i16_accumulate : forall prev next,
  i16_ok prev -> i16_ok next ->
  to_signed 16 (prev + to_signed 16 (next - prev)) = next.
Proof.
  intros prev next Hp Hn. unfold i16_ok in *.
  unfold to_signed. change (2 ^ 16) with 65536. change (2 ^ (16 - 1)) with 32768.
  repeat match goal with |- context [if ?c then _ else _] => destruct c eqn:? end; lia.
Qed.

Lemma decode_points_spec : forall m px py ps fl gl,
  encodes_points px py ps fl gl -> forall rest,
  i16_ok px -> i16_ok py -> Forall point_ok ps ->
  decode_points m fl (gl ++ rest) px py = Ok (ps, rest).
Proof.
  intros m px py ps fl gl H.
  induction H as [px py|px py p ps i bytes fl gl Ht _ IH]; intros rest Hpx Hpy Hok.
  - reflexivity.
  - inversion Hok as [|? ? Hp Hok']; subst. destruct Hp as [Hx Hy].
    pose proof Ht as (Hi & _).
    destruct (triplet_encodes_decodes m i bytes _ _ Ht) as (Hdec & Hlen & Hbytes).
    destruct (flag_row i (p_on p) Hi) as (Hrow & Hon).
    cbn [decode_points]. unfold xy_triplet. rewrite Hrow. rewrite lut_nth by exact Hi. cbn [bind].
    rewrite <- app_assoc. rewrite <- Hlen. rewrite rd_slice_app. cbn [bind].
    unfold decode_triplet in Hdec.
    destruct (xy_dx m (spec_row i) (coord_data bytes)) as [dx| | |] eqn:Edx; cbn [bind] in Hdec; try discriminate.
    destruct (xy_dy m (spec_row i) (coord_data bytes)) as [dy| | |] eqn:Edy; cbn [bind] in Hdec; try discriminate.
    injection Hdec as -> ->. cbn [bind].
    rewrite !i16_accumulate by assumption.
    rewrite IH by assumption. cbn [bind].
    rewrite Hon. destruct p; reflexivity.
Qed.

(* ------------------------------------------------------------------ simple glyphs *)
Lemma decode_simple_glyph_spec : forall m g np_encs fl gl ilen st r_np r_fl r_gl r_ins,
  simple_ok g ->
  Forall2 encodes_255 np_encs (contour_counts (-1) (sg_end_pts g)) ->
  encodes_points 0 0 (sg_points g) fl gl ->
  encodes_255 ilen (len (sg_instr g)) ->
  len fl = len (sg_points g) ->
  s_np st = concat np_encs ++ r_np -> s_fl st = fl ++ r_fl ->
  s_gl st = (gl ++ ilen) ++ r_gl -> s_ins st = sg_instr g ++ r_ins ->
  decode_simple_glyph m st (len (sg_end_pts g)) =
    Ok (sg_end_pts g, sg_instr g, sg_points g,
        {| s_nc := s_nc st; s_np := r_np; s_fl := r_fl; s_gl := r_gl;
           s_comp := s_comp st; s_bbox := s_bbox st; s_ins := r_ins |}).
Proof.
  intros m g np_encs fl gl ilen st r_np r_fl r_gl r_ins
         (Hne & Hinc & Hlast & Hnp & Hnc & Hpts & Hil & Hib & Hbb) Hnpe Hpe Hie Hfl E1 E2 E3 E4.
  unfold decode_simple_glyph. rewrite E1.
  rewrite compute_end_pts_spec by (try assumption; lia). cbn [bind].
  rewrite Hlast, <- Hfl. rewrite E2. rewrite rd_slice_app. cbn [bind].
  rewrite E3. rewrite <- app_assoc.
  rewrite (decode_points_spec m 0 0 _ _ _ Hpe) by (try assumption; unfold i16_ok; lia). cbn [bind].
  rewrite (packed_u16_all_encodings _ _ _ Hie). cbn [bind].
  rewrite E4. rewrite rd_slice_app. cbn [bind]. reflexivity.
Qed.

Lemma encodes_points_len : forall px py ps fl gl,
  encodes_points px py ps fl gl -> len fl = len ps.
Proof.
  intros px py ps fl gl H. induction H; [reflexivity|]. rewrite !len_cons. lia.
Qed.

(* ------------------------------------------------------------------ composite glyphs *)
Lemma rd_items_i16 : forall vs r, Forall i16_ok vs ->
  rd_items rd_i16 (length vs) (flat_map wr_i16 vs ++ r) = Ok (vs, r).
Proof.
  induction vs as [|v vs IH]; intros r H; [reflexivity|].
  inversion H as [|? ? Hv Hvs]; subst.
  cbn [length rd_items flat_map]. rewrite <- app_assoc. rewrite rd_i16_wr by exact Hv. cbn [bind].
  rewrite IH by exact Hvs. reflexivity.
Qed.

Lemma read_comp_arg_wr : forall flags v r, arg_ok flags v ->
  read_comp_arg flags (comp_arg_bytes flags v ++ r) = Ok (v, r).
Proof.
  intros flags v r H. unfold read_comp_arg, comp_arg_bytes, arg_ok in *.
  destruct (negb (Z.land flags 1 =? 0)), (negb (Z.land flags 2 =? 0)).
  - apply rd_i16_wr; exact H.
  - apply rd_u16_wr_i16; exact H.
  - cbn [app rd_i8]. unfold to_signed. change (2 ^ 8) with 256. change (2 ^ (8 - 1)) with 128.
    match goal with |- context [if ?c then _ else _] => destruct c eqn:E end; feq.
  - cbn [app rd_u8]. feq.
Qed.

Lemma scale_items : forall flags scale r,
  len scale = scale_count flags -> Forall i16_ok scale ->
  (if negb (Z.land flags 8 =? 0) then rd_items rd_i16 1 (flat_map wr_i16 scale ++ r)
   else if negb (Z.land flags 64 =? 0) then rd_items rd_i16 2 (flat_map wr_i16 scale ++ r)
   else if negb (Z.land flags 128 =? 0) then rd_items rd_i16 4 (flat_map wr_i16 scale ++ r)
   else Ok ([], flat_map wr_i16 scale ++ r)) = Ok (scale, r).
Proof.
  intros flags scale r Hl Hs. unfold scale_count in Hl.
  destruct (negb (Z.land flags 8 =? 0));
    [|destruct (negb (Z.land flags 64 =? 0)); [|destruct (negb (Z.land flags 128 =? 0))]].
  - replace 1%nat with (length scale) by (unfold len in Hl; lia). apply rd_items_i16; exact Hs.
  - replace 2%nat with (length scale) by (unfold len in Hl; lia). apply rd_items_i16; exact Hs.
  - replace 4%nat with (length scale) by (unfold len in Hl; lia). apply rd_items_i16; exact Hs.
  - destruct scale; [reflexivity|]. rewrite len_cons in Hl. pose proof (len_nonneg scale). lia.
Qed.

Lemma read_component_wr : forall more c r, component_ok more c ->
  rd_u16 (write_component c ++ r) = Ok (c_flags c, skipn 2 (write_component c ++ r)) /\
  read_component (c_flags c) (skipn 2 (write_component c ++ r)) = Ok (c, r).
Proof.
  intros more c r (Hf & Hmask & Hmore & Hgid & Ha1 & Ha2 & Hsl & Hsc).
  unfold write_component. split.
  - rewrite <- app_assoc. rewrite rd_u16_wr by exact Hf. reflexivity.
  - rewrite <- !app_assoc. change (skipn 2 (wr_u16 (c_flags c) ++ ?x)) with x.
    unfold read_component. rewrite rd_u16_wr by exact Hgid. cbn [bind].
    rewrite read_comp_arg_wr by exact Ha1. cbn [bind].
    rewrite read_comp_arg_wr by exact Ha2. cbn [bind].
    rewrite scale_items by assumption. cbn [bind]. destruct c; reflexivity.
Qed.

Lemma write_component_len : forall c, 2 <= len (write_component c).
Proof.
  intros c. unfold write_component. rewrite len_app, len_wr_u16.
  pose proof (len_nonneg (wr_u16 (c_gid c) ++ comp_arg_bytes (c_flags c) (c_arg1 c) ++
     comp_arg_bytes (c_flags c) (c_arg2 c) ++ flat_map wr_i16 (c_scale c))). lia.
Qed.

Lemma read_components_spec : forall cs fuel r hi,
  components_ok cs -> (length cs <= fuel)%nat ->
  read_components fuel (flat_map write_component cs ++ r) hi =
    Ok (cs, hi || have_instructions cs, r).
Proof.
  induction cs as [|c cs IH]; intros fuel r hi Hok Hfuel; [destruct Hok|].
  destruct fuel as [|fuel]; [cbn [length] in Hfuel; lia|].
  cbn [flat_map]. rewrite <- app_assoc.
  destruct cs as [|c2 cs].
  - cbn [components_ok] in Hok. pose proof Hok as (Hf & Hmask & Hmore & _).
    destruct (read_component_wr false c (flat_map write_component [] ++ r) Hok) as (R1 & R2).
    cbn [read_components]. rewrite R1. cbn [bind]. rewrite Hmask. rewrite R2. cbn [bind].
    rewrite Hmore. cbn [flat_map app have_instructions existsb]. rewrite orb_false_r. reflexivity.
  - cbn [components_ok] in Hok. destruct Hok as (Hc & Hrest). pose proof Hc as (Hf & Hmask & Hmore & _).
    destruct (read_component_wr true c (flat_map write_component (c2 :: cs) ++ r) Hc) as (R1 & R2).
    cbn [read_components]. rewrite R1. cbn [bind]. rewrite Hmask. rewrite R2. cbn [bind].
    rewrite Hmore. rewrite IH by (try exact Hrest; cbn [length] in *; lia). cbn [bind].
    change (have_instructions (c :: c2 :: cs))
      with (negb (Z.land (c_flags c) 256 =? 0) || have_instructions (c2 :: cs)).
    rewrite orb_assoc. reflexivity.
Qed.

Lemma flat_map_write_component_len : forall cs, Z.of_nat (length cs) <= len (flat_map write_component cs).
Proof.
  induction cs as [|c cs IH]; [cbn; lia|]. cbn [flat_map length]. rewrite len_app.
  pose proof (write_component_len c). lia.
Qed.

Lemma read_composite_glyphs_spec : forall cs r,
  components_ok cs ->
  read_composite_glyphs (flat_map write_component cs ++ r) = Ok (cs, have_instructions cs, r).
Proof.
  intros cs r Hok. unfold read_composite_glyphs.
  rewrite read_components_spec; [reflexivity|exact Hok|].
  pose proof (flat_map_write_component_len cs). rewrite app_length.
  unfold len in H. lia.
Qed.

(* ------------------------------------------------------------------ one glyph *)
Definition st_app (c : contrib) (st : gstreams) : gstreams :=
  {| s_nc := k_nc c ++ s_nc st; s_np := k_np c ++ s_np st; s_fl := k_fl c ++ s_fl st;
     s_gl := k_gl c ++ s_gl st; s_comp := k_comp c ++ s_comp st; s_bbox := k_bbox c ++ s_bbox st;
     s_ins := k_ins c ++ s_ins st |}.

Lemma decode_glyph_spec : forall m g c bitmap i st,
  encodes_glyph g c -> bit_get bitmap i = Some (k_bit c) ->
  decode_glyph m bitmap i (st_app c st) = Ok (g, st).
Proof.
  intros m g c bitmap i st H Hbit. destruct st as [nc np fl gl comp bbs ins].
  destruct H as [|g np_encs fl0 gl0 ilen explicit Hok Hnp Hpts Hil Hbb|bb comps instr ilen Hcs Hbb Hib Hil Hi].
  - unfold decode_glyph, st_app. cbn [s_nc s_np s_fl s_gl s_comp s_bbox s_ins k_nc k_np k_fl k_gl k_comp k_bbox k_ins app rd_i16].
    cbn. reflexivity.
  - pose proof Hok as (Hne & Hinc & Hlast & Hnpl & Hnc & Hp & Hilen & Hibytes & Hbox).
    unfold decode_glyph, st_app.
    cbn [s_nc s_np s_fl s_gl s_comp s_bbox s_ins k_nc k_np k_fl k_gl k_comp k_bbox k_ins k_bit] in *.
    assert (0 < len (sg_end_pts g)) as Hpos.
    { destruct (sg_end_pts g); [congruence|]. rewrite len_cons. pose proof (len_nonneg l). lia. }
    rewrite rd_i16_wr by (unfold i16_ok; lia). cbn [bind].
    replace (len (sg_end_pts g) =? 0) with false by lia.
    replace (len (sg_end_pts g) =? -1) with false by lia.
    replace (0 <? len (sg_end_pts g)) with true by lia.
    erewrite decode_simple_glyph_spec; try eassumption; try reflexivity;
      [|apply (encodes_points_len _ _ _ _ _ Hpts)].
    cbn [bind s_nc s_np s_fl s_gl s_comp s_bbox s_ins]. rewrite Hbit.
    destruct explicit.
    + rewrite read_bbox_wr by exact Hbox. cbn [bind]. destruct g; reflexivity.
    + rewrite (Hbb eq_refl). cbn [bind app]. destruct g; reflexivity.
  - unfold decode_glyph, st_app.
    cbn [s_nc s_np s_fl s_gl s_comp s_bbox s_ins k_nc k_np k_fl k_gl k_comp k_bbox k_ins k_bit] in *.
    rewrite rd_i16_wr by (unfold i16_ok; lia). cbn [bind].
    cbn [Z.eqb]. rewrite read_composite_glyphs_spec by exact Hcs. cbn [bind].
    destruct (have_instructions comps).
    + rewrite (packed_u16_all_encodings _ _ _ Hi). cbn [bind].
      rewrite rd_slice_app. cbn [bind]. rewrite Hbit.
      rewrite read_bbox_wr by exact Hbb. cbn [bind]. reflexivity.
    + destruct Hi as [-> ->]. cbn [bind app].
      assert (forall s, rd_slice 0 s = Ok ([], s)) as Hz by (intros [|? ?]; reflexivity).
      rewrite Hz. cbn [bind]. rewrite Hbit.
      rewrite read_bbox_wr by exact Hbb. cbn [bind]. reflexivity.
Qed.

(* ------------------------------------------------------------------ bboxBitmap *)
Lemma land_pow2_testbit : forall x p, 0 <= p -> (Z.land x (2 ^ p) =? 2 ^ p) = Z.testbit x p.
Proof.
  intros x p Hp. pose proof (pow2_pos p Hp) as Hpos.
  destruct (Z.testbit x p) eqn:E.
  - assert (Z.land x (2 ^ p) = 2 ^ p) as ->; [|lia].
    apply Z.bits_inj'; intros k Hk. rewrite Z.land_spec, Z.pow2_bits_eqb by lia.
    destruct (p =? k) eqn:Ek; [|apply andb_false_r].
    assert (k = p) by lia; subst k. rewrite E. reflexivity.
  - assert (Z.land x (2 ^ p) = 0) as ->; [|lia].
    apply Z.bits_inj'; intros k Hk. rewrite Z.land_spec, Z.pow2_bits_eqb, Z.bits_0 by lia.
    destruct (p =? k) eqn:Ek; [|apply andb_false_r].
    assert (k = p) by lia; subst k. rewrite E. reflexivity.
Qed.

Lemma bit_get_spec : forall bm bits i,
  bitmap_ok bm bits -> 0 <= i < len bits ->
  bit_get bm i = Some (nth (Z.to_nat i) bits false).
Proof.
  intros bm bits i (Hlen & _ & Hbits) Hi. unfold bit_get.
  replace (len bm * 8 <=? i) with false by lia.
  replace (8 - i mod 8 - 1) with (7 - i mod 8) by lia.
  rewrite land_pow2_testbit by lia. rewrite Hbits by exact Hi. reflexivity.
Qed.

(* ------------------------------------------------------------------ all glyphs *)
Definition st_all (cs : list contrib) (st : gstreams) : gstreams := fold_right st_app st cs.

Lemma decode_glyphs_spec : forall m gs cs, Forall2 encodes_glyph gs cs ->
  forall bitmap i st,
  (forall j, (j < length cs)%nat ->
     bit_get bitmap (i + Z.of_nat j) = Some (k_bit (nth j cs
       {| k_nc := []; k_np := []; k_fl := []; k_gl := []; k_comp := []; k_bbox := []; k_ins := []; k_bit := false |}))) ->
  decode_glyphs m bitmap (length gs) i (st_all cs st) = Ok gs.
Proof.
  intros m gs cs H. induction H as [|g c gs cs Hg _ IH]; intros bitmap i st Hbits; [reflexivity|].
  cbn [length decode_glyphs st_all fold_right]. fold (st_all cs st).
  rewrite (decode_glyph_spec m g c bitmap i (st_all cs st) Hg).
  - cbn [bind]. rewrite IH; [reflexivity|].
    intros j Hj. specialize (Hbits (S j) ltac:(cbn [length]; lia)). cbn [nth] in Hbits.
    rewrite <- Hbits. f_equal. lia.
  - specialize (Hbits 0%nat ltac:(cbn [length]; lia)). cbn [nth] in Hbits. rewrite <- Hbits. f_equal. lia.
Qed.

Lemma st_all_flat : forall cs st,
  st_all cs st =
  {| s_nc := flat_map k_nc cs ++ s_nc st; s_np := flat_map k_np cs ++ s_np st;
     s_fl := flat_map k_fl cs ++ s_fl st; s_gl := flat_map k_gl cs ++ s_gl st;
     s_comp := flat_map k_comp cs ++ s_comp st; s_bbox := flat_map k_bbox cs ++ s_bbox st;
     s_ins := flat_map k_ins cs ++ s_ins st |}.
Proof.
  induction cs as [|c cs IH]; intros st; [destruct st; reflexivity|].
  cbn [st_all fold_right]. fold (st_all cs st). rewrite IH. unfold st_app.
  cbn [s_nc s_np s_fl s_gl s_comp s_bbox s_ins flat_map]. rewrite <- !app_assoc. reflexivity.
Qed.

(* ------------------------------------------------------------------ the table *)
Lemma Forall2_length {A B} (R : A -> B -> Prop) l l' : Forall2 R l l' -> length l = length l'.
Proof. induction 1; cbn [length]; congruence. Qed.

Lemma read_tglyf_spec : forall index_format option_flags bm cs,
  bitmap_ok bm (map k_bit cs) -> len cs < 65536 ->
  0 <= index_format < 65536 -> 0 <= option_flags < 4294967296 ->
  len (tglyf_bytes index_format option_flags bm cs) < 4294967296 ->
  read_tglyf (tglyf_bytes index_format option_flags bm cs) =
    Ok {| tg_num_glyphs := len cs; tg_index_format := index_format;
          tg_ncontour := flat_map k_nc cs; tg_npoints := flat_map k_np cs;
          tg_flags := flat_map k_fl cs; tg_glyphs := flat_map k_gl cs;
          tg_composite := flat_map k_comp cs; tg_bitmap := bm;
          tg_bbox := flat_map k_bbox cs; tg_instr := flat_map k_ins cs |}.
Proof.
  intros index_format option_flags bm cs (Hbl & _ & _) Hn Hif Hof Hlen.
  unfold tglyf_bytes in *. rewrite !len_app in Hlen. rewrite !len_wr_u32, !len_wr_u16 in Hlen.
  pose proof (len_nonneg cs). pose proof (len_nonneg bm).
  pose proof (len_nonneg (flat_map k_nc cs)). pose proof (len_nonneg (flat_map k_np cs)).
  pose proof (len_nonneg (flat_map k_fl cs)). pose proof (len_nonneg (flat_map k_gl cs)).
  pose proof (len_nonneg (flat_map k_comp cs)). pose proof (len_nonneg (flat_map k_bbox cs)).
  pose proof (len_nonneg (flat_map k_ins cs)).
  unfold read_tglyf.
  rewrite rd_u32_wr by lia. cbn [bind].
  rewrite rd_u16_wr by (unfold u16_ok; lia). cbn [bind].
  rewrite rd_u16_wr by (unfold u16_ok; lia). cbn [bind].
  rewrite rd_u32_wr by lia. cbn [bind]. rewrite rd_u32_wr by lia. cbn [bind].
  rewrite rd_u32_wr by lia. cbn [bind]. rewrite rd_u32_wr by lia. cbn [bind].
  rewrite rd_u32_wr by lia. cbn [bind]. rewrite rd_u32_wr by lia. cbn [bind].
  rewrite rd_u32_wr by lia. cbn [bind].
  rewrite rd_slice_app. cbn [bind]. rewrite rd_slice_app. cbn [bind].
  rewrite rd_slice_app. cbn [bind]. rewrite rd_slice_app. cbn [bind].
  rewrite rd_slice_app. cbn [bind].
  assert (len (map k_bit cs) = len cs) as Hm by (unfold len; rewrite map_length; reflexivity).
  rewrite Hm in Hbl. rewrite <- Hbl. rewrite rd_slice_app. cbn [bind].
  replace (len bm <=? len bm + len (flat_map k_bbox cs)) with true by lia. cbn [bind].
  replace (len bm + len (flat_map k_bbox cs) - len bm) with (len (flat_map k_bbox cs)) by lia.
  rewrite rd_slice_app. cbn [bind].
  rewrite <- (app_nil_r (flat_map k_ins cs)) at 2. rewrite rd_slice_app. cbn [bind]. reflexivity.
Qed.

(* Round trip of the transformed glyf table: every encoding that section 5.1 allows for a list of
   glyphs (any 255UInt16 forms, any triplet row that fits each delta, bounding boxes explicit or
   omitted when computable, any padding bits in the bitmap, any index format / option flags)
   decodes to exactly those glyphs: contours, points, on-curve flags, instructions, bounding
   boxes, components - in every build (m) and for every pair of int16 coordinates, however wide
   the delta between two consecutive points. *)
Theorem glyf_transform_roundtrip : forall m gs bytes,
  encodes_glyf_table gs bytes -> read_woff2_glyf m bytes = Ok gs.
Proof.
  intros m gs bytes (cs & bm & index_format & option_flags & Hgs & Hn & Hbm & Hif & Hof & Hlen & ->).
  pose proof (Forall2_length _ _ _ Hgs) as Hl.
  assert (len cs = len gs) as Hlc by (unfold len; lia).
  unfold read_woff2_glyf. rewrite read_tglyf_spec by (try assumption; lia). cbn [bind].
  cbn [tg_num_glyphs tg_bitmap tg_ncontour tg_npoints tg_flags tg_glyphs tg_composite tg_bbox tg_instr].
  replace (Z.to_nat (len cs)) with (length gs) by (unfold len; lia).
  pose proof (st_all_flat cs {| s_nc := []; s_np := []; s_fl := []; s_gl := []; s_comp := [];
                                s_bbox := []; s_ins := [] |}) as Hflat.
  cbn [s_nc s_np s_fl s_gl s_comp s_bbox s_ins] in Hflat. rewrite !app_nil_r in Hflat.
  rewrite <- Hflat. apply decode_glyphs_spec; [exact Hgs|].
  intros j Hj. rewrite (bit_get_spec bm (map k_bit cs)); [|exact Hbm|].
  - f_equal. replace (Z.to_nat (0 + Z.of_nat j)) with j by lia.
    rewrite <- (map_nth k_bit). reflexivity.
  - unfold len. rewrite map_length. lia.
Qed.
